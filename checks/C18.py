"""C18 - low-level JPEG encoder: valid baseline JPEGs holding exactly the input data.

Mode R (protocol): spec/JpegEnc.tla is the call protocol of lowleveljpeg.Encoder
(Reset / Add1 / Add3 / Add6, nil receiver, failing io.Writer).  TLC checks the
model's own safety properties, enumerates EVERY call history to a fixed depth
over per-scenario alphabets (dimension classes x colour types x argument faults
x writer faults) and exports each one with the set of allowed replies, the
byte expectation and the EOI expectation after every step;
harness/cmd/jpegreplay steps the real Encoder through them.

Mode V (content): the same harness drives the real Encoder over generated
images, an independent baseline-JPEG walker (harness/internal/jpegwalk, written
from ITU-T T.81) turns the bytes into events, and TLC accepts or rejects every
trace against spec/Trace_Jpeg.tla (marker grammar, header fields, tables, MCU
count and order, every decoded coefficient = input / q rounded to nearest with
the rounding rule of spec/JpegRound.tla, image/jpeg agrees).

Reported separately (not decided by the specification): AllocsPerRun of the
steady-state calls and the numeric DCT clause.
"""
import json, os, re, copy, concurrent.futures as cf
from vlib import ToolingError

META = {
    "level": "model_checking",
    "technique": "TLA+ protocol specification (JpegEnc.tla) model-checked by TLC and replayed into lowleveljpeg.Encoder "
                 "(every call history to depth 4-6 with allowed replies, byte and EOI expectations); files written by the real "
                 "encoder are walked by an independent T.81 walker and every event trace is validated by TLC against "
                 "Trace_Jpeg.tla (grammar, header fields, tables, MCU count/order, per-coefficient rounding rule JpegRound.tla)",
    "text": "Protocol: exhaustive over call histories up to the stated depth for each scenario alphabet (dimension classes "
            "1,7,8,9,16,17,65535 x gray/4:4:4/4:2:0 x invalid arguments x writer failures x nil receiver), model_checking. "
            "Content: exploration - generated images (category boundaries, extreme DC swings, zero runs 15/16/17/62/63, "
            "all-extreme and adversarially searched longest MCUs, exact ties, random) are encoded by the real code and every "
            "decoded coefficient is compared by TLC with coefficient/q rounded to nearest.",
    "note": "The DCT accuracy clause and the no-allocation clause are numeric/runtime observations made by the harness "
            "(plain assertions), reported separately in the evidence; they are not decided by the TLA+ specifications. "
            "Trusted: TLC, the walker (independent of lowleveljpeg), the pairing of input and decoded blocks by position.",
}

DIMS = [1, 7, 8, 9, 16, 17, 65535]
CTS = [1, 3, 6]
OTHER_N = {1: 3, 3: 6, 6: 1}
REPLIES = ["nil", "WriterError", "ErrBadArgument", "ErrBadAddNForColorType", "ErrInvalidBlockI16",
           "ErrTooManyAddNCalls", "ErrPreviouslyReturnedError", "ErrNilReceiver"]
METHODS = ["Reset", "Add1", "Add3", "Add6"]


def units(ct, w, h):
    if ct == 6:
        return ((w + 15) // 16) * ((h + 15) // 16)
    return ((w + 7) // 8) * ((h + 7) // 8)


# ------------------------------------------------------------------ scenarios
def rst(ct, w, h, quant="nilopts", wf=False):
    return {"ct": ct, "w": w, "h": h, "quant": quant, "wf": wf}


def bad_resets(ct, w, h):
    return [rst(ct, 0, h), rst(ct, -1, h), rst(ct, 65536, h), rst(ct, w, 0), rst(ct, w, -7), rst(ct, w, 65536),
            rst(ct, 1 << 20, h), rst(0, w, h), rst(2, w, h), rst(4, w, h), rst(5, w, h), rst(7, w, h), rst(255, w, h),
            rst(ct, w, h, "zero0"), rst(ct, w, h, "zero1"), rst(ct, 0, 0, "zero0")]


def full_scenario(ct, w, h, rng):
    """The full alphabet around one valid Reset."""
    q = rng.choice(["nilopts", "nilq", "custom"])
    act = rng.choice([c for c in CTS if c != ct])
    aw, ah = rng.choice([(1, 1), (9, 1), (1, 9), (16, 16), (17, 8), (8, 17)])
    o = OTHER_N[ct]
    return {
        "resets": [rst(ct, w, h, q), rst(ct, w, h, q, True), rng.choice(bad_resets(ct, w, h)),
                   rst(act, aw, ah, rng.choice(["nilopts", "custom"]))],
        "adds": [{"n": ct, "blk": "valid", "wf": False}, {"n": ct, "blk": "valid", "wf": True},
                 {"n": ct, "blk": "invalid", "wf": False}, {"n": ct, "blk": "nil", "wf": False},
                 {"n": o, "blk": "valid", "wf": False}, {"n": o, "blk": "invalid", "wf": rng.choice([False, True])}],
        "bulk": True,
        "nilrecv": [rng.randrange(1, 5)],
    }


def sweep_scenario(ct, w, h, bad=None):
    """Restricted alphabet: the dimension / argument sweep."""
    o = OTHER_N[ct if ct in CTS else 1]
    n = ct if ct in CTS else 1
    return {
        "resets": ([bad] if bad else []) + [rst(n, w, h)],
        "adds": [{"n": n, "blk": "valid", "wf": False}, {"n": o, "blk": "valid", "wf": False}],
        "bulk": True,
        "nilrecv": [],
    }


def export_cfg(export=True, view=False):
    return ("SPECIFICATION Spec\nCONSTANTS\n  ScenFile = \"scen.json\"\n  DoExport = %s\n"
            "INVARIANT ModelOK Export\n%sCHECK_DEADLOCK FALSE\n") % ("TRUE" if export else "FALSE", "VIEW PropView\n" if view else "")


def with_depth(scens, depth, bulkmax):
    out = []
    for s in scens:
        s = dict(s)
        s["depth"], s["bulkmax"] = depth, bulkmax
        out.append(s)
    return out


def decode_history(scen, steps):
    """Human-readable form of a compact history (for replay files / samples)."""
    out = []
    for kind, idx, mask, bcode, eoi, count in steps:
        if kind == 1:
            call = {"op": "Reset", **scen["resets"][idx - 1]}
        elif kind == 2:
            a = scen["adds"][idx - 1]
            call = {"op": "Add%d" % a["n"], "blocks": a["blk"], "writer_fails": a["wf"]}
        elif kind == 3:
            call = {"op": "%d x Add%d(valid)" % (count, idx)}
        else:
            call = {"op": "(*Encoder)(nil).%s" % METHODS[idx - 1]}
        call["allowed"] = [r for i, r in enumerate(REPLIES) if mask >> i & 1]
        call["bytes"] = ["none", "some", "any"][bcode]
        call["eoi_written"] = bool(eoi)
        out.append(call)
    return out


def history_key(scen, steps, upto):
    """Identifies a failing call by the call sequence leading to it."""
    parts = []
    for kind, idx, mask, bcode, eoi, count in steps[:upto]:
        if kind == 1:
            a = scen["resets"][idx - 1]
            parts.append("R(%d,%d,%d,%s,%s)" % (a["ct"], a["w"], a["h"], a["quant"], "wf" if a["wf"] else "ok"))
        elif kind == 2:
            a = scen["adds"][idx - 1]
            parts.append("A%d(%s,%s)" % (a["n"], a["blk"], "wf" if a["wf"] else "ok"))
        elif kind == 3:
            parts.append("B%dx%d" % (idx, count))
        else:
            parts.append("N" + METHODS[idx - 1])
    return "hist:" + ";".join(parts)


def protocol_run(ctx, binp, name, scens, workers, keep=None, seed=0, chunks=1):
    """One TLC export (every scenario carries its own depth) + harness replay (in `chunks` processes)."""
    data = {"scen.json": json.dumps(scens), "x.cfg": export_cfg()}
    res = ctx.tlc("JpegEnc", cfg="x.cfg", data=data, workers=workers, timeout=3000, label="export " + name)
    if res["error"]:
        raise ToolingError("TLC error in %s:\n%s" % (name, res["error"]))
    if res["violated"] or res["deadlock"]:
        raise ToolingError("JpegEnc.tla violates its own property %s in %s:\n%s" % (res["violated"], name, res["out"][-3000:]))
    hpaths = [os.path.join(res["dir"], "hist%d.ndjson" % c) for c in range(chunks)]
    files = [open(hp, "w") for hp in hpaths]
    n = skipped = 0
    sample = []
    for line in res["out"].splitlines():
        if line.startswith('"[') and line.endswith(']"'):
            body = line[1:-1]
            if keep is not None:
                sc, steps = json.loads(body)
                if not keep(scens[sc - 1], steps):
                    skipped += 1
                    continue
            files[n % chunks].write(body + "\n")
            n += 1
            if len(sample) < 3 and (n % 9973 == 1 + seed % 7 or n < 2):
                sample.append(body)
    for f in files:
        f.close()
    res["out"] = ""          # free memory
    if n == 0:
        raise ToolingError("no history exported by %s" % name)
    spath = os.path.join(res["dir"], "scen.json")

    def one(c):
        r = ctx.run([binp, "replay", "-scen", spath, "-hist", hpaths[c], "-seed", str(ctx.seed + seed + 31 * c)], timeout=3000)
        if r.returncode != 0:
            raise ToolingError("jpegreplay replay failed (%s): %s" % (name, r.stderr[-2000:]))
        return json.loads(r.stdout)
    if chunks > 1:
        with cf.ThreadPoolExecutor(max_workers=chunks) as tp:
            parts = list(tp.map(one, range(chunks)))
    else:
        parts = [one(0)]
    st = {"histories": 0, "steps": 0, "calls": 0, "mismatch_count": 0, "mismatches": [], "replies": {}}
    for p in parts:
        for k in ("histories", "steps", "calls", "mismatch_count"):
            st[k] += p[k]
        st["mismatches"] += p["mismatches"] or []
        for k, v in p["replies"].items():
            st["replies"][k] = st["replies"].get(k, 0) + v
    by_depth = {}
    for s in scens:
        by_depth[s["depth"]] = by_depth.get(s["depth"], 0) + 1
    st.update({"name": name, "exported": n, "skipped": skipped, "scenarios": len(scens),
               "scenarios_by_depth": {str(k): v for k, v in sorted(by_depth.items())},
               "samples": [{"scenario": scens[json.loads(x)[0] - 1], "history": decode_history(scens[json.loads(x)[0] - 1], json.loads(x)[1])}
                           for x in sample[:2]]})
    st["_scens"] = scens
    return st


def report_mismatches(ctx, st, cap=4):
    # shortest histories first; a handful of witnesses per run is enough (the total is logged)
    ms = sorted(st.get("mismatches") or [], key=lambda m: (m["step"], len(m["history"])))
    if len(ms) > cap:
        ctx.log("protocol %s: %d mismatching histories, reporting the %d shortest" % (st["name"], st["mismatch_count"], cap))
    for m in ms[:cap]:
        scen = st["_scens"][m["scenario"] - 1]
        key = history_key(scen, m["history"], m["step"])
        what = ("lowleveljpeg.Encoder: step %d of a call history enumerated from JpegEnc.tla: %s -> %s (%s); allowed by the "
                "specification: %s\n  history: %s" % (m["step"], json.dumps(m["call"]), m["got"], m["what"], m["allowed"],
                                                     json.dumps(decode_history(scen, m["history"]))))
        ctx.violation(what, {"kind": "protocol", "key": key, "scenario": scen, "history": m["history"],
                             "decoded": decode_history(scen, m["history"]), "step": m["step"], "got": m["got"],
                             "why": m["what"], "allowed": m["allowed"]})


# --------------------------------------------------------------------- content
GENS = ["catbound", "dcswing", "zruns", "extreme", "longest", "ties", "random", "sparse", "dct", "zero"]
GEN_QUANT = {
    "catbound": [{"kind": "ones"}, {"kind": "nilopts"}, {"kind": "quality", "quality": 90}],
    "dcswing": [{"kind": "ones"}, {"kind": "ones"}, {"kind": "quality", "quality": 100}],
    "zruns": [{"kind": "ones"}, {"kind": "quality", "quality": 50}, {"kind": "nilq"}],
    "extreme": [{"kind": "ones"}, {"kind": "ones"}, {"kind": "random"}],
    "longest": [{"kind": "ones"}],
    "ties": [{"kind": "even"}, {"kind": "even"}, {"kind": "quality", "quality": 75}],
    "random": [{"kind": "random"}, {"kind": "ones"}, {"kind": "max"}, {"kind": "quality", "quality": 1}],
    "sparse": [{"kind": "quality", "quality": 30}, {"kind": "nilopts"}, {"kind": "random"}],
    "dct": [{"kind": "nilopts"}, {"kind": "quality", "quality": 95}, {"kind": "nilq"}],
    "zero": [{"kind": "nilopts"}, {"kind": "max"}],
}


def mkjob(rng, jid, ct, w, h, gen, mode=None, quant=None):
    q = dict(quant or rng.choice(GEN_QUANT[gen]))
    q.setdefault("seed", rng.randrange(1 << 30))
    nb = units(ct, w, h) * ct
    if mode is None:
        mode = "blk" if nb <= 400 else "tri"
    return {"id": jid, "ct": ct, "w": w, "h": h, "quant": q, "blocks": {"gen": gen, "seed": rng.randrange(1 << 30)},
            "mode": mode, "dirty": rng.random() < 0.5, "stdlib": "config" if (w * h > 4000000) else "decode"}


def content_jobs(ctx):
    rng = ctx.rng
    thorough = ctx.tier == "thorough"
    jobs = []
    # A. dimension classes x colour types
    gi = rng.randrange(len(GENS))
    for ct in CTS:
        if thorough:
            pairs = [(w, h) for w in DIMS for h in DIMS]
        else:
            perm = DIMS[:]
            rng.shuffle(perm)
            pairs = list(zip(DIMS, perm))
        for (w, h) in pairs:
            if w == 65535 and h == 65535:
                continue      # 2^26 units: protocol only (see assumptions)
            big = max(w, h) == 65535
            gen = GENS[gi % len(GENS)]
            gi += 1
            if big:
                # many blocks: generators whose <<coefficient, q, decoded>> triples stay few enough for one TLC run
                gen = rng.choice(["sparse", "dct", "zruns", "catbound"]) if min(w, h) < 16 else rng.choice(["dct", "zruns", "zero", "sparse"])
            jobs.append(mkjob(rng, "dim-%d-%dx%d-%s" % (ct, w, h, gen), ct, w, h, gen))
    # B. every generator on moderate images, every colour type
    reps = 3 if thorough else 1
    for rep in range(reps):
        for g in GENS:
            for ct in CTS:
                if g == "longest" and rep > 0 and ct != 6:
                    continue
                if rng.random() < 0.5:
                    w, h = {1: (72, 40), 3: (40, 24), 6: (48, 32)}[ct]
                else:
                    w, h = rng.randrange(1, 90), rng.randrange(1, 60)
                quant = GEN_QUANT[g][rep % len(GEN_QUANT[g])]
                jobs.append(mkjob(rng, "gen-%s-%d-%dx%d-r%d" % (g, ct, w, h, rep), ct, w, h, g, quant=quant))
    # C. volume: larger random images summarised as deduplicated triples
    vol = [(1, 500, 300), (3, 333, 200), (6, 641, 479)] if thorough else [(rng.choice(CTS), 200 + rng.randrange(100), 100 + rng.randrange(60))]
    for ct, w, h in vol:
        for g in (rng.sample(["random", "sparse", "ties", "dct"], 2) if thorough else [rng.choice(["random", "sparse", "ties"])]):
            jobs.append(mkjob(rng, "vol-%s-%d-%dx%d" % (g, ct, w, h), ct, w, h, g, mode="tri"))
    return jobs


def trace_cfg(fn):
    return "SPECIFICATION Spec\nCONSTANTS\n  TraceFile = \"%s\"\nINVARIANT NotRejected TraceAccepted\nCHECK_DEADLOCK FALSE\n" % fn


def tlc_rejections(out):
    """TLC is run with -continue: one error trace per violated invariant instance.  Returns the last state
    (t, i, ph, nblk) of each error trace."""
    res, cur, inv = [], None, None
    for line in out.splitlines():
        m = re.match(r"Error: Invariant (\S+) is violated", line)
        if m:
            if cur:
                res.append(cur)
            cur = {"inv": m.group(1)}
            continue
        if cur is None:
            continue
        m = re.match(r"/\\ (t|i|nblk) = (\d+)", line)
        if m:
            cur[m.group(1)] = int(m.group(2))
            continue
        m = re.match(r'/\\ ph = "([^"]+)"', line)
        if m:
            cur["ph"] = m.group(1)
    if cur:
        res.append(cur)
    return [r for r in res if "t" in r]


def trim_event(e):
    e = dict(e)
    if e.get("k") == "tri":
        e["triples"] = e["triples"][:50] + (["..."] if len(e["triples"]) > 50 else [])
    return e


def explain_reject(trace, st):
    """Find a concrete reason for the replay file (informational; the verdict is TLC's)."""
    i = st.get("i", 0)
    evs = trace["ev"]
    if st.get("ph") != "rejected":
        return "the trace ends in phase '%s' after %d events without being accepted" % (st.get("ph"), i), None
    e = evs[i - 1] if 0 < i <= len(evs) else {}
    detail = None
    if e.get("k") == "blk" and "in" in e:
        ZZ = zigzag()
        q = trace["req"]["q"][0 if e["comp"] == 0 else 1]
        for k in range(64):
            n = ZZ[k]
            c, d = e["in"][n], e["zz"][k]
            if 2 * abs(c - d * q[n]) > q[n]:
                detail = {"coding_position": k, "natural_index": n, "coefficient": c, "q": q[n], "decoded": d}
                break
    if e.get("k") == "tri":
        for c, q, d in e["triples"]:
            if 2 * abs(c - d * q) > q:
                detail = {"coefficient": c, "q": q, "decoded": d}
                break
    return "event %d (%s) is rejected by Trace_Jpeg!Step" % (i, e.get("k")), detail


def zigzag():
    z = []
    for d in range(15):
        for j in range(d + 1):
            r, c = (d - j, j) if d % 2 == 0 else (j, d - j)
            if r < 8 and c < 8:
                z.append(8 * r + c)
    return z


def content_batch(ctx, binp, name, jobs, workers):
    d = ctx.subdir("content-" + name)
    jp, tp = os.path.join(d, "jobs.json"), os.path.join(d, "traces.json")
    with open(jp, "w") as f:
        json.dump(jobs, f)
    r = ctx.run([binp, "content", "-jobs", jp, "-out", tp], timeout=3000)
    if r.returncode != 0:
        raise ToolingError("jpegreplay content failed (%s): %s" % (name, r.stderr[-2000:]))
    stats = json.loads(r.stdout)["stats"]
    traces = json.load(open(tp))
    found = []
    text = json.dumps(traces)
    res = ctx.tlc("Trace_Jpeg", cfg="t.cfg", data={"t.cfg": trace_cfg("traces.json"), "traces.json": text},
                  workers=workers, timeout=3000, label="traces %s" % name, extra=["-continue"])
    if res["error"]:
        raise ToolingError("TLC error on traces %s:\n%s" % (name, res["error"]))
    bad = set()
    if res["violated"]:
        rej = tlc_rejections(res["out"])
        if not rej:
            raise ToolingError("cannot locate the rejected trace in TLC's output:\n" + res["out"][-2000:])
        for st in rej:
            k = st["t"] - 1
            if k in bad:
                continue
            bad.add(k)
            why, detail = explain_reject(traces[k], st)
            found.append({"job": jobs[k], "invariant": st["inv"], "tlc_state": st, "why": why, "detail": detail,
                          "event": trim_event(traces[k]["ev"][st["i"] - 1]) if 0 < st.get("i", 0) <= len(traces[k]["ev"]) else None,
                          "stat": stats[k]})
    live = [k for k in range(len(traces)) if k not in bad]
    return {"name": name, "jobs": jobs, "stats": stats, "found": found, "validated": len(live), "traces": len(traces),
            "events": sum(len(t["ev"]) for t in traces)}


def report_content(ctx, cb, cap=5):
    if len(cb["found"]) > cap:
        ctx.log("content %s: %d rejected traces, reporting %d" % (cb["name"], len(cb["found"]), cap))
    for f in cb["found"][:cap]:
        j = f["job"]
        key = "content:%s:ct%d:%dx%d:%s" % (j["blocks"]["gen"], j["ct"], j["w"], j["h"], j["quant"]["kind"])
        what = ("file written by lowleveljpeg.Encoder rejected by Trace_Jpeg.tla (%s): job %s (ct=%d %dx%d quant=%s blocks=%s "
                "seed=%d dirty=%s): %s%s" % (f["invariant"], j["id"], j["ct"], j["w"], j["h"], j["quant"]["kind"], j["blocks"]["gen"],
                                             j["blocks"]["seed"], j["dirty"], f["why"],
                                             ("\n  " + json.dumps(f["detail"])) if f["detail"] else ""))
        if f["event"] and f["event"].get("k") == "error":
            what += "\n  walker/encoder: " + str(f["event"].get("msg"))
        ctx.violation(what, {"kind": "content", "key": key, "job": j, "why": f["why"], "detail": f["detail"], "event": f["event"],
                             "tlc_state": f["tlc_state"], "invariant": f["invariant"]})


def sensitivity(ctx, binp):
    """Corrupt one recorded field of a good trace in several ways: TLC must reject each (binding self-test)."""
    rng = ctx.rng
    d = ctx.subdir("sens")
    jobs = [mkjob(rng, "sens", 3, 17, 9, "catbound", quant={"kind": "quality", "quality": 60})]
    jobs[0]["dirty"] = False
    jp, tp = os.path.join(d, "jobs.json"), os.path.join(d, "traces.json")
    json.dump(jobs, open(jp, "w"))
    r = ctx.run([binp, "content", "-jobs", jp, "-out", tp], timeout=600)
    if r.returncode != 0:
        raise ToolingError("jpegreplay content failed (sensitivity): " + r.stderr[-2000:])
    good = json.load(open(tp))[0]
    muts = []

    def mut(name, fn):
        t = copy.deepcopy(good)
        fn(t)
        muts.append((name, t))
    blks = [k for k, e in enumerate(good["ev"]) if e["k"] == "blk"]
    kind = lambda t, k: [e for e in t["ev"] if e["k"] == k][0]

    def bump(t):
        e = t["ev"][rng.choice(blks)]
        k = rng.randrange(64)
        e["zz"][k] += rng.choice([-1, 1]) * (2 if True else 1)
    mut("decoded coefficient +-2", bump)
    mut("requested width", lambda t: t["req"].__setitem__("w", t["req"]["w"] + 1))
    mut("requested quant factor", lambda t: t["req"]["q"][1].__setitem__(rng.randrange(64), 250))
    mut("one block missing", lambda t: t["ev"].pop(blks[-1]))
    mut("padding bits not ones", lambda t: kind(t, "ECSEND").__setitem__("padones", False))
    mut("sampling factor", lambda t: kind(t, "SOF0")["comps"][0].__setitem__("h", 2))
    mut("over-subscribed Huffman table", lambda t: kind(t, "DHT")["tables"][0]["counts"].__setitem__(0, 3))
    mut("trailing byte after EOI", lambda t: kind(t, "EOF").__setitem__("trailing", 1))
    mut("component order", lambda t: t["ev"][blks[1]].__setitem__("comp", 2))
    mut("image/jpeg dimensions", lambda t: kind(t, "stdlib").__setitem__("h", 1))
    res = ctx.tlc("Trace_Jpeg", cfg="t.cfg", data={"t.cfg": trace_cfg("traces.json"),
                                                   "traces.json": json.dumps([good] + [t for _, t in muts])},
                  workers=2, timeout=1500, label="sensitivity", extra=["-continue"])
    if res["error"]:
        raise ToolingError("TLC error in the sensitivity self-test:\n" + res["error"])
    rejected = {st["t"] - 1 for st in tlc_rejections(res["out"])}
    if 0 in rejected:
        # the encoder under test does not even produce an acceptable file here: that is a content
        # verdict (reported through the normal path), and the self-test has nothing to stand on
        return {"skipped": True, "cb": content_batch(ctx, binp, "sens-job", jobs, 2)}
    missed = [muts[k - 1][0] for k in range(1, len(muts) + 1) if k not in rejected]
    if missed:
        raise ToolingError("sensitivity self-test: Trace_Jpeg.tla accepts corrupted traces: %s" % missed)
    return {"skipped": False, "rejected": [m[0] for m in muts]}


# ----------------------------------------------------------------------- run
def run(ctx, only=None):
    thorough = ctx.tier == "thorough"
    rng = ctx.rng
    binp = ctx.go_build("./cmd/jpegreplay")

    # ---- 1. the model's own properties and the rounding lemmas
    all_pairs = [(ct, w, h) for ct in CTS for w in DIMS for h in DIMS]
    sweep = [sweep_scenario(ct, w, h) for (ct, w, h) in all_pairs]
    for ct in CTS:
        for b in bad_resets(ct, rng.choice(DIMS), rng.choice(DIMS)):
            sweep.append(sweep_scenario(ct, 9, 9, bad=b))
    fulls_all = [full_scenario(ct, w, h, rng) for (ct, w, h) in all_pairs if max(w, h) < 65535 or rng.random() < 0.3]
    prop_scens = with_depth(sweep + fulls_all[:60], 10, 1 << 27)
    pool = cf.ThreadPoolExecutor(max_workers=6 if thorough else 4)
    futs = {}
    futs["model"] = pool.submit(ctx.tlc_ok, "JpegEnc", cfg="p.cfg", workers=4, timeout=3000, label="model properties",
                                data={"scen.json": json.dumps(prop_scens), "p.cfg": export_cfg(export=False, view=True)})
    lq = list(range(1, 256)) if thorough else sorted(set([1, 2, 3, 4, 5, 6, 7, 8, 9, 10, 16, 17, 99, 100, 127, 128, 254, 255] +
                                                         [rng.randrange(1, 256) for _ in range(6)]))
    futs["lemmas"] = pool.submit(ctx.tlc_ok, "JpegRoundLemmas", cfg="l.cfg", workers=1, timeout=3000, label="rounding lemmas",
                                 data={"l.cfg": "SPECIFICATION QSpec\nCONSTANTS\n  LemmaQ = {%s}\nINVARIANT LemmaAll\nCHECK_DEADLOCK FALSE\n"
                                       % ",".join(map(str, lq))})

    # ---- 2. protocol: export + replay
    small = [(ct, w, h) for (ct, w, h) in all_pairs if max(w, h) <= 17]
    rng.shuffle(small)

    def reduced(ct, w, h, adds4):
        # no alternative Reset, no nil receiver (and optionally 4 AddN forms)
        s = full_scenario(ct, w, h, rng)
        s["resets"] = s["resets"][:3]
        if adds4:
            s["adds"] = [s["adds"][0], s["adds"][1], s["adds"][2], s["adds"][4]]
        s["nilrecv"] = []
        return s
    proto = []      # (name, scenarios, replay processes)
    if thorough:
        # depth 5, full alphabet: 9 scenarios (each colour type 3 times), in 3 runs
        pick = []
        for ct in CTS:
            pick += [p for p in small if p[0] == ct][:3]
        rng.shuffle(pick)
        for k in range(0, len(pick), 3):
            proto.append(("full-d5-%d" % (k // 3), with_depth([full_scenario(*p, rng) for p in pick[k:k + 3]], 5, 1000), 3))
        # depth 6 on a reduced alphabet
        proto.append(("reduced-d6", with_depth([reduced(ct, *rng.choice([(1, 1), (9, 8), (16, 17), (17, 17), (7, 9)]), True) for ct in CTS], 6, 1000), 3))
        # wide images with the full alphabet at depth 4, and the sweep of all classes at depth 5
        proto.append(("wide-d4+sweep-d5", with_depth([full_scenario(ct, 65535, rng.choice([1, 8, 9]), rng) for ct in CTS], 4, 30000)
                      + with_depth(sweep, 5, 300000), 4))
    else:
        pick = []
        for ct in CTS:
            pick += [p for p in small if p[0] == ct][:2]
        proto.append(("quick", with_depth([full_scenario(*p, rng) for p in pick], 4, 1000)
                      + with_depth([reduced(*rng.choice(small), False)], 5, 1000)
                      + with_depth(sweep, 4, 30000), 3))
    for k, (name, scens, chunks) in enumerate(proto):
        futs["proto:" + name] = pool.submit(protocol_run, ctx, binp, name, scens, 6 if not thorough else 4, None, k, chunks)
    if thorough:
        # 65535 x 65535: 2^26 (gray, 4:4:4) / 2^24 (4:2:0) units; only the histories Reset, Bulk, AddN, x are replayed
        def keep1(scen, steps):
            return sum(1 for x in steps if x[0] == 3) == 1 and steps[0][0] == 1 and steps[1][0] == 3 and steps[2][0] == 2
        hs = []
        for ct in CTS:
            x = sweep_scenario(ct, 65535, 65535)
            x["adds"] = x["adds"][:1]
            hs.append(x)
        futs["proto:huge"] = pool.submit(protocol_run, ctx, binp, "huge-65535x65535", with_depth(hs, 4, 1 << 27), 2, keep1, 50, 6)

    # ---- 3. content: jobs -> real encoder -> walker -> TLC
    jobs = content_jobs(ctx)
    nb = 6 if thorough else 1
    # spread big jobs over the batches
    jobs.sort(key=lambda j: -units(j["ct"], j["w"], j["h"]) * j["ct"])
    batches = [jobs[k::nb] for k in range(nb)]
    for k, b in enumerate(batches):
        futs["content:%d" % k] = pool.submit(content_batch, ctx, binp, "b%d" % k, b, 4)

    # ---- 4. observations: allocations, DCT
    futs["allocs"] = pool.submit(ctx.run, [binp, "allocs"], 900)
    ndct = 400000 if thorough else 25000
    dct_parts = 8 if thorough else 2
    for k in range(dct_parts):
        futs["dct:%d" % k] = pool.submit(ctx.run, [binp, "dct", "-n", str(ndct // dct_parts), "-seed", str(ctx.seed * 1000 + k)], 3000)
    futs["sens"] = pool.submit(sensitivity, ctx, binp)

    results = {}
    errors = []
    for name, f in futs.items():
        try:
            results[name] = f.result()
        except ToolingError as e:
            errors.append("%s: %s" % (name, e))
    pool.shutdown()
    if errors:
        # report what the parts that did finish found on the real code, then fail as a tooling error
        for k, v in results.items():
            if k.startswith("proto:"):
                report_mismatches(ctx, v)
            elif k.startswith("content:"):
                report_content(ctx, v)
        raise ToolingError("\n".join(errors))

    # ---- verdicts
    pst = [v for k, v in results.items() if k.startswith("proto:")]
    for st in pst:
        report_mismatches(ctx, st)
        ctx.log("protocol %-16s %d scenarios (by depth %s), %d histories (%d calls) replayed, %d mismatches%s" % (
            st["name"], st["scenarios"], st["scenarios_by_depth"], st["histories"], st["calls"], st["mismatch_count"],
            (", %d skipped" % st["skipped"]) if st["skipped"] else ""))
    cbs = [v for k, v in results.items() if k.startswith("content:")]
    if results["sens"]["skipped"]:
        cbs.append(results["sens"]["cb"])
    for cb in cbs:
        report_content(ctx, cb)
        ctx.log("content %s: %d traces (%d events), %d accepted, %d rejected" % (cb["name"], cb["traces"], cb["events"],
                                                                              cb["validated"], len(cb["found"])))

    # allocations (observation; the package documents "An Encoder makes no allocations")
    ra = results["allocs"]
    if ra.returncode != 0:
        raise ToolingError("jpegreplay allocs failed: " + ra.stderr[-2000:])
    allocs = json.loads(ra.stdout)
    bad_alloc = {k: v for k, v in allocs.items() if v >= 1}
    if bad_alloc:
        r2 = ctx.run([binp, "allocs"], timeout=900)        # confirm
        a2 = json.loads(r2.stdout) if r2.returncode == 0 else {}
        both = {k: (v, a2.get(k)) for k, v in bad_alloc.items() if a2.get(k, 0) >= 1}
        if both:
            ctx.violation("lowleveljpeg.Encoder allocates in steady state (testing.AllocsPerRun, two measurements): %s" % both,
                          {"kind": "allocs", "key": "allocs:" + ",".join(sorted(both)), "allocs": both})
    ctx.log("allocations per call (testing.AllocsPerRun):", allocs)

    # DCT clause (numeric; plain assertion in the harness, not decided by the specification)
    dct = {"blocks": 0, "invalid_forward": 0, "roundtrip_off_by_more_than_one": 0, "max_pixel_diff": 0, "max_abs_dc": 0,
           "max_abs_ac": 0, "by_gen": {}, "worst_diff_histogram": {}}
    dfails = []
    for k in range(dct_parts):
        r = results["dct:%d" % k]
        if r.returncode != 0:
            raise ToolingError("jpegreplay dct failed: " + r.stderr[-2000:])
        o = json.loads(r.stdout)
        for key in ("blocks", "invalid_forward", "roundtrip_off_by_more_than_one"):
            dct[key] += o[key]
        for key in ("max_pixel_diff", "max_abs_dc", "max_abs_ac"):
            dct[key] = max(dct[key], o[key])
        for g, n in o["by_gen"].items():
            dct["by_gen"][g] = dct["by_gen"].get(g, 0) + n
        for g, n in o["worst_diff_histogram"].items():
            dct["worst_diff_histogram"][g] = dct["worst_diff_histogram"].get(g, 0) + n
        for g, n in o["off_by_class"].items():
            dct.setdefault("off_by_class", {})
            dct["off_by_class"][g] = dct["off_by_class"].get(g, 0) + n
        for key in ("max_forward_error", "max_inverse_error"):
            dct[key] = max(dct.get(key, 0.0), o[key])
        dct["classification_slack"] = o["slack"]
        dfails += o["failures"] or []
    # the committed minimal witness of the known finding is re-run every time (it prints KNOWN-FINDING while it still fails)
    r = ctx.run([binp, "dctone", json.dumps([130] + [128] * 63)], timeout=300)
    if r.returncode != 0:
        raise ToolingError("jpegreplay dctone failed: " + r.stderr[-1000:])
    o = json.loads(r.stdout)
    if o["max_diff"] > 1 or not o["valid"]:
        dfails.insert(0, {"what": "inverse DCT of the forward DCT differs by more than one", "gen": "witness flat-128-one-pixel-130",
                          "pixels": o["pixels"], "coefs": o["forward"], "back": o["back"], "at": o["at"], "diff": o["max_diff"],
                          "class": o["class"]})
    seen = set()
    for f in dfails:
        # one finding per kind of failure: an invalid forward block, or a round trip off by exactly d (d = 2, 3, ...).
        # The known finding covers only blocks on which the implementation is a faithful round-to-nearest DCT pair
        # (class "inherent": every coefficient within 0.5 + slack of the exact DCT-II, every returned pixel within
        # 0.5 + slack of the exact inverse of those coefficients - measured by the harness in float64): there the
        # loss is the integer quantisation of the coefficients themselves.  A block that fails because the
        # arithmetic is off (class "impl-only") is a different violation and is reported.
        key = "dct:invalid-forward" if f["at"] < 0 else "dct:roundtrip:diff%d" % f["diff"]
        if f["at"] >= 0 and f.get("class") != "inherent":
            key += ":impl-only"
        if key in seen:
            continue
        seen.add(key)
        f = dict(f)
        f.pop("key", None)
        ctx.violation("lowleveljpeg DCT clause: %s (generator %s%s)\n  pixels=%s\n  forward=%s\n  back=%s" % (
            f["what"], f["gen"], (", pixel %d differs by %d" % (f["at"], f["diff"])) if f["at"] >= 0 else "",
            f["pixels"], f["coefs"], f["back"]), {"kind": "dct", "key": key, **f})
    ctx.log("DCT clause: %d pixel blocks, forward invalid %d, round trip off by >1: %d, max |pixel diff| %d, max |DC| %d, max |AC| %d" % (
        dct["blocks"], dct["invalid_forward"], dct["roundtrip_off_by_more_than_one"], dct["max_pixel_diff"], dct["max_abs_dc"], dct["max_abs_ac"]))

    # ---- evidence
    allstats = [s for cb in cbs for s in cb["stats"]]
    alljobs = [j for cb in cbs for j in cb["jobs"]]
    histories = sum(st["histories"] for st in pst)
    calls = sum(st["calls"] for st in pst)
    traces_ok = sum(cb["validated"] for cb in cbs)
    blocks = sum(s["blocks"] for s in allstats)
    nontrivial = len({(j["ct"], j["w"], j["h"], j["quant"]["kind"], j["blocks"]["gen"]) for j, s in zip(alljobs, allstats) if s["blocks"] > 0})
    replies = {}
    for st in pst:
        for k, v in st["replies"].items():
            replies[k] = replies.get(k, 0) + v
    samples = []
    for st in pst[:3]:
        samples += st["samples"][:1]
    samples += [{"content_job": j, "stat": s} for j, s in list(zip(alljobs, allstats))[:3]]
    ctx.evidence("model_checking", {
        "states": sum(t["distinct"] for t in ctx.tlc_stats),
        "transitions": sum(t["generated"] for t in ctx.tlc_stats),
        "traces_validated_against_impl": histories + traces_ok,
        "samples": samples,
        "evaluations": histories + len(alljobs),
        "distinct_nontrivial": nontrivial + sum(st["exported"] for st in pst),
        "rule": "protocol: every maximal call history of JpegEnc.tla to the stated depth over each scenario's alphabet is a distinct "
                "case (TLC explores histories as distinct states; all are replayed, each step's reply/bytes/EOI compared); content: "
                "one case per generated image, distinct by (colour type, width, height, quantisation kind, block generator), "
                "non-trivial when at least one block was decoded and compared",
        "exhaustive": True,
        "protocol": {
            "runs": [{k: st[k] for k in ("name", "scenarios", "scenarios_by_depth", "exported", "histories", "calls", "steps", "mismatch_count", "skipped")} for st in pst],
            "histories_replayed": histories, "calls_made": calls, "replies_seen": replies,
            "dimension_classes": DIMS, "colour_types": CTS,
            "exhaustive_scope": "all histories of exactly `depth` steps per scenario alphabet; not all alphabets at the same time",
        },
        "content": {
            "traces_accepted": traces_ok, "traces_total": len(alljobs), "blocks_decoded_and_compared": blocks,
            "events": sum(cb["events"] for cb in cbs),
            "bytes_written": sum(s["bytes"] for s in allstats),
            "max_bytes_written_by_one_AddN": max([s["max_add_bytes"] for s in allstats] or [0]),
            "internal_buffer_bytes": 3072 - 148,
            "stuffed_0xFF_bytes": sum(s["stuffed_ff"] for s in allstats),
            "zrl_symbols": sum(s["zrl"] for s in allstats),
            "blocks_without_eob": sum(s["blocks_without_eob"] for s in allstats),
            "exact_ties": sum(s["ties"] for s in allstats),
            "exact_ties_rounded_away_from_zero (observation)": sum(s["ties_rounded_away"] for s in allstats),
            "max_abs_decoded": max([s["max_abs_decoded"] for s in allstats] or [0]),
            "max_abs_dc_delta": max([s["max_abs_dc_delta"] for s in allstats] or [0]),
            "distinct_triples_in_summaries": sum(s["triples"] for s in allstats),
            "generators": GENS,
            "rounding_rule": "Nearest(c,q,d) == 2*|c - d*q| <= q (either neighbour on exact ties; no tie rule is documented)",
            "rounding_lemma_factors": len(lq),
        },
        "sensitivity_self_test": {"corruptions_rejected_by_TLC": results["sens"].get("rejected"), "skipped": results["sens"]["skipped"]},
        "observation_allocations (not decided by the specification)": allocs,
        "observation_dct_clause (numeric, plain assertion in the harness, not decided by the specification)": dct,
    }, assumptions=[
        "the walker harness/internal/jpegwalk (written from ITU-T T.81, no wuffs import) decodes baseline files correctly; it does not "
        "support restart intervals or multiple scans (a file using them would be rejected, none is produced)",
        "input block n is paired with decoded block n by position; the component/MCU indices in events are derived by the walker from the frame header",
        "65535x65535 images (2^26 / 2^24 units) are covered by the protocol replay only (thorough tier, one Bulk step), not by content validation",
        "which error is returned when several argument errors apply is left open (any applicable one is allowed); after an error "
        "the specification demands ErrPreviouslyReturnedError from AddN until a successful Reset",
        "image dimensions beyond the classes are sampled (random 1..90 x 1..60, a few larger); quantisation tables are sampled "
        "(all ones, all 255, libjpeg qualities, even factors, random)",
        "DCT accuracy and zero allocations are measured by the harness on seeded samples, not decided by TLC",
    ])


def replay(ctx, path):
    rep = json.load(open(path))["replay"]
    binp = ctx.go_build("./cmd/jpegreplay")
    kind = rep.get("kind")
    if kind == "protocol":
        d = ctx.subdir("replay")
        sp, hp = os.path.join(d, "scen.json"), os.path.join(d, "hist.ndjson")
        json.dump([rep["scenario"]], open(sp, "w"))
        open(hp, "w").write(json.dumps([1, rep["history"]]) + "\n")
        r = ctx.run([binp, "replay", "-scen", sp, "-hist", hp, "-seed", str(ctx.seed)], timeout=3000)
        if r.returncode != 0:
            raise ToolingError("jpegreplay replay failed: " + r.stderr[-2000:])
        st = json.loads(r.stdout)
        st["_scens"] = [rep["scenario"]]
        print(json.dumps(rep["decoded"], indent=1))
        report_mismatches(ctx, st)
        print("mismatches on replay: %d" % st["mismatch_count"])
    elif kind == "content":
        cb = content_batch(ctx, binp, "replay", [rep["job"]], 2)
        report_content(ctx, cb)
        print("traces rejected on replay: %d" % len(cb["found"]))
    elif kind == "dct":
        import subprocess
        print(json.dumps({k: rep[k] for k in ("what", "gen", "pixels", "coefs", "back", "at", "diff")}, indent=1))
        run(ctx)
    else:
        run(ctx)

"""C12 - both formatters change only white space and are idempotent.

Indenter (lib/dumbindent): spec/CLexical.tla is the lexical machine of C-like
text (it defines the precondition "all delimiters terminated"), a generator
(TLC enumerates every lexically closed text up to a length bound per alphabet
profile, and long random ones with -simulate) and the acceptance predicate.
TLC exports every text with its expectation StripLines(text); the harness
harness/cmd/fmtreplay calls dumbindent.FormatBytes for {2 spaces, 4 spaces,
tabs} under a watchdog and compares every answer with the exported
expectation byte for byte (Mode R); every answer that differs, plus a seeded
sample of those that agree, goes back to TLC as a recorded row and is judged
by CLexical!Judge from the text and the answers alone (Mode V).  A verdict is
only ever taken from TLC; a disagreement between the harness's comparison and
TLC's judgement is a tooling error.

wuffsfmt (lang/token + lang/parse + lang/render, the calls of cmd/wuffsfmt):
spec/WuffsLayout.tla generates token-level sources with a layout model
(exhaustive universe of expression / statement / declaration forms under every
layout scheme; -simulate for multi-declaration files), all *.wuffs files of
the repository are added, the harness records token/comment streams before and
after, and WuffsLayout!Judge decides (same hybrid: every row the harness's
transport-level filter flags + a seeded sample + the small corpus files).
"""
import json, os, glob, time
from vlib import ToolingError, REPO, VERIF

META = {
    "level": "model_checking",
    "technique": "TLA+ lexical state machine of C-like text (CLexical.tla): TLC enumerates every lexically closed text up to a bound per alphabet profile and exports it with StripLines(text); dumbindent.FormatBytes is replayed on each for 3 options and compared with the exported expectation, differing answers and a seeded sample are judged by TLC (CLexical!Judge). TLA+ token/layout model of Wuffs source (WuffsLayout.tla): TLC-generated sources and the repository's .wuffs files go through Tokenize/Parse/Render and recorded token+comment streams are judged by TLC (WuffsLayout!Judge).",
    "text": "Indenter: exhaustive over seven alphabet profiles of C-like text (all 17 bytes of the alphabet to length 4/5; comment/raw-string, literal, directive and nesting alphabets to length 5-10) x {2 spaces, 4 spaces, tabs}: terminates, StripLines(out) = StripLines(in), FormatBytes(out) = out; plus seeded random texts to length 40. wuffsfmt: every operand shape next to every operator, every statement/declaration form and numeric spelling under 10 layout schemes, random multi-declaration files, and all .wuffs files of the repository: identical token+comment stream (numbers modulo underscores and case), output parses, Render(Render(s)) = Render(s).",
    "note": "Trusted: TLC, the transport (JSON, marker substitution), and for answers outside the TLC-judged sample the harness's byte comparison against the TLC-exported expectation (indenter) / its stream comparison (wuffsfmt), which is cross-checked against TLC on every run. Line splicing outside directives and comments that run out of a directive line are outside the modelled precondition. Leading blank lines are treated as white space (the indenter drops them).",
}

KEY_INDENT = "dumbindent-second-raw-after-multiline-close"
KEY_INDENT2 = "dumbindent-directive-continuation-survives-blank-lines"
KEY_COMMENT_ONLY = "wuffsfmt-comment-only-source"

JAVA_FAST = "-XX:TieredStopAtLevel=1"


# ----------------------------------------------------------------- helpers
def tlc_json_prints(out):
    """Decode the JSON objects that PrintT(ToJson(..)) wrote: lines of the form
    "...." (a TLA+ string: backslash escapes the next character)."""
    objs = []
    for line in out.splitlines():
        if len(line) < 4 or line[0] != '"' or line[1] != '{' or line[-1] != '"':
            continue
        body = line[1:-1]
        if "\\" in body:
            res, i, n = [], 0, len(body)
            while i < n:
                c = body[i]
                if c == "\\" and i + 1 < n:
                    res.append(body[i + 1])
                    i += 2
                else:
                    res.append(c)
                    i += 1
            body = "".join(res)
        objs.append(body)
    return objs


def run_tlc(ctx, module, cfgtext, label, data=None, fast=False, **kw):
    d = dict(data or {})
    d["run.cfg"] = cfgtext
    old = ctx.env.get("JAVA_TOOL_OPTIONS")
    if fast:
        ctx.env["JAVA_TOOL_OPTIONS"] = JAVA_FAST
    try:
        res = ctx.tlc(module, cfg="run.cfg", data=d, label=label, **kw)
    finally:
        if fast:
            if old is None:
                ctx.env.pop("JAVA_TOOL_OPTIONS", None)
            else:
                ctx.env["JAVA_TOOL_OPTIONS"] = old
    if res["error"] or res["violated"] or res["deadlock"]:
        raise ToolingError("TLC run '%s' failed:\n%s" % (label, (res["error"] or res["out"])[-3000:]))
    return res


def text_str(t):
    return bytes(t).decode("latin-1")


# ------------------------------------------------------------------ indenter
def clex_cfg(mode, lens=None, rows="none.json", extra_inv=()):
    lens = lens or {}
    c = ["CONSTANTS"]
    for name, key in (("LenCmt", "cmt"), ("LenCmt2", "cmt2"), ("LenStr", "str"), ("LenPP", "pp"), ("LenPPB", "ppb"), ("LenNest", "nest"), ("LenAll", "all")):
        c.append("  %s = %d" % (name, lens.get(key, 0)))
    c.append('  RowsFile = "%s"' % rows)
    if mode == "gen":
        # GenConsistent: the generator's incremental state equals Lex(text) (design-level)
        c += ["INIT GenInit", "NEXT GenNext", "INVARIANTS Emit GenConsistent " + " ".join(extra_inv)]
    else:
        c += ["INIT ValInit", "NEXT ValNext", "INVARIANTS Judge"]
    c.append("CHECK_DEADLOCK FALSE")
    return "\n".join(c) + "\n"


class IndentAcc:
    """Accumulates what the indenter half did over several generator runs."""

    def __init__(self):
        self.seen = set()
        self.texts = 0            # distinct closed texts driven through the code
        self.flagged = 0          # of those, texts with the known construct
        self.changed = 0
        self.val_rows = []        # rows that go to TLC
        self.cand_unflagged = 0
        self.cand_flagged = 0
        self.cand_flagged_not_sent = 0
        self.flagged_ok = 0
        self.samples = []
        self.maxlen = 0
        self.harness = []
        self.flagged_lines = []   # generated texts with the known construct, driven at the end
        self.flagged_generated = 0
        self.flagged2_generated = 0
        self.flagged_driven = 0


def indent_drive(ctx, binp, acc, prints, label, sample, kmax, flagged_too=False):
    """prints: JSON lines {"t":..,"k":..,"e":..} from TLC.  Runs the harness,
    keeps the rows that TLC must judge.  Texts with the known construct are
    put aside (acc.flagged_lines) unless flagged_too."""
    d = ctx.subdir("ind-" + label.replace("+", "_"))
    path = os.path.join(d, "texts.ndjson")
    n = nk = 0
    with open(path, "w") as f:
        for line in prints:
            if not flagged_too:
                h = hash(line)      # 64-bit; a collision would only drop one text
                if h in acc.seen:
                    continue
                acc.seen.add(h)
                if '"k2":true' in line:
                    acc.flagged2_generated += 1
                if '"k":true' in line:
                    acc.flagged_lines.append(line)
                    acc.flagged_generated += 1
                    continue
            f.write(line + "\n")
            n += 1
            if '"k":true' in line:
                nk += 1
    if n == 0:
        return
    out = os.path.join(d, "rows")
    r = ctx.run([binp, "-mode", "indent", "-in", path, "-out", out, "-chunk", "1000000",
                 "-sample", str(sample), "-seed", str(ctx.seed), "-j", "16"], timeout=3000)
    if r.returncode != 0:
        raise ToolingError("fmtreplay indent failed: " + (r.stderr or "")[-2000:])
    st = json.loads(r.stdout.strip().splitlines()[-1])
    if st["died"]:
        raise ToolingError("fmtreplay: %d worker(s) died without a result (%s)" % (st["died"], label))
    acc.harness.append(dict(st, label=label))
    acc.texts += n
    acc.flagged += nk
    acc.changed += st.get("changed", 0)
    rows = json.load(open(out + "-000.json"))
    flagged_c = []
    for row in rows:
        acc.maxlen = max(acc.maxlen, len(row["t"]))
        if row["cand"] and row["k"]:
            flagged_c.append(row)
        else:
            if row["cand"]:
                acc.cand_unflagged += 1
            acc.val_rows.append(row)
    acc.cand_flagged += len(flagged_c)
    acc.flagged_ok += nk - len(flagged_c)
    # shortest first, then a seeded choice
    flagged_c.sort(key=lambda r: (len(r["t"]), r["t"]))
    keep = flagged_c[:max(3, kmax // 4)]
    rest = flagged_c[len(keep):]
    ctx.rng.shuffle(rest)
    keep += rest[:max(0, kmax - len(keep))]
    acc.cand_flagged_not_sent += len(flagged_c) - len(keep)
    acc.val_rows += keep
    if len(acc.samples) < 10 and rows:
        for row in ctx.rng.sample(rows, min(2, len(rows))):
            acc.samples.append({"kind": "indent", "text": text_str(row["t"]), "known_construct": row["k"],
                                "answers": [(a["s"], text_str(a["o"])) for a in row["r"]]})
    ctx.log("indenter/%s: %d new closed texts (%d with the known construct), harness: %s" % (label, n, nk, json.dumps(st)))


def indent_judge(ctx, acc):
    """TLC judges the kept rows; returns the list of (row, verdict-object)."""
    rows = acc.val_rows
    if not rows:
        return []
    rejected = []
    CH = 6000
    for a in range(0, len(rows), CH):
        part = rows[a:a + CH]
        res = run_tlc(ctx, "CLexical", clex_cfg("val", rows="rows.json"), "indenter judge %d..%d" % (a, a + len(part)),
                      data={"rows.json": json.dumps(part, separators=(",", ":"))}, fast=True, timeout=3000, workers=8)
        want = len(part) + 1 + (len(part) + 499) // 500
        if res["distinct"] != want:
            raise ToolingError("CLexical validator visited %d states, expected %d" % (res["distinct"], want))
        got = {}
        for js in tlc_json_prints(res["out"]):
            o = json.loads(js)
            if "verdict" in o and "row" in o:
                got[o["row"]] = o
        for i, row in enumerate(part, 1):
            if (i in got) != bool(row["cand"]) and not row.get("noexp"):
                raise ToolingError("harness comparison and CLexical!Judge disagree on %r: harness cand=%s, TLC %s" % (
                    text_str(row["t"]), row["cand"], got.get(i, "accepts")))
            if i in got:
                rejected.append((row, got[i]))
    return rejected


def indent_part(ctx, binp, cov):
    thorough = ctx.tier == "thorough"
    acc = IndentAcc()
    # the committed witness of the known finding, with the generous watchdog and the 4x confirmation
    wit_state = {}
    for key, fld in ((KEY_INDENT, "known"), (KEY_INDENT2, "known2")):
        wpath = os.path.join(VERIF, "findings", "C12-" + key + ".json")
        if os.path.exists(wpath):
            wit_state[key] = indent_witness(ctx, binp, json.load(open(wpath)), key, fld)
            acc.val_rows += wit_state[key].pop("rows")
    bug_present = bool(wit_state.get(KEY_INDENT) and wit_state[KEY_INDENT]["differing_from_expectation"])
    if thorough:
        plan = [{"cmt": 9}, {"cmt2": 7}, {"str": 7}, {"pp": 6, "ppb": 10, "nest": 5}, {"all": 5}]
        sample, kmax, simnum, kdrive = 1500, 300, 300, 1200
    else:
        plan = [{"cmt": 8, "cmt2": 6, "str": 6, "pp": 5, "ppb": 8, "nest": 4, "all": 4}]
        sample, kmax, simnum, kdrive = 1200, 150, 12, 150
    lens_all = {}
    for lens in plan:
        lens_all.update(lens)
        label = "+".join("%s%d" % kv for kv in sorted(lens.items()))
        res = run_tlc(ctx, "CLexical", clex_cfg("gen", lens), "indenter gen " + label, timeout=3000, heap="12g")
        indent_drive(ctx, binp, acc, tlc_json_prints(res["out"]), label, sample, kmax)
        del res
    gen_states = sum(t["distinct"] for t in ctx.tlc_stats if t["label"].startswith("indenter gen"))
    # long random texts, every profile
    res = run_tlc(ctx, "CLexical", clex_cfg("gen", {k: 40 for k in ("cmt", "cmt2", "str", "pp", "ppb", "nest", "all")}),
                  "indenter simulate", simulate="num=%d" % simnum, depth=44, timeout=3000, workers=4)
    before = acc.texts
    indent_drive(ctx, binp, acc, tlc_json_prints(res["out"]), "simulate", sample // 2, kmax)
    sim_texts = acc.texts - before
    del res
    # Texts with the known construct: while the committed witness still fails
    # only some are driven (each costs a watchdog budget): the shortest ones
    # and a seeded choice; once the witness passes, all of them are.
    fl = sorted(acc.flagged_lines, key=lambda l: (len(l), l))
    if bug_present and len(fl) > kdrive:
        head, rest = fl[:kdrive // 3], fl[kdrive // 3:]
        ctx.rng.shuffle(rest)
        fl = head + rest[:kdrive - len(head)]
    acc.flagged_driven = len(fl)
    indent_drive(ctx, binp, acc, fl, "known-construct", sample // 4, kmax, flagged_too=True)

    rejected = indent_judge(ctx, acc)
    nviol = 0
    known_seen = known2_seen = 0
    for row, v in rejected:
        t = row["t"]
        rep = {"kind": "indent", "text": text_str(t), "text_bytes": t, "options": ["2 spaces", "4 spaces", "tabs"],
               "verdict_per_option": v["verdict"], "known_construct": v["known"], "known_construct_2": v["known2"],
               "answers": [{"status": a["s"], "out": text_str(a["o"]), "status2": a["q"], "out2": text_str(a["p"]), "panic": a.get("msg", "")} for a in row["r"]]}
        if row.get("wit") and not v[row["wit"]]:
            raise ToolingError("committed witness %r does not contain its known construct according to CLexical" % text_str(t))
        if v["known"]:
            known_seen += 1
            rep["key"] = KEY_INDENT
        elif v["known2"]:
            known2_seen += 1
            rep["key"] = KEY_INDENT2
        elif nviol >= 5:
            continue
        what = "dumbindent.FormatBytes on the lexically closed text %r: CLexical!Judge says %s" % (text_str(t), v["verdict"])
        if ctx.violation(what, rep):
            nviol += 1
    cov["indent"] = {
        "closed_texts_driven": acc.texts, "of_which_exhaustive": acc.texts - sim_texts, "of_which_simulated": sim_texts,
        "options_per_text": 3, "generator_states": gen_states, "profile_length_bounds": lens_all, "longest_text": acc.maxlen,
        "texts_generated_with_known_construct": acc.flagged_generated, "texts_driven_with_known_construct": acc.flagged_driven,
        "known_construct_texts_failing": acc.cand_flagged,
        "known_construct_texts_passing": acc.flagged_ok,
        "answers_differing_from_expectation_without_known_construct": acc.cand_unflagged,
        "rows_judged_by_tlc": len(acc.val_rows), "rows_rejected_by_tlc": len(rejected),
        "rejected_with_known_construct_1": known_seen, "rejected_with_known_construct_2": known2_seen,
        "texts_generated_with_known_construct_2": acc.flagged2_generated,
        "known_construct_rows_not_sent_to_tlc": acc.cand_flagged_not_sent,
        "texts_changed_by_formatter": acc.changed, "committed_witness": wit_state, "harness_runs": acc.harness,
    }
    return acc


def indent_witness(ctx, binp, w, key, fld):
    """Drive the committed witness texts (k is not set, so the harness applies
    the generous budget and confirms a non-result with 4x budget and 4x cap).
    The rows are judged by TLC together with all others."""
    d = ctx.subdir("witness-" + fld)
    path = os.path.join(d, "w.ndjson")
    texts = [w["witness"]["text_bytes"]] + [m["text_bytes"] for m in w.get("minimal_witnesses", [])]
    with open(path, "w") as f:
        for t in texts:
            f.write(json.dumps({"t": t, "k": False}) + "\n")
    out = os.path.join(d, "rows")
    r = ctx.run([binp, "-mode", "indent", "-in", path, "-out", out, "-j", "4", "-budget", "2000", "-capmb", "256", "-sample", "1000000000"], timeout=600)
    if r.returncode != 0:
        raise ToolingError("fmtreplay (witness) failed: " + (r.stderr or "")[-2000:])
    st = json.loads(r.stdout.strip().splitlines()[-1])
    if st["died"]:
        raise ToolingError("fmtreplay: worker died on the committed witness")
    rows = json.load(open(out + "-000.json"))
    for row in rows:
        row["wit"] = fld
    ncand = sum(1 for row in rows if row["cand"])
    ctx.log("committed witness of %s: %d of %d text(s) still differ from the expectation (%d non-results confirmed with 4x budget)" % (
        key, ncand, len(texts), st["confirmed_bad"]))
    return {"texts": len(texts), "differing_from_expectation": ncand, "confirmed_with_4x_budget": st["confirmed_bad"], "harness": st, "rows": rows}


# ------------------------------------------------------------------ wuffsfmt
ALL_SCHEMES = ["plain", "tight", "wide", "brk", "brkop", "cmtmid", "cmtown", "semi", "oneline", "crlf"]


def wl_cfg(mode, size=1, schemes=(), simdecls=0, rows="none.json"):
    c = ["CONSTANTS", "  Size = %d" % size, "  ExprSchemes = {%s}" % ",".join('"%s"' % s for s in schemes),
         "  SimDecls = %d" % simdecls, '  RowsFile = "%s"' % rows]
    if mode == "gen":
        c += ["INIT GenInit", "NEXT GenNext", "INVARIANT Emit"]
    elif mode == "sim":
        c += ["INIT SimInit", "NEXT SimNext", "INVARIANT SimEmit"]
    else:
        c += ["INIT ValInit", "NEXT ValNext", "INVARIANT Judge"]
    c.append("CHECK_DEADLOCK FALSE")
    return "\n".join(c) + "\n"


MARK = {"<nl>": "\n", "<sp>": " ", "<tab>": "\t", "<cr>": "\r", "<dq>": '"', "<sq>": "'", "<bs>": "\\"}


def pieces_text(p):
    s = "".join(p)
    for k, v in MARK.items():
        s = s.replace(k, v)
    return s


def corpus_files():
    fs = sorted(set(glob.glob(os.path.join(REPO, "std", "*", "*.wuffs")) + glob.glob(os.path.join(REPO, "test", "**", "*.wuffs"), recursive=True)
                    + glob.glob(os.path.join(REPO, "**", "*.wuffs"), recursive=True)))
    return [f for f in fs if "/.git/" not in f]


def is_comment_only(row):
    return len(row["a"]["k"]) > 0 and all(k == 2 for k in row["a"]["k"]) and row["st"] == "ok" and row["o"] == ""


def wuffs_part(ctx, binp, cov):
    thorough = ctx.tier == "thorough"
    if thorough:
        size, schemes, simnum, simdecls, sample, filecap = 2, ALL_SCHEMES, 6000, 6, 1200, 10 ** 9
    else:
        size, schemes, simnum, simdecls, sample, filecap = 1, sorted(ctx.rng.sample(ALL_SCHEMES, 3)), 400, 5, 350, 5000
    d = ctx.subdir("wuffs")
    src_path = os.path.join(d, "sources.ndjson")
    items = []
    seen = set()
    res = run_tlc(ctx, "WuffsLayout", wl_cfg("gen", size, schemes), "wuffsfmt gen size=%d" % size, timeout=3000, heap="12g")
    gen_states = res["distinct"]
    n_gen = 0
    for js in tlc_json_prints(res["out"]):
        if js not in seen:
            seen.add(js)
            items.append(js)
            n_gen += 1
    del res
    res = run_tlc(ctx, "WuffsLayout", wl_cfg("sim", size, schemes, simdecls), "wuffsfmt simulate",
                  simulate="num=%d" % simnum, depth=simdecls + 2, timeout=3000, workers=1)
    n_sim = 0
    for js in tlc_json_prints(res["out"]):
        if js not in seen:
            seen.add(js)
            items.append(js)
            n_sim += 1
    del res
    files = corpus_files()
    for f in files:
        items.append(json.dumps({"file": f}))
    with open(src_path, "w") as f:
        for it in items:
            f.write(it + "\n")
    out = os.path.join(d, "rows")
    stats_path = os.path.join(d, "stats.json")
    r = ctx.run([binp, "-mode", "wuffs", "-in", src_path, "-out", out, "-chunk", "1000000", "-sample", str(sample),
                 "-seed", str(ctx.seed), "-filecap", str(filecap), "-stats", stats_path, "-j", "16"], timeout=3000)
    if r.returncode != 0:
        raise ToolingError("fmtreplay wuffs failed: " + (r.stderr or "")[-2000:])
    st = json.loads(r.stdout.strip().splitlines()[-1])
    if st["died"]:
        raise ToolingError("fmtreplay: %d worker(s) died without a result (wuffs)" % st["died"])
    ctx.log("wuffsfmt: %d generated + %d simulated + %d files; harness: %s" % (n_gen, n_sim, len(files), json.dumps(st)))
    rows = json.load(open(out + "-000.json"))
    nfile_rows = sum(1 for row in rows if row["id"] >= n_gen + n_sim)
    # not every corpus file was accepted?  (they all should be: they are formatted sources)
    # TLC judges the rows, in chunks bounded by size
    rejected, observed = [], []
    chunk, size_b = [], 0
    chunks = []
    for row in rows:
        b = len(json.dumps(row, separators=(",", ":")))
        if chunk and (size_b + b > 2500000 or len(chunk) >= 3000):
            chunks.append(chunk)
            chunk, size_b = [], 0
        chunk.append(row)
        size_b += b
    if chunk:
        chunks.append(chunk)
    for ci, part in enumerate(chunks):
        res = run_tlc(ctx, "WuffsLayout", wl_cfg("val", rows="rows.json"), "wuffsfmt judge chunk %d" % ci,
                      data={"rows.json": json.dumps(part, separators=(",", ":"))}, fast=True, timeout=3000, workers=8, heap="8g")
        want = len(part) + 1 + (len(part) + 199) // 200
        if res["distinct"] != want:
            raise ToolingError("WuffsLayout validator visited %d states, expected %d" % (res["distinct"], want))
        got = {}
        for js in tlc_json_prints(res["out"]):
            o = json.loads(js)
            if "scope" in o:
                got.setdefault(o["row"], []).append(o)
        for i, row in enumerate(part, 1):
            if bool(got.get(i)) != bool(row["cand"]):
                raise ToolingError("harness filter and WuffsLayout!Judge disagree on source %d: harness cand=%s, TLC %s" % (
                    row["id"], row["cand"], got.get(i, "accepts")))
            for o in got.get(i, []):
                (rejected if o["scope"] == "property" else observed).append((row, o))
    nviol = 0
    for row, o in rejected:
        item = json.loads(items[row["id"]])
        src = pieces_text(item["p"]) if "p" in item else open(item["file"], "rb").read().decode("latin-1")
        rep = {"kind": "wuffs", "source": src, "item": item, "verdict": o["verdict"], "first_difference_at_stream_entry": o.get("at", 0),
               "stream_of_source": row["a"] if len(row["a"]["k"]) < 200 else "(long)", "stream_of_output": row["b"] if len(row["b"]["k"]) < 200 else "(long)",
               "output": row["o"][:4000], "second_output": row["p"][:4000]}
        if is_comment_only(row):
            rep["key"] = KEY_COMMENT_ONLY
        elif nviol >= 5:
            continue
        what = "wuffsfmt (Tokenize, Parse, Render) on the accepted source %r: WuffsLayout!Judge says %s" % (src[:300], o["verdict"])
        if ctx.violation(what, rep):
            nviol += 1
    obs = []
    for row, o in observed[:20]:
        item = json.loads(items[row["id"]])
        obs.append({"source": pieces_text(item["p"])[:300] if "p" in item else item["file"], "why_not_accepted": row["why"]})
    if observed:
        ctx.log("wuffsfmt: %d observation(s) outside the property (sources that tokenize but do not parse), e.g. %r" % (len(observed), obs[0]))
    stats = json.load(open(stats_path))
    samples = []
    for row in ctx.rng.sample(rows, min(3, len(rows))):
        item = json.loads(items[row["id"]])
        samples.append({"kind": "wuffs", "source": (pieces_text(item["p"]) if "p" in item else item["file"])[:400], "accepted": row["acc"], "output": row["o"][:400]})
    cov["wuffs"] = {
        "sources_driven": len(items), "generated_exhaustively": n_gen, "generated_by_simulation": n_sim, "corpus_files": len(files),
        "generator_initial_states": gen_states, "universe_size": size, "schemes_for_expression_universe": schemes,
        "accepted_by_tokenizer_and_parser": st["accepted"], "tokenized": st["tokenized"], "tokens_in_accepted_sources": st["tokens_in_accepted"],
        "accepted_sources_changed_by_formatter": st.get("changed", 0),
        "distinct_adjacent_token_class_pairs_on_a_line": stats["n_pairs"], "distinct_adjacent_token_class_triples_on_a_line": stats["n_triples"],
        "rows_judged_by_tlc": len(rows), "of_which_corpus_files": nfile_rows, "rows_rejected_by_tlc": len(rejected),
        "observations_outside_property": len(observed), "observation_examples": obs[:5], "harness": st,
    }
    return samples, len(rows), st


# ---------------------------------------------------------------------- run
def run(ctx):
    binp = ctx.go_build("./cmd/fmtreplay")
    cov = {}
    acc = indent_part(ctx, binp, cov)
    wsamples, wrows, wst = wuffs_part(ctx, binp, cov)
    ind = cov["indent"]
    wu = cov["wuffs"]
    ctx.evidence("model_checking", {
        "states": sum(t["distinct"] for t in ctx.tlc_stats),
        "transitions": sum(t["generated"] for t in ctx.tlc_stats),
        "traces_validated_against_impl": ind["rows_judged_by_tlc"] + wu["rows_judged_by_tlc"],
        "answers_compared_with_tlc_exported_expectation": ind["closed_texts_driven"] * 3,
        "samples": acc.samples[:6] + wsamples,
        "evaluations": ind["closed_texts_driven"] * 3 + wu["sources_driven"],
        "distinct_nontrivial": ind["texts_changed_by_formatter"] + wu["accepted_sources_changed_by_formatter"],
        "rule": "indenter: every distinct lexically closed text (CLexical!Closed) that TLC generated - exhaustively up to the length bound of each "
                "alphabet profile %s, plus -simulate texts up to 40 bytes - is given to dumbindent.FormatBytes under 3 options; wuffsfmt: every distinct "
                "source TLC generated from WuffsLayout (universe x layout schemes, -simulate files) plus every .wuffs file of the repository goes through "
                "Tokenize/Parse/Render twice. A case is non-trivial when the formatter's output differs from its input (there was white space to change); "
                "counted per distinct input by the harness." % json.dumps(ind["profile_length_bounds"], sort_keys=True),
        "exhaustive": True,
        "indent": ind, "wuffs": wu,
    }, assumptions=[
        "the precondition 'all delimiters terminated' is CLexical!Closed: no backslash-newline splicing outside directives; cooked literals end on their line; a comment or literal opened on a directive line ends on that logical line; '#' after a comment on the same line is excluded",
        "blank lines at the start of the text count as white space (FormatBytes drops them on purpose), as do the trailing blanks of a Wuffs comment",
        "answers outside the TLC-judged rows are compared by the harness with the expectation exported by TLC (indenter) or by a stream comparison mirrored from WuffsLayout!SameStream (wuffsfmt); every run cross-checks those comparisons against TLC on all differing rows and a seeded sample",
        "a non-result counts only after a second run with 4x budget and 4x memory cap, except for texts with the first known construct, which are run once with a short budget and only ever reported under the known key; while the committed witness of that finding still fails only a subset of the generated texts with the construct is driven (counts in coverage.indent)",
        "a violation on a text that contains a known construct (CLexical!KnownConstruct / KnownConstruct2, evaluated by TLC) is reported under that finding's key; a violation on any other text is a new violation",
        "the harness is linked against the working tree named by VERIF_REPO (default /repo)",
    ])


def replay(ctx, path):
    rep = json.load(open(path))["replay"]
    print(json.dumps({k: v for k, v in rep.items() if k not in ("stream_of_source", "stream_of_output")}, indent=1)[:6000])
    binp = ctx.go_build("./cmd/fmtreplay")
    d = ctx.subdir("replay")
    if rep.get("kind") == "indent":
        p = os.path.join(d, "t.ndjson")
        open(p, "w").write(json.dumps({"t": rep["text_bytes"], "k": False}) + "\n")
        out = os.path.join(d, "rows")
        r = ctx.run([binp, "-mode", "indent", "-in", p, "-out", out, "-j", "1", "-sample", "1000000000"], timeout=600)
        if r.returncode != 0:
            raise ToolingError("fmtreplay failed: " + (r.stderr or "")[-2000:])
        rows = json.load(open(out + "-000.json"))
        res = run_tlc(ctx, "CLexical", clex_cfg("val", rows="rows.json"), "replay judge", data={"rows.json": json.dumps(rows)}, fast=True, workers=2)
        got = [json.loads(js) for js in tlc_json_prints(res["out"])]
        got = [o for o in got if "verdict" in o]
        print("answers now:", json.dumps([{"s": a["s"], "o": text_str(a["o"]), "q": a["q"], "p": text_str(a["p"])} for a in rows[0]["r"]]))
        if got:
            rep2 = dict(rep)
            if got[0]["known"]:
                rep2["key"] = KEY_INDENT
            elif got[0]["known2"]:
                rep2["key"] = KEY_INDENT2
            ctx.violation("replayed: CLexical!Judge says %s for %r" % (got[0]["verdict"], rep["text"]), rep2)
        else:
            print("replayed: accepted by CLexical!Judge now")
    else:
        p = os.path.join(d, "s.ndjson")
        open(p, "w").write(json.dumps(rep["item"]) + "\n")
        out = os.path.join(d, "rows")
        r = ctx.run([binp, "-mode", "wuffs", "-in", p, "-out", out, "-j", "1", "-sample", "1000000000"], timeout=600)
        if r.returncode != 0:
            raise ToolingError("fmtreplay failed: " + (r.stderr or "")[-2000:])
        rows = json.load(open(out + "-000.json"))
        if not rows:
            print("replayed: nothing to judge (the harness's filter found no difference and the row was not sampled)")
            return
        res = run_tlc(ctx, "WuffsLayout", wl_cfg("val", rows="rows.json"), "replay judge", data={"rows.json": json.dumps(rows)}, fast=True, workers=2)
        got = [json.loads(js) for js in tlc_json_prints(res["out"])]
        got = [o for o in got if o.get("scope") == "property"]
        print("output now: %r" % rows[0]["o"][:2000])
        if got:
            rep2 = dict(rep)
            if is_comment_only(rows[0]):
                rep2["key"] = KEY_COMMENT_ONLY
            ctx.violation("replayed: WuffsLayout!Judge says %s" % got[0]["verdict"], rep2)
        else:
            print("replayed: accepted by WuffsLayout!Judge now")

"""C13 - RAC writing then reading returns the original bytes, the file is
spec-valid, and failures of the underlying writer / temp file stay reported.

Mode R: spec/RacWriter.tla (property layer + implementation-shaped layer of
lib/rac/writer.go) is checked by TLC; its terminal states are exported as
scripts (payload over {Z,A,B} x partition into Write calls x chunk sizing mode
x Cut choices) and replayed by harness/cmd/racwreplay on the real rac.Writer
under many configurations (model codec / zlib / lz4 / zstd, index location,
temp file kind, page size, shared resources) and with the k-th call on the
underlying io.Writer / TempFile failing, for every k.
Mode V: what the real code did comes back as JSON and is judged by TLC:
RacWriter!Judge (replies, chunks found in the file, read-back through
rac.Reader, fault-run shapes) and Trace_RacFormat!Judge (every rule of
doc/spec/rac-spec.md over the events of an independent walker).
"""
import json, os, re, threading, time
from vlib import ToolingError, parse_tlc_prints, VERIF

META = {
    "level": "model_checking",
    "technique": "TLA+ two-layer specification of rac.Writer (RacWriter.tla: property layer + implementation-shaped writeBuffer/writeDChunks/writeCChunks model with an abstract cuttable codec) checked by TLC; its exported behaviours are replayed on the real rac.Writer (model codec and real zlib/lz4/zstd, index at start/end, temp file kinds, page sizes, shared resources) with every fault point of the underlying writer/temp file; produced files are walked by an independent parser and validated by TLC against Trace_RacFormat.tla (every rule of rac-spec.md); rac.Reader must return the bytes written",
    "text": "Exhaustive within the bound: every payload over {Z,A,B} (first non-zero byte A) up to length 5 (quick) / 6 (thorough) x every partition into Write calls x DChunkSize 1..3 and small CChunkSizes x two abstract codecs, each run on the real code without fault and with the k-th underlying call failing for every k; plus seeded zero-heavy payloads of 2..70 kB through the real codecs. Conservation (emitted ++ pending = accepted), the refinement of the property layer, stickiness and the RAC format rules are evaluated by TLC; verdicts only from what the real code returned.",
    "note": "Trusted: TLC, the transport of results as JSON, the harness's model codec (a legitimate rac.CodecWriter/CodecReader pair), SHA-256 comparison of large payloads in the harness. The walker cannot decode LZ4/Zstandard chunk contents (no independent decoder offline); for those codecs file structure and rac.Reader read-back are checked. Hangs of rac.Writer would surface as a tooling timeout.",
}

K1 = "cchunk-zero-reorder"
K2 = "long-codec-resource-tags"
WIT1 = os.path.join(VERIF, "findings", "C13-cchunk-zero-reorder.json")
WIT2 = os.path.join(VERIF, "findings", "C13-long-codec-resource-tags.json")


# ------------------------------------------------------------------ cfg files
def impl_cfg(maxlen, dsizes, cstored, crle, policy, fixed, maxfault, empty, canonical, export, invariants, props=(), view=None):
    f = lambda s: "{" + ",".join(str(v) for v in s) + "}"
    b = lambda v: "TRUE" if v else "FALSE"
    t = ("SPECIFICATION Spec\nCONSTANTS\n  MaxLen = %d\n  DSizes = %s\n  CSizesStored = %s\n  CSizesRle = %s\n  CutPolicy = \"%s\"\n"
         "  FIXED = %s\n  MaxFault = %d\n  AllowEmpty = %s\n  Canonical = %s\n  DoExport = %s\n") % (
        maxlen, f(dsizes), f(cstored), f(crle), policy, b(fixed), maxfault, b(empty), b(canonical), b(export))
    if invariants:
        t += "INVARIANTS " + " ".join(invariants) + "\n"
    for p in props:
        t += "PROPERTY " + p + "\n"
    if view:
        t += "VIEW " + view + "\n"
    t += "CHECK_DEADLOCK FALSE\n"
    return t


JUDGE_CFG = ("SPECIFICATION JSpec\nCONSTANTS\n  MaxLen = 1\n  DSizes = {1}\n  CSizesStored = {}\n  CSizesRle = {}\n  CutPolicy = \"max\"\n"
             "  FIXED = TRUE\n  MaxFault = 0\n  AllowEmpty = FALSE\n  Canonical = FALSE\n  DoExport = FALSE\nINVARIANT Judge\nCHECK_DEADLOCK FALSE\n")
TRACE_CFG = "SPECIFICATION Spec\nINVARIANT Judge\nCHECK_DEADLOCK FALSE\n"


def syms(s):
    return list(s)


# ---------------------------------------------------------------- harness I/O
def run_harness(ctx, binp, mode, inp, verbose=False, timeout=1500):
    d = ctx.subdir("h")
    n = len(os.listdir(d))
    fin = os.path.join(d, "in%d.json" % n)
    fout = os.path.join(d, "out%d.json" % n)
    with open(fin, "w") as f:
        json.dump(inp, f)
    cmd = [binp, "-mode", mode, "-in", fin, "-out", fout, "-tmpdir", ctx.subdir("tmpfiles")]
    if verbose:
        cmd.append("-v")
    r = ctx.run(cmd, timeout=timeout)
    if r.returncode != 0:
        raise ToolingError("racwreplay failed (%d): %s" % (r.returncode, (r.stderr or "")[-3000:]))
    return json.load(open(fout))


def shapes_for_tlc(shapes):
    out = []
    for s in shapes:
        t = dict(s)
        t["letters"] = list(s["replies"])
        out.append(t)
    return out


def judge(ctx, scripts, rows, shapes, reals, traces, label):
    """Run RacWriter!Judge and Trace_RacFormat!Judge (in parallel); return the
    list of REJECT records."""
    res = {}

    def a():
        res["j"] = ctx.tlc("RacWriter", cfg="judge.cfg", data={
            "judge.cfg": JUDGE_CFG, "scripts.json": json.dumps(scripts), "rows.json": json.dumps(rows),
            "shapes.json": json.dumps(shapes_for_tlc(shapes)), "real.json": json.dumps(reals)},
            timeout=3000, workers=4, label="judge " + label)

    def b():
        res["t"] = ctx.tlc("Trace_RacFormat", cfg="trace.cfg", data={
            "trace.cfg": TRACE_CFG, "traces.json": "[" + ",".join(json.dumps(t) for t in traces) + "]"},
            timeout=3000, workers=4, label="format " + label)

    errs = []

    def wrap(f):
        def g():
            try:
                f()
            except Exception as e:  # re-raised in the main thread
                errs.append(e)
        return g
    ths = []
    if rows or shapes or reals:
        ths.append(threading.Thread(target=wrap(a)))
    if traces:
        ths.append(threading.Thread(target=wrap(b)))
    for t in ths:
        t.start()
    for t in ths:
        t.join()
    if errs:
        raise errs[0]
    rejects = []
    for k in ("j", "t"):
        r = res.get(k)
        if r is None:
            continue
        if r["error"] or not r["finished"] or r["violated"]:
            raise ToolingError("TLC did not complete the judgement (%s):\n%s" % (r["label"], r["out"][-3000:]))
        want = (len(rows) + len(shapes) + len(reals)) if k == "j" else len(traces)
        if r["distinct"] != want:
            raise ToolingError("TLC judged %d items, expected %d (%s)" % (r["distinct"], want, r["label"]))
        seen = set()
        for o in parse_tlc_prints(r["out"]):
            if isinstance(o, dict) and o.get("verdict") == "REJECT":
                key = (o["kind"], o["idx"])
                if key not in seen:
                    seen.add(key)
                    rejects.append(o)
    return rejects


# ------------------------------------------------------------- configurations
def script_cfgs(ctx, thorough, fix2):
    rng = ctx.rng
    M = lambda **kw: dict({"codec": "model", "guise": "long", "index": "end", "temp": "none", "page": 0, "res": 0,
                           "faults": True, "every": 1, "offset": 0, "kinds": []}, **kw)
    sp = (lambda e: max(1, e // 2)) if thorough else (lambda e: e)   # thorough: denser sampling
    def off(e):
        return rng.randrange(sp(e))
    cf = [M(name="base")]
    for name, kw, e in [
        ("start/buffer", dict(index="start", temp="buffer"), 4),
        ("start/seeker/page4", dict(index="start", temp="seeker", page=4), 8),
        ("start/file/page128", dict(index="start", temp="file", page=128), 100),
        ("end/page4", dict(page=4), 5),
        ("end/page128/partial-writes", dict(page=128, partial=True), 8),
        ("end/page4096", dict(page=4096, faults=False), 12),
        ("start/seeker/page4096", dict(index="start", temp="seeker", page=4096, faults=False), 16),
        ("short/res2", dict(guise="short", res=2), 5),
        ("short/res3/start/seeker/page4", dict(guise="short", res=3, index="start", temp="seeker", page=4), 12),
        ("short/res1/start/buffer/page128", dict(guise="short", res=1, index="start", temp="buffer", page=128), 9),
    ]:
        cf.append(M(name=name, every=sp(e), offset=off(e), **kw))
    # the construct of known finding 2 (Long Codec + shared resources): one small configuration
    cf.append(M(name="long/res2", res=2, every=sp(40) if not fix2 else sp(4), offset=off(40) if not fix2 else off(4), faults=False))
    R = lambda **kw: dict({"index": "end", "temp": "none", "page": 0, "res": 0, "faults": True, "offset": 0, "cbase": 10}, **kw)
    cf += [
        R(name="zlib/D", codec="zlib", kinds=["D"], every=sp(8), offset=off(8)),
        R(name="zlib/C", codec="zlib", kinds=["C"], every=sp(16), offset=off(16), cbase=rng.choice([9, 10, 11, 12])),
        R(name="zlib/start/buffer/page4", codec="zlib", index="start", temp="buffer", page=4, every=sp(24), offset=off(24)),
        R(name="lz4/D", codec="lz4", kinds=["D"], every=sp(24), offset=off(24)),
        R(name="zstd/D/start/seeker", codec="zstd", kinds=["D"], index="start", temp="seeker", every=sp(24), offset=off(24)),
    ]
    return cf


def real_jobs(ctx, thorough):
    rng = ctx.rng
    S = lambda: rng.randrange(1, 2 ** 31)
    J = lambda **kw: dict({"index": "end", "temp": "none", "page": 0, "res": 0, "dchunk": 0, "cchunk": 0, "zero": 0.75,
                           "maxwrite": 300, "faults": 12, "avoid": False, "len": 20000, "seed": S()}, **kw)
    nf = -1 if thorough else 12
    nd = 12 if thorough else 2          # jobs with dictionaries: every chunk is compressed once per dictionary
    jobs = [
        # the design-phase probe: CChunkSize 200, zlib, ~75% zeroes, writes of 1..300 bytes
        J(name="zlib/C200/probe", codec="zlib", cchunk=200, faults=nf),
        J(name="zlib/C200/start/buffer", codec="zlib", cchunk=200, index="start", temp="buffer", page=128),
        J(name="zlib/C%d/bigwrites" % 1000, codec="zlib", cchunk=1000, maxwrite=5000, len=40000),
        J(name="zlib/C4096/one-write", codec="zlib", cchunk=4096, maxwrite=0, len=60000, page=4096),
        J(name="zlib/C300/avoid", codec="zlib", cchunk=300, avoid=True),
        J(name="zlib/D64", codec="zlib", dchunk=64, len=12000, faults=nf),
        J(name="zlib/D1000/start/file/page4096", codec="zlib", dchunk=1000, index="start", temp="file", page=4096),
        J(name="zlib/D5000/res2", codec="zlib", dchunk=5000, res=2, zero=0.3, len=40000, maxwrite=7000, faults=nd),
        J(name="zlib/D3000/res3/start/seeker", codec="zlib", dchunk=3000, res=3, zero=0.2, len=30000, index="start", temp="seeker", page=128, faults=nd),
        J(name="lz4/D700", codec="lz4", dchunk=700),
        J(name="zstd/D4000/res2", codec="zstd", dchunk=4000, res=2, zero=0.3, len=30000, maxwrite=3000, faults=nd),
        J(name="zstd/D333/start/buffer", codec="zstd", dchunk=333, index="start", temp="buffer", page=4),
        # model codec on larger data: the short-CSize / grow paths of writeCChunks, multi-level indexes
        J(name="model-rle/C24", codec="model", kind="rle", cchunk=24, len=6000, zero=0.85, maxwrite=100, faults=nf),
        J(name="model-rle/C7/avoid", codec="model", kind="rle", cchunk=7, len=3000, zero=0.9, maxwrite=40, avoid=True),
        J(name="model-stored/D1/2-level-index", codec="model", kind="stored", dchunk=1, len=700, zero=0.5, maxwrite=50),
        J(name="model-short/D1/res40/2-level", codec="model", kind="stored", guise="short", dchunk=1, res=40, len=600, zero=0.4, maxwrite=64,
          index="start", temp="seeker", page=4),
        J(name="model-short/D2/res200", codec="model", kind="stored", guise="short", dchunk=2, res=200, len=900, zero=0.4),
    ]
    # the configuration product {index at start, at end} x {page sizes} on MULTI-level indexes (> 255 chunks): child
    # pointers of branch nodes are the only place where index offset, page padding and index location meet
    # (seeded change C13-m2: a two-level index at the end of a page-padded file with unpadded child offsets)
    for ix, tmp in (("end", "none"), ("start", "buffer"), ("start", "seeker")):
        for pg in (4, 64, 4096):
            jobs.append(J(name="model-stored/D1/2-level/%s/%s/page%d" % (ix, tmp, pg), codec="model", kind="stored", dchunk=1,
                          len=(301 if pg == 64 else rng.choice([517, 700])), zero=0.4, maxwrite=64, index=ix, temp=tmp, page=pg,
                          # every single (transient) fault point of the underlying writer / temp file, including each
                          # write of an index node during Close (seeded change C13-m3: the error of a non-last child
                          # branch node write was overwritten by the next child's nil)
                          faults=(-1 if pg == 64 else 0)))
    # the 8-bit CLen field (units of 1024 bytes, 0 = "up to CPtrMax") shares its index word with the STag byte: primary
    # sizes on both sides of 1 KiB, 255 KiB and 256 KiB, in chunks that use shared resources (the model codec's
    # compressed size is dchunk + 1, + 4 with a resource) (seeded change C13-m6: CLen 256 spilled into the STag)
    for dc in ([1019, 1020, 261115, 261116, 261600, 262138, 262139] if thorough else [1019, 261116, 262138, 262139]):
        jobs.append(J(name="model-short/D%d/res2/clen-window" % dc, codec="model", kind="stored", guise="short", dchunk=dc, res=2,
                      len=4 * dc + 7, zero=0.4, maxwrite=70000, faults=0))
    jobs.append(J(name="zlib/D16/2-level/end/page128", codec="zlib", dchunk=16, len=16 * 300 + 5, zero=0.3, page=128, faults=2))
    if thorough:
        for i in range(8):
            jobs.append(J(name="zlib/C%d/rand%d" % (0, i), codec="zlib", cchunk=rng.choice([64, 150, 200, 500, 2000]),
                          maxwrite=rng.choice([30, 300, 3000]), zero=rng.choice([0.5, 0.75, 0.9]), avoid=(i % 2 == 1),
                          index=rng.choice(["end", "start"]), temp="buffer", page=rng.choice([0, 4, 128, 4096])))
            if jobs[-1]["index"] == "end":
                jobs[-1]["temp"] = "none"
        for i in range(6):
            jobs.append(J(name="zlib/D/rand%d" % i, codec="zlib", dchunk=rng.choice([17, 256, 1024, 9000]), maxwrite=rng.choice([1, 50, 4000]),
                          len=rng.choice([3000, 30000]), zero=rng.choice([0.5, 0.9]), res=rng.choice([0, 0, 2]), page=rng.choice([0, 4, 4096])))
        jobs.append(J(name="model-stored/D1/3-level-index", codec="model", kind="stored", dchunk=1, len=70000, zero=0.5, maxwrite=5000, faults=0))
        jobs.append(J(name="model-short/D1/res300/3-level", codec="model", kind="stored", guise="short", dchunk=1, res=300, len=30000, zero=0.3,
                      maxwrite=3000, faults=0, index="start", temp="buffer", page=128))
    return jobs


# ------------------------------------------------------------------ witnesses
def witness_inputs():
    s1 = {"sid": 1, "kind": "C", "n": 2, "codec": "stored", "calls": [syms("AZB"), syms("Z")], "cuts": [1],
          "pchunks": [], "construct": True}
    c_model = {"name": "model", "codec": "model", "guise": "long", "index": "end", "temp": "none", "page": 0, "res": 0,
               "faults": False, "every": 1, "offset": 0, "kinds": []}
    w1 = [0x41 + ((j * 7) % 23) for j in range(23)]
    w1[4] = 0
    zl = {"name": "zlib/C12/25-bytes", "codec": "zlib", "index": "end", "temp": "none", "page": 0, "res": 0, "cchunk": 12, "dchunk": 0,
          "data": bytes(w1 + [0, 0x62]).hex(), "sizes": [23, 2], "faults": 0}
    s2 = {"sid": 1, "kind": "D", "n": 2, "codec": "stored", "calls": [syms("AB")], "cuts": [], "pchunks": [], "construct": False}
    c_long = dict(c_model, name="long/res2", res=2)
    return {"w1_scripts": {"scripts": [s1], "cfgs": [c_model]}, "w1_real": {"jobs": [zl]},
            "w2_scripts": {"scripts": [s2], "cfgs": [c_long]}}


def row_bad(r, script):
    want = [x for c in script["calls"] for x in c]
    n = len(script["calls"])
    return not (r["panic"] == "" and r["replies"][:n + 1] == ["ok"] * (n + 1) and r["trace"] != 0 and r["readok"] and r["readback"] == want)


def detect_tree(ctx, binp):
    """Replay the minimal witnesses of the two known findings: which behaviour
    does this tree have?"""
    w = witness_inputs()
    o1 = run_harness(ctx, binp, "scripts", w["w1_scripts"])
    b1 = row_bad(o1["rows"][0], w["w1_scripts"]["scripts"][0])
    o1r = run_harness(ctx, binp, "real", w["w1_real"])
    rr = o1r["rows"][0]
    b1r = not (rr["allok"] and rr["readok"] and rr["readsha"] == rr["origsha"])
    o2 = run_harness(ctx, binp, "scripts", w["w2_scripts"])
    b2 = row_bad(o2["rows"][0], w["w2_scripts"]["scripts"][0])
    if b1 != b1r:
        ctx.log("note: the model-codec and the zlib witness of %s disagree (model %s, zlib %s)" % (K1, b1, b1r))
    return (b1 or b1r), b2, {"w1": o1["rows"][0], "w1_zlib": rr, "w2": o2["rows"][0]}


# ----------------------------------------------------------------------- run
def run(ctx):
    thorough = ctx.tier == "thorough"
    ctx.env.setdefault("JAVA_TOOL_OPTIONS", "-XX:ParallelGCThreads=4")
    binp = ctx.go_build("./cmd/racwreplay")
    maxlen = int(os.environ.get("VERIF_C13_MAXLEN", "6" if thorough else "5"))
    canonical = True

    bug1, bug2, wit = detect_tree(ctx, binp)
    ctx.log("tree behaviour: %s %s; %s %s" % (K1, "PRESENT" if bug1 else "absent", K2, "PRESENT" if bug2 else "absent"))
    if bug1:
        ctx.violation("rac.Writer in CChunkSize mode re-orders bytes: Write(A,0,B); Write(0) with CChunkSize 2 (model codec) reads back A,0,0,B "
                      "(advancePastLeadingZeroes consumes zeroes of curr while non-zero bytes remain in prev)",
                      {"key": K1, "mode": "scripts", "input": witness_inputs()["w1_scripts"], "row": wit["w1"], "zlib_row": wit["w1_zlib"]})
    if bug2:
        ctx.violation("ChunkWriter with a Long Codec and shared resources: STag/TTag name the Codec Element instead of the resource; "
                      "Close returns nil, the file is invalid and rac.Reader fails",
                      {"key": K2, "mode": "scripts", "input": witness_inputs()["w2_scripts"], "row": wit["w2"]})

    dsizes = [1, 2, 3]
    cstored, crle = ([2, 3, 4], [3, 4, 5]) if thorough else ([2, 3], [3, 4])
    inv_all = ["TypeOK", "BetweenCalls", "CloseOK", "Sticky", "ConservationX"]

    # 1. the repaired model satisfies every property of the specification (design-level)
    results = {}

    def t_fixed():
        results["fixed"] = ctx.tlc("RacWriter", cfg="fixed.cfg", data={"fixed.cfg": impl_cfg(
            maxlen - 1, dsizes, [2, 3, 4], [3, 4, 5], "any", True, 0, True, False, False, inv_all, ["Refines"], "NoHist")},
            timeout=3000, workers=4, label="impl-layer FIXED=TRUE (all cuts, empty writes)")

    # 2. the model of the tree as it is: Conservation.  Expected to FAIL iff the tree has finding 1;
    #    the counterexample is a script for the real code.
    def t_asis():
        results["asis"] = ctx.tlc("RacWriter", cfg="asis.cfg", data={"asis.cfg": impl_cfg(
            maxlen, dsizes, [2, 3, 4], [3, 4, 5], "any", not bug1, 0, False, canonical, False, inv_all, [], "NoHist")},
            timeout=3000, workers=1 if bug1 else 4, label="impl-layer FIXED=%s conservation" % (not bug1))

    # 3. fault points inside the model (small bound): exported with expected replies
    def t_fault():
        results["fault"] = ctx.tlc("RacWriter", cfg="fault.cfg", data={"fault.cfg": impl_cfg(
            3, [1, 2], [2], [], "max", not bug1, 6, False, True, True, ["TypeOK", "Sticky", "Export"] + (["CloseOK"] if not bug1 else []))},
            timeout=3000, workers=2, label="export with fault points (MaxLen 3)")

    # 4. the exhaustive script set
    def t_export():
        results["export"] = ctx.tlc("RacWriter", cfg="export.cfg", data={"export.cfg": impl_cfg(
            maxlen, dsizes, cstored, crle, "max", not bug1, 0, False, canonical, True,
            ["TypeOK", "BetweenCalls", "Sticky", "Export"] + (["CloseOK", "ConservationX"] if not bug1 else []))},
            timeout=6000, workers=6, label="export scripts (MaxLen %d)" % maxlen)

    # 5. every Cut choice (not only the longest prefix), on a smaller bound, CChunkSize modes only
    def t_anycut():
        results["anycut"] = ctx.tlc("RacWriter", cfg="anycut.cfg", data={"anycut.cfg": impl_cfg(
            maxlen - 1, [], [3, 4], [4, 5], "any", not bug1, 0, False, canonical, True,
            ["TypeOK", "BetweenCalls", "Sticky", "Export"] + (["CloseOK", "ConservationX"] if not bug1 else []))},
            timeout=6000, workers=4, label="export scripts, every Cut choice (MaxLen %d)" % (maxlen - 1))

    errs = []
    ths = [threading.Thread(target=(lambda f=f: _guard(f, errs))) for f in (t_fixed, t_asis, t_fault, t_export, t_anycut)]
    for t in ths:
        t.start()
    for t in ths:
        t.join()
    if errs:
        raise errs[0]
    for k, r in results.items():
        if r["error"]:
            raise ToolingError("TLC error in %s:\n%s" % (r["label"], r["error"]))
    r = results["fixed"]
    if r["violated"] or not r["finished"]:
        raise ToolingError("the repaired model (FIXED=TRUE) breaks its own properties (%s):\n%s" % (r["violated"], r["out"][-3000:]))
    for st in ctx.tlc_stats:
        ctx.log("TLC %-55s %8d states %8d generated  %6.1fs" % (st["label"], st["distinct"], st["generated"], st["wall_s"]))
    ctx.log("repaired model (FIXED=TRUE): TypeOK, BetweenCalls, CloseOK, Sticky, Conservation and the refinement of the property layer hold")

    # counterexample-guided script
    r = results["asis"]
    cex = [o for o in parse_tlc_prints(r["out"]) if isinstance(o, dict) and "calls" in o]
    if bug1:
        if r["violated"] != "ConservationX" or not cex:
            raise ToolingError("the tree re-orders bytes (witness) but the as-is model does not break Conservation:\n" + r["out"][-2500:])
        c = cex[0]
        ctx.log("TLC counterexample to Conservation (as-is model, %d states): %s mode n=%d codec=%s calls=%s cuts=%s -> chunks %s" % (
            r["distinct"], c["kind"], c["n"], c["codec"], ["".join(x) for x in c["calls"]], c["cuts"],
            [(p["d"], "".join(p["x"])) for p in c["pchunks"]]))
    else:
        if r["violated"] or not r["finished"]:
            raise ToolingError("the tree passes the witness but the FIXED model breaks %s:\n%s" % (r["violated"], r["out"][-2500:]))

    # scripts
    def to_script(o, sid):
        return {"sid": sid, "kind": o["kind"], "n": o["n"], "codec": o["codec"], "calls": o["calls"], "cuts": o["cuts"],
                "pchunks": o["pchunks"], "construct": o["construct"], "ios": o["ios"], "replies": o["replies"],
                "faultat": o["faultat"], "conserved": o["conserved"]}
    exported = []
    for k in ("export", "anycut"):
        got = [o for o in parse_tlc_prints(results[k]["out"]) if isinstance(o, dict) and "calls" in o]
        if results[k]["violated"] or not results[k]["finished"] or not got:
            raise ToolingError("script export failed (%s, %s):\n%s" % (k, results[k]["violated"], results[k]["out"][-2500:]))
        exported += got
    exported = list({json.dumps(o, sort_keys=True): o for o in exported}.values())
    exported.sort(key=lambda o: json.dumps(o, sort_keys=True))
    scripts = []
    if bug1 and cex:
        scripts.append(to_script(cex[0], 1))          # the counterexample goes first
    for o in exported:
        scripts.append(to_script(o, len(scripts) + 1))
    n_flag = sum(1 for s in scripts if s["construct"])
    ctx.log("%d scripts exported by TLC (%d reach the known construct)" % (len(scripts), n_flag))
    fault_behaviours = [o for o in parse_tlc_prints(results["fault"]["out"]) if isinstance(o, dict) and "calls" in o]
    if results["fault"]["violated"] or not results["fault"]["finished"] or not fault_behaviours:
        raise ToolingError("fault-point export failed:\n" + results["fault"]["out"][-2500:])

    # 5. replay on the real code
    cfgs = script_cfgs(ctx, thorough, not bug2)
    t0 = time.time()
    out = run_harness(ctx, binp, "scripts", {"scripts": scripts, "cfgs": cfgs})
    ctx.log("replayed %d fault-free runs (%d distinct outcomes), %d fault runs (%d shapes), %d distinct index traces in %.1fs" % (
        out["stats"]["runs"], len(out["rows"]), out["stats"]["fault_runs"], len(out["shapes"]), len(out["traces"]), time.time() - t0))

    # 5b. TLC's behaviours with a fault point, replayed literally on the base configuration
    fb_scripts, fb_rows_expected = [], []
    for o in sorted(fault_behaviours, key=lambda o: json.dumps(o, sort_keys=True)):
        fb_scripts.append(to_script(o, len(fb_scripts) + 1))
    fb_out = replay_fault_behaviours(ctx, binp, fb_scripts)

    # 6. real data
    jobs = real_jobs(ctx, thorough)
    t0 = time.time()
    rout = run_harness(ctx, binp, "real", {"jobs": jobs}, timeout=3000)
    ctx.log("real-data: %d jobs, %d fault runs (%d shapes), %d traces in %.1fs" % (
        len(rout["rows"]), rout["stats"]["fault_runs"], len(rout["shapes"]), len(rout["traces"]), time.time() - t0))

    # 7. TLC judges everything the real code did
    shapes = out["shapes"] + rout["shapes"] + fb_out["shapes"]
    traces = out["traces"] + rout["traces"]
    reals = []
    for r in rout["rows"]:
        r = dict(r)
        if r["trace"]:
            r["trace"] += len(out["traces"])
        reals.append(r)
    # canaries: one recorded field of a row / shape / real row / trace is corrupted on purpose; TLC must reject
    # exactly these (a judgement that accepts everything would be vacuous)
    import copy
    canary = {}
    good_row = next((r for r in out["rows"] if r["trace"] and r["readok"] and len(r["readback"]) >= 2), None)
    rows_j, shapes_j, reals_j, traces_j = list(out["rows"]), list(shapes), list(reals), list(traces)
    if good_row:
        r = copy.deepcopy(good_row)
        r["readback"][0] = "B" if r["readback"][0] != "B" else "A"
        rows_j.append(r)
        canary[("row", len(rows_j))] = "readback-differs"
        r = copy.deepcopy(good_row)
        if r["haschunks"] and r["chunks"]:
            r["chunks"][0]["d"] += 1
            rows_j.append(r)
            canary[("row", len(rows_j))] = "chunks-differ-from-written"
    fs = next((s for s in shapes if s["f"] and s["f"] < s["n"] - 1), None)
    if fs:
        s = copy.deepcopy(fs)
        s["replies"] = s["replies"][:s["n"] - 2] + "O" + s["replies"][s["n"] - 1:]
        shapes_j.append(s)
        canary[("shape", len(shapes_j))] = "fault-not-sticky"
    if reals:
        r = copy.deepcopy(next((x for x in reals if x["trace"]), reals[0]))
        r["readsha"] = "0" * 16
        reals_j.append(r)
        canary[("real", len(reals_j))] = "readback-differs"
    if traces:
        base_t = next((t for t in traces if t["leaves"]), traces[0])
        t = copy.deepcopy(base_t)
        t["visits"][0]["cklisted"] = (t["visits"][0]["cklisted"] + 1) % 65536
        traces_j.append(t)
        canary[("trace", len(traces_j))] = "checksum"
        t = copy.deepcopy(base_t)
        rootv = next(v for v in t["visits"] if v["v"] == t["leaves"][-1]["parent"])
        rootv["dptr"][-1] += 1                     # DPtrMax off by one (checksum left as recorded)
        traces_j.append(t)
        canary[("trace", len(traces_j))] = "leaf-drange"
        t = copy.deepcopy(base_t)
        t["visits"][0]["version"] = 2
        traces_j.append(t)
        canary[("trace", len(traces_j))] = "version"
    rejects_all = judge(ctx, scripts, rows_j, shapes_j, reals_j, traces_j, "all")
    rejects = []
    for o in rejects_all:
        k = (o["kind"], o["idx"])
        if k in canary:
            if canary[k] not in o["reasons"]:
                raise ToolingError("canary %s rejected for %s, expected %s" % (k, o["reasons"], canary[k]))
            canary[k] = None
        else:
            rejects.append(o)
    missed = [k for k, v in canary.items() if v is not None]
    if missed:
        raise ToolingError("TLC accepted deliberately corrupted items: %s" % missed)
    ctx.log("%d deliberately corrupted rows/shapes/traces were all rejected by TLC; %d genuine items rejected" % (len(canary), len(rejects)))

    # 8. classification
    n_viol = 0
    # at most CAP violations are written out per kind and reason set; the rest is counted
    CAP = 3
    seen_classes = {}
    suppressed = [0]
    _violation = ctx.violation

    def capped(what, rp, cls):
        if "key" in rp:
            return _violation(what, rp)
        seen_classes[cls] = seen_classes.get(cls, 0) + 1
        if seen_classes[cls] > CAP:
            suppressed[0] += 1
            return True
        return _violation(what, rp)
    for o in rejects:
        if o["kind"] == "row":
            row = out["rows"][o["idx"] - 1]
            sid, ci = row["samples"][0]
            s, c = scripts[sid - 1], cfgs[ci - 1]
            rp = {"mode": "scripts", "input": {"scripts": [dict(s, sid=1)], "cfgs": [dict(c, every=1, offset=0, faults=False)]},
                  "reasons": o["reasons"], "row": row, "same_outcome_runs": row["count"]}
            if (bug1 and s["kind"] == "C" and s["construct"] and set(o["reasons"]) <= {"chunks-differ-from-written", "readback-differs"}):
                rp["key"] = K1
            elif (bug2 and c.get("codec") == "model" and c.get("guise", "long") == "long" and c.get("res", 0) > 0
                  and set(o["reasons"]) <= {"reader-error", "readback-differs"}):
                rp["key"] = K2
            what = "rac.Writer run rejected by RacWriter!RowReasons %s: %s mode n=%d, Write calls %s, configuration %s: replies %s, chunks in file %s, read back %s %s" % (
                o["reasons"], s["kind"], s["n"], ["".join(x) for x in s["calls"]], c["name"], row["replies"],
                [(p["d"], "".join(p["x"])) for p in row["chunks"]], "".join(row["readback"]), row["readerr"])
            n_viol += bool(capped(what, rp, ("row", tuple(o["reasons"]), c["name"])))
        elif o["kind"] == "shape":
            sh = shapes[o["idx"] - 1]
            what = "fault run rejected by RacWriter!StickyReasons %s: %d calls, fault (%s) fired in call %d, replies %s (%d runs; e.g. %s)" % (
                o["reasons"], sh["n"], sh["op"], sh["f"], sh["replies"], sh["count"], sh["sample"])
            n_viol += bool(capped(what, {"mode": "shape", "shape": sh, "reasons": o["reasons"]}, ("shape", tuple(o["reasons"]), sh["op"])))
        elif o["kind"] == "real":
            row = reals[o["idx"] - 1]
            job = jobs[row["job"] - 1]
            rp = {"mode": "real", "input": {"jobs": [job]}, "reasons": o["reasons"], "row": row}
            if (bug1 and job.get("cchunk") and not job.get("dchunk") and row["shiftrun"] and row["shiftedok"]
                    and set(o["reasons"]) <= {"readback-differs"}):
                rp["key"] = K1
            what = "real-data run '%s' rejected by RacWriter!RealReasons %s: %d calls, replies ok=%s, read back %d/%d bytes, first difference at %d, error %s%s" % (
                job["name"], o["reasons"], row["ncalls"], row["allok"], row["readlen"], row["origlen"], row["firstdiff"],
                row["readerr"] or row["firsterr"], " (passes when no Write starts with a zero byte)" if row["shiftrun"] and row["shiftedok"] else "")
            n_viol += bool(capped(what, rp, ("real", tuple(o["reasons"]))))
    for o in rejects:
        if o["kind"] != "trace":
            continue
        if "OUT-OF-MODEL" in o["reasons"] or "walker-truncated" in o["reasons"]:
            raise ToolingError("a produced file is outside the model of Trace_RacFormat: %s" % o["reasons"])
        tr = traces[o["idx"] - 1]
        rp = {"mode": "trace", "reasons": o["reasons"], "trace": tr}
        where = ""
        if o["idx"] <= len(out["traces"]):
            sid, ci = out["tracesamples"][o["idx"] - 1]
            s, c = scripts[sid - 1], cfgs[ci - 1]
            rp["input"] = {"scripts": [dict(s, sid=1)], "cfgs": [dict(c, every=1, offset=0, faults=False)]}
            rp["mode"] = "scripts"
            where = "%s mode n=%d, Write calls %s, configuration %s" % (s["kind"], s["n"], ["".join(x) for x in s["calls"]], c["name"])
            if (bug2 and c.get("codec") == "model" and c.get("guise", "long") == "long" and c.get("res", 0) > 0 and
                    {"stag-names-codec-element", "ttag-names-codec-element"} & set(o["reasons"])):
                rp["key"] = K2
        else:
            job = jobs[rout["tracesamples"][o["idx"] - 1 - len(out["traces"])][0] - 1]
            rp["input"] = {"jobs": [job]}
            rp["mode"] = "real"
            where = "real-data job " + job["name"]
        what = "file produced by rac.Writer (Close = nil) rejected by Trace_RacFormat %s: %s" % (o["reasons"], where)
        n_viol += bool(capped(what, rp, ("trace", tuple(o["reasons"]))))
    if suppressed[0]:
        ctx.log("%d further rejected items of the same kinds are not written out (%d rejected in total)" % (suppressed[0], len(rejects)))

    # model fidelity (not a verdict): how often did the implementation-shaped layer predict the chunks exactly
    base_ok, base_total = out["stats"]["pred_ok"][0], out["stats"]["pred_total"][0]
    ctx.log("implementation-shaped layer predicted the chunk list of the real code in %d of %d base-configuration runs" % (base_ok, base_total))
    if base_total and base_ok < 0.9 * base_total:
        ctx.notes.append("low model fidelity: %d/%d" % (base_ok, base_total))

    nonzero_real = sum(1 for r in reals if r["nchunks"] > 1)
    fault_runs = out["stats"]["fault_runs"] + rout["stats"]["fault_runs"] + fb_out["stats"]["fault_runs"]
    fault_fired = out["stats"]["fault_fired"] + rout["stats"]["fault_fired"] + fb_out["stats"]["fault_fired"]
    ops = {}
    for st in (out["stats"], rout["stats"], fb_out["stats"]):
        for k, v in st["fault_ops"].items():
            ops[k] = ops.get(k, 0) + v
    samples = []
    for s in (scripts[:1] + [scripts[len(scripts) // 3], scripts[-1]]):
        samples.append({"script": {"mode": s["kind"], "n": s["n"], "codec": s["codec"], "calls": ["".join(x) for x in s["calls"]], "cuts": s["cuts"],
                                   "model_chunks": [[p["d"], "".join(p["x"])] for p in s["pchunks"]], "reaches_known_construct": s["construct"]}})
    samples.append({"fault_shape": shapes[len(shapes) // 2]})
    samples.append({"real_row": {k: reals[0][k] for k in ("name", "ncalls", "origlen", "readlen", "nchunks", "csize", "ops", "zerofrac")}})
    samples.append({"index_trace_visit": {k: traces[-1]["visits"][0][k] for k in ("coff", "arity", "dptr", "ttag", "cptr", "clen", "stag", "codecbyte")}
                    if isinstance(traces[-1], dict) else "n/a"})
    nontrivial = sum(1 for s in scripts if len(s["pchunks"]) >= 2 or len(s["calls"]) >= 2)
    ctx.evidence("model_checking", {
        "states": sum(t["distinct"] for t in ctx.tlc_stats),
        "transitions": sum(t["generated"] for t in ctx.tlc_stats),
        "traces_validated_against_impl": out["stats"]["runs"] + len(reals) + fault_runs + len(traces),
        "samples": samples,
        "evaluations": out["stats"]["runs"] + len(reals) + fault_runs,
        "distinct_nontrivial": nontrivial,
        "rule": "scripts = terminal states of RacWriter.tla (every payload over {Z,A,B} of length <= %d%s x every partition into Write calls x "
                "DChunkSize 1..3, small CChunkSizes x abstract codecs stored/rle x Cut choices %s); a script is non-trivial when it has >= 2 Write calls or "
                ">= 2 chunks; every script runs on the base configuration and on seeded samples of %d other configurations; every run with faults enabled is "
                "repeated with the k-th underlying call failing for every k" % (maxlen, " with first non-zero byte A" if canonical else "",
                                                                            "longest prefix; every choice up to length %d" % (maxlen - 1), len(cfgs) - 1),
        "exhaustive": True,
        "scripts": len(scripts),
        "scripts_reaching_known_construct": n_flag,
        "fault_free_runs": out["stats"]["runs"],
        "distinct_outcomes_judged": len(out["rows"]),
        "fault_runs": fault_runs,
        "fault_runs_where_fault_fired": fault_fired,
        "fault_ops": ops,
        "fault_shapes_judged": len(shapes),
        "tlc_fault_behaviours_replayed": len(fb_scripts),
        "tlc_fault_behaviours_reply_agreement": fb_out["agree"],
        "index_traces_judged": len(traces),
        "real_data_jobs": len(reals),
        "real_data_jobs_multi_chunk": nonzero_real,
        "real_data_chunks_using_shared_resources": sum(r["resused"] for r in reals),
        "real_data_bytes": sum(r["origlen"] for r in reals),
        "model_fidelity_base_cfg": [base_ok, base_total],
        "configurations": [c["name"] for c in cfgs],
        "tree": {K1: bool(bug1), K2: bool(bug2)},
        "maxlen": maxlen,
    }, assumptions=[
        "A and B are interchangeable for rac.Writer (quick tier enumerates payloads whose first non-zero byte is A)",
        "the model codec (harness/cmd/racwreplay/modelcodec.go) is a legitimate CodecWriter/CodecReader pair; its size function is RacWriter!CSize",
        "byte equality of large read-backs is decided by SHA-256 in the harness; chunk contents of LZ4/Zstandard files are not decoded by the walker",
        "a failing underlying call fails once (transient); calls after it succeed",
    ])


def _guard(f, errs):
    try:
        f()
    except Exception as e:
        errs.append(e)


def replay_fault_behaviours(ctx, binp, fb_scripts):
    """TLC's behaviours that contain a fault point k: replay them literally on
    the base configuration (model codec, index at end, no padding) where the
    model's numbering of the underlying calls is the code's.  The replies are
    judged by StickyReasons like every other fault run; agreement with the
    model's expected replies is recorded (fidelity, not a verdict)."""
    base = {"name": "base", "codec": "model", "guise": "long", "index": "end", "temp": "none", "page": 0, "res": 0,
            "faults": True, "every": 1, "offset": 0, "kinds": []}
    lit = [dict(s, pchunks=[]) for s in fb_scripts if s["faultat"] > 0]
    out = run_harness(ctx, binp, "scripts", {"scripts": lit, "cfgs": [base]})
    by_sid = {l["sid"]: l for l in out["literals"]}
    agree = total = 0
    for s in lit:
        want = "".join("O" if x == "ok" else "E" for x in s["replies"]) + "E"     # + the harness's second Close
        got = by_sid.get(s["sid"])
        total += 1
        if got and got["replies"] == want:
            agree += 1
        elif total - agree <= 3:
            ctx.log("note: model/code disagreement on a fault behaviour: %s mode n=%d calls %s fault point %d: model %s, code %s" % (
                s["kind"], s["n"], ["".join(x) for x in s["calls"]], s["faultat"], want, got and got["replies"]))
    return {"shapes": out["shapes"], "stats": out["stats"], "agree": [agree, total]}


# -------------------------------------------------------------------- replay
def replay(ctx, path):
    doc = json.load(open(path))
    rep = doc["replay"]
    print(doc.get("what", ""))
    ctx.env.setdefault("JAVA_TOOL_OPTIONS", "-XX:ParallelGCThreads=4")
    binp = ctx.go_build("./cmd/racwreplay")
    mode = rep.get("mode")
    if mode == "scripts":
        out = run_harness(ctx, binp, "scripts", rep["input"], verbose=True)
        for r in out["rows"]:
            print("replies", r["replies"], r.get("errs"), "chunks", [(p["d"], "".join(p["x"])) for p in r["chunks"]],
                  "readback", "".join(r["readback"]), r["readerr"], "file", r.get("filehex", ""))
        rejects = judge(ctx, rep["input"]["scripts"], out["rows"], out["shapes"], [], out["traces"], "replay")
        if "zlib" in rep:
            out = run_harness(ctx, binp, "real", rep["zlib"]["input"])
            for r in out["rows"]:
                print("zlib witness:", json.dumps(r))
            rejects += judge(ctx, [], [], out["shapes"], out["rows"], out["traces"], "replay-zlib")
    elif mode == "real":
        out = run_harness(ctx, binp, "real", rep["input"])
        for r in out["rows"]:
            print(json.dumps(r))
        rejects = judge(ctx, [], [], out["shapes"], out["rows"], out["traces"], "replay")
    elif mode == "shape":
        rejects = judge(ctx, [], [], [rep["shape"]], [], [], "replay")
    else:
        rejects = judge(ctx, [], [], [], [], [rep["trace"]], "replay")
    for o in rejects:
        print("REJECTED:", json.dumps(o))
        ctx.violation("replay of %s: rejected %s" % (os.path.basename(path), o["reasons"]), dict(rep, reasons=o["reasons"]))
    if not rejects:
        print("replay: accepted (the violation does not reproduce on this tree)")

"""C08 - generated objects enforce their call protocol and the I/O buffer contract.

Mode R + V: spec/WuffsObject.tla is the life-cycle / call-protocol state machine
of a generated object (magic word, suspended coroutine, image-decoder call
sequence with implicit calls, metadata side track and restart_frame, what the
caller has offered of the source).  TLC (a) checks the model's own safety
properties on the complete model of every object kind, (b) enumerates ALL action
histories up to a depth over per-scenario alphabets and exports them with the
expected reply pattern of every step.  harness/c/protodrive.c, compiled against
the C that the working tree's `wuffs gen` / `wuffs-c gen` produce (std, and a
two-coroutine test object harness/testdata/c08/twocoro.wuffs), realises every
history on real objects and logs one event per call (status string, I/O buffer
indexes and hashes before / after).  The recorded jobs are merged into a prefix
tree and TLC accepts or rejects every node against spec/Trace_Proto.tla, which
follows WuffsObject's step relation (the observed status must match a reply the
model allows in a state compatible with the history so far) and evaluates the
I/O clauses of spec/IOClauses.tla on every call.
"""
import json, os, re, time, shutil, subprocess, concurrent.futures as cf
from vlib import ToolingError, VERIF, REPO, NCPU, parse_tlc_prints
import stdbuild, stdtrace

META = {
    "level": "model_checking",
    "technique": "explicit TLA+ life-cycle/call-protocol specification (WuffsObject.tla) model-checked by TLC (safety properties on the "
                 "complete model of every object kind); ALL action histories up to a fixed depth over per-scenario alphabets exported "
                 "by TLC and realised by a C driver on the freshly generated C of 13 std objects and a generated two-coroutine test "
                 "object; every recorded call validated by TLC against Trace_Proto.tla (reply allowed by the model in a state compatible "
                 "with the history; I/O clauses of IOClauses.tla on every call)",
    "text": "Exhaustive over call histories up to the stated depth for each scenario alphabet (initialize variants x memory states, "
            "coroutine calls with a complete / partial / absent / closed-truncated / damaged source and with or without destination "
            "room, NULL arguments, NULL receiver, non-coroutine methods, pure getters; for image decoders every order of "
            "decode_image_config / decode_frame_config / decode_frame / tell_me_more / restart_frame with 1 and 2 frames and the "
            "metadata side track). Exhaustive on the generated test object and on one std object of every kind (rotating with the "
            "seed), a seeded sample of the same histories on the other std objects (5% quick, 15% thorough); random deeper "
            "histories (TLC -simulate, depth 8) in the thorough tier.",
    "note": "Trusted: TLC, gcc (+ASan/UBSan), the driver's hashing and its realisation of abstract actions (protodrive.c header). The "
            "model is nondeterministic where documents and property are silent (how many bytes a call needs; what follows an error of "
            "a non-coroutine method: state Limbo; tell_me_more out of sequence may answer '#bad call sequence' or '#no more "
            "information'). Inputs are one valid file per object; histories beyond the depth are sampled only.",
}

# ----------------------------------------------------------------------------- targets
# object -> (kind, [(file stem, nframes, has_meta)])
TARGETS = [
    ("twocoro", "twocoro", "twocoro", 1, False),
    ("deflate", "xform", "deflate", 1, False), ("zlib", "xform", "zlib", 1, False), ("gzip", "xform", "gzip", 1, False),
    ("lzw", "xform", "lzw", 1, False), ("bzip2", "xform", "bzip2", 1, False),
    ("crc32", "hasher", "hash", 1, False), ("sha256", "hasher", "hash", 1, False),
    ("gif", "image", "gif1", 1, False), ("gif", "image", "gif2", 2, False), ("gif", "image", "gifmeta", 1, True),
    ("png", "image", "png", 1, False), ("bmp", "image", "bmp", 1, False), ("jpeg", "image", "jpeg", 1, False),
    ("wbmp", "image", "wbmp", 1, False),
    ("json", "token", "json", 1, False),
]
# configuration names of WuffsObject.tla (CfgOf): the scenario alphabets and depths (Plan) live in the specification
CONFIGS = {"xform": ("xform", 1, False), "hasher": ("hasher", 1, False), "token": ("token", 1, False), "twocoro": ("twocoro", 1, False),
           "image1": ("image", 1, False), "image2": ("image", 2, False), "imagemeta": ("image", 1, True)}
ALL_CONFIGS = "{" + ", ".join('"%s"' % c for c in sorted(CONFIGS)) + "}"

MODULES = ["BASE", "ADLER32", "CRC32", "DEFLATE", "ZLIB", "GZIP", "LZW", "BZIP2", "SHA256", "GIF", "PNG", "BMP", "JPEG", "WBMP", "JSON"]

PROP_CFG = ("SPECIFICATION Spec\nCONSTANTS\n  Configs = %s\n  Tier = \"prop\"\n  SimDepth = 0\n  DoExport = FALSE\n"
            "INVARIANT ModelOK\nVIEW PropView\nCHECK_DEADLOCK FALSE\n")
EXPORT_CFG = ("SPECIFICATION XSpec\nCONSTANTS\n  Configs = %s\n  Tier = \"%s\"\n  SimDepth = %d\n  DoExport = TRUE\n"
              "INVARIANT Export\nCHECK_DEADLOCK FALSE\n")
SURVEY_CFG = "SPECIFICATION TSpec\nCONSTANTS\n  TreeFile = \"%s\"\nINVARIANT Report\nCHECK_DEADLOCK FALSE\n"
CONFIRM_CFG = "SPECIFICATION TSpec\nCONSTANTS\n  TreeFile = \"%s\"\nINVARIANT Accepted\nCHECK_DEADLOCK FALSE\n"


def tla_bool(b):
    return "TRUE" if b else "FALSE"


# ----------------------------------------------------------------------------- inputs
def lzw_bytes():
    # literal width 8 (the decoder's default): 9-bit codes, LSB first: clear, literals, end
    codes = [256, 65, 66, 67, 65, 66, 67, 68, 257]
    acc = nb = 0
    b = bytearray()
    for c in codes:
        acc |= c << nb
        nb += 9
        while nb >= 8:
            b.append(acc & 0xFF)
            acc >>= 8
            nb -= 8
    if nb:
        b.append(acc & 0xFF)
    return bytes(b)


def gif_cut(data, frames):
    """The first `frames` images of a GIF, closed by a trailer."""
    p = 6
    flags = data[p + 4]
    p += 7
    if flags & 0x80:
        p += 3 << ((flags & 7) + 1)
    seen = 0
    while p < len(data):
        t = data[p]
        if t == 0x21:
            p += 2
            while data[p] != 0:
                p += 1 + data[p]
            p += 1
        elif t == 0x2C:
            if seen == frames:
                break
            f = data[p + 9]
            p += 10
            if f & 0x80:
                p += 3 << ((f & 7) + 1)
            p += 1
            while data[p] != 0:
                p += 1 + data[p]
            p += 1
            seen += 1
        else:
            break
    if seen != frames:
        raise ToolingError("cannot cut %d frames out of the corpus GIF" % frames)
    return data[:p] + b"\x3B"


def make_inputs(ctx):
    d = ctx.subdir("inputs")
    td = os.path.join(REPO, "test", "data")

    def rd(n):
        return open(os.path.join(td, n), "rb").read()
    anim = rd("animated-red-blue.gif")
    files = {
        "deflate": rd("romeo.txt.deflate"), "zlib": rd("romeo.txt.zlib"), "gzip": rd("romeo.txt.gz"), "bzip2": rd("romeo.txt.bz2"),
        "lzw": lzw_bytes(), "gif1": gif_cut(anim, 1), "gif2": gif_cut(anim, 2), "gifmeta": rd("artificial-gif/metadata-full.gif"),
        "png": rd("pjw-thumbnail.png"), "bmp": rd("pjw-thumbnail.bmp"), "jpeg": rd("mona-lisa.21x32.q50.jpeg"),
        "wbmp": rd("muybridge-frame-000.wbmp"), "json": rd("json-things.unformatted.json"), "twocoro": b"Wabc" * 8,
        "hash": rd("romeo.txt.gz"),
    }
    paths = {}
    for k, v in files.items():
        c = bytearray(v)
        if k == "lzw":
            c[:4] = b"\xFF\xFF\xFF\xFF"       # a first code beyond the table
        else:
            for i in range(min(4, len(c))):  # first bytes flipped
                c[i] ^= 0xFF
        pv, pc = os.path.join(d, k + ".valid"), os.path.join(d, k + ".corrupt")
        open(pv, "wb").write(v)
        open(pc, "wb").write(bytes(c))
        paths[k] = (pv, pc)
    return paths


# ----------------------------------------------------------------------------- build
def build(ctx, variant):
    t0 = time.time()
    tools = stdbuild.build_tools(ctx)
    root = stdbuild.gen_std(ctx, tools)
    two = ctx.subdir("twocoro")
    src = os.path.join(VERIF, "harness", "testdata", "c08", "twocoro.wuffs")
    r = subprocess.run([tools["wuffs-c"], "gen", "-package_name", "twocoro", src], capture_output=True, text=True, timeout=300)
    if r.returncode != 0:
        # the working tree's compiler rejects the test object: not a behaviour this property is about
        raise ToolingError("wuffs-c gen rejects harness/testdata/c08/twocoro.wuffs:\n" + r.stderr[-2000:])
    open(os.path.join(two, "wuffs-twocoro.c"), "w").write(r.stdout)
    r = subprocess.run([tools["wuffs-c"], "gen", "-package_name", "base"], capture_output=True, text=True, timeout=300)
    if r.returncode != 0:
        raise ToolingError("wuffs-c gen -package_name base failed:\n" + r.stderr[-2000:])
    open(os.path.join(two, "wuffs-base.c"), "w").write(r.stdout)
    mods = ["-DWUFFS_CONFIG__MODULES"] + ["-DWUFFS_CONFIG__MODULE__" + m for m in MODULES]
    with cf.ThreadPoolExecutor(max_workers=2) as ex:
        f1 = ex.submit(stdbuild.compile_driver, ctx, root, "protodrive.c", variant, "protodrive-std", mods, 1800)
        f2 = ex.submit(stdbuild.compile_driver, ctx, root, "protodrive.c", variant, "protodrive-two", ["-DPROTO_TWOCORO", "-I", two], 1800)
        (exe_std, log1), (exe_two, log2) = f1.result(), f2.result()
    if exe_std is None or exe_two is None:
        # generated C that gcc rejects is C11's clause; here it is a failed precondition
        raise ToolingError("driver / generated C does not compile:\n" + ((log1 if exe_std is None else log2) or "")[-3000:])
    ctx.log("drivers built (%s) in %.0f s" % (variant, time.time() - t0))
    return {"std": exe_std, "twocoro": exe_two}


# ----------------------------------------------------------------------------- model side
def model_side(ctx):
    """The safety properties of the protocol on the complete model (full alphabet) of every configuration."""
    return ctx.tlc_ok("WuffsObject", cfg="p.cfg", data={"p.cfg": PROP_CFG % ALL_CONFIGS}, workers=6, timeout=3000,
                      label="WuffsObject safety properties (all configurations, full alphabet)")


def export_histories(ctx, tier, simulate=None, simdepth=0):
    """TLC enumerates every history of every scenario alphabet of Plan up to its depth (XSpec: one behaviour per
    action sequence).  Returns {(config, scenario, depth): [{"mem", "steps": [action records], "exp": [[patterns]]}]}."""
    label = "export tier=%s%s" % (tier, " simulate" if simulate else "")
    kw = {}
    if simulate:
        kw = {"simulate": "num=%d" % simulate, "depth": simdepth + 1}
    res = ctx.tlc("WuffsObject", cfg="x.cfg", data={"x.cfg": EXPORT_CFG % (ALL_CONFIGS, tier, simdepth)}, workers=8, timeout=6000,
                  label=label, heap="6g", **kw)
    if res["error"]:
        raise ToolingError("TLC error in %s:\n%s" % (label, res["error"]))
    if res["violated"] or res["deadlock"]:
        raise ToolingError("WuffsObject.tla: %s in %s:\n%s" % (res["violated"], label, res["out"][-3000:]))
    universe = None
    out = {}
    seen = set()
    lines = res["out"].splitlines()
    res["out"] = ""
    for line in lines:
        if not (line.startswith('"{') and line.endswith('}"')):
            continue
        o = json.loads(line[1:-1].replace('\\"', '"').replace("\\\\", "\\"))
        if "universe" in o:
            universe = o["universe"]
            continue
        key = (o["c"], o["sc"], o["d"], o["s0"], tuple(o["h"]))
        if key in seen:
            continue          # (simulation draws with replacement)
        seen.add(key)
        out.setdefault((o["c"], o["sc"], o["d"]), []).append(o)
    if universe is None or not out:
        raise ToolingError("no history exported by " + label)
    res2 = {}
    for key, hs in out.items():
        u = universe[CONFIGS[key[0]][0]]
        res2[key] = [{"mem": o["s0"], "steps": [u[i - 1] for i in o["h"]], "exp": o["e"]} for o in hs]
    return res2


def step_str(a):
    return "%s:%s:%s:%s:%s" % (a["op"], a["m"], a["a"], a["f"], a["r"])


# ----------------------------------------------------------------------------- trace tree
def build_tree(jobs_events):
    """Merge the recorded jobs into a prefix tree keyed by event content.  Returns (tree, owner) where owner[node id]
    = (job id, event index) of the first job that produced the node."""
    nodes, roots, index, owner = [], [], {}, {}
    for jid, evs in jobs_events:
        parent = 0
        for ei, e in enumerate(evs):
            if e.get("k") in ("start", "end"):
                continue
            e2 = {k: v for k, v in e.items() if k not in ("j", "stderr_tail", "report", "ret", "cursor", "supplied", "n", "calls", "stop")}
            key = (parent, json.dumps(e2, sort_keys=True))
            nid = index.get(key)
            if nid is None:
                nodes.append({"ev": e2, "kids": []})
                nid = len(nodes)
                index[key] = nid
                owner[nid] = (jid, ei)
                (roots if parent == 0 else nodes[parent - 1]["kids"]).append(nid)
            parent = nid
    return {"nodes": nodes, "roots": roots}, owner


def survey(ctx, tree, label, workers=8):
    fn = "tree.json"
    res = ctx.tlc("Trace_Proto", cfg="s.cfg", data={"s.cfg": SURVEY_CFG % fn, fn: json.dumps(tree)}, workers=workers, timeout=3000,
                  label="validate " + label, heap="6g")
    if res["error"] or res["violated"]:
        raise ToolingError("TLC error validating %s:\n%s" % (label, (res["error"] or res["out"])[-3000:]))
    rej = []
    # (TLC's pretty printer wraps long tuples over several lines)
    for m in re.finditer(r'<<\s*"REJ",\s*(\d+),\s*\{([^}]*)\}\s*>>', res["out"]):
        rej.append((int(m.group(1)), re.findall(r'"([^"]+)"', m.group(2))))
    visited = res["distinct"] - 1
    res["out"] = ""
    return visited, rej


def path_to(tree, nid):
    parent = {}
    for k in tree["roots"]:
        parent[k] = 0
    for i, nd in enumerate(tree["nodes"]):
        for k in nd["kids"]:
            parent[k] = i + 1
    p = []
    while nid:
        p.append(nid)
        nid = parent[nid]
    return p[::-1]


def subtree_size(tree, nid):
    n, stack = 0, [nid]
    while stack:
        k = stack.pop()
        n += 1
        stack.extend(tree["nodes"][k - 1]["kids"])
    return n


def confirm(ctx, events, label):
    """The single recorded history as a one-path tree; the verdict is the violation of the invariant Accepted."""
    nodes = [{"ev": e, "kids": [i + 2] if i + 1 < len(events) else []} for i, e in enumerate(events)]
    tree = {"nodes": nodes, "roots": [1]}
    res = ctx.tlc("Trace_Proto", cfg="c.cfg", data={"c.cfg": CONFIRM_CFG % "tree.json", "tree.json": json.dumps(tree)}, workers=1,
                  timeout=900, label="confirm " + label)
    if res["error"]:
        raise ToolingError("TLC error confirming %s:\n%s" % (label, res["error"]))
    if res["violated"] != "Accepted":
        return None
    bads = re.findall(r"/\\ bad = (\{[^\n]*\})", res["out"])
    ns = re.findall(r"/\\ n = (\d+)", res["out"])
    return {"line": int(ns[-1]) if ns else None, "clauses": re.findall(r'"([^"]+)"', bads[-1]) if bads else []}


# ----------------------------------------------------------------------------- jobs
def make_jobs(ctx, target, hists, paths, jid0, via_rng):
    dec, kind, stem, nf, hm = target
    pv, pc = paths[stem]
    jobs, meta = [], {}
    jid = jid0
    for h in hists:
        jid += 1
        start = h["mem"] == "Ok"
        # concrete function or the generic interface wrapper of base: fixed by the first action, so that histories
        # with a common prefix stay identical event by event
        via = "direct" if (kind == "twocoro" or sum(map(ord, step_str(h["steps"][0]))) % 3 != 0) else "iface"
        j = {"id": jid, "dec": dec, "nf": nf, "hm": 1 if hm else 0, "via": via, "mem": "garbage" if h["mem"] == "Garbage" else "zero",
             "start": 1 if start else 0, "valid": pv, "corrupt": pc, "budget_ms": 20000,
             "steps": ",".join(step_str(a) for a in h["steps"])}
        jobs.append(j)
        meta[jid] = (target, h)
        # the abstract action "partial supply" at EVERY small split point: the short histories that contain one are
        # run again with the partial supply being exactly k bytes, k = 1 .. 12 (24 in the thorough tier) - a chunk
        # boundary strictly inside a fixed-size header field or a constant skip (the model's expectation is the same)
        if len(h["steps"]) <= 3 and kind != "twocoro" and any(a["op"] == "coro" and a["f"] == "half" for a in h["steps"]) \
                and all(a["a"] == "ok" for a in h["steps"]) and h["mem"] == "Ok":
            for k in range(1, (25 if ctx.tier == "thorough" else 13)):
                jid += 1
                j2 = dict(j, id=jid, halfk=k)
                jobs.append(j2)
                meta[jid] = (target, h)
    return jobs, meta, jid


def cross_check(evs):
    """Transport sanity: the driver's status class is the first byte of its status string."""
    for e in evs:
        if e.get("k") == "call":
            st = e.get("st", "")
            want = {"@": "note", "$": "susp", "#": "err"}.get(st[:1], "ok" if st == "" else "bad")
            if e.get("cls") != want:
                raise ToolingError("driver logged class %r for status %r" % (e.get("cls"), st))


def history_key(target, evs, upto):
    dec, kind, stem, nf, hm = target
    b = [e for e in evs if e.get("k") == "begin"]
    start = "ok" if (b and b[0].get("start")) else (b[0].get("mem") if b else "?")
    calls = [e for e in evs if e.get("k") == "call"][:upto]
    return "%s/%s:%s:%s" % (dec, stem, start, ";".join(step_str(e) for e in calls))


def run(ctx):
    thorough = ctx.tier == "thorough"
    t0 = time.time()
    with cf.ThreadPoolExecutor(max_workers=3) as ex:
        # quick: plain -O0 build (6 s instead of 50 s of compilation); thorough: ASan + UBSan watch the same histories
        fb = ex.submit(build, ctx, "asan" if thorough else "o0")
        fm = ex.submit(model_side, ctx)
        fx = ex.submit(export_histories, ctx, "thorough" if thorough else "quick")
        props = fm.result()
        exports = fx.result()
        exes = fb.result()
    ctx.log("model properties hold (%d distinct model states, %d transitions, %.0f s); drivers built" % (
        props["distinct"], props["generated"], props["wall_s"]))
    paths = make_inputs(ctx)
    nhist = sum(len(v) for v in exports.values())
    ctx.log("TLC exported %d histories over %d (configuration, scenario) alphabets" % (nhist, len(exports)))
    sim = {}
    if thorough:
        # (under -simulate TLC evaluates the Export invariant on every successor of the state it is about to leave:
        # the random walks come with all their last steps; a seeded sample of them is run)
        sim = export_histories(ctx, "sim", simulate=500, simdepth=8)
        nsim = sum(len(v) for v in sim.values())
        for k in sorted(sim):
            sim[k] = ctx.rng.sample(sim[k], min(len(sim[k]), 2500))
        ctx.log("TLC -simulate exported %d deeper histories, %d kept" % (nsim, sum(len(v) for v in sim.values())))

    # ---- which object runs what: exhaustive on the test object and on one object per kind, a sample on the rest
    rng = ctx.rng
    by_cfg = {}
    only = os.environ.get("C08_ONLY")     # development aid: restrict the objects
    names = {v: k for k, v in CONFIGS.items()}
    for t in TARGETS:
        if only and t[0] not in only.split(","):
            continue
        by_cfg.setdefault(names[(t[1], t[3], t[4])], []).append(t)
    primary = {}
    for cfg, ts in by_cfg.items():
        primary[cfg] = ts[ctx.seed % len(ts)]
    jobs_std, jobs_two, meta = [], [], {}
    jid = 0
    coverage = {}
    for allexp, tag in ((exports, "all"), (sim, "sim")):
        for (cfg, sc, d), hs in sorted(allexp.items()):
            for t in by_cfg.get(cfg, []):
                full = t == primary[cfg] or t[1] == "twocoro" or bool(os.environ.get("C08_FULL"))
                if full:
                    sel = hs
                elif thorough:
                    sel = rng.sample(hs, min(len(hs), max(1000, len(hs) * 15 // 100)))
                else:
                    sel = rng.sample(hs, min(len(hs), max(200, len(hs) // 20)))
                js, m, jid = make_jobs(ctx, t, sel, paths, jid, rng)
                (jobs_two if t[1] == "twocoro" else jobs_std).extend(js)
                meta.update(m)
                coverage["%s/%s %s d%d %s" % (t[0], t[2], sc, d, tag)] = {"histories": len(sel), "of": len(hs), "exhaustive": full and tag == "all"}
    ctx.log("jobs: %d on std objects, %d on the generated test object" % (len(jobs_std), len(jobs_two)))

    # ---- the real code
    ev = {}
    ev.update(stdtrace.run_jobs(ctx, exes["std"], jobs_std, sanitizer=True, shards=min(NCPU, 12)))
    ev.update(stdtrace.run_jobs(ctx, exes["twocoro"], jobs_two, sanitizer=True, shards=8))
    ctx.log("driver processes finished")
    ncalls = 0
    for jid_, evs in ev.items():
        cross_check(evs)
        ncalls += sum(1 for e in evs if e.get("k") == "call")
    skipped = [e for evs in ev.values() for e in evs if e.get("k") == "skip"]
    if skipped:
        raise ToolingError("driver skipped jobs: %s" % skipped[:3])
    ctx.log("driver runs done: %d jobs, %d calls" % (len(ev), ncalls))

    # ---- TLC validates: the jobs of all objects merged into a few prefix trees (balanced), walked in parallel
    groups = {}
    for jid_, evs in sorted(ev.items()):
        t = meta[jid_][0]
        groups.setdefault((t[0], t[2]), []).append((jid_, evs))
    nruns = 3 if len(ev) > 30000 else 1
    bins = [[] for _ in range(nruns)]
    for key, je in sorted(groups.items(), key=lambda kv: -len(kv[1])):
        min(bins, key=lambda b: sum(len(x[1]) for x in b)).append((key, je))
    results = {}

    def val_one(bi):
        je = [x for key, part in bins[bi] for x in part]
        tree, owner = build_tree(je)
        visited, rej = survey(ctx, tree, "tree %d (%s)" % (bi, ",".join(sorted(set(k[0] for k, _ in bins[bi])))), workers=max(4, NCPU // nruns))
        return bi, tree, owner, visited, rej
    with cf.ThreadPoolExecutor(max_workers=nruns) as ex:
        for bi, tree, owner, visited, rej in ex.map(val_one, [i for i in range(nruns) if bins[i]]):
            results[bi] = (tree, owner, visited, rej)
    total_nodes = sum(len(r[0]["nodes"]) for r in results.values())
    total_visited = sum(r[2] for r in results.values())
    total_rej = sum(len(r[3]) for r in results.values())
    ctx.log("TLC validated %d tree nodes (%d visited, %d rejected)" % (total_nodes, total_visited, total_rej))
    for key, (tree, owner, visited, rej) in results.items():
        hidden = sum(subtree_size(tree, nid) - 1 for nid, _ in rej)
        if visited + hidden != len(tree["nodes"]):
            raise ToolingError("trace tree %s not fully walked: %d visited + %d below rejections != %d nodes" % (
                key, visited, hidden, len(tree["nodes"])))
    report(ctx, results, ev, meta)

    # ---- evidence
    samples = []
    for key, (tree, owner, visited, rej) in sorted(results.items()):
        for nid in (len(tree["nodes"]) // 5 + 1, len(tree["nodes"]) // 2 + 1, len(tree["nodes"])):
            p = path_to(tree, nid)
            t = meta[owner[nid][0]][0]
            samples.append({"object": "%s/%s" % (t[0], t[2]),
                            "history": [step_str(tree["nodes"][k - 1]["ev"]) + " => " + repr(tree["nodes"][k - 1]["ev"].get("st"))
                                        for k in p if tree["nodes"][k - 1]["ev"].get("k") == "call"]})
    samples = samples[:8]
    replies = {}
    for key, (tree, owner, visited, rej) in results.items():
        for nd in tree["nodes"]:
            if nd["ev"].get("k") == "call":
                s = nd["ev"].get("st", "")
                if s.startswith("#") and not s.startswith("#base"):
                    s = "#<format error>"
                replies[s] = replies.get(s, 0) + 1
    ctx.evidence("model_checking", {
        "states": sum(t["distinct"] for t in ctx.tlc_stats),
        "transitions": sum(t["generated"] for t in ctx.tlc_stats),
        "traces_validated_against_impl": len(ev),
        "samples": samples,
        "model_property_states": props["distinct"],
        "model_property_transitions": props["generated"],
        "histories_exported_by_tlc": nhist,
        "histories_from_simulation": sum(len(v) for v in sim.values()),
        "histories_per_alphabet": {"%s / %s / depth %d" % k: len(v) for k, v in sorted(exports.items())},
        "jobs": coverage,
        "public_calls_logged": ncalls,
        "trace_tree_nodes_validated_by_tlc": total_nodes,
        "rejected_nodes": total_rej,
        "distinct_replies_observed": dict(sorted(replies.items(), key=lambda kv: -kv[1])[:24]),
        "objects": sorted("%s/%s" % k for k in groups),
        "wall_s_total": round(time.time() - t0, 1),
    }, assumptions=[
        "one valid input (and one damaged copy) per object; the abstract outcome 'error' is realised by a damaged first bytes / a closed truncated source",
        "histories deeper than the enumerated depth are only sampled (thorough tier)",
        "exhaustive on the generated test object and one std object per kind (rotating with the seed), a seeded sample on the others",
        "an error of a non-coroutine method puts the model into Limbo (any reply of an initialised object accepted) until the next initialize",
    ])


def sig_key(target, e, clauses):
    """Identifies a failing call by object, input, call, violated clauses and observed status (no white space: it is
    the key of a `known:` line).  When a contract clause is violated the accompanying reply mismatch is not part of
    the key (the same call is seen from model states with different expectations)."""
    cl = [c for c in clauses if not c.startswith("Reply_expected_")] or clauses
    k = "%s/%s:%s:%s:%s:%s:got=%s" % (target[0], target[2], e.get("op"), e.get("m"), e.get("a"), "+".join(sorted(cl)), e.get("st") or "ok")
    return k.replace(" ", "_")


def report(ctx, results, ev, meta, cap=6):
    """Group the rejected nodes by signature, report the shallowest history of each (confirmed by a TLC run whose
    invariant Accepted is violated)."""
    sigs = {}
    for bi, (tree, owner, visited, rej) in results.items():
        for nid, clauses in rej:
            p = path_to(tree, nid)
            e = tree["nodes"][nid - 1]["ev"]
            target = meta[owner[nid][0]][0]
            sig = sig_key(target, e, clauses)
            cur = sigs.get(sig)
            if cur is None or len(p) < cur[0]:
                sigs[sig] = (len(p), bi, nid, clauses, (cur[4] + 1) if cur else 1)
            else:
                sigs[sig] = cur[:4] + (cur[4] + 1,)
    if not sigs:
        return
    known = ctx.known_keys()
    order = sorted(sigs.items(), key=lambda kv: (kv[0] in known, kv[1][0], kv[0]))
    new = [x for x in order if x[0] not in known]
    ctx.log("%d rejection signatures (%d not in KNOWN_FINDINGS.txt); reporting the %d shallowest" % (len(order), len(new), min(cap, len(new))))
    for sig, (depth, bi, nid, clauses, count) in new[:cap] + [x for x in order if x[0] in known]:
        tree, owner = results[bi][0], results[bi][1]
        p = path_to(tree, nid)
        events = [tree["nodes"][k - 1]["ev"] for k in p]
        jid, _ = owner[nid]
        target, h = meta[jid]
        conf = confirm(ctx, events, "%s/%s node %d" % (target[0], target[2], nid))
        if conf is None:
            raise ToolingError("survey rejected node %d of tree %d but the confirmation run accepted its history" % (nid, bi))
        calls = [e for e in events if e.get("k") == "call"]
        hist_txt = ["%s => %r" % (step_str(e), e.get("st")) for e in calls]
        exp = h["exp"][len(calls) - 1] if 0 < len(calls) <= len(h["exp"]) else None
        what = ("%s (%s): trace line %d rejected by Trace_Proto.tla, clauses %s; %d recorded histories share this signature\n"
                "  history on a %s object: %s\n  replies the exported history expects for the last step (union over the model's branches): %s" % (
                    target[0], target[2], conf["line"], conf["clauses"], count,
                    "freshly initialised" if events[0].get("start") else "raw (%s memory)" % events[0].get("mem"),
                    "; ".join(hist_txt), exp))
        job = dict(id=1, dec=target[0], nf=target[3], hm=1 if target[4] else 0, via=calls[-1].get("via", "direct") if calls else "direct",
                   mem=events[0].get("mem"), start=1 if events[0].get("start") else 0, stem=target[2],
                   steps=",".join(step_str(e) for e in calls))
        ctx.violation(what, {"key": sig, "object": target[0], "input": target[2], "clauses": conf["clauses"], "job": job, "events": events,
                             "histories_with_signature": count})


def replay(ctx, path):
    rep = json.load(open(path))["replay"]
    exes = build(ctx, "asan")
    paths = make_inputs(ctx)
    job = dict(rep["job"])
    stem = job.pop("stem")
    job["valid"], job["corrupt"] = paths[stem]
    jf = os.path.join(ctx.scratch, "replay-job.txt")
    ef = os.path.join(ctx.scratch, "replay-ev.ndjson")
    open(jf, "w").write(stdtrace.job_line(job) + "\n")
    exe = exes["twocoro"] if job["dec"] == "twocoro" else exes["std"]
    r = ctx.run([exe, jf, ef], timeout=600, env=stdbuild.ASAN_ENV)
    print(r.stdout[-2000:], r.stderr[-4000:])
    evs = [json.loads(l) for l in open(ef)] if os.path.exists(ef) else []
    for e in evs:
        print(json.dumps(e))
    events = [{k: v for k, v in e.items() if k not in ("j", "ret", "cursor", "supplied", "n", "calls", "stop")} for e in evs if e.get("k") != "start"]
    conf = confirm(ctx, events, "replay")
    if conf:
        print("Trace_Proto.tla rejects line %d: %s" % (conf["line"], conf["clauses"]))
        ctx.violation("replayed history rejected: %s" % conf["clauses"], dict(rep, replayed=True))
    else:
        print("Trace_Proto.tla accepts the replayed history")

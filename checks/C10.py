"""C10 - compiled Wuffs code is hermetic: no globals, no syscalls, only pub API exported.

What a specification decides here (spec/TwoObjects.tla): a pure method is a
frame (UNCHANGED receiver and buffers) and two objects share no state - every
interleaving of two histories on two objects gives each object exactly its solo
trace.  Binding: the driver probes every pure method of the generic interfaces
around every decode with a byte-for-byte snapshot of the object, and runs pairs
of jobs on two objects interleaved call by call in one process (baton mode) and
concurrently in two threads (TSan build, thorough tier); TLC validates the
recorded traces (Trace_Std.tla, Mode "same" against the solo runs; clause
PureLeavesReceiverUnchanged).

Side conditions that tie the model's assumptions to the binary (not decided by
TLC, stated as such): section sizes, undefined symbols and exported symbols of
the plainly compiled object of the freshly generated std and of generated
programs (size -A, nm, objdump -r)."""
import glob, json, os, re, subprocess
import stdbuild, stdtrace, stdinputs, wcorepipe
from vlib import ToolingError, REPO, VERIF

META = {
    "level": "other",
    "technique": "TLA+ frame/isolation specification (TwoObjects.tla) model-checked; pure-method snapshots and interleaved two-object runs of the generated C validated by TLC (Trace_Std.tla); object-file side conditions by size/nm/objdump",
    "text": "Isolation and the pure-method frame condition are stated in TLA+ and checked on recorded traces of the real generated code (snapshots around pure calls, baton-interleaved and concurrent pairs of decodes compared with solo runs). The symbol-table and section clauses are properties of an object file, checked directly with binutils on the object compiled from the working tree's generated C: writable sections empty, undefined symbols within the allowed set, calloc/free referenced only from alloc functions, exported functions of every Wuffs-compiled package = its pub methods + initialize/alloc/sizeof.",
    "note": "Trusted: binutils, gcc -ffunction-sections (relocations are attributed per function), the pub-declaration scan of std/*.wuffs. The base package's hand-written C support code is observed but not judged by the exported-symbol clause (it is not a Wuffs-compiled package).",
}

ALLOWED_UNDEF = {"memcpy", "memmove", "memset", "memcmp", "calloc", "free"}
TWO_CFG = "SPECIFICATION Spec\nCONSTANTS NSteps = %d\nINVARIANTS Isolation TypeOK\nPROPERTIES PureIsFrame\nCHECK_DEADLOCK FALSE\n"


def expected_exports():
    exp = {}
    for d in sorted(glob.glob(os.path.join(REPO, "std", "*"))):
        p = os.path.basename(d)
        s_ = set()
        for f in glob.glob(d + "/*.wuffs"):
            t = open(f).read()
            for m in re.finditer(r"^pub struct (\w+)\??", t, re.M):
                s = m.group(1)
                s_ |= {"wuffs_%s__%s__initialize" % (p, s), "sizeof__wuffs_%s__%s" % (p, s), "wuffs_%s__%s__alloc" % (p, s)}
            for m in re.finditer(r"^pub func (\w+)\.(\w+)[!?]?\(", t, re.M):
                s_.add("wuffs_%s__%s__%s" % (p, m.group(1), m.group(2)))
        if s_:
            exp[p] = s_
    return exp


def object_checks(ctx, cfile, incdirs, label, pkgs_expected=None, defines=("-DWUFFS_IMPLEMENTATION",)):
    """Returns list of (clause, detail) failures for one translation unit."""
    obj = os.path.join(ctx.subdir("obj"), label + ".o")
    cmd = ["gcc", "-c", "-O2", "-ffunction-sections", "-fno-stack-protector"] + list(defines) + sum((["-I", d] for d in incdirs), []) + ["-o", obj, cfile]
    r = subprocess.run(cmd, capture_output=True, text=True, timeout=900)
    if r.returncode != 0:
        raise ToolingError("cannot compile %s: %s" % (label, r.stderr[-2000:]))
    fails = []
    sz = subprocess.run(["size", "-A", obj], capture_output=True, text=True).stdout
    for line in sz.splitlines():
        parts = line.split()
        if len(parts) >= 2 and parts[1].isdigit():
            name, n = parts[0], int(parts[1])
            if (name in (".data", ".bss", ".tdata", ".tbss") or name.startswith((".data.", ".bss.", ".tdata.", ".tbss."))) \
               and not name.startswith(".data.rel.ro") and n != 0:
                fails.append(("NoWritableData", "section %s has %d bytes" % (name, n)))
    und = {l.split()[-1] for l in subprocess.run(["nm", "-u", obj], capture_output=True, text=True).stdout.splitlines() if l.strip()}
    extra = und - ALLOWED_UNDEF
    if extra:
        fails.append(("OnlyAllowedExternalSymbols", "undefined symbols %s" % sorted(extra)))
    # calloc/free only from alloc functions: relocations per function section
    rel = subprocess.run(["objdump", "-r", obj], capture_output=True, text=True).stdout
    cur = None
    for line in rel.splitlines():
        m = re.match(r"RELOCATION RECORDS FOR \[(.*)\]:", line)
        if m:
            cur = m.group(1)
            continue
        m = re.search(r"\s(calloc|free)(-0x[0-9a-f]+)?$", line)
        if m and cur and cur.startswith(".text"):
            fn = cur[len(".text."):] if cur.startswith(".text.") else cur
            if "__alloc" not in fn and fn not in ("wuffs_base__malloc_slice_u8",):
                fails.append(("AllocatorOnlyInAlloc", "%s referenced from %s" % (m.group(1), fn)))
    nm = subprocess.run(["nm", "-g", "--defined-only", obj], capture_output=True, text=True).stdout
    gfun = {l.split()[2] for l in nm.splitlines() if len(l.split()) == 3 and l.split()[1] in ("T", "W", "i")}
    gdata = {l.split()[2] for l in nm.splitlines() if len(l.split()) == 3 and l.split()[1] in ("B", "C", "b")}
    if gdata:
        fails.append(("NoWritableData", "global bss/common symbols %s" % sorted(gdata)[:5]))
    observed = {"exported_functions": len(gfun), "base_private_exported": sorted(g for g in gfun if "private_impl" in g)}
    if pkgs_expected is not None:
        for pkg, want in pkgs_expected.items():
            got = {g for g in gfun if g.startswith("wuffs_%s__" % pkg) or g.startswith("sizeof__wuffs_%s__" % pkg)}
            if got - want:
                fails.append(("OnlyPubApiExported", "package %s exports non-pub functions %s" % (pkg, sorted(got - want)[:6])))
            if want - got:
                fails.append(("OnlyPubApiExported", "package %s does not export pub functions %s" % (pkg, sorted(want - got)[:6])))
    return fails, observed


def run(ctx):
    thorough = ctx.tier == "thorough"
    rng = ctx.rng
    # 0. the specification itself
    ctx.tlc_ok("TwoObjects", cfg="t.cfg", data={"t.cfg": TWO_CFG % (5 if thorough else 4)}, workers=4, timeout=900, label="TwoObjects")
    # 1. object-file side conditions: std
    tools = stdbuild.build_tools(ctx)
    root = stdbuild.gen_std(ctx, tools)
    snap = os.path.join(root, "release", "c", "wuffs-unsupported-snapshot.c")
    fails, observed = object_checks(ctx, snap, [], "std", expected_exports())
    for clause, detail in fails:
        ctx.violation("std object file: %s: %s" % (clause, detail), {"key": "std:%s:%s" % (clause, detail[:60]), "clause": clause, "detail": detail})
    ctx.log("std object: %d exported functions, failures %d" % (observed["exported_functions"], len(fails)))
    # 1b. generated programs (the WuffsCore corpus): each package on its own
    wtools = wcorepipe.build_tools(ctx)
    # (with the known / must-reject shapes: on the unchanged tree the compiler rejects them; a compiler change that
    # accepts one makes it a program like any other - e.g. a "pure" method with an impure call in an argument)
    srcs = wcorepipe.load_sources(ctx, 0, include_known=True)
    srcs += [(os.path.basename(f)[:-6], open(f).read(), "must-reject") for f in sorted(glob.glob(os.path.join(VERIF, "harness", "testdata", "c10", "reject", "*.wuffs")))]
    batch = wcorepipe.prepare(ctx, wtools, srcs, lenient=True)
    nprog = 0
    for p in batch.progs:
        pkg = p["pkg"]
        pub = {"wuffs_%s__%s__%s" % (pkg, p["structname"], f["name"]) for f in p["funcs"] if f["pub"]}
        want = pub | {"wuffs_%s__%s__initialize" % (pkg, p["structname"]), "sizeof__wuffs_%s__%s" % (pkg, p["structname"]),
                      "wuffs_%s__%s__alloc" % (pkg, p["structname"])}
        tu = os.path.join(batch.cdir, "tu_%s.c" % pkg)
        open(tu, "w").write("#define WUFFS_IMPLEMENTATION\n#define WUFFS_CONFIG__MODULES\n#define WUFFS_CONFIG__MODULE__BASE\n"
                            "#define WUFFS_CONFIG__MODULE__%s\n#include \"wuffs-base.c\"\n#include \"%s.c\"\n" % (pkg.upper(), pkg))
        try:
            f2, _ = object_checks(ctx, tu, [batch.cdir], pkg, {pkg: want}, defines=())
        except ToolingError:
            continue     # C that gcc rejects is C11's clause
        nprog += 1
        for clause, detail in f2:
            ctx.violation("generated program %s: %s: %s" % (p["name"], clause, detail),
                          {"key": "prog:%s:%s" % (p["name"], clause), "clause": clause, "detail": detail, "source": p["src"]})
    # 1b'. hand-written packages whose SHAPE matters for the object file (a private struct implementing an interface
    # gets a function-pointer table: read-only data; several structs per package): sections, symbols, allocator use
    for f in sorted(glob.glob(os.path.join(VERIF, "harness", "testdata", "c10", "accept", "*.wuffs"))):
        pkg = "c10" + re.sub(r"[^a-z0-9]", "", os.path.basename(f)[:-6])
        c = subprocess.run([wtools["wuffs-c"], "gen", "-package_name", pkg, f], capture_output=True, text=True, timeout=120)
        if c.returncode != 0:
            ctx.notes.append("C10 test package %s is not accepted by this compiler: %s" % (os.path.basename(f), c.stderr[:200]))
            continue
        open(os.path.join(batch.cdir, pkg + ".c"), "w").write(c.stdout)
        tu = os.path.join(batch.cdir, "tu_%s.c" % pkg)
        open(tu, "w").write("#define WUFFS_IMPLEMENTATION\n#define WUFFS_CONFIG__MODULES\n#define WUFFS_CONFIG__MODULE__BASE\n"
                            "#define WUFFS_CONFIG__MODULE__%s\n#include \"wuffs-base.c\"\n#include \"%s.c\"\n" % (pkg.upper(), pkg))
        try:
            f2, _ = object_checks(ctx, tu, [batch.cdir], pkg, None, defines=())
        except ToolingError:
            continue
        nprog += 1
        for clause, detail in f2:
            ctx.violation("test package %s: %s: %s" % (os.path.basename(f), clause, detail),
                          {"key": "pkg:%s:%s" % (os.path.basename(f), clause), "clause": clause, "detail": detail, "source": open(f).read()})
    # 1c. generated programs: the frame condition of every method declared pure (rows validated by TLC, Trace_Pure.tla)
    wcorepipe.compile_batch(ctx, batch, variants=(("gcc", "-O1"),))
    prows = wcorepipe.pure_probe(ctx, batch, batch.exes[("gcc", "-O1")])
    if prows:
        text = "".join(json.dumps({k: v for k, v in r.items() if k not in ("src", "args")}) + "\n" for r in prows)
        cfg = "SPECIFICATION Spec\nCONSTANT RowsFile = \"rows.ndjson\"\nINVARIANT RowOK\nCHECK_DEADLOCK FALSE\n"
        res = ctx.tlc("Trace_Pure", cfg="p.cfg", data={"p.cfg": cfg, "rows.ndjson": text}, extra=["-continue"], timeout=1200, label="pure-method rows")
        if res["error"] and not res["violated"]:
            raise ToolingError("TLC error on the pure-method rows:\n" + res["error"])
        if res["violated"] and not re.search(r"^(?:/\\ )?k = (\d+)", res["out"], re.M):
            raise ToolingError("TLC rejects a pure-method row but prints no state:\n" + res["out"][-1500:])
        for m in sorted({int(x) for x in re.findall(r"^(?:/\\ )?k = (\d+)", res["out"], re.M)}):
            r = prows[m - 1]
            ctx.violation("generated program %s: method %s is declared pure but calling it (%s) changed %s" % (
                r["prog"], r["fn"], r["args"], "the receiver" if r["objchg"] else "the destination buffer"),
                {"key": "prog-pure:%s:%s" % (r["prog"], r["fn"]), "row": {k: v for k, v in r.items() if k != "src"}, "source": r["src"]})
    ctx.log("pure-method probes on generated programs: %d calls of methods declared pure, validated by TLC" % len(prows))
    # 2. behaviour: pure-method frame + isolation of two objects
    exe, log = stdbuild.compile_driver(ctx, root, "stddrive.c", "plain")
    if exe is None:
        raise ToolingError("generated std C does not compile:\n" + log[-2000:])
    corp = stdinputs.corpus(max_size=(512 << 10) if thorough else (64 << 10))
    rng.shuffle(corp)
    corp = corp[: (160 if thorough else 60)]
    solo, jid = [], 0
    for (p, dec, extra) in corp:
        jid += 1
        j = {"id": jid, "dec": dec, "in": p, "src": rng.choice(("*", "64", "1000")), "dst": "*", "budget_ms": 60000, "maxcalls": 20000,
             "init": rng.choice((0, 2)), "prefill": rng.choice(("00", "A5"))}
        j.update(extra)
        solo.append(j)
    sev = stdtrace.run_jobs(ctx, exe, solo, sanitizer=False)
    # pairs: same decoder on different inputs, the same job twice, different decoders
    pairs = []
    for k in range(len(solo) // 2):
        a, b = solo[2 * k], solo[2 * k + 1]
        pairs.append((a, b))
    for a in solo[:: 5]:
        pairs.append((a, a))
    pjobs, exp_of = [], {}
    lines = []
    for (a, b) in pairs:
        ja, jb = dict(a), dict(b)
        jid += 1
        ja["id"] = jid
        exp_of[jid] = a["id"]
        jid += 1
        jb["id"] = jid
        exp_of[jid] = b["id"]
        lines.append("pair baton " + stdtrace.job_line(ja) + " || " + stdtrace.job_line(jb))
        pjobs += [ja, jb]
    wd = ctx.subdir("pairs")
    jf, ef = os.path.join(wd, "pairs.txt"), os.path.join(wd, "pairs.ndjson")
    open(jf, "w").write("\n".join(lines) + "\n")
    r = ctx.run([exe, jf, ef], timeout=3000)
    if r.returncode != 0:
        raise ToolingError("pair run failed rc=%d: %s" % (r.returncode, r.stderr[-1500:]))
    pev = {}
    for line in open(ef, errors="replace"):
        line = line.strip()
        if line:
            e = json.loads(line)
            pev.setdefault(e["j"], []).append(e)
    tsan_note = "not run in the quick tier"
    if thorough:
        texe, tlog = stdbuild.compile_driver(ctx, root, "stddrive.c", "tsan")
        if texe is None:
            tsan_note = "TSan build failed: " + tlog[-300:]
        else:
            flines = [l.replace("pair baton ", "pair free ", 1) for l in lines]
            jf2, ef2 = os.path.join(wd, "free.txt"), os.path.join(wd, "free.ndjson")
            open(jf2, "w").write("\n".join(flines) + "\n")
            r2 = ctx.run([texe, jf2, ef2], timeout=3000, env={"TSAN_OPTIONS": "halt_on_error=0:exitcode=66"})
            races = len(re.findall(r"WARNING: ThreadSanitizer: data race", r2.stderr))
            tsan_note = "%d pairs run concurrently under TSan, %d data-race reports" % (len(flines), races)
            if races:
                # a race between two DIFFERENT objects means shared state
                ctx.violation("ThreadSanitizer reports a data race between two decodes on two separate objects:\n" + r2.stderr[:3000],
                              {"key": "tsan-race", "stderr": r2.stderr[:6000]})
    traces = [(j["id"], sev.get(j["id"], [])) for j in solo]
    for j in pjobs:
        evs = pev.get(j["id"], [])
        be = stdtrace.end_event(sev.get(exp_of[j["id"]], []))
        if be is None or not evs:
            continue
        x = stdtrace.expect_from(be)
        x["j"] = j["id"]
        traces.append((j["id"], [evs[0], x] + evs[1:] if evs[0].get("k") == "start" else evs))
    nev, rej = stdtrace.validate(ctx, traces, "same", "C10")
    alljobs = {int(j["id"]): j for j in solo + pjobs}
    for rj in rej:
        j = alljobs.get(rj["job"], {})
        what = "std/%s on %s: clauses %s (event %s)%s" % (j.get("dec"), os.path.basename(j.get("in", "?")), rj["clauses"],
                                                      {k: v for k, v in rj["event"].items() if k != "stderr_tail"},
                                                      " - run interleaved with another object differs from its solo run" if rj["job"] in exp_of else "")
        ctx.violation(what, {"key": "%s:%s" % (j.get("dec"), ",".join(sorted(rj["clauses"]))), "job": stdtrace.job_line(j), "clauses": rj["clauses"], "event": rj["event"]})
    npure = sum(1 for _, evs in traces for e in evs if e.get("k") == "pure")
    ctx.evidence("other", {
        "explanation": "TwoObjects.tla (frame condition of pure methods, isolation of two objects) model-checked; on the generated C: %d pure-method probe "
                       "events with object snapshots, %d baton-interleaved pairs compared with their solo runs, all validated by TLC (%d events); "
                       "object-file clauses checked with size/nm/objdump on the std object (%d exported functions) and on %d generated programs. TSan: %s." % (
                           npure, len(pairs), nev, observed["exported_functions"], nprog, tsan_note),
        "evaluations": len(traces) + 1 + nprog,
        "distinct_nontrivial": len(traces),
        "samples": [{"pair": [stdtrace.job_line(a)[:160], stdtrace.job_line(b)[:160]]} for (a, b) in pairs[:3]],
        "object_file_observations": observed,
        "states": sum(t["distinct"] for t in ctx.tlc_stats),
        "transitions": sum(t["generated"] for t in ctx.tlc_stats),
    }, assumptions=[
        "the symbol/section clauses are decided by binutils on one compiler's output (gcc -O2 -ffunction-sections)",
        "shared state is detected only if it changes an observable result of one of the interleaved runs (or races under TSan)",
    ])


def replay(ctx, path):
    print(json.dumps(json.load(open(path))["replay"], indent=1)[:6000])

"""C19 - the uncompressed PNG encoder emits valid PNGs that decode to the input.

Mode V + R.
  * spec/PngStored.tla  - the OUTPUT GRAMMAR (PNG chunks, zlib header, stored
    deflate blocks split anywhere across IDAT chunks, Adler, IEND, inflated
    size, filter bytes) as a trace acceptor; also model-checked as a generator
    on small abstract sizes.
  * spec/UncomPngBuf.tla - implementation-shaped automaton of the 64 KiB
    buffer, stepped per flush.  TLC checks its discipline (abstract small
    buffer, exhaustive grid; real constants on the target sizes) and exports
    the (width, height) classes in which a row, a pixel or the trailer
    straddles a flush.
  * harness/cmd/pngreplay encodes representatives of every class for real
    (strides, fills, reuse of one Encoder, an io.Writer failing at the k-th
    call), tokenises what the io.Writer received with an independent walker
    and TLC accepts or rejects every trace (postcondition TraceAccepted).
The verdict is PngStored's; UncomPngBuf only aims the inputs (a disagreement
between its predicted Write sizes and the real ones is reported as model
drift, not as a violation).
"""
import json, os, collections, concurrent.futures, re
from vlib import ToolingError, parse_tlc_prints

META = {
    "level": "model_checking",
    "technique": "TLA+ output grammar PngStored.tla validated by TLC against event traces of the real encoder's output (independent PNG/zlib/stored-block walker, image/png.Decode pixel comparison), inputs aimed by the TLC-explored buffer automaton UncomPngBuf.tla; both specs model-checked on their own",
    "text": "Model checking of the buffer automaton (abstract buffer: exhaustive grid; real constants: all candidate sizes around the flush points) and of the grammar as a generator; exploration for the real code: every flush-straddling class TLC found is encoded for real with several fills/strides, twice on one Encoder and after an injected Write failure, and every produced byte stream is accepted by TLC against the grammar and decoded by image/png to the input pixels.",
    "note": "Trusted: TLC, the walker's tokenisation and its two checksum measurements (hash/crc32, hash/adler32), image/png as the standard decoder, the pixel comparison loop in the harness. Dimensions are limited to what the package accepts (<= 0xFFFFFF) and to inflated sizes < 2^30.",
}

CONFIGS = {1: (1, 8, 1), 2: (1, 16, 2), 3: (2, 8, 4), 4: (3, 8, 4), 6: (2, 16, 8), 8: (3, 16, 8)}   # out bpp -> (ct, depth, in bpp)
FILLS = ["rand", "mix", "ff", "zero"]


def gen_cfg(lens, writes, maxpos, maxdim=1, maxlen=2):
    f = lambda s: "{" + ", ".join(str(v) for v in sorted(s)) + "}"
    return ("SPECIFICATION GenSpec\nCONSTANTS\n  TraceFile = \"dummy.ndjson\"\n  GenMaxDim = %d\n  GenMaxLen = %d\n"
            "  GenLens = %s\n  GenMaxPos = %d\n  GenWrites = %s\nCONSTRAINT GenConstraint\n"
            "INVARIANTS GenTypeOK GenDoneExact GenAcceptedShape\nCHECK_DEADLOCK FALSE\n") % (maxdim, maxlen, f(lens), maxpos, f(writes))


TRACE_CFG = ("SPECIFICATION TraceSpec\nCONSTANTS\n  TraceFile = \"ev.ndjson\"\n  GenMaxDim = 1\n  GenMaxLen = 1\n  GenLens = {0}\n"
             "  GenMaxPos = 1\n  GenWrites = {1}\nINVARIANT TraceComplete\nPOSTCONDITION TraceAccepted\nCHECK_DEADLOCK FALSE\n")


def buf_cfg(bufsize, mode, ws, hs, k, d, export):
    f = lambda s: "{" + ", ".join(str(v) for v in sorted(s)) + "}"
    return ("SPECIFICATION Spec\nCONSTANTS\n  BufSize = %d\n  EiFirst = 48\n  EiLater = 13\n  Mode = \"%s\"\n  WS = %s\n  HS = %s\n"
            "  K = %d\n  D = %d\n  Export = %s\nINVARIANTS WritesFit AdlerStateSafe BlockLenFits InOrder Shape Exported\n"
            "CHECK_DEADLOCK FALSE\n") % (bufsize, mode, f(ws), f(hs), k, d, "TRUE" if export else "FALSE")


def enc(w, h, out, stride_extra=0, fill="rand", seed=1, fail_at=0, short_pix=False, **meta):
    ct, depth, _ = CONFIGS[out]
    e = {"w": w, "h": h, "ct": ct, "depth": depth, "stride_extra": stride_extra, "fill": fill, "seed": seed,
         "fail_at": fail_at, "short_pix": short_pix}
    e["_meta"] = dict(meta, out=out)
    return e


def enc_key(e):
    return "w%d-h%d-ct%d-d%d-se%d-%s-s%d-f%d%s" % (e["w"], e["h"], e["ct"], e["depth"], e["stride_extra"], e["fill"], e["seed"],
                                                   e["fail_at"], "-short" if e["short_pix"] else "")


def strip(e):
    return {k: v for k, v in e.items() if not k.startswith("_")}


def inflated(e):
    _, depth, _ = CONFIGS[e["_meta"]["out"]]
    return e["h"] * (1 + e["w"] * e["_meta"]["out"])


def predicted_writes(w, h, out):
    """Python image of UncomPngBuf's Write sizes, used only to choose fail_at for
    images that did not come out of the TLC export (small and random sizes)."""
    n = h * (1 + w * out)
    return max(1, 1 + (n - 65480 + 65514) // 65515) if n > 65480 else 1


def build_units(ctx, classes, thorough):
    """A unit is a list of Encode calls that stay consecutive on one Encoder."""
    rng = ctx.rng
    units = []
    # 1. representatives of the classes TLC exported
    keys = sorted(classes)
    rng.shuffle(keys)
    # stratify: first one class per <<bytes per pixel, kind and left-over of the first cut>> and per
    # <<bytes per pixel, separate IEND, distance of the final index to the limit>>, then the rest
    strata, firsts, rest = set(), [], []
    for k in keys:
        kk = json.loads(k)
        s1 = ("cut", kk[0], kk[2][0], kk[2][1])
        s2 = ("cut2", kk[0], kk[3][0], kk[3][1])
        s3 = ("end", kk[0], kk[4], kk[5], kk[6])
        if {s1, s2, s3} - strata:
            strata |= {s1, s2, s3}
            firsts.append(k)
        else:
            rest.append(k)
    keys = firsts + rest
    budget = ctx.tier_pick(160 * 1024 * 1024, 2000 * 1024 * 1024)   # inflated bytes over all class encodes
    reps_per = ctx.tier_pick(1, 2)
    used = 0
    nclasses = 0
    for k in keys:
        members = sorted(classes[k], key=lambda r: r["h"] * (1 + r["w"] * r["out"]))
        # the smallest member plus seeded others
        pick = [members[0]] + ([rng.choice(members)] if reps_per > 1 and len(members) > 1 else [])
        if used > budget:
            break
        nclasses += 1
        for r in pick:
            w, h, out = r["w"], r["h"], r["out"]
            nw = len(r["writes"])
            meta = dict(cls=k, model_writes=r["writes"], straddle=r["straddle"])
            a = enc(w, h, out, 0, rng.choice(FILLS), rng.randrange(1 << 30), **meta)
            b = enc(w, h, out, rng.choice([1, 3, 7, 64, out * w]), rng.choice(FILLS), rng.randrange(1 << 30),
                    short_pix=rng.random() < 0.5, **meta)
            units.append([a, b])            # twice in a row on one Encoder
            used += 2 * inflated(a)
            # a Write failure at the k-th call, then the same image again
            ks = set([rng.randrange(1, nw + 1)])
            if thorough:
                ks |= {1, nw}
            if r is not pick[0]:
                ks = set()
            for kk in sorted(ks):
                f = enc(w, h, out, 0, "rand", rng.randrange(1 << 30), fail_at=kk, **meta)
                g = enc(w, h, out, rng.choice([0, 5]), rng.choice(FILLS), rng.randrange(1 << 30), **meta)
                units.append([f, g])
                used += 2 * inflated(a)
    # 2. every tiny image
    tiny = ctx.tier_pick(4, 7)
    for out in CONFIGS:
        for w in range(1, tiny + 1):
            for h in range(1, tiny + 1):
                units.append([enc(w, h, out, rng.choice([0, 0, 1, 9]), rng.choice(FILLS), rng.randrange(1 << 30), cls="tiny")])
        units.append([enc(1, 1, out, 0, "rand", rng.randrange(1 << 30), fail_at=1, cls="tiny"),
                      enc(1, 1, out, 0, "ff", rng.randrange(1 << 30), cls="tiny")])
    # 3. seeded random sizes (mostly small, some with several flushes)
    for _ in range(ctx.tier_pick(120, 900)):
        out = rng.choice(list(CONFIGS))
        tot = int(2 ** rng.uniform(3, ctx.tier_pick(17.5, 20.5)))
        w = max(1, int(2 ** rng.uniform(0, 16.5)) // out)
        h = max(1, tot // (1 + w * out))
        nw = predicted_writes(w, h, out)
        fa = rng.randrange(1, nw + 2) if rng.random() < 0.25 else 0
        u = [enc(w, h, out, rng.choice([0, 0, 2, 31]), rng.choice(FILLS), rng.randrange(1 << 30), fail_at=fa,
                 short_pix=rng.random() < 0.3, cls="random")]
        if fa:
            u.append(enc(w, h, out, 0, rng.choice(FILLS), rng.randrange(1 << 30), cls="random"))
        units.append(u)
    # 4. the dimension extremes the package accepts (thorough only: 16..48 MiB each)
    if thorough:
        units.append([enc(0xFFFFFF, 1, 1, 0, "mix", 5, cls="extreme")])
        units.append([enc(1, 0xFFFFFF, 1, 3, "ff", 6, cls="extreme"), enc(2, 2, 8, 0, "rand", 7, cls="extreme")])
        units.append([enc(0xFFFFFF // 8, 3, 8, 0, "ff", 8, cls="extreme")])
    return units, nclasses


def run_part(ctx, binp, part_no, cases, dump=None):
    d = ctx.subdir("part%d" % part_no)
    job = {"cases": [{"id": c["id"], "encodes": [strip(e) for e in c["encodes"]]} for c in cases]}
    with open(os.path.join(d, "job.json"), "w") as f:
        json.dump(job, f)
    ev = os.path.join(d, "ev.ndjson")
    resp = os.path.join(d, "res.json")
    cmd = [binp, "-job", os.path.join(d, "job.json"), "-events", ev, "-results", resp]
    if dump:
        cmd += ["-dump", dump]
    r = ctx.run(cmd, timeout=3000)
    if r.returncode != 0:
        raise ToolingError("pngreplay failed (%d): %s" % (r.returncode, r.stderr[-2000:]))
    results = json.load(open(resp))
    events = open(ev).read().split("\n")
    if events and events[-1] == "":
        events.pop()
    out = {"results": results, "events": events, "nev": len(events)}
    validate(ctx, out, "part %d" % part_no)
    return out


def validate(ctx, part, name):
    """TLC accepts or rejects the concatenated traces of a part."""
    nev = len(part["events"])
    res = ctx.tlc("PngStored", cfg="trace.cfg", data={"trace.cfg": TRACE_CFG, "ev.ndjson": "\n".join(part["events"]) + "\n"}, workers=1,
                  timeout=3000, label="trace %s (%d events)" % (name, nev), heap="3g")
    m = re.search(r'"TRACE-REJECTED-AT", (\d+)', res["out"])
    rejected = int(m.group(1)) if m else None
    if rejected is None and res["violated"] == "TraceComplete":
        rejected = nev
    if rejected is None:
        if res["error"] or "No error has been found" not in res["out"]:
            raise ToolingError("TLC failed on the traces of %s:\n%s" % (name, res["out"][-3000:]))
        if res["distinct"] != nev + 1:
            raise ToolingError("%s: TLC saw %d states for %d events" % (name, res["distinct"], nev))
    part["rejected"] = rejected
    part["tlc"] = res


def drop_case(part, case_id):
    """Remove the (contiguous) event lines and results of one case; renumber."""
    rs = [r for r in part["results"] if r["case"] == case_id]
    lo, hi = min(r["ev_from"] for r in rs), max(r["ev_to"] for r in rs)
    n = hi - lo + 1
    part["events"] = part["events"][:lo - 1] + part["events"][hi:]
    keep = []
    for r in part["results"]:
        if r["case"] == case_id:
            continue
        if r["ev_from"] > hi:
            r = dict(r, ev_from=r["ev_from"] - n, ev_to=r["ev_to"] - n)
        keep.append(r)
    part["results"] = keep
    part["nev"] = len(part["events"])


def sensitivity(ctx, part):
    """Corrupt one recorded field of an accepted trace and demand that TLC
    rejects it (the acceptor has teeth).  Returns [(what, line, rejected_at)]."""
    rs = [r for r in part["results"] if not r["failed"] and len(r["writes"]) >= 2 and r["ev_to"] - r["ev_from"] < 400]
    if not rs:
        return []
    r = ctx.rng.choice(rs)
    lines = part["events"][r["ev_from"] - 1:r["ev_to"]]
    evs = [json.loads(l) for l in lines]
    idx = lambda pred: [i for i, e in enumerate(evs) if pred(e)]
    idat = idx(lambda e: e["e"] == "chunk" and e["v"][:4] == [73, 68, 65, 84])
    zb = idx(lambda e: e["e"] == "zb")
    menu = [
        ("CRC flag of an IDAT chunk cleared", ctx.rng.choice(idat), lambda e: e.update(ok=False)),
        ("Adler flag cleared", idx(lambda e: e["e"] == "zend")[0], lambda e: e.update(ok=False)),
        ("high NLEN byte of the first block + 1", zb[6], lambda e: e.update(v=[(e["v"][0] + 1) % 256])),
        ("BFINAL set on the first (non-last) block", zb[2], lambda e: e.update(v=[e["v"][0] | 1])),
        ("a filter byte reported non-zero", idx(lambda e: e["e"] == "zdata" and e["v"][1] > 0)[-1], lambda e: e["v"].__setitem__(2, 1)),
        ("a stored run one byte longer", idx(lambda e: e["e"] == "zdata")[0], lambda e: e["v"].__setitem__(0, e["v"][0] + 1)),
        ("chunk length >= 2^31", idat[-1], lambda e: e["v"].__setitem__(4, e["v"][4] + 32768)),
        ("IHDR interlace byte 1", idx(lambda e: e["e"] == "ihdr")[0], lambda e: e["v"].__setitem__(12, 1)),
        ("one trailing byte after IEND", idx(lambda e: e["e"] == "eof")[0], lambda e: e.update(v=[1])),
        ("a Write call one byte shorter", idx(lambda e: e["e"] == "write")[0], lambda e: e["v"].__setitem__(1, e["v"][1] - 1)),
        ("decoded pixels differ", idx(lambda e: e["e"] == "pix")[0], lambda e: e.update(ok=False)),
    ]
    def one(item):
        what, i, f = item
        mut = [json.loads(l) for l in lines]
        f(mut[i])
        p2 = {"events": [json.dumps(e, separators=(",", ":")) for e in mut], "results": []}
        validate(ctx, p2, "corrupted copy (%s)" % what)
        if p2["rejected"] is None:
            raise ToolingError("PngStored accepted a corrupted trace (%s at event %d)" % (what, i + 1))
        return {"corruption": what, "event": i + 1, "rejected_at_event": p2["rejected"]}
    picks = ctx.rng.sample(menu, ctx.tier_pick(3, len(menu)))
    with concurrent.futures.ThreadPoolExecutor(max_workers=4) as ex:
        return list(ex.map(one, picks))


def describe(e, r):
    return "Encode(w=%d, h=%d, stride=rowbytes+%d, depth=%d, colorType=%d, fill=%s seed=%d%s%s): %d Write calls %s, err=%r" % (
        e["w"], e["h"], e["stride_extra"], e["depth"], e["ct"], e["fill"], e["seed"],
        ", writer fails at call %d" % e["fail_at"] if e["fail_at"] else "", ", minimal-length pix" if e["short_pix"] else "",
        len(r["writes"]), r["writes"][:6], r["err"])


def confirm_and_report(ctx, binp, case, part):
    """A rejected trace: run that case alone in a fresh process; only a second
    rejection is reported (as reproduced on the real code)."""
    rej = part["rejected"]
    hit = None
    for r in part["results"]:
        if r["ev_from"] <= rej <= r["ev_to"]:
            hit = r
    if hit is None:
        raise ToolingError("rejected event %d belongs to no Encode call" % rej)
    e = case["encodes"][hit["idx"]]
    solo = run_part(ctx, binp, 9000 + len(ctx.violations) + len(ctx.known_hits), [case])
    if solo["rejected"] is None:
        raise ToolingError("a rejected trace was accepted when its case was re-run alone (non-deterministic?): " + enc_key(e))
    hit2 = [r for r in solo["results"] if r["ev_from"] <= solo["rejected"] <= r["ev_to"]][0]
    e2 = case["encodes"][hit2["idx"]]
    lines = solo["events"]
    lo = max(hit2["ev_from"], solo["rejected"] - 12)
    ctxlines = lines[lo - 1:solo["rejected"]]
    what = ("PngStored rejects event %d of the trace of call #%d on one Encoder: %s\n  rejected event: %s\n  %s%s" % (
        solo["rejected"] - hit2["ev_from"] + 1, hit2["idx"], describe(e2, hit2), lines[solo["rejected"] - 1],
        ("image/png: " + hit2["pix_note"]) if hit2.get("pix_note") else "",
        ("\n  panic: " + hit2["panicked"]) if hit2.get("panicked") else ""))
    ctx.violation(what, {"key": enc_key(e2), "case": {"id": case["id"], "encodes": [strip(x) for x in case["encodes"]]},
                         "call_index": hit2["idx"], "rejected_event_line": solo["rejected"], "events_before": ctxlines,
                         "result": hit2, "howto": "bin/check C19 --replay <this file>"})
    return hit["idx"]


def run(ctx):
    thorough = ctx.tier == "thorough"
    binp = ctx.go_build("./cmd/pngreplay")
    dummy = '{"e":"end","v":[],"ok":true}\n'

    # ---- 1. the grammar as a generator (small abstract sizes) and the abstract buffer automaton:
    #         properties of the specifications themselves, run beside the rest ----
    bg = concurrent.futures.ThreadPoolExecutor(max_workers=2)
    if thorough:
        fg = bg.submit(ctx.tlc_ok, "PngStored", cfg="gen.cfg", workers=4,
                       data={"gen.cfg": gen_cfg([0, 3, 6, 7, 10, 13, 18], [70, 75, 82], 84), "dummy.ndjson": dummy},
                       timeout=3000, coverage=True, label="grammar generator (coverage)")
    else:
        fg = bg.submit(ctx.tlc_ok, "PngStored", cfg="gen.cfg", workers=4,
                       data={"gen.cfg": gen_cfg([0, 13], [70, 82], 84), "dummy.ndjson": dummy},
                       timeout=1500, label="grammar generator")
    fa = bg.submit(ctx.tlc_ok, "UncomPngBuf", cfg="abs.cfg", workers=2,
                   data={"abs.cfg": buf_cfg(96, "grid", range(1, ctx.tier_pick(41, 81)), range(1, ctx.tier_pick(11, 17)), 0, 0, False)},
                   timeout=1500, label="buffer automaton, abstract 96-byte buffer, grid")

    # ---- 2. the buffer automaton with the real constants ----
    rng = ctx.rng
    hs = set(range(1, ctx.tier_pick(7, 13))) | {rng.randrange(13, 400) for _ in range(ctx.tier_pick(2, 8))}
    ws = set(range(1, ctx.tier_pick(11, 15))) | {rng.randrange(15, 300) for _ in range(ctx.tier_pick(2, 8))}
    K, D = ctx.tier_pick(2, 4), ctx.tier_pick(20, 28)
    b = ctx.tlc_ok("UncomPngBuf", cfg="real.cfg", data={"real.cfg": buf_cfg(65536, "targets", ws, hs, K, D, True)},
                   timeout=3000, label="buffer automaton, real constants, target sizes")
    recs = parse_tlc_prints(b["out"])
    if not recs:
        raise ToolingError("UncomPngBuf exported nothing")
    classes = collections.defaultdict(list)
    for r in recs:
        classes[json.dumps(r["key"])].append(r)
    nstr = sum(1 for k in classes if classes[k][0]["straddle"])
    ctx.log("UncomPngBuf real constants: %d distinct states, %d finished runs, %d classes (%d with a straddle)" % (
        b["distinct"], len(recs), len(classes), nstr))

    # ---- 3. drive the real encoder ----
    units, nclasses = build_units(ctx, classes, thorough)
    rng.shuffle(units)
    cases = []
    cur = []
    for u in units:
        cur += u
        if len(cur) >= 8 or sum(inflated(e) for e in cur) > 48 * 1024 * 1024:
            cases.append({"id": len(cases), "encodes": cur})
            cur = []
    if cur:
        cases.append({"id": len(cases), "encodes": cur})
    nparts = ctx.tier_pick(4, 12)
    # balance the parts by bytes
    parts = [[] for _ in range(nparts)]
    load = [0] * nparts
    for c in sorted(cases, key=lambda c: -sum(inflated(e) for e in c["encodes"])):
        i = load.index(min(load))
        parts[i].append(c)
        load[i] += sum(inflated(e) for e in c["encodes"]) + 20000 * len(c["encodes"])
    nenc = sum(len(c["encodes"]) for c in cases)
    ctx.log("driving %d Encode calls in %d cases (one Encoder each), %d classes, %.0f MiB inflated" % (
        nenc, len(cases), nclasses, sum(inflated(e) for c in cases for e in c["encodes"]) / 2 ** 20))
    with concurrent.futures.ThreadPoolExecutor(max_workers=ctx.tier_pick(4, 6)) as ex:
        outs = list(ex.map(lambda ip: run_part(ctx, binp, ip[0], ip[1]), [(i, p) for i, p in enumerate(parts) if p]))

    sens = sensitivity(ctx, outs[0]) if outs and outs[0]["rejected"] is None else []
    if sens:
        ctx.log("corrupted copies of an accepted trace rejected by TLC: " + "; ".join("%s -> rejected at event %d" % (x["corruption"], x["rejected_at_event"]) for x in sens))
    g = fg.result()
    a = fa.result()
    bg.shutdown()
    cov = None
    if thorough:
        cov = {}
        for m in re.finditer(r"<(G\w+) line \d+, col \d+ to line \d+, col \d+ of module PngStored>: (\d+):(\d+)", g["out"]):
            cov[m.group(1)] = max(cov.get(m.group(1), 0), int(m.group(3)))
        dead = [x for x, n in cov.items() if n == 0]
        if len(cov) < 20 or dead:
            raise ToolingError("generator coverage: %d actions seen, never taken: %s" % (len(cov), dead))
    ctx.log("PngStored as generator: %d distinct states, depth %s, %.0fs%s" % (
        g["distinct"], g["diameter"], g["wall_s"], "; all %d actions taken" % len(cov) if cov else ""))
    ctx.log("UncomPngBuf abstract (BufSize 96): %d distinct states, depth %s" % (a["distinct"], a["diameter"]))

    unvalidated = 0
    traces = accepted = failing = drift = drift_checked = after_error = reuse = 0
    exercised = set()
    samples = []
    by_id = {c["id"]: c for c in cases}
    for part in outs:
        traces += len(part["results"])
        rounds = 0
        while part["rejected"] is not None:
            # report (after reproducing it alone), then validate the part without the offending case
            bad = [r for r in part["results"] if r["ev_from"] <= part["rejected"] <= r["ev_to"]][0]
            confirm_and_report(ctx, binp, by_id[bad["case"]], part)
            traces -= len(by_id[bad["case"]]["encodes"])
            drop_case(part, bad["case"])
            rounds += 1
            if rounds >= 3 or not part["events"]:
                unvalidated += len(part["results"])
                part["results"] = []
                part["rejected"] = None
                break
            validate(ctx, part, "part, %d case(s) removed" % rounds)
        for r in part["results"]:
            e = by_id[r["case"]]["encodes"][r["idx"]]
            accepted += 1
            if r["failed"]:
                failing += 1
            else:
                if r["idx"] > 0:
                    reuse += 1
                    if by_id[r["case"]]["encodes"][r["idx"] - 1]["fail_at"] and r["idx"] > 0:
                        after_error += 1
                mw = e["_meta"].get("model_writes")
                if mw is not None:
                    drift_checked += 1
                    if mw != r["writes"]:
                        drift += 1
                        if drift <= 3:
                            ctx.log("model drift: %s real Write sizes %s, UncomPngBuf predicted %s" % (enc_key(e), r["writes"], mw))
                    if e["_meta"].get("straddle"):
                        exercised.add(e["_meta"]["cls"])
            if len(samples) < 10 and (len(r["writes"]) > 1 or r["failed"]) and ctx.rng.random() < 0.05:
                samples.append({"encode": strip(e), "writes": r["writes"], "err": r["err"], "class": e["_meta"].get("cls")})
    if drift:
        ctx.log("NOTE: UncomPngBuf's predicted Write sizes differ from the real ones on %d/%d images: the automaton no longer "
                "describes the implementation (classes may be mis-aimed); verdicts are unaffected" % (drift, drift_checked))
    if unvalidated:
        ctx.log("%d traces were not validated (more than 3 rejected cases in their part)" % unvalidated)
    ctx.log("%d traces accepted by PngStored (%d with an injected Write failure, %d Encode calls on a reused Encoder, %d right after a failed call); "
            "%d straddling classes exercised" % (accepted, failing, reuse, after_error, len(exercised)))

    ctx.evidence("model_checking", {
        "states": sum(t["distinct"] for t in ctx.tlc_stats),
        "transitions": sum(t["generated"] for t in ctx.tlc_stats),
        "traces_validated_against_impl": accepted,
        "samples": samples,
        "evaluations": accepted,
        "distinct_nontrivial": len(exercised),
        "rule": "an Encode call counts as non-trivial when UncomPngBuf (TLC, real constants) puts its (width, height, bytes per pixel) in a class "
                "where the data is cut by at least one flush or the final fill index is within 16 bytes of the limit; classes are distinct values of "
                "UncomPngBuf!Key (flush count, where the first and last cut fall and how many bytes were left over, first/later layout of the final block, "
                "separate IEND, distance of the final index to the limit, tiny final block); distinct_nontrivial = such classes whose representative "
                "was really encoded, walked and accepted",
        "grammar_generator_states": g["distinct"],
        "grammar_generator_actions_taken": cov,
        "buffer_automaton_abstract_states": a["distinct"],
        "buffer_automaton_real_states": b["distinct"],
        "classes_found": len(classes), "classes_with_straddle": nstr, "classes_driven": nclasses,
        "encode_calls": nenc, "encodes_with_write_failure": failing, "encodes_on_reused_encoder": reuse, "encodes_right_after_failed_call": after_error,
        "events_validated": sum(p["nev"] for p in outs),
        "model_drift": {"checked": drift_checked, "differing": drift},
        "corrupted_traces_rejected": sens,
        "exhaustive": False,
    }, assumptions=[
        "widths and heights 1..0xFFFFFF (the package returns 'unsupported image size' above that and writes nothing) and inflated size < 2^30",
        "the walker tokenises correctly and measures CRC-32 / Adler-32 with hash/crc32 and hash/adler32; everything else is decided in PngStored.tla",
        "image/png stands for 'a standard decoder'",
        "UncomPngBuf is only used to aim inputs; its agreement with the code is measured (model_drift) on every driven class",
    ])


def replay(ctx, path):
    rep = json.load(open(path))["replay"]
    binp = ctx.go_build("./cmd/pngreplay")
    case = rep["case"]
    for e in case["encodes"]:
        e.setdefault("_meta", {"out": {(1, 8): 1, (1, 16): 2, (2, 8): 3, (3, 8): 4, (2, 16): 6, (3, 16): 8}[(e["ct"], e["depth"])]})
    dump = os.path.join(os.path.dirname(path), os.path.basename(path) + ".files")
    part = run_part(ctx, binp, 1, [case], dump=dump)
    for r in part["results"]:
        print("call #%d: %s" % (r["idx"], describe(case["encodes"][r["idx"]], r)))
    print("produced files: " + dump)
    if part["rejected"] is None:
        print("PngStored ACCEPTS all %d events: not reproduced" % part["nev"])
        return
    print("PngStored REJECTS event line %d: %s" % (part["rejected"], part["events"][part["rejected"] - 1]))
    confirm_and_report(ctx, binp, case, part)

"""C20 - compilation is deterministic; the committed release is what the sources generate.

Mode V.  The real tools of the working tree (cmd/wuffs, cmd/wuffs-c without
the `verif` tag, lang/check/gen.go) are run many times in fresh processes
under varied environments; every run becomes one ndjson event (gen / listdir /
release / axiom) and TLC validates the recorded set of runs against
spec/Trace_Determinism.tla, whose predicates live in spec/Determinism.tla:

  FunctionalDependence     one unknown-but-fixed F explains all gen events
                           (same <<pkg, ordered files, source digest>> => same
                           output digest, whatever the environment)
  ListDirSorted            every enumeration the build tool handed to the
                           compiler (argv of wuffs-c, observed through a
                           logging shim on PATH) is strictly sorted
  ReleaseEqualsCommitted   regenerated release == release/c/wuffs-unsupported-snapshot.c
  AxiomTableEqualsCommitted  generated axiom table == lang/check/data.go

spec/DeterminismModel.tla is the closed model (a generator walking a Go map
with / without sorting) that shows the predicates are not vacuous.

Python only drives, records and transports: it hashes outputs, turns names
into byte lists, writes the trace, and decodes TLC's rejections.
"""
import concurrent.futures, difflib, hashlib, json, os, re, shutil, stat, subprocess, threading, time
from vlib import ToolingError, REPO, VERIF, parse_tlc_prints

META = {
    "level": "other",
    "technique": "trace validation by TLC: recorded runs of the real generator (wuffs gen in scratch trees whose directory entries were created in different orders, wuffs-c gen of every std package / base / test programs repeated in fresh concurrent processes under GOMAXPROCS, GOGC, TMPDIR, cwd, LANG, TZ variations, lang/check/gen.go) validated against Determinism.tla (functional dependence on <<pkg, ordered files>>, sorted listings, regenerated == committed); closed model DeterminismModel.tla (map walk with/without sorting) model-checked",
    "text": "The verdict is byte equality of real outputs (sha256); TLC evaluates the acceptance predicate over the recorded runs and names the rejected line and clause. Every std package, base and 12 (quick) / 20 (thorough) small programs (6 hand-written under harness/testdata/c20, the rest generated from the seed) are compiled 6 (quick) / 24 (thorough) times in fresh concurrent processes; wuffs gen of the whole tree runs in 3 (quick) / 6 (thorough) scratch copies with different directory-creation orders on /tmp and /dev/shm; the regenerated snapshot and axiom table are compared with the committed files.",
    "note": "Trusted: sha256 and the byte-list encoding of names done by the Python transport; the logging shim placed in front of wuffs-c on PATH (argv is logged, then the real binary is exec'd). Go's per-process map-iteration randomisation is the adversary: an order dependence that shows with probability p per run is missed with probability (1-p)^runs. In-process concurrent use of internal/cgen is not driven (internal/ cannot be imported from the harness module); concurrency is between processes.",
}

SNAP = os.path.join("release", "c", "wuffs-unsupported-snapshot.c")
TESTDATA = os.path.join(VERIF, "harness", "testdata", "c20")

SHIM = """#!/bin/sh
# C20 logging shim: records argv of every wuffs-c invocation made by `wuffs gen`
{ printf 'ARGV'; for a in "$@"; do printf '\\t%s' "$a"; done; printf '\\n'; } >> "$C20_ARGLOG"
exec "$C20_REAL_WUFFS_C" "$@"
"""


def sha256(b):
    return hashlib.sha256(b).hexdigest()


def read(p):
    with open(p, "rb") as f:
        return f.read()


# ------------------------------------------------------------------ programs

WORDS = ["amber", "birch", "cedar", "dune", "ember", "fjord", "grove", "heath", "inlet", "jade", "kelp", "lotus",
         "marsh", "nook", "opal", "pine", "quartz", "reef", "sage", "tarn", "umber", "vale", "wren", "xenon", "yew", "zinc",
         "agate", "basil", "coral", "delta", "elm", "fern", "glen", "hazel", "iris", "juniper"]


def gen_program(rng, idx):
    """A small Wuffs package (one or two files) with many top-level
    declarations of every kind.  Returns (pkgname, {filename: text}).  Only
    constructs that the checker accepts (tried on the unchanged tree)."""
    words = WORDS[:]
    rng.shuffle(words)
    w = iter(words)
    pkg = "g%02d%s" % (idx, next(w))
    nstat, nconst, nstruct = rng.randint(4, 9), rng.randint(3, 7), rng.randint(2, 4)
    head, body = [], []
    head.append("// generated for C20 (seeded): many declarations of every kind\n")
    stats = []
    for i in range(nstat):
        kind = rng.choice(["#bad %s", "#bad %s", "$short %s", "@note %s", "#internal %s"])
        vis = "pri" if kind.startswith("#internal") else "pub"
        s = kind % next(w)
        stats.append(s)
        head.append('%s status "%s"' % (vis, s))
    errs = [s for s in stats if s.startswith("#")] or ["#bad fallback"]
    if errs == ["#bad fallback"]:
        head.append('pub status "#bad fallback"')
    head.append("")
    consts, tabs = [], []
    for i in range(nconst):
        name = next(w).upper()
        if rng.random() < 0.4:
            k = rng.choice([4, 8, 16])
            tabs.append((name + "_TAB", k))
            head.append("%s const %s_TAB : roarray[%d] base.u8 = [%s]" % (
                rng.choice(["pub", "pri"]), name, k, ", ".join(str(rng.randrange(256)) for _ in range(k))))
        else:
            consts.append(name)
            head.append("%s const %s : base.u32 = %d" % (rng.choice(["pub", "pri"]), name, rng.randrange(1, 60000)))
    if not consts:
        consts.append("FALLBACK")
        head.append("pri const FALLBACK : base.u32 = 77")
    if not tabs:
        tabs.append(("FALLBACK_TAB", 4))
        head.append("pri const FALLBACK_TAB : roarray[4] base.u8 = [9, 8, 7, 6]")
    head.append("")
    for si in range(nstruct):
        sn = next(w)
        f1, f2 = "f_" + next(w), "g_" + next(w)
        head.append("pub struct %s?(\n        %s : base.u32,\n        %s : base.u8,\n        arr : array[8] base.u16,\n)\n" % (sn, f1, f2))
        funcs = []
        funcs.append("pub func %s.get_%s() base.u32 {\n    return this.%s\n}\n" % (sn, f1[2:], f1))
        tab, k = rng.choice(tabs)
        funcs.append("pub func %s.set_%s!(v: base.u32) {\n    this.%s = args.v\n    this.%s = %s[args.v & %d]\n}\n" % (
            sn, f1[2:], f1, f2, tab, k - 1))
        funcs.append("pub func %s.check_%d!(v: base.u32) base.status {\n    if args.v > %s {\n        return \"%s\"\n    }\n"
                     "    this.%s ~mod+= args.v\n    this.arr[args.v & 7] = (args.v & 0xFFFF) as base.u16\n    return ok\n}\n" % (
                         sn, si, rng.choice(consts), rng.choice(errs), f1))
        funcs.append("pub func %s.read_%d?(src: base.io_reader) {\n    var c : base.u8\n    var d : base.u8\n"
                     "    c = args.src.read_u8?()\n    if c == %d {\n        return \"%s\"\n    }\n    d = args.src.read_u8?()\n"
                     "    this.%s = ((c as base.u32) << 8) | (d as base.u32)\n    this.%s = d\n}\n" % (
                         sn, si, rng.randrange(256), rng.choice(errs), f1, f2))
        funcs.append("pri func %s.help_%d(x: base.u32) base.u32 {\n    return (args.x ~mod* %d) ~mod+ %s\n}\n" % (
            sn, si, rng.randrange(2, 99), rng.choice(consts)))
        funcs.append("pub func %s.mix_%d(x: base.u32) base.u32 {\n    return this.help_%d(x: args.x) ~mod+ this.%s\n}\n" % (sn, si, si, f1))
        if rng.random() < 0.6:
            funcs.append("pub func %s.pick_%d!(alt: base.bool) {\n    if args.alt {\n        choose step_%d = [step_%d_alt]\n    }\n    this.step_%d!()\n}\n\n"
                         "pri func %s.step_%d!(),\n        choosy,\n{\n    this.%s ~mod+= 1\n}\n\n"
                         "pri func %s.step_%d_alt!() {\n    this.%s ~mod+= %d\n}\n" % (
                             sn, si, si, si, si, sn, si, f1, sn, si, f1, rng.randrange(2, 50)))
        rng.shuffle(funcs)
        body += funcs
    files = {}
    if rng.random() < 0.5:
        files["%s.wuffs" % pkg] = "\n".join(head) + "\n" + "\n".join(body)
    else:
        cut = rng.randrange(1, len(body))
        files["a_%s.wuffs" % pkg] = "\n".join(head) + "\n" + "\n".join(body[:cut])
        files["b_%s.wuffs" % pkg] = "// generated for C20, second file of the package\n\n" + "\n".join(body[cut:])
    return pkg, files


# --------------------------------------------------------------------- trees

def arrange(names, order, rng):
    names = sorted(names)
    if order == "reverse":
        names.reverse()
    elif order == "shuffle":
        rng.shuffle(names)
    return names


def copy_tree_ordered(src, dst, order, rng):
    """Copy directory src to dst creating the entries of every directory in
    the given order (sorted / reverse / shuffle): on tmpfs and on small ext4
    directories readdir order depends on creation order."""
    os.makedirs(dst)
    ents = os.listdir(src)
    for e in arrange(ents, order, rng):
        s = os.path.join(src, e)
        if os.path.isdir(s):
            copy_tree_ordered(s, os.path.join(dst, e), order, rng)
        else:
            shutil.copyfile(s, os.path.join(dst, e))


def codes(names):
    return [list(n.encode("utf-8")) for n in names]


class Recorder:
    def __init__(self):
        self.events = []
        self.lock = threading.Lock()
        self.outputs = {}     # (keyid, sha) -> path of a saved copy of the output
        self.envs = {}        # env class id -> description

    def add(self, e):
        with self.lock:
            self.events.append(e)


def keyid(e):
    return json.dumps([e["pkg"], e["files"], e["src"]])


def run_tree(ctx, rec, tools, srcdir, name, base, order, rng, committed_sha):
    """`wuffs gen` of the whole tree in one scratch copy; records the tool's
    own enumeration orders (argv of wuffs-c) and every output."""
    root = os.path.join(base, "tree-" + name)
    os.makedirs(root)
    copy_tree_ordered(os.path.join(srcdir, "std"), os.path.join(root, "std"), order, rng)
    shutil.copy(os.path.join(srcdir, "wuffs-root-directory.txt"), root)
    # raw readdir order of this copy (what the tool's f.Readdir(-1) sees), for the evidence
    raw = {}
    for d, _, fs in os.walk(os.path.join(root, "std")):
        raw[os.path.relpath(d, root)] = os.listdir(d)
    shimdir = os.path.join(root + "-shim")
    os.makedirs(shimdir)
    shim = os.path.join(shimdir, "wuffs-c")
    with open(shim, "w") as f:
        f.write(SHIM)
    os.chmod(shim, 0o755)
    arglog = os.path.join(shimdir, "argv.log")
    env = dict(ctx.env)
    env.update({"PATH": shimdir + ":" + env.get("PATH", ""), "C20_ARGLOG": arglog, "C20_REAL_WUFFS_C": tools["wuffs-c"]})
    t = time.time()
    r = subprocess.run([tools["wuffs"], "gen"], cwd=root, env=env, capture_output=True, text=True, timeout=1200)
    if r.returncode != 0 or not os.path.exists(os.path.join(root, SNAP)):
        raise ToolingError("`wuffs gen` failed in tree copy %s (the working tree's std/ does not compile with the working tree's compiler?):\n%s"
                           % (name, (r.stdout + r.stderr)[-3000:]))
    envc = "wuffs-gen:" + name
    rec.envs[envc] = {"tool": "wuffs gen", "copy": name, "creation_order": order, "filesystem_base": base}
    inv = []
    nld = 0
    for line in open(arglog):
        a = line.rstrip("\n").split("\t")
        if a[0] != "ARGV":
            raise ToolingError("bad shim log line: " + line[:200])
        a = a[1:]
        rel = [x[len(root) + 1:] if x.startswith(root + "/") else x for x in a]
        inv.append(" ".join(rel))
        if a[0] == "gen":
            if a[1] != "-package_name":
                raise ToolingError("unexpected wuffs-c gen arguments: %r" % a[:4])
            pkg, files = a[2], rel[3:]
            if any(f.startswith("-") for f in files):
                raise ToolingError("unexpected wuffs-c gen flag: %r" % files)
            if files:
                d = os.path.dirname(files[0])
                if any(os.path.dirname(f) != d for f in files):
                    raise ToolingError("files of one package from several directories: %r" % files)
                names = [os.path.basename(f) for f in files]
                rec.add({"k": "listdir", "dir": d, "names": names, "codes": codes(names), "copy": name})
                nld += 1
                flat = "wuffs-" + d.replace("/", "-") + ".c"
                srcsha = sha256(b"".join(read(os.path.join(root, f)) for f in files))
            else:
                flat = "wuffs-base.c"
                srcsha = "-"
            out = read(os.path.join(root, "gen", "c", flat))
            e = {"k": "gen", "pkg": pkg, "files": files, "src": srcsha, "env": envc, "sha": "rc0:" + sha256(out)}
            rec.add(e)
            save_output(ctx, rec, e, out)
            if files:
                gw = os.path.join(root, "gen", "wuffs", d + ".wuffs")
                rec.add({"k": "gen", "pkg": "(wuffs gen: gen/wuffs interface file) " + pkg, "files": files, "src": srcsha,
                         "env": envc, "sha": "rc0:" + sha256(read(gw))})
        elif a[0] == "genrelease":
            files = [x for x in rel[1:] if x.startswith("gen/")]
            names = [os.path.basename(f) for f in files]
            rec.add({"k": "listdir", "dir": "gen/c", "names": names, "codes": codes(names), "copy": name})
            nld += 1
            srcsha = sha256(b"".join(read(os.path.join(root, f)) for f in files))
            out = read(os.path.join(root, SNAP))
            e = {"k": "gen", "pkg": "(wuffs-c genrelease)", "files": files, "src": srcsha, "env": envc, "sha": "rc0:" + sha256(out)}
            rec.add(e)
            save_output(ctx, rec, e, out)
            rec.add({"k": "release", "regen": sha256(out), "committed": committed_sha, "copy": name})
    # the whole tool as one function of the tree: which compilations, in which order, with which arguments
    rec.add({"k": "gen", "pkg": "(wuffs gen: sequence of wuffs-c invocations)", "files": ["std/..."], "src": tree_digest(os.path.join(srcdir, "std")),
             "env": envc, "sha": "rc0:" + sha256("\n".join(inv).encode())})
    wrote = [l.split()[-1][len(root) + 1:] for l in r.stdout.splitlines() if l.startswith("gen wrote:")]
    return {"root": root, "name": name, "raw": raw, "listdirs": nld, "invocations": len(inv), "wrote": wrote, "wall_s": round(time.time() - t, 1)}


def run_versioned(ctx, rec, tools, srcdir, base):
    """`wuffs gen -version=0.4.0 base` in a scratch tree that IS a git repository (a versioned release embeds the
    revision, the commit count and the commit DATE of HEAD): the release file must not depend on the caller's
    time zone.  The commit is made at 23:30 UTC, so that any zone east of UTC+0:30 names the next day.  POSIX TZ
    strings are used (no tz database needed)."""
    root = os.path.join(base, "vtree")
    os.makedirs(root)
    shutil.copytree(os.path.join(srcdir, "std"), os.path.join(root, "std"))
    shutil.copy(os.path.join(srcdir, "wuffs-root-directory.txt"), root)
    genv = dict(os.environ, GIT_AUTHOR_DATE="2024-03-10T23:30:00+0000", GIT_COMMITTER_DATE="2024-03-10T23:30:00+0000",
                GIT_CONFIG_GLOBAL="/dev/null", GIT_CONFIG_SYSTEM="/dev/null", HOME=root)
    for cmd in (["git", "init", "-q"], ["git", "add", "wuffs-root-directory.txt"],
                ["git", "-c", "user.name=verif", "-c", "user.email=verif@example.invalid", "commit", "-q", "-m", "c20"]):
        r = subprocess.run(cmd, cwd=root, env=genv, capture_output=True, text=True, timeout=120)
        if r.returncode != 0:
            raise ToolingError("scratch git repository: %s failed: %s" % (" ".join(cmd), (r.stdout + r.stderr)[-500:]))
    head = subprocess.run(["git", "rev-parse", "HEAD"], cwd=root, env=genv, capture_output=True, text=True, timeout=60).stdout.strip()
    n = 0
    shas = set()
    for tz in (None, "UTC0", "JST-9", "LINT-14", "PST8PDT", "NST3:30"):
        env = dict(ctx.env)
        env.pop("TZ", None)
        if tz is not None:
            env["TZ"] = tz
        env["PATH"] = os.path.dirname(tools["wuffs-c"]) + ":" + env.get("PATH", "")
        shutil.rmtree(os.path.join(root, "gen"), ignore_errors=True)
        shutil.rmtree(os.path.join(root, "release"), ignore_errors=True)
        r = subprocess.run([tools["wuffs"], "gen", "-version=0.4.0", "base"], cwd=root, env=env, capture_output=True, text=True, timeout=600)
        outp = os.path.join(root, "release", "c", "wuffs-v0.4.c")
        if r.returncode != 0 or not os.path.exists(outp):
            raise ToolingError("`wuffs gen -version=0.4.0 base` failed in the scratch git tree:\n" + (r.stdout + r.stderr)[-2000:])
        out = read(outp)
        if head.encode() not in out:
            raise ToolingError("the versioned release file does not embed the scratch repository's revision %s" % head)
        envc = "wuffs-gen-version:TZ=%s" % tz
        rec.envs[envc] = {"tool": "wuffs gen -version=0.4.0 base", "TZ": tz, "head": head, "commit_date": "2024-03-10T23:30:00+0000"}
        e = {"k": "gen", "pkg": "(wuffs gen -version=0.4.0 base: release file)", "files": ["gen/c/wuffs-base.c"], "src": head, "env": envc,
             "sha": "rc0:" + sha256(out)}
        rec.add(e)
        save_output(ctx, rec, e, out)
        shas.add(e["sha"])
        n += 1
    return {"runs": n, "distinct": len(shas)}


def tree_digest(d):
    h = hashlib.sha256()
    for dp, dn, fn in sorted(os.walk(d)):
        dn.sort()
        for f in sorted(fn):
            p = os.path.join(dp, f)
            h.update(os.path.relpath(p, d).encode() + b"\0" + read(p) + b"\0")
    return h.hexdigest()


def save_output(ctx, rec, e, out):
    k = (keyid(e), e["sha"])
    with rec.lock:
        if k in rec.outputs or sum(1 for kk in rec.outputs if kk[0] == k[0]) >= 3:
            return
        p = os.path.join(ctx.subdir("outputs"), "%s-%s.c" % (sha256(k[0].encode())[:12], e["sha"][4:16]))
        rec.outputs[k] = p
    with open(p, "wb") as f:
        f.write(out)


# ---------------------------------------------------------------------- runs

LANGS = ["C", "en_US.UTF-8", "tr_TR.UTF-8", "ja_JP.eucJP", "POSIX"]
TZS = ["UTC", "Asia/Kolkata", "America/St_Johns", "Pacific/Chatham"]


def one_run(ctx, rec, tools, job):
    """One fresh wuffs-c process.  job: dict(pkg, relfiles, root, cwdmode,
    pathmode, env...)."""
    root = job["root"]
    pkgdir = os.path.join(root, os.path.dirname(job["relfiles"][0])) if job["relfiles"] else root
    cwd = {"root": root, "pkg": pkgdir, "gen": os.path.join(root, "gen")}[job["cwdmode"]]
    if job["pathmode"] == "abs":
        fargs = [os.path.join(root, f) for f in job["relfiles"]]
    else:
        fargs = [os.path.relpath(os.path.join(root, f), cwd) for f in job["relfiles"]]
    env = {"PATH": "/usr/bin:/bin", "HOME": job["home"], "TMPDIR": job["tmpdir"], "LANG": job["lang"], "LC_ALL": job["lang"],
           "TZ": job["tz"], "GOMAXPROCS": str(job["gomaxprocs"]), "GOGC": job["gogc"], "GOPATH": job["gopath"]}
    if job.get("godebug"):
        env["GODEBUG"] = job["godebug"]
    cmd = [tools["wuffs-c"], "gen", "-package_name", job["pkg"]] + fargs
    try:
        r = subprocess.run(cmd, cwd=cwd, env=env, stdin=subprocess.DEVNULL, capture_output=True, timeout=600)
    except subprocess.TimeoutExpired:
        raise ToolingError("wuffs-c gen timed out (600 s) on %s under %s" % (job["pkg"], job["envc"]))
    e = {"k": "gen", "pkg": job["pkg"], "files": job["relfiles"], "src": job["src"], "env": job["envc"],
         "sha": "rc%d:%s" % (r.returncode, sha256(r.stdout))}
    rec.add(e)
    save_output(ctx, rec, e, r.stdout)
    return r.returncode, r.stderr[-600:].decode("utf-8", "replace")


def env_class(job):
    return "P%s.G%s.%s.%s.cwd-%s.%s.%s%s" % (job["gomaxprocs"], job["gogc"], job["lang"], job["tz"], job["cwdmode"], job["pathmode"],
                                             job["copy"], (".D-" + job["godebug"]) if job.get("godebug") else "")


# ----------------------------------------------------------------------- TLC

MAXREJ = 6

TCFG = """SPECIFICATION TSpec
CONSTANTS
  TraceFile = "%s"
INVARIANTS Accepted ReportAtEnd
POSTCONDITION AllConsumed
ALIAS Shown
CHECK_DEADLOCK FALSE
"""


def tlc_trace(ctx, events, label):
    """One TLC walk over the events.  Returns (None, report) when accepted or
    ((line_index0, clauses), None) for the first rejected line."""
    lines = [json.dumps(e) for e in events]
    fn = "runs.ndjson"
    res = ctx.tlc("Trace_Determinism", cfg="t.cfg", data={"t.cfg": TCFG % fn, fn: "\n".join(lines) + "\n"},
                  workers=1, timeout=1800, label=label, heap="3g")
    if res["error"]:
        raise ToolingError("TLC error validating %s:\n%s" % (label, res["error"]))
    out = res["out"]
    if not res["violated"]:
        if ("AllConsumed" in out and "violated" in out.lower()) or res["distinct"] != len(lines) + 1:
            raise ToolingError("trace %s not fully consumed (%d states for %d lines):\n%s" % (label, res["distinct"], len(lines), out[-1500:]))
        reps = [o for o in parse_tlc_prints(out) if isinstance(o, dict) and o.get("report") == "Trace_Determinism"]
        rep = reps[-1] if reps else None
        if rep is None:
            raise ToolingError("TLC accepted %s but printed no report:\n%s" % (label, out[-1500:]))
        return None, rep
    if res["violated"] != "Accepted":
        raise ToolingError("unexpected invariant violation %s in %s:\n%s" % (res["violated"], label, out[-1500:]))
    ls = re.findall(r"/\\ l = (\d+)", out) or re.findall(r"l \|-> (\d+)", out)
    bads = re.findall(r"/\\ bad = (\{[^\n]*\})", out) or re.findall(r"bad \|-> (\{[^\n\]]*\})", out)
    if not ls or not bads:
        raise ToolingError("cannot parse TLC rejection:\n" + out[-2000:])
    return (int(ls[-1]) - 2, re.findall(r'"([^"]+)"', bads[-1])), None


def short_diff(pa, pb, n=40):
    try:
        a = read(pa).decode("utf-8", "replace").splitlines()
        b = read(pb).decode("utf-8", "replace").splitlines()
    except Exception as ex:
        return ["(no diff: %s)" % ex]
    d = list(difflib.unified_diff(a, b, "first", "other", lineterm="", n=1))
    return d[:n] + (["... (%d more diff lines)" % (len(d) - n)] if len(d) > n else [])


def model_checks(ctx, thorough):
    """The closed model: sorting generator satisfies the predicates, the
    map-order generator violates each of them (TLC must exhibit it)."""
    def cfg(pk, sorting, nruns, invs):
        return ("SPECIFICATION Spec\nCONSTANTS\n  NameSets <- %s\n  Sorting = %s\n  NRuns = %d\nINVARIANTS %s\nCHECK_DEADLOCK FALSE\n"
                % (pk, "TRUE" if sorting else "FALSE", nruns, " ".join(invs)))
    jobs = [("sorted", cfg("PkgsLarge" if thorough else "PkgsSmall", True, 3, ["OneFunction", "ListingsSorted", "FormsAgree"]), None),
            ("maporder-fd", cfg("PkgsSmall", False, 2, ["FormsAgree", "OneFunction"]), "OneFunction"),
            ("maporder-listing", cfg("PkgsSmall", False, 2, ["ListingsSorted"]), "ListingsSorted")]
    if thorough:
        jobs.append(("maporder-all", cfg("PkgsLarge", False, 2, ["FormsAgree"]), None))
        jobs.append(("f-not-constant", cfg("PkgsSmall", True, 2, ["NeverTwoOutputs"]), "NeverTwoOutputs"))
    out = {}

    def one(j):
        name, c, expect = j
        res = ctx.tlc("DeterminismModel", cfg="m.cfg", data={"m.cfg": c}, workers=2, timeout=900, label="model " + name)
        if res["error"]:
            raise ToolingError("TLC error in closed model %s:\n%s" % (name, res["error"]))
        if res["violated"] != expect:
            raise ToolingError("closed model %s: expected %s, TLC says %s:\n%s" % (
                name, expect or "no violation", res["violated"], res["out"][-2000:]))
        return name, {"states": res["distinct"], "expected_violation": expect}
    with concurrent.futures.ThreadPoolExecutor(max_workers=len(jobs)) as ex:
        for name, v in ex.map(one, jobs):
            out[name] = v
    return out


# ----------------------------------------------------------------------- run

def run(ctx, only=None):
    thorough = ctx.tier == "thorough"
    R = 24 if thorough else 6
    NGEN = 14 if thorough else 6
    rng = ctx.rng
    rec = Recorder()
    t_build = time.time()

    # 0. one snapshot of the inputs (other checks may be editing hooks into the
    #    tree while we run; everything below reads this copy)
    srcdir = ctx.subdir("src")
    shutil.copytree(os.path.join(REPO, "std"), os.path.join(srcdir, "std"))
    for f in ("wuffs-root-directory.txt", SNAP, "lang/check/gen.go", "lang/check/axioms.md", "lang/check/data.go"):
        os.makedirs(os.path.dirname(os.path.join(srcdir, f)), exist_ok=True)
        shutil.copy(os.path.join(REPO, f), os.path.join(srcdir, f))
    committed_snap = sha256(read(os.path.join(srcdir, SNAP)))
    committed_data = sha256(read(os.path.join(srcdir, "lang/check/data.go")))

    # 1. tools, built from the working tree WITHOUT the verif tag (what users build);
    #    the axiom generator is a `//go:build ignore` program using only the Go
    #    standard library: built from a scratch copy, outside any module
    ctx.harness_dir()
    axdir = ctx.subdir("axbuild")
    shutil.copy(os.path.join(srcdir, "lang/check/gen.go"), axdir)

    def build_ax():
        env = {k: v for k, v in ctx.env.items() if k != "GOFLAGS"}
        r = subprocess.run(["go", "build", "-o", os.path.join(axdir, "axgen"), "gen.go"], cwd=axdir, env=env, capture_output=True, text=True, timeout=900)
        if r.returncode != 0:
            raise ToolingError("building lang/check/gen.go failed:\n" + (r.stdout + r.stderr)[-3000:])
        return os.path.join(axdir, "axgen")
    with concurrent.futures.ThreadPoolExecutor(max_workers=4) as ex:
        fm = ex.submit(model_checks, ctx, thorough)
        fw = ex.submit(ctx.go_build, "github.com/google/wuffs/cmd/wuffs", "wuffs", "")
        fc = ex.submit(ctx.go_build, "github.com/google/wuffs/cmd/wuffs-c", "wuffs-c", "")
        fa = ex.submit(build_ax)
        tools = {"wuffs": fw.result(), "wuffs-c": fc.result()}
        axgen = fa.result()
        models = fm.result()
    ctx.log("tools built, closed model checked (%s) in %.1fs" % (
        ", ".join("%s:%d states" % (k, v["states"]) for k, v in models.items()), time.time() - t_build))

    # 2. wuffs gen of the whole tree in scratch copies with different creation orders / filesystems
    shm = None
    if os.path.isdir("/dev/shm") and os.access("/dev/shm", os.W_OK):
        shm = os.path.join("/dev/shm", "verif-C20-%d-%d" % (os.getpid(), ctx.seed))
        shutil.rmtree(shm, ignore_errors=True)
        os.makedirs(shm)
    try:
        _run(ctx, rec, tools, axgen, srcdir, shm, thorough, R, NGEN, rng, committed_snap, committed_data, models, only)
    finally:
        if shm:
            shutil.rmtree(shm, ignore_errors=True)


def _run(ctx, rec, tools, axgen, srcdir, shm, thorough, R, NGEN, rng, committed_snap, committed_data, models, only):
    disk = ctx.subdir("trees")
    if shm:
        plan = [("sorted-disk", disk, "sorted"), ("reverse-shm", shm, "reverse"), ("shuffle-shm", shm, "shuffle")]
    else:
        plan = [("sorted-disk", disk, "sorted"), ("reverse-disk", disk, "reverse"), ("shuffle-disk", disk, "shuffle")]
    if thorough:
        plan += [("reverse-disk", disk, "reverse"), ("shuffle2-disk", disk, "shuffle")] if shm else [("shuffle2-disk", disk, "shuffle")]
        plan += [("sorted-shm", shm, "sorted")] if shm else []
    t0 = time.time()
    with concurrent.futures.ThreadPoolExecutor(max_workers=len(plan)) as ex:
        futs = [ex.submit(run_tree, ctx, rec, tools, srcdir, n, b, o, __import__("random").Random(rng.random()), committed_snap) for n, b, o in plan]
        trees = [f.result() for f in futs]
    vres = run_versioned(ctx, rec, tools, srcdir, disk)
    ctx.log("versioned release (scratch git repository, commit at 23:30 UTC) under %d TZ settings: %d distinct output(s)" % (vres["runs"], vres["distinct"]))
    raw_varied = 0
    dirs = sorted(trees[0]["raw"])
    for d in dirs:
        if len({tuple(t["raw"].get(d, ())) for t in trees}) > 1:
            raw_varied += 1
    raw_unsorted = sum(1 for t in trees for d in dirs if t["raw"].get(d) != sorted(t["raw"].get(d, [])))
    ctx.log("wuffs gen in %d tree copies (%s) in %.1fs; raw readdir order differs between copies in %d of %d directories, is unsorted in %d (dir, copy) pairs" % (
        len(trees), ", ".join(t["name"] for t in trees), time.time() - t0, raw_varied, len(dirs), raw_unsorted))

    # 3. the packages: std (file lists as wuffs gen enumerated them in the first copy), base, programs
    first = [e for e in rec.events if e["k"] == "gen" and e["env"] == "wuffs-gen:" + trees[0]["name"] and not e["pkg"].startswith("(")]
    pkgs = [{"pkg": e["pkg"], "files": e["files"], "src": e["src"], "kind": "std" if e["files"] else "base"} for e in first]
    progs = {}
    for d in sorted(os.listdir(TESTDATA)):
        p = os.path.join(TESTDATA, d)
        if os.path.isdir(p):
            progs[d] = {f: read(os.path.join(p, f)).decode() for f in sorted(os.listdir(p)) if f.endswith(".wuffs")}
    nhand = len(progs)
    for i in range(NGEN):
        pk, files = gen_program(rng, i)
        progs[pk] = files
    for t in trees:
        for pk, files in progs.items():
            d = os.path.join(t["root"], "prog", pk)
            os.makedirs(d)
            for fn, text in files.items():
                with open(os.path.join(d, fn), "w") as f:
                    f.write(text)
    for pk, files in progs.items():
        rel = ["prog/%s/%s" % (pk, fn) for fn in sorted(files)]
        pkgs.append({"pkg": pk, "files": rel, "src": sha256("".join(files[fn] for fn in sorted(files)).encode()),
                     "kind": "hand" if pk in list(progs)[:nhand] else "generated"})
    if only:
        pkgs = [p for p in pkgs if p["pkg"] == only]
    # a reversed file order is a different key (F takes an ORDERED list): recorded, free to differ
    permuted = []
    for p in pkgs:
        if len(p["files"]) >= 2 and (thorough or p["pkg"] in ("png", "multi", "adler32")):
            q = dict(p)
            q["files"] = list(reversed(p["files"]))
            q["kind"] = "permuted"
            permuted.append(q)
    tmpdirs = [ctx.subdir("tmpA"), ctx.subdir("tmp B with space")] + ([os.path.join(shm, "tmpC")] if shm else [])
    for d in tmpdirs:
        os.makedirs(d, exist_ok=True)
    homes = [ctx.subdir("homeA"), "/nonexistent-home"]
    jobs = []
    for p in pkgs + permuted:
        n = R if p["kind"] != "permuted" else 2
        for i in range(n):
            t = trees[(i + rng.randrange(len(trees))) % len(trees)] if i >= len(trees) else trees[i % len(trees)]
            job = {"pkg": p["pkg"], "relfiles": p["files"], "src": p["src"], "root": t["root"], "copy": t["name"],
                   # the first four runs of every key cover GOMAXPROCS x GOGC extremes systematically
                   "gomaxprocs": [1, 16, 1, 16][i] if i < 4 else rng.choice([1, 2, 16, 64]),
                   "gogc": ["1", "off", "off", "1"][i] if i < 4 else rng.choice(["1", "off", "100", "7"]),
                   "lang": rng.choice(LANGS), "tz": rng.choice(TZS), "tmpdir": rng.choice(tmpdirs), "home": rng.choice(homes),
                   "gopath": rng.choice(["/nonexistent-gopath", ctx.subdir("gopath")]),
                   "cwdmode": rng.choice(["root", "pkg", "gen"]), "pathmode": rng.choice(["abs", "rel"]),
                   "godebug": rng.choice(["", "", "gctrace=0", "asyncpreemptoff=1"])}
            job["envc"] = env_class(job)
            rec.envs[job["envc"]] = {k: job[k] for k in ("gomaxprocs", "gogc", "lang", "tz", "tmpdir", "home", "gopath", "cwdmode", "pathmode", "copy", "godebug")}
            jobs.append(job)
    rng.shuffle(jobs)
    t0 = time.time()
    fails = {}
    with concurrent.futures.ThreadPoolExecutor(max_workers=16 if thorough else 10) as ex:
        for job, (rc, err) in zip(jobs, ex.map(lambda j: one_run(ctx, rec, tools, j), jobs)):
            if rc != 0:
                fails.setdefault((job["pkg"], tuple(job["relfiles"])), []).append(err)
    kinds = {(p["pkg"], tuple(p["files"])): p["kind"] for p in pkgs + permuted}
    for (pk, fl), errs in fails.items():
        k = kinds[(pk, fl)]
        if k == "hand":
            raise ToolingError("hand-written test program %s does not compile: %s" % (pk, errs[0]))
        ctx.log("note: %s package %s exits non-zero in %d runs (%s); recorded as runs with that exit code" % (k, pk, len(errs), errs[0].strip()[-160:]))
    ctx.log("%d wuffs-c gen processes (%d packages x %d runs + %d permuted-order keys x 2) in %.1fs" % (
        len(jobs), len(pkgs), R, len(permuted), time.time() - t0))

    # 4. the axiom table: the generator run in scratch copies of its input
    nax = 6 if thorough else 3
    axsrc = sha256(read(os.path.join(srcdir, "lang/check/gen.go")) + read(os.path.join(srcdir, "lang/check/axioms.md")))
    if not only:
        for i in range(nax):
            d = os.path.join(shm if (shm and i % 2) else ctx.scratch, "ax-%d" % i)
            os.makedirs(d)
            shutil.copy(os.path.join(srcdir, "lang/check/axioms.md"), d)
            env = {"PATH": "/usr/bin:/bin", "GOMAXPROCS": str([1, 16, 4][i % 3]), "GOGC": ["1", "off", "100"][i % 3],
                   "LANG": LANGS[i % len(LANGS)], "TZ": TZS[i % len(TZS)], "TMPDIR": tmpdirs[i % len(tmpdirs)], "HOME": "/nonexistent-home"}
            r = subprocess.run([axgen], cwd=d, env=env, capture_output=True, text=True, timeout=300)
            if r.returncode != 0 or not os.path.exists(os.path.join(d, "data.go")):
                raise ToolingError("lang/check/gen.go failed on the working tree's axioms.md:\n" + (r.stdout + r.stderr)[-2000:])
            out = read(os.path.join(d, "data.go"))
            envc = "axgen.P%s.G%s.%s" % (env["GOMAXPROCS"], env["GOGC"], "shm" if (shm and i % 2) else "disk")
            rec.envs[envc] = env
            e = {"k": "gen", "pkg": "(lang/check/gen.go)", "files": ["lang/check/axioms.md"], "src": axsrc, "env": envc, "sha": "rc0:" + sha256(out)}
            rec.add(e)
            save_output(ctx, rec, e, out)
            rec.add({"k": "axiom", "gen": sha256(out), "committed": committed_data})

    # 5. TLC decides
    events = list(rec.events)
    report = None
    rejections = []
    selftest = None
    with concurrent.futures.ThreadPoolExecutor(max_workers=5) as ex:
        fst = ex.submit(corruption_selftest, ctx, events, rng.randrange(1 << 30), thorough)
        cur = events
        for attempt in range(MAXREJ):
            rej, rep = tlc_trace(ctx, cur, "recorded runs (pass %d)" % (attempt + 1))
            if rej is None:
                report = rep
                break
            idx, clauses = rej
            ev = cur[idx]
            rejections.append((ev, clauses, idx + 1))
            # drop everything that restates the same rejected fact, validate the rest
            if ev["k"] == "gen":
                kid = keyid(ev)
                cur = [x for x in cur if not (x["k"] == "gen" and keyid(x) == kid)]
            elif ev["k"] == "listdir":
                cur = [x for x in cur if not (x["k"] == "listdir" and x["dir"] == ev["dir"])]
            elif ev["k"] == "release":
                cur = [x for x in cur if not (x["k"] == "release" and x["regen"] == ev["regen"] and x["committed"] == ev["committed"])]
            else:
                cur = [x for x in cur if not (x["k"] == "axiom" and x["gen"] == ev["gen"] and x["committed"] == ev["committed"])]
        else:
            ctx.log("more than %d rejected facts; the remaining ones are not enumerated" % MAXREJ)
        selftest = fst.result()

    for ev, clauses, line in rejections:
        report_rejection(ctx, rec, events, ev, clauses, line, srcdir)
    selftest_verdict(ctx, selftest, bool(rejections))
    ctx.log("TLC: %s; %d rejected line(s); corruption self-test: %s" % (
        ("accepted %d lines, %d keys" % (report["lines"], report["keys"])) if report else "no accepted remainder",
        len(rejections), ", ".join("%s->%s" % (x["kind"], x["got"][1] if x["got"] else "ACCEPTED") for x in selftest)))

    # 6. evidence (a replay of one package does not overwrite the evidence of a full run)
    if only:
        return
    gens = [e for e in events if e["k"] == "gen"]
    bykey = {}
    for e in gens:
        bykey.setdefault(keyid(e), []).append(e)
    nontrivial = sum(1 for k, es in bykey.items() if len({x["env"] for x in es}) >= 2)
    std_keys = sum(1 for p in pkgs if p["kind"] in ("std", "base"))
    samples = []
    for k in list(bykey)[:2] + list(bykey)[-2:]:
        es = bykey[k]
        samples.append({"pkg": es[0]["pkg"], "files": es[0]["files"], "runs": len(es), "distinct_outputs": len({x["sha"] for x in es}),
                        "sha": es[0]["sha"], "env_classes": sorted({x["env"] for x in es})[:6]})
    ld = [e for e in events if e["k"] == "listdir"]
    if ld:
        samples.append({"listdir": ld[len(ld) // 2]["dir"], "names": ld[len(ld) // 2]["names"], "copy": ld[len(ld) // 2]["copy"]})
    samples.append({"release": [e for e in events if e["k"] == "release"][:1], "axiom": [e for e in events if e["k"] == "axiom"][:1]})
    ctx.evidence("other", {
        "explanation": "The verdict is byte equality (sha256) of real outputs of the working tree's cmd/wuffs, cmd/wuffs-c and lang/check/gen.go; "
                       "TLC evaluates the acceptance predicate of Trace_Determinism.tla (Determinism.tla: one function of <<pkg, ordered files, "
                       "source digest>> explains every recorded compilation whatever its environment; every file enumeration the build tool "
                       "passed to the compiler is strictly sorted; regenerated release == committed snapshot; generated axiom table == committed "
                       "data.go) over the recorded runs, and model-checks the closed model DeterminismModel.tla (a generator walking a Go map: "
                       "sorting satisfies the predicates, map order violates them). The specification contributes the predicate, not the oracle.",
        "evaluations": len(gens),
        "distinct_nontrivial": nontrivial,
        "rule": "one evaluation = one recorded compilation (a fresh wuffs-c / wuffs gen / gen.go process); a key <<pkg, ordered files, source digest>> "
                "is non-trivial when it was compiled under at least two different environment classes (GOMAXPROCS, GOGC, LANG, TZ, TMPDIR, HOME, cwd, "
                "absolute/relative paths, tree copy with its own directory-creation order and filesystem), so that FunctionalDependence constrains it",
        "samples": samples,
        "states": sum(t["distinct"] for t in ctx.tlc_stats),
        "transitions": sum(t["generated"] for t in ctx.tlc_stats),
        "traces_validated_against_impl": 1 if report else 0,
        "tlc_report": report,
        "events": {k: sum(1 for e in events if e["k"] == k) for k in ("gen", "listdir", "release", "axiom")},
        "keys": len(bykey),
        "std_packages_incl_base": std_keys,
        "hand_written_programs": nhand, "generated_programs": NGEN, "permuted_order_keys": len(permuted),
        "runs_per_key": R,
        "fresh_wuffs_c_processes": len(jobs),
        "environment_classes": len({e["env"] for e in gens}),
        "tree_copies": [{"name": t["name"], "wall_s": t["wall_s"], "invocations": t["invocations"], "listdirs": t["listdirs"]} for t in trees],
        "directories_whose_raw_readdir_order_differs_between_copies": raw_varied,
        "dir_copy_pairs_with_unsorted_raw_readdir_order": raw_unsorted,
        "directories": len(dirs),
        "axiom_generator_runs": sum(1 for e in events if e["k"] == "axiom"),
        "rejected_lines": [{"line": l, "clauses": c, "event_kind": e["k"], "pkg_or_dir": e.get("pkg") or e.get("dir") or ""} for e, c, l in rejections],
        "closed_model": models,
        "corruption_selftest": selftest,
        "exhaustive": False,
    }, assumptions=[
        "sha256 collisions are ignored; names are turned into byte lists by the Python transport before TLC compares them",
        "the order in which wuffs gen enumerates a package's files is observed as the argv it passes to wuffs-c (logging shim on PATH that exec's the real binary)",
        "Go's map-iteration randomisation is the adversary: a dependence that shows with probability p per run is missed with probability (1-p)^runs_per_key",
        "the tools are built from the working tree without the `verif` build tag; git metadata is absent in the scratch trees (the snapshot is version 0.0.0 and embeds none)",
        "in-process concurrent use of internal/cgen is not driven (internal/ is not importable from the harness module); concurrency is between processes",
    ])


def report_rejection(ctx, rec, events, ev, clauses, line, srcdir):
    if ev["k"] == "gen":
        kid = keyid(ev)
        same = [x for x in events if x["k"] == "gen" and keyid(x) == kid]
        hist = {}
        for x in same:
            hist.setdefault(x["sha"], []).append(x["env"])
        shas = sorted(hist, key=lambda s: -len(hist[s]))
        paths = [rec.outputs.get((kid, s)) for s in shas]
        diff = short_diff(paths[0], paths[1]) if len(paths) > 1 and paths[0] and paths[1] else []
        what = ("compiling package %s from the same ordered file list %s gave %d different outputs in %d runs "
                "(rejected by Determinism!FunctionalDependence at trace line %d): %s" % (
                    ev["pkg"], ev["files"][:4] + (["..."] if len(ev["files"]) > 4 else []), len(hist), len(same), line,
                    "; ".join("%s x%d" % (s[:20], len(hist[s])) for s in shas)))
        if diff:
            what += "\nfirst differences:\n" + "\n".join(diff[:16])
        ctx.violation(what, {"key": "fd:" + ev["pkg"], "clause": clauses, "pkg": ev["pkg"], "files": ev["files"], "src": ev["src"],
                             "outputs": {s: {"runs": len(hist[s]), "env_classes": sorted(set(hist[s]))[:8],
                                             "env_example": rec.envs.get(hist[s][0])} for s in shas},
                             "diff": diff, "line": line,
                             "reproduce": "bin/check C20 quick --replay <this file> (compiles only this package, repeatedly)"})
    elif ev["k"] == "listdir":
        others = [x for x in events if x["k"] == "listdir" and x["dir"] == ev["dir"]]
        what = ("wuffs gen handed the files of %s to the compiler in an order that is not sorted (tree copy %s, trace line %d, clause %s): %s; "
                "orders seen in the %d tree copies: %d distinct" % (ev["dir"], ev["copy"], line, clauses, ev["names"], len(others),
                                                                  len({tuple(x["names"]) for x in others})))
        ctx.violation(what, {"key": "listdir:" + ev["dir"], "clause": clauses, "dir": ev["dir"], "copy": ev["copy"], "names": ev["names"],
                             "copy_info": rec.envs.get("wuffs-gen:" + ev["copy"]), "line": line})
    elif ev["k"] == "release":
        regen = None
        for (kid, s), p in rec.outputs.items():
            if s == "rc0:" + ev["regen"]:
                regen = p
        diff = short_diff(os.path.join(srcdir, SNAP), regen) if regen else []
        what = ("regenerating std with the working tree's compiler (tree copy %s) does not reproduce the committed %s: committed %s, regenerated %s (trace line %d)" % (
            ev["copy"], SNAP, ev["committed"][:16], ev["regen"][:16], line))
        if diff:
            what += "\nfirst differences (committed -> regenerated):\n" + "\n".join(diff[:16])
        ctx.violation(what, {"key": "release", "clause": clauses, "committed": ev["committed"], "regen": ev["regen"], "copy": ev["copy"], "diff": diff, "line": line})
    elif ev["k"] == "axiom":
        gen = None
        for (kid, s), p in rec.outputs.items():
            if s == "rc0:" + ev["gen"]:
                gen = p
        diff = short_diff(os.path.join(srcdir, "lang/check/data.go"), gen) if gen else []
        what = ("lang/check/gen.go run on the working tree's axioms.md does not produce the committed lang/check/data.go: committed %s, generated %s (trace line %d)" % (
            ev["committed"][:16], ev["gen"][:16], line))
        if diff:
            what += "\nfirst differences (committed -> generated):\n" + "\n".join(diff[:16])
        ctx.violation(what, {"key": "axiom", "clause": clauses, "committed": ev["committed"], "gen": ev["gen"], "diff": diff, "line": line})


def corruption_selftest(ctx, events, seed, thorough):
    """Corrupt one recorded field and require TLC to reject exactly that line
    with the right clause (the binding is not vacuous)."""
    import random
    r = random.Random(seed)
    kinds = ["gen", "listdir", "release", "axiom"]
    todo = kinds if thorough else sorted({kinds[seed % 4], "gen"})
    res = []

    def one(kind):
        evs = [dict(e) for e in events]
        if kind == "gen":
            # a key that already occurred earlier: flip one hex digit of the digest
            seen, cands = set(), []
            for i, e in enumerate(evs):
                if e["k"] == "gen":
                    if keyid(e) in seen:
                        cands.append(i)
                    seen.add(keyid(e))
            if not cands:
                return None
            i = r.choice(cands)
            s = evs[i]["sha"]
            evs[i]["sha"] = s[:-1] + ("0" if s[-1] != "0" else "1")
            want = "FunctionalDependence"
        elif kind == "listdir":
            cands = [i for i, e in enumerate(evs) if e["k"] == "listdir" and len(e["names"]) >= 2]
            if not cands:
                return None
            i = r.choice(cands)
            j = r.randrange(len(evs[i]["names"]) - 1)
            for f in ("names", "codes"):
                l = list(evs[i][f])
                l[j], l[j + 1] = l[j + 1], l[j]
                evs[i][f] = l
            want = "ListDirSorted"
        elif kind == "release":
            cands = [i for i, e in enumerate(evs) if e["k"] == "release"]
            if not cands:
                return None
            i = r.choice(cands)
            evs[i]["regen"] = evs[i]["regen"][:-1] + ("0" if evs[i]["regen"][-1] != "0" else "1")
            want = "ReleaseEqualsCommitted"
        else:
            cands = [i for i, e in enumerate(evs) if e["k"] == "axiom"]
            if not cands:
                return None
            i = r.choice(cands)
            evs[i]["committed"] = evs[i]["committed"][:-1] + ("0" if evs[i]["committed"][-1] != "0" else "1")
            want = "AxiomTableEqualsCommitted"
        # only meaningful on the part of the trace that is otherwise accepted: cut after the corrupted line
        rej, _ = tlc_trace(ctx, evs[:i + 1], "selftest corrupt " + kind)
        return {"kind": kind, "line": i + 1, "want": want, "got": rej}
    with concurrent.futures.ThreadPoolExecutor(max_workers=4) as ex:
        for x in ex.map(one, todo):
            if x is not None:
                res.append(x)
    return res


def selftest_verdict(ctx, selftest, had_rejections):
    bad = [x for x in selftest if not x["got"] or x["got"][0] + 1 != x["line"] or x["want"] not in x["got"][1]]
    if bad and not had_rejections:
        raise ToolingError("corruption self-test: TLC did not reject the corrupted line with the expected clause: %r" % bad)


def replay(ctx, path):
    rep = json.load(open(path))["replay"]
    print(json.dumps({k: v for k, v in rep.items() if k != "diff"}, indent=1)[:6000])
    print("\n".join(rep.get("diff", [])[:60]))
    run(ctx, only=rep.get("pkg") if str(rep.get("key", "")).startswith("fd:") and not str(rep.get("pkg", "")).startswith("(") else None)

"""C15 - RAC readers survive hostile files: bounded work, no panic, in-file ranges.

Mode R + V.
  R: spec/RacIndex.tla describes a RAC file abstractly and adversarially (size
     class, <= 3 node slots, hostile per-child fields, versions, codecs, damage)
     and carries the RAC document's rules (validity + chunk-list semantics) in
     TLA+.  TLC enumerates families of such files (exhaustive blocks + a seeded
     biased sample of the full product) and exports, per file, the abstract
     file, whether the rules call it valid and, if so, its chunk list.
     harness/cmd/racireplay serialises every file to bytes (layout written from
     the document, checksums repaired) and drives lib/rac over it:
     ChunkReader.DecompressedSize / NextChunk to exhaustion /
     SeekToChunkContaining at every DRange boundary -1/0/+1, rac.Reader.Read
     and Seek without and with raczlib - under recover(), a watchdog and a
     per-public-call work budget on the io.ReadSeeker / io.ReaderAt; twice.
  V: the recorded results (plus byte-level mutations with repaired checksums,
     truncations, size lies and hand-built cycles/chains of real files written
     by rac.Writer + raczlib) are judged by TLC on spec/Trace_RacChunks.tla,
     at property level.  Whatever is rejected is re-run with a 4x budget and
     judged again before it is reported.
"""
import json, os
import vlib
from vlib import ToolingError

META = {
    "level": "model_checking",
    "technique": "TLA+ model of hostile RAC index graphs with the RAC document's validity and chunk-list rules (RacIndex.tla), enumerated by TLC and replayed into lib/rac; recorded results validated by TLC against Trace_RacChunks.tla",
    "text": "Exhaustive over the enumerated families of abstract files (one/two/three index nodes at start/middle/end, arity 1-3, hostile DPtr/TTag/CPtr/CLen/STag/CPtrMax/version/codec/damage values, CBias) plus a seeded sample of the full product and seeded byte-level mutations of real rac.Writer files: every file is opened, walked, seeked and read through lib/rac twice under recover(), a watchdog and a per-call work budget; TLC accepts the result only if it terminated within budget, did not panic, gave an error or well-formed in-file chunks that are non-empty, contiguous from 0 and end at the reported size, was the same in both runs, and - for files the document's rules call valid - equals the specified chunk list.",
    "note": "Trusted: TLC, the byte serialiser in harness/cmd/racireplay/serialise.go (written from doc/spec/rac-spec.md), the JSON transport in checks/C15.py (de-duplicates identical records before TLC judges them), the conservative reading of the document in RacIndex.tla (reserved values and silent cases are never called valid). Concurrency > 0 readers are C14's subject and not driven here. Behaviour of a ChunkReader after it returned an error is not constrained.",
}

ALLFAMS = ["damage", "local1", "local2", "link2", "link3", "link3w", "bias", "random"]   # = RacIndex!AllFams
FAMILIES = {
    # (families, Scale, NSample) per tier
    "quick": (["damage", "local1", "local2", "link2", "link3", "bias", "random"], 0, 6000),
    "thorough": (ALLFAMS, 1, 40000),
}
GEN_N = {"quick": 1600, "thorough": 8000}
BYTES_ID0 = 10_000_000
WITNESS_ID0 = 20_000_000

KEYS = {
    "antiloop": "antiloop-cycle-nontermination",
    "fdchunk": "codec-element-nonempty-drange-yielded",
    "fdafter": "valid-codec-element-after-nonempty-rejected",
    "branchchunk": "branch-after-leaf-yielded-as-chunk",
    "shorteof": "short-source-eof-looks-like-clean-end",
}
STRESS_KEY = "cgozlib-zstream-in-go-memory"
GC_FATAL = ("marking free object", "found pointer to free object", "found bad pointer in Go heap", "marked free object")
STRESS_S = {"quick": 6, "thorough": 25}


def index_cfg(families, scale, nsample):
    return ("SPECIFICATION Spec\nCONSTANTS\n  Families = {%s}\n  Scale = %d\n  NSample = %d\n"
            "INVARIANT Export\nCHECK_DEADLOCK FALSE\n") % (",".join('"%s"' % f for f in families), scale, max(nsample, 1))


def export_families(ctx, families, scale, nsample):
    fam = "+".join(families)
    res = ctx.tlc("RacIndex", cfg="ri.cfg", data={"ri.cfg": index_cfg(families, scale, nsample)}, workers=min(vlib.NCPU, 12),
                  timeout=6000, extra=["-seed", str(ctx.seed)], label="RacIndex/" + fam, heap="6g")
    if res["error"] or res["violated"] or res["deadlock"]:
        # Export/SaneRow failing means the TLA+ rules contradict themselves: ours.
        raise ToolingError("RacIndex/%s: %s" % (fam, (res["error"] or res["out"])[-3000:]))
    rows = []
    rp = os.path.join(res["dir"], "rows.ndjson")
    if os.path.exists(rp):
        for line in open(rp):
            line = line.strip()
            if line:
                try:
                    rows.append(json.loads(json.loads(line) if line.startswith('"') else line))
                except ValueError:
                    raise ToolingError("RacIndex/%s: unreadable exported row: %s" % (fam, line[:200]))
    want = res["distinct"] // 2
    if len(rows) != want or want == 0:
        raise ToolingError("RacIndex/%s: %d rows exported but %d files enumerated" % (fam, len(rows), want))
    return rows


def strip_obs(o):
    return {k: v for k, v in o.items() if k not in ("pmsg", "errs", "phase")}


def make_rec(line, row):
    """Join one harness output line with RacIndex's verdict for the same file."""
    rec = {"size": line["size"], "sizeint": line["sizeint"],
           "valid": 0, "edsize": 0, "zeroes": 0, "fdafter": 0, "echunks": [],
           "obs": strip_obs(line["obs"])}
    if row is not None:
        rec.update(valid=row[3], edsize=row[4], zeroes=row[5], fdafter=row[6], echunks=row[7])
    return rec


def judge(ctx, recs, label):
    """recs: list of dicts with id, n, d + make_rec fields.  Returns {id: (class, reasons)} for non-ok ones."""
    if not recs:
        return {}
    text = "\n".join(json.dumps(r, separators=(",", ":")) for r in recs) + "\n"
    cfg = "SPECIFICATION Spec\nCONSTANT TraceFile = \"recs.ndjson\"\nINVARIANT Judge\nCHECK_DEADLOCK FALSE\n"
    res = ctx.tlc("Trace_RacChunks", cfg="tr.cfg", data={"tr.cfg": cfg, "recs.ndjson": text}, timeout=3000,
                  label=label, heap="4g")
    if res["error"] or res["violated"] or res["deadlock"]:
        raise ToolingError("Trace_RacChunks failed on %s:\n%s" % (label, (res["error"] or res["out"])[-3000:]))
    if res["distinct"] != len(recs):
        raise ToolingError("Trace_RacChunks judged %d of %d records" % (res["distinct"], len(recs)))
    out = {}
    for v in vlib.parse_tlc_prints(res["out"]):
        if isinstance(v, dict) and "verdict" in v:
            keys = tuple(x for x in v.get("keys", []) if x)
            cls = v["verdict"] + (":" + "+".join(keys) if keys else "")
            out[v["id"]] = (cls, [x for x in v["reasons"] if x], keys)
    return out


def cgo_stress(ctx, binp, seconds):
    """Known finding: lib/cgozlib keeps its z_stream in Go memory; ordinary reads of a valid RAC+zlib file under a busy
    garbage collector kill the process.  Probabilistic: a survived stress proves nothing and is only noted."""
    r = ctx.run([binp, "-cgostress", str(seconds)], timeout=seconds * 20 + 120)
    if r.returncode == 0:
        ctx.notes.append("cgozlib GC stress survived %ds: %s" % (seconds, r.stdout.strip()[:100]))
        return False
    if not any(m in r.stderr for m in GC_FATAL):
        raise ToolingError("racireplay -cgostress failed (%d): %s" % (r.returncode, r.stderr[:1500]))
    first = [l for l in r.stderr.splitlines() if l.startswith("fatal error") or l.startswith("runtime:")][:3]
    ctx.violation("reading a VALID RAC+zlib file through rac.Reader + raczlib (cgo build) while the garbage collector runs kills the "
                  "process: " + " | ".join(first),
                  {"key": STRESS_KEY, "stress": True, "seconds": seconds, "stderr_head": r.stderr[:1200]})
    return True


LIB_FRAME = "github.com/google/wuffs/lib/"


def run_harness(ctx, binp, args, out):
    r = ctx.run([binp] + args + ["-out", out], timeout=3000)
    if r.returncode != 0 and any(m in r.stderr for m in GC_FATAL):
        # the Go runtime's fatal error of the known finding cgozlib-zstream-in-go-memory hit the driver itself
        # (it avoids the construct, so this should not happen): one more try.
        ctx.notes.append("racireplay died with a GC fatal error (cgozlib z_stream in Go memory); retried")
        r = ctx.run([binp] + args + ["-out", out], timeout=3000)
    skipped = []
    while r.returncode != 0 and LIB_FRAME in r.stderr and ("panic:" in r.stderr or "fatal error:" in r.stderr) and len(skipped) < 20:
        # The process died in a goroutine of the library itself (the concurrent reader's workers): the caller's
        # recover() cannot catch that - "never panic" is broken for whoever uses the package.  Which case?  The cases in
        # flight are read from the progress file; each is run again alone; the ones that kill the process again are
        # reported and left out of the next run of all cases.
        prog = out + ".progress"
        r2 = ctx.run([binp] + args + ["-out", out, "-progress", prog] + (["-skip", ",".join(map(str, skipped))] if skipped else []), timeout=3000)
        if r2.returncode == 0:
            r = r2
            if not skipped:
                ctx.notes.append("racireplay died once in a library goroutine and not when run again: %s" % r.stderr[:300])
            break
        started, ended = [], set()
        for l in open(prog):
            c, i = l.split()
            (started.append(int(i)) if c == "s" else ended.add(int(i)))
        culprits = []
        for i in [i for i in started if i not in ended]:
            r3 = ctx.run([binp] + args + ["-out", out + ".one", "-only", str(i), "-workers", "1"], timeout=600)
            if r3.returncode != 0 and LIB_FRAME in r3.stderr:
                culprits.append((i, r3.stderr))
        if not culprits:
            raise ToolingError("racireplay dies in a library goroutine, but on no single case in flight: %s" % r2.stderr[:1500])
        for i, err in culprits:
            head = [l for l in err.splitlines() if l.startswith("panic:") or l.startswith("fatal error:")][:1]
            frames = [l.split("(")[0] for l in err.splitlines() if l.startswith(LIB_FRAME)][:4]
            ctx.violation("reading the file of case %d (harness arguments %s) kills the process: %s in a goroutine of the library (%s) - no caller can recover from it" % (
                i, " ".join(args), (head or ["?"])[0], " <- ".join(frames)),
                {"key": "library-goroutine-panic:%s" % (frames[0] if frames else "?"), "case": i, "args": args, "stderr": err[:4000]})
            skipped.append(i)
        r = r2
    if skipped and r.returncode != 0:
        r = ctx.run([binp] + args + ["-out", out, "-skip", ",".join(map(str, skipped))], timeout=3000)
    if r.returncode != 0:
        raise ToolingError("racireplay failed (%d): %s\n[...]\n%s" % (r.returncode, r.stderr[:1500], r.stderr[-1500:]))
    try:
        st = json.loads(r.stderr.strip().splitlines()[-1])
    except Exception:
        raise ToolingError("racireplay: no summary line: " + r.stderr[-500:])
    n = 0
    with open(out) as f:
        for l in f:
            n += 1
            yield json.loads(l)
    if n != st["cases"]:
        raise ToolingError("racireplay wrote %d of %d cases" % (n, st["cases"]))


def load_witnesses():
    """Committed witnesses that are files (the stress witness is not a file)."""
    ws = []
    fdir = os.path.join(vlib.VERIF, "findings")
    for fn in sorted(os.listdir(fdir)):
        if fn.startswith("C15-") and fn.endswith(".json"):
            rep = json.load(open(os.path.join(fdir, fn)))["replay"]
            if "hex" in rep:
                ws.append((fn, rep))
    return ws


def describe(line, row):
    o = line["obs"]
    s = "file of %d bytes (%s source)" % (line["sizeint"], line["src"])
    if line.get("what"):
        s += " [" + line["what"] + "]"
    if row is not None:
        s += "; abstract file " + json.dumps(row[:3], separators=(",", ":"))
        s += "; RAC rules: " + ("VALID, chunks %s" % json.dumps(row[7]) if row[3] else "not valid")
    s += "\n observed: term=%s panic=%s budget_exceeded=%s cycle=%s dsize_err=%d walk_end=%d chunks=%s" % (
        o["term"], o["panic"], o["budget"], o["cycle"], o["dse"], o["we"], json.dumps(o["walk"][:6]))
    if o.get("errs"):
        s += "\n errors: " + "; ".join(o["errs"])
    if o.get("pmsg"):
        s += "\n panic: " + o["pmsg"][:600]
    return s


def run(ctx, only_replay=None):
    tier = ctx.tier
    binp = ctx.go_build("./cmd/racireplay")
    d = ctx.subdir("c15")

    # ---- 1. TLC enumerates the abstract files and judges them by the RAC rules
    rows = []          # index = case id
    fam_of = []
    fam_counts = {}
    if only_replay is None:
        fams, scale, nsample = FAMILIES[tier]
        if os.environ.get("C15_FAMILIES"):     # debugging aid: "random,link3:1:20000" = families:Scale:NSample
            a = os.environ["C15_FAMILIES"].split(":")
            fams, scale, nsample = a[0].split(","), int(a[1]), int(a[2])
        rows = export_families(ctx, fams, scale, nsample)
        rows.sort()                            # TLC's workers write in any order
        for r in rows:
            name = ALLFAMS[r[8] - 1]
            fam_of.append(name)
            fam_counts[name] = fam_counts.get(name, 0) + 1
        ctx.log("RacIndex exported %d abstract files: %s" % (len(rows), fam_counts))

    if only_replay is not None and only_replay.get("stress"):
        hit = cgo_stress(ctx, binp, 30)
        return {}, ({0: "stress"} if hit else {})
    wit = load_witnesses() if only_replay is None else [("replay", only_replay)]
    wrows = {WITNESS_ID0 + k: rep["row"] for k, (fn, rep) in enumerate(wit) if rep.get("row") is not None}

    def row_of(cid):
        if cid < BYTES_ID0:
            return rows[cid]
        return wrows.get(cid)

    # ---- 2. the real readers on every file; identical (verdict of the rules,
    #         recorded result) pairs are grouped so that TLC judges each once
    groups = {}
    stat = {"cases": 0, "walked": 0, "watchdog": 0}
    samples_src = []

    def take(l):
        cid = l["id"]
        stat["cases"] += 1
        if l["obs"]["walk"]:
            stat["walked"] += 1
        if not l["obs"]["term"]:
            stat["watchdog"] += 1
        rec = make_rec(l, row_of(cid))
        key = json.dumps([rec, l["d"][0] == l["d"][1]], sort_keys=True, separators=(",", ":"))
        g = groups.get(key)
        if g is None:
            groups[key] = g = {"rec": rec, "ids": [], "d": l["d"], "line": l}
        g["ids"].append(cid)
        if stat["cases"] % 9973 == 1 and len(samples_src) < 8:
            samples_src.append(l)

    if rows:
        cases = os.path.join(d, "cases.ndjson")
        with open(cases, "w") as f:
            for i, r in enumerate(rows):
                f.write(json.dumps({"id": i, "row": r}, separators=(",", ":")) + "\n")
        for l in run_harness(ctx, binp, ["-cases", cases], os.path.join(d, "obs-model.ndjson")):
            take(l)
        ctx.log("lib/rac driven over %d model files" % len(rows))
    ngen = 0
    if only_replay is None:
        ngen = int(os.environ.get("C15_GEN_N", GEN_N[tier]))
        for l in run_harness(ctx, binp, ["-gen", "-seed", str(ctx.seed), "-n", str(ngen), "-tier", tier],
                             os.path.join(d, "obs-gen.ndjson")):
            l["id"] += BYTES_ID0
            take(l)
        ctx.log("lib/rac driven over %d byte-level cases (mutations, truncations, size lies, cycles, chains)" % ngen)
    if wit:
        wc = os.path.join(d, "wit.ndjson")
        with open(wc, "w") as f:
            for k, (fn, rep) in enumerate(wit):
                f.write(json.dumps({"id": k, "hex": rep["hex"], "claimed": rep["claimed"]}) + "\n")
        for l in run_harness(ctx, binp, ["-cases", wc], os.path.join(d, "obs-wit.ndjson")):
            l["what"] = "witness " + wit[l["id"]][0]
            l["id"] += WITNESS_ID0
            take(l)

    # ---- 3. TLC judges the recorded results
    recs = []
    by_rep = {}
    for g in groups.values():
        rid = min(g["ids"])
        by_rep[rid] = g
        r = dict(g["rec"])
        r.update(id=rid, n=len(g["ids"]), d=g["d"])
        recs.append(r)
    recs.sort(key=lambda r: r["id"])
    verdicts = judge(ctx, recs, "Trace_RacChunks/all")
    ctx.log("TLC judged %d distinct records (%d cases): %d not accepted" % (len(recs), stat["cases"], len(verdicts)))
    case_class = {}     # case id -> class, for every case that was not accepted
    for rid, v in verdicts.items():
        for cid in by_rep[rid]["ids"]:
            case_class[cid] = v[0]

    # ---- 4. confirm what was not accepted with a 4x budget (work and watchdog), judge again
    confirmed = {}     # rep id -> (class, reasons, keys, line with hex)
    if verdicts:
        per, chosen = {}, []
        for rid in sorted(verdicts):
            c = verdicts[rid][0]
            per[c] = per.get(c, 0) + 1
            if per[c] <= (40 if c == "bad" else 6):
                chosen.append(rid)
        again = {}
        model_ids = [c for c in chosen if c < BYTES_ID0]
        if model_ids:
            sub = os.path.join(d, "again.ndjson")
            with open(sub, "w") as f:
                for cid in model_ids:
                    f.write(json.dumps({"id": cid, "row": rows[cid]}, separators=(",", ":")) + "\n")
            for l in run_harness(ctx, binp, ["-cases", sub, "-budgetx", "4", "-hex"], os.path.join(d, "obs-again.ndjson")):
                again[l["id"]] = l
        gen_ids = [c - BYTES_ID0 for c in chosen if BYTES_ID0 <= c < WITNESS_ID0]
        if gen_ids:
            for l in run_harness(ctx, binp, ["-gen", "-seed", str(ctx.seed), "-n", str(ngen), "-tier", tier, "-budgetx", "4", "-hex",
                                             "-only", ",".join(map(str, gen_ids))], os.path.join(d, "obs-again2.ndjson")):
                l["id"] += BYTES_ID0
                again[l["id"]] = l
        wit_ids = [c - WITNESS_ID0 for c in chosen if c >= WITNESS_ID0]
        if wit_ids:
            for l in run_harness(ctx, binp, ["-cases", os.path.join(d, "wit.ndjson"), "-budgetx", "4", "-hex",
                                             "-only", ",".join(map(str, wit_ids))], os.path.join(d, "obs-again3.ndjson")):
                l["what"] = "witness " + wit[l["id"]][0]
                l["id"] += WITNESS_ID0
                again[l["id"]] = l
        recs2 = []
        for cid in chosen:
            if cid not in again:
                raise ToolingError("confirmation run lost case %d" % cid)
            r = make_rec(again[cid], row_of(cid))
            r.update(id=cid, n=len(by_rep[cid]["ids"]), d=again[cid]["d"])
            recs2.append(r)
        v2 = judge(ctx, recs2, "Trace_RacChunks/confirm-4x")
        for cid in chosen:
            if cid in v2:
                confirmed[cid] = (v2[cid][0], v2[cid][1], v2[cid][2], again[cid])
            else:
                ctx.notes.append("case %d not accepted with budget x1 (%s) but accepted with x4: not reported" % (cid, verdicts[cid][0]))
        ctx.log("confirmation with 4x budget: %d of %d still not accepted" % (len(confirmed), len(chosen)))

    # ---- 5. report
    class_counts = {}
    for c in case_class.values():
        class_counts[c] = class_counts.get(c, 0) + 1
    reported_bad = 0
    for cid in sorted(confirmed):
        c, reasons, keys, line = confirmed[cid]
        row = row_of(cid)
        rep = {"hex": line.get("hex", ""), "claimed": line["sizeint"], "row": row, "class": c, "reasons": reasons,
               "case": cid, "same_result_cases": len(by_rep[cid]["ids"]), "what": line.get("what", ""),
               "obs": line["obs"], "seed": ctx.seed, "tier": tier}
        what = "lib/rac on a hostile RAC file: %s (%s)\n %s" % (", ".join(reasons) or c, c, describe(line, row))
        if keys:
            for k in keys:
                r2 = dict(rep)
                r2["key"] = KEYS.get(k, k)
                ctx.violation(what, r2)
        elif reported_bad < 8:
            if ctx.violation(what, rep):
                reported_bad += 1
    if only_replay is None:
        for k, (fn, rep) in enumerate(wit):
            if (WITNESS_ID0 + k) not in case_class:
                ctx.notes.append("witness %s is accepted now (fixed?)" % fn)
                ctx.log("note: witness %s no longer fails" % fn)
    else:
        return case_class, confirmed

    stress_hit = cgo_stress(ctx, binp, STRESS_S[tier])

    # ---- 6. evidence
    nvalid = sum(1 for r in rows if r[3] == 1)
    nvalid_chunks = sum(1 for r in rows if r[3] == 1 and r[7])
    multi = sum(1 for r in rows if r[3] == 1 and len(r[2]) > 1 and len(r[7]) > 1)
    samples = []
    for l in samples_src[:6]:
        cid = l["id"]
        row = row_of(cid)
        samples.append({"case": cid, "family": fam_of[cid] if cid < len(fam_of) else "bytes", "what": l.get("what", ""),
                        "abstract_file": row[:3] if row else None, "rules_valid": row[3] if row else None,
                        "rules_chunks": row[7] if row else None, "class": case_class.get(cid, "ok"),
                        "observed": {k: l["obs"][k] for k in ("term", "panic", "budget", "dse", "ds", "we", "walk", "maxcalls")}})
    for cid in sorted(confirmed)[:4]:
        samples.append({"case": cid, "class": confirmed[cid][0], "reasons": confirmed[cid][1], "what": confirmed[cid][3].get("what", ""),
                        "abstract_file": row_of(cid)[:3] if row_of(cid) else None})
    index_states = sum(t["distinct"] for t in ctx.tlc_stats if t["label"].startswith("RacIndex/"))
    ctx.evidence("model_checking", {
        "states": sum(t["distinct"] for t in ctx.tlc_stats),
        "transitions": sum(t["generated"] for t in ctx.tlc_stats),
        "traces_validated_against_impl": stat["cases"],
        "samples": samples,
        "evaluations": stat["cases"],
        "distinct_nontrivial": stat["walked"],
        "rule": "model cases: every file of the RacIndex.tla families %s (exhaustive blocks; 'random' = seeded draws from the biased "
                "full product), serialised and run twice through lib/rac; byte cases: %d seeded mutations/truncations/size lies/"
                "hand-built cycles and chains of rac.Writer files; %d committed witnesses. A case is counted non-trivial when the reader "
                "got past the root and yielded at least one chunk (measured: %d). %d files are valid by the TLA+ rules (%d with a "
                "non-empty chunk list, %d of them multi-node with >= 2 chunks) and had to match the specified chunk list exactly. "
                "Identical (rules verdict, recorded result) pairs are judged once by TLC (%d distinct records)." % (
                    json.dumps(fam_counts), ngen, len(wit), stat["walked"], nvalid, nvalid_chunks, multi, len(recs)),
        "exhaustive": False,
        "abstract_files": len(rows), "families": fam_counts, "index_states": index_states,
        "byte_level_cases": ngen, "witnesses_rerun": len(wit), "watchdog_hits": stat["watchdog"],
        "valid_by_rules": nvalid, "distinct_records_judged": len(recs),
        "not_accepted_cases_by_class": class_counts,
        "confirmed_with_4x_budget": len(confirmed),
        "cgozlib_gc_stress_reproduced": stress_hit,
        "notes": ctx.notes[:20],
    }, assumptions=[
        "the abstract space is small: <= 3 index nodes, arity <= 3, pointers from {node slots, padding, size, beyond, bias-relative}, DPtrs from small sets",
        "valid-by-rules is a conservative reading of doc/spec/rac-spec.md (reserved codecs/tags and silent cases are never called valid)",
        "work bound: one public call may make at most 64 + 8*size source calls (x (buffer+1) for Reader.Read); a blown budget is confirmed at 4x",
        "only Concurrency = 0 readers; behaviour after a returned error is not constrained",
    ])


def replay(ctx, path):
    doc = json.load(open(path))
    rep = doc["replay"]
    print(str(doc.get("what", ""))[:3000])
    print(json.dumps({k: rep.get(k) for k in ("key", "class", "reasons", "claimed", "row")})[:3000])
    case_class, confirmed = run(ctx, only_replay=rep)
    if not confirmed:
        print("replay: the recorded result is ACCEPTED now")

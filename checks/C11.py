"""C11 - the toolchain never crashes or hangs, whatever source text it is given.

Mode R + V.  spec/WuffsSyntax.tla is a generative model of Wuffs source at
token level (typed grammar + damage actions); TLC enumerates small
derivations exhaustively and simulates large ones from the seed, and prints
the token sequences.  harness/cmd/toolreplay renders them (and byte-level
inputs derived from the seed: random bytes, mutations of std/*/*.wuffs and of
lang/check's test programs), runs Tokenize -> Parse -> Check -> Generate and
Tokenize -> ParseFmt -> Render on each in killable child processes (recover,
watchdog, 4x-budget confirmation in an own process), compiles the C of every
accepted program with gcc -fsyntax-only, and records one event per stage per
source.  TLC validates every recorded trace against spec/ToolPipeline.tla
(outcome alphabet {result, error}; a stage ran iff its predecessor returned a
result; CCompile = result for accepted programs).  A rejected trace is a
violation reproduced on the real code; its key (stage + top frames of the
stack / recursion cycle / first gcc error) is looked up in KNOWN_FINDINGS.txt.
"""
import base64, glob, gzip, json, os, re, shutil, threading, time
import vlib
from vlib import ToolingError

META = {
    "level": "exploration",
    "technique": "generative TLA+ grammar with damage actions (WuffsSyntax.tla) enumerated/simulated by TLC and replayed into the real "
                 "tokenizer, parser, checker, formatter, wuffs-c and gcc; recorded per-stage traces validated by TLC against ToolPipeline.tla",
    "text": "Every statement skeleton up to 6 tokens, every token-kind pair (and triple over a core alphabet), every single-damage "
            "variant of the small derivations, nesting at/below/beyond the documented limits, seeded simulations of larger bodies and "
            "files, plus seeded byte/line/token/region mutations of all std/*.wuffs and lang/check test programs and random bytes: "
            "each stage must end in a result or an ordinary error, and gcc must accept the C of every accepted program.",
    "note": "Exploration, not proof: bounded derivations and sampled mutations. Trusted: TLC, the token renderer and process supervision in "
            "harness/cmd/toolreplay, gcc 12 as 'the C compiler'. internal/cgen is driven through the wuffs-c binary (not importable). "
            "A watchdog verdict needs a confirmation run with 4x budget in an own process.",
}

JAVA_CP = "/opt/veriftools/tla/tla2tools.jar:/opt/veriftools/tla/CommunityModules-deps.jar"


# ----------------------------------------------------------------- TLC export

def tlaset(xs):
    return "{" + ", ".join('"%s"' % x for x in xs) + "}"


def intset(xs):
    return "{" + ", ".join(str(x) for x in xs) + "}"


def syn_cfg(label, mode="derive", start="Stmt", cx="bodyq", maxtok=6, maxdmg=0, dkinds=(), depths=(), adjk=2, adjalpha="core", mintok=0):
    return ("SPECIFICATION Spec\nCONSTANTS\n  Mode = \"%s\"\n  Start = \"%s\"\n  Ctx = \"%s\"\n  MaxTokens = %d\n  MinTokens = %d\n  MaxDamage = %d\n"
            "  DamageKinds = %s\n  NestDepths = %s\n  AdjK = %d\n  AdjAlphabet = \"%s\"\n  Label = \"%s\"\n"
            "INVARIANTS TypeOK Export\nCHECK_DEADLOCK FALSE\n") % (
        mode, start, cx, maxtok, mintok, maxdmg, tlaset(dkinds), intset(depths), adjk, adjalpha, label)


def decode_prints(out):
    """PrintT(ToJson(x)) lines: a TLA+ string literal holding JSON."""
    objs = []
    for line in out.splitlines():
        if len(line) >= 4 and line[0] == '"' and line[1] == '{' and line[-1] == '"':
            try:
                objs.append(json.loads(json.loads(line)))
            except Exception:
                try:
                    objs.append(json.loads(line[1:-1].replace('\\"', '"').replace("\\\\", "\\")))
                except Exception:
                    pass
    return objs


class Export:
    def __init__(self, label, cfg, simulate=None, depth=None, workers=2, timeout=1500, limit=None):
        self.label, self.cfg, self.simulate, self.depth, self.workers, self.timeout, self.limit = label, cfg, simulate, depth, workers, timeout, limit
        self.tokens = []     # list of (origin, derived token list); the source is context prefix + tokens + suffix
        self.context = None
        self.nest = None
        self.stats = None
        self.error = None


def run_export(ctx, ex):
    try:
        res = ctx.tlc("WuffsSyntax", cfg=ex.label + ".cfg", data={ex.label + ".cfg": ex.cfg}, workers=ex.workers,
                      timeout=ex.timeout, simulate=ex.simulate, depth=ex.depth, label="export " + ex.label)
        if res["error"] or res["violated"]:
            ex.error = "TLC export %s failed: %s" % (ex.label, (res["error"] or res["out"])[-2000:])
            return
        context = None
        seen = set()
        for o in decode_prints(res["out"]):
            if "context" in o:
                context = o["context"]
                ex.nest = o["nest"]
                ex.context = {"prefix": context["prefix"], "suffix": context["suffix"]}
            elif "t" in o:
                if context is None:
                    ex.error = "export %s: token line before the context line" % ex.label
                    return
                key = "\x00".join(o["t"])
                if key in seen:
                    continue
                seen.add(key)
                ex.tokens.append(("/".join(o["o"]), o["t"]))
        ex.stats = {"label": ex.label, "sequences": len(ex.tokens), "generated": res["generated"], "distinct": res["distinct"], "wall_s": res["wall_s"]}
        shutil.rmtree(res["dir"], ignore_errors=True)
    except ToolingError as e:
        ex.error = str(e)


def exports_for(ctx):
    th = ctx.tier == "thorough"
    seed = ctx.seed
    L = []

    def add(label, **kw):
        sim = kw.pop("simulate", None)
        depth = kw.pop("depth", None)
        limit = kw.pop("limit", None)
        L.append(Export(label, syn_cfg(label, **kw), simulate=sim, depth=depth, limit=limit))

    dall = ("void", "splice", "drop", "dup", "swap", "unbalance")
    # exhaustive: every statement skeleton of <= N tokens in a coroutine / impure / pure method body
    add("stmt-q", start="Stmt", cx="bodyq", maxtok=6 if th else 4)
    add("stmt-e", start="Stmt", cx="bodye", maxtok=5 if th else 3)
    add("stmt-p", start="Stmt", cx="bodyp", maxtok=5 if th else 3)
    # the known construct (b) stays reachable: a pub method, refined argument, non-empty result
    add("stmt-r", start="Stmt", cx="bodyr", maxtok=4 if th else 3)
    # exhaustive: every single damage of the small skeletons
    add("dmg-stmt", start="Stmt", cx="bodyq", maxtok=4 if th else 3, maxdmg=1, dkinds=dall if th else ("void", "splice", "drop", "dup", "swap"))
    add("dmg-stmt-e", start="Stmt", cx="bodye", maxtok=3 if th else 2, maxdmg=1, dkinds=dall)
    add("types-var", start="Type", cx="var", maxtok=8 if th else 4, maxdmg=1, dkinds=("void", "drop", "dup"))
    add("types-field", start="Type", cx="field", maxtok=6 if th else 4, maxdmg=1, dkinds=("void", "swap", "unbalance") if th else ("void", "swap"))
    # fields of a classy struct that can name the same-package struct foo (first and "+" section)
    add("types-fieldq", start="Type", cx="fieldq", maxtok=4, maxdmg=1, dkinds=("void",))
    add("types-fieldx", start="Type", cx="fieldx", maxtok=4, maxdmg=1, dkinds=("void",))
    # "+" fields naming the struct itself or a struct declared later, through up to two array levels (the order of the C
    # struct definitions and the cycle check both come from one topological sort)
    add("types-fieldfwd", start="Type", cx="fieldfwd", maxtok=5 if th else 4)
    add("stypes-fieldfwd", start="SType", cx="fieldfwd", maxtok=13 if th else 9)
    add("stypes-fieldq", start="SType", cx="fieldq", maxtok=9 if th else 5)
    # statements inside the second of two sequential loops that share a label
    add("stmt-inloop2", start="Stmt", cx="inloop2", maxtok=4 if th else 3)
    add("consts", start="ConstVal", cx="const", maxtok=6 if th else 3, maxdmg=1, dkinds=("void", "drop", "dup", "swap"))
    add("decl", start="Decl", cx="top", maxtok=9 if th else 8)
    add("decl-dmg", start="Decl", cx="top", maxtok=6 if th else 5, maxdmg=1, dkinds=("void", "splice", "drop", "swap") if th else ("void", "drop", "swap"))
    add("decl-ctx", start="Decl", cx="decls", maxtok=8 if th else 7)
    # exhaustive: every token-kind pair; triples over the core alphabet
    add("adj2-body", mode="adjacency", cx="bodyq", adjk=2, adjalpha="full")
    add("adj2-top", mode="adjacency", cx="top", adjk=2, adjalpha="full")
    if th:
        add("adj3-body", mode="adjacency", cx="bodye", adjk=3, adjalpha="core")
        add("adj3-bodyq", mode="adjacency", cx="bodyq", adjk=3, adjalpha="core")
        add("adj3-top", mode="adjacency", cx="top", adjk=3, adjalpha="core")
    # nesting at, below and beyond the documented limits (63 types, 255 expressions/bodies)
    lim = (62, 63, 64, 65, 254, 255, 256, 257, 1000, 20000) if th else (63, 64, 255, 256, 257, 20000)
    for cx, start, mt in (("xu32", "OU32", 3), ("tbool", "OBool", 3), ("cu8", "OU8", 3), ("sslice", "ESlice", 3), ("lhs", "LU32", 3),
                          ("bodye", "Stmt", 4 if th else 3), ("bodyq", "Stmt", 4 if th else 3), ("else", "ElsePart", 3), ("var", "Type", 3),
                          ("const", "ConstVal", 3), ("struct", "Fields", 3), ("top", "Decl", 8 if th else 7)):
        add("nest-%s" % cx, start=start, cx=cx, maxtok=mt, maxdmg=1, dkinds=("nest",), depths=lim)
    # seeded simulation of larger derivations
    n = 1500 if th else 40
    dsim = dall + ("nest",)
    add("sim-body-q", start="Body", cx="bodyq", maxtok=70, mintok=35, simulate="num=%d" % n, depth=400)
    add("sim-body-e", start="Body", cx="bodye", maxtok=50, mintok=25, simulate="num=%d" % n, depth=400)
    add("sim-body-dmg", start="Body", cx="bodyq", maxtok=40, mintok=20, maxdmg=2, dkinds=dsim, depths=(3, 64, 256), simulate="num=%d" % n, depth=400)
    add("sim-file", start="File", cx="top", maxtok=90, mintok=45, simulate="num=%d" % n, depth=500)
    add("sim-file-dmg", start="File", cx="decls", maxtok=60, mintok=25, maxdmg=2, dkinds=dsim, depths=(3, 64, 256), simulate="num=%d" % n, depth=500)
    return L


# deep nesting (far beyond every limit): run apart, few workers, Go's real default stack limit
DEEP_CTX = (("xu32", "OU32"), ("tbool", "OBool"), ("cu8", "OU8"), ("sslice", "ESlice"), ("lhs", "LU32"), ("bodye", "Stmt"),
            ("else", "ElsePart"), ("var", "Type"), ("const", "ConstVal"), ("struct", "Fields"), ("top", "Decl"))


def deep_exports(ctx, depths):
    L = []
    for cx, start in DEEP_CTX:
        label = "deep-%s" % cx
        L.append(Export(label, syn_cfg(label, start=start, cx=cx, maxtok=5 if cx == "top" else 3, maxdmg=1, dkinds=("nest",), depths=depths)))
    return L


# ------------------------------------------------------------------- plumbing

def prepare_root(ctx, bins):
    """Scratch wuffs root: std/ + wuffs-root-directory.txt, `wuffs gen` run
    with the freshly built wuffs / wuffs-c (gen/wuffs/std/*.wuffs for `use`,
    gen/c/wuffs-base.c + wuffs-std-*.c for the C compiler)."""
    root = ctx.subdir("root")
    shutil.copytree(os.path.join(vlib.REPO, "std"), os.path.join(root, "std"))
    shutil.copy(os.path.join(vlib.REPO, "wuffs-root-directory.txt"), root)
    env = {"PATH": os.path.dirname(bins["wuffs"]) + ":" + os.environ.get("PATH", "")}
    r = ctx.run([bins["wuffs"], "gen"], cwd=root, env=env, timeout=1800)
    if r.returncode != 0:
        # The tool chain under test cannot even translate std (e.g. it crashes
        # on it): go on without the `use` files - the std sources are part of
        # the corpus, so the crash is found and reported through the harness.
        ctx.log("wuffs gen failed on std in the scratch root (continuing with base only): " + (r.stdout + r.stderr)[-400:].replace("\n", " | "))
        os.makedirs(os.path.join(root, "gen", "c"), exist_ok=True)
        rb = ctx.run([bins["wuffs-c"], "gen", "-package_name", "base"], cwd=root, env=env, timeout=600)
        if rb.returncode != 0:
            raise ToolingError("wuffs-c gen -package_name base failed:\n" + rb.stderr[-2000:])
        open(os.path.join(root, "gen", "c", "wuffs-base.c"), "w").write(rb.stdout)
    if not os.path.exists(os.path.join(root, "gen", "c", "wuffs-base.c")):
        raise ToolingError("wuffs gen did not write gen/c/wuffs-base.c")
    return root


def write_tokens(path, seqs):
    with open(path, "w") as f:
        for origin, cid, toks in seqs:
            f.write(json.dumps({"o": origin, "c": cid, "t": toks}) + "\n")


def load_known_witnesses():
    out = []
    for p in sorted(glob.glob(os.path.join(vlib.VERIF, "findings", "C11-*.json"))):
        try:
            w = json.load(open(p))
        except Exception as e:
            raise ToolingError("bad witness file %s: %s" % (p, e))
        if "source" in w:       # the deep (generator) witnesses are reached by the deep run, not re-run one by one
            out.append((os.path.basename(p), w))
    return out


def run_harness(ctx, bins, root, name, sources_path, workers, budget_ms, batch, individual=False, par=8):
    work = ctx.subdir("work-" + name)
    ev = os.path.join(work, "events.ndjson")
    fails = os.path.join(work, "fails.json")
    stats = os.path.join(work, "stats.json")
    cmd = [bins["toolreplay"], "run", "-sources", sources_path, "-events", ev, "-fails", fails, "-stats", stats,
           "-root", root, "-wuffsc", bins["wuffs-c"], "-work", work, "-workers", str(workers),
           "-budget-ms", str(budget_ms), "-batch", str(batch), "-par", str(par)]
    if individual:
        cmd.append("-individual")
    r = ctx.run(cmd, timeout=4 * 3600)
    if r.returncode != 0:
        raise ToolingError("toolreplay run (%s) failed:\n%s" % (name, (r.stdout + r.stderr)[-3000:]))
    notes = [l for l in r.stderr.splitlines() if l.startswith("toolreplay:")]
    for l in notes[:12]:
        ctx.log("  " + l[:300])
    if len(notes) > 12:
        ctx.log("  ... %d more harness notes" % (len(notes) - 12))
    return ev, (json.load(open(fails)) or []), json.load(open(stats))


def validate(ctx, name, ev_path):
    """TLC validates every recorded trace; returns the set of rejected ids and
    the number of traces."""
    traces = [json.loads(l) for l in open(ev_path) if l.strip()]
    rejected = set()
    CH = 60000
    nstates = 0
    for c in range(0, len(traces), CH):
        chunk = traces[c:c + CH]
        data = "".join(json.dumps({"id": t["id"], "ev": t["ev"]}) + "\n" for t in chunk)
        cfg = "SPECIFICATION Spec\nCONSTANTS\n  TraceFile = \"traces.ndjson\"\nINVARIANT TraceOK\nCHECK_DEADLOCK FALSE\n"
        res = ctx.tlc("ToolPipeline", cfg="tp.cfg", data={"tp.cfg": cfg, "traces.ndjson": data}, extra=["-continue"],
                      timeout=3000, label="validate %s[%d:%d]" % (name, c, c + len(chunk)))
        if res["error"] and not res["violated"]:
            raise ToolingError("TLC error while validating traces:\n" + res["error"])
        if res["generated"] == 0:
            raise ToolingError("TLC validated nothing:\n" + res["out"][-2000:])
        for m in re.finditer(r"^/\\ src = (\d+)", res["out"], re.M):
            rejected.add(chunk[int(m.group(1)) - 1]["id"])
        if res["violated"] and not re.search(r"^/\\ src = (\d+)", res["out"], re.M):
            raise ToolingError("TLC reports a violation but no state:\n" + res["out"][-2000:])
        shutil.rmtree(res["dir"], ignore_errors=True)
    return rejected, traces


def design_check(ctx):
    """The pipeline model itself: all behaviours of Run from the empty state."""
    cfg = ("SPECIFICATION FreeSpec\nCONSTANTS\n  TraceFile = \"one.ndjson\"\nINVARIANTS Causal CCompileOnlyAccepted\nCHECK_DEADLOCK FALSE\n")
    ctx.tlc_ok("ToolPipeline", cfg="free.cfg", data={"free.cfg": cfg, "one.ndjson": json.dumps({"id": 0, "ev": []}) + "\n"}, label="pipeline-design")
    # a corrupted trace must be rejected, a good one accepted (self-test of the validator)
    good = {"id": 1, "ev": [["tokenize", "result", "lt10ms"], ["parse", "error", "lt10ms"], ["parsefmt", "error", "lt10ms"]]}
    bads = [
        {"id": 2, "ev": [["tokenize", "result", "lt10ms"], ["parse", "panic", "lt10ms"]]},
        {"id": 3, "ev": [["tokenize", "error", "lt10ms"], ["parse", "error", "lt10ms"]]},
        {"id": 4, "ev": [["tokenize", "result", "lt10ms"], ["parse", "result", "lt10ms"], ["parsefmt", "result", "lt10ms"], ["render", "result", "lt10ms"]]},
        {"id": 5, "ev": [["tokenize", "result", "lt10ms"], ["parse", "result", "lt10ms"], ["parsefmt", "result", "lt10ms"], ["render", "result", "lt10ms"],
                         ["check", "result", "lt10ms"], ["generate", "result", "lt1s"], ["ccompile", "rejected", "lt1s"]]},
        {"id": 6, "ev": [["tokenize", "result", "lt10ms"], ["parse", "timeout", "ge10s"]]},
    ]
    p = os.path.join(ctx.subdir("selftest"), "ev.ndjson")
    with open(p, "w") as f:
        for t in [good] + bads:
            f.write(json.dumps(t) + "\n")
    rej, _ = validate(ctx, "selftest", p)
    if rej != {2, 3, 4, 5, 6}:
        raise ToolingError("validator self-test: expected traces 2..6 rejected, got %s" % sorted(rej))


def src_text(f):
    if f.get("b"):
        return base64.b64decode(f["b"])
    return (f.get("s") or "").encode()


def report(ctx, name, rejected, traces, fails):
    """Every rejected trace must come with a failure record of the harness;
    group by key, report the smallest witness per key."""
    by_id = {f["id"]: f for f in fails}
    groups = {}
    for tid in sorted(rejected):
        f = by_id.get(tid)
        if f is None:
            tr = [t for t in traces if t["id"] == tid][0]
            raise ToolingError("trace %d (%s) rejected by ToolPipeline but the harness recorded no failure: %s" % (tid, name, tr))
        groups.setdefault(f["fail"]["key"], []).append(f)
    for f in fails:
        if f["id"] not in rejected:
            raise ToolingError("the harness recorded a failure for source %d that TLC accepted: %s" % (f["id"], f["fail"]))
    out = []
    for key, fs in sorted(groups.items()):
        fs.sort(key=lambda f: (len(src_text(f)), f["id"]))
        w = fs[0]
        text = src_text(w)
        fl = w["fail"]
        what = "%s: stage %s of the tool chain ended in '%s' (%s) on %d source(s) of run '%s'; smallest witness (%d bytes, origin %s):\n%s" % (
            key, fl["stage"], fl["outcome"], fl["msg"][:300], len(fs), name, len(text), w["origin"],
            text[:1200].decode("utf-8", "replace") + ("...[%d more bytes]" % (len(text) - 1200) if len(text) > 1200 else ""))
        rep = {"key": key, "stage": fl["stage"], "outcome": fl["outcome"], "msg": fl["msg"], "stack": fl.get("stack", ""),
               "count": len(fs), "origin": w["origin"], "events": w["ev"], "siblings": w.get("sib"),
               "source_gz_b64": base64.b64encode(gzip.compress(text, 6)).decode(),
               "source_head": text[:4000].decode("utf-8", "replace"),
               "other_origins": sorted({f["origin"] for f in fs})[:20]}
        ctx.violation(what, rep)
        out.append((key, len(fs), w["origin"]))
    return out


# ------------------------------------------------------------------------ run

def build(ctx):
    bins = {}
    bins["toolreplay"] = ctx.go_build("./cmd/toolreplay")
    bins["wuffs"] = ctx.go_build("github.com/google/wuffs/cmd/wuffs")
    bins["wuffs-c"] = ctx.go_build("github.com/google/wuffs/cmd/wuffs-c")
    return bins


def run(ctx, only_sources=None):
    th = ctx.tier == "thorough"
    t0 = time.time()
    bins = build(ctx)
    root = prepare_root(ctx, bins)
    ctx.log("built tools, scratch root ready")
    design_check(ctx)
    ctx.log("pipeline model and trace validator self-test ok")

    # 1. TLC enumerates / simulates the syntax model
    exps = exports_for(ctx)
    deep = deep_exports(ctx, (1000000, 3000000) if th else (3000000,))
    sem = threading.Semaphore(6)

    def worker(ex):
        with sem:
            run_export(ctx, ex)
    ths = [threading.Thread(target=worker, args=(ex,)) for ex in exps + deep]
    for t in ths:
        t.start()
    for t in ths:
        t.join()
    for ex in exps + deep:
        if ex.error:
            raise ToolingError(ex.error)
    nest = exps[0].nest
    contexts = {}
    seqs, seen = [], set()
    for ex in exps:
        cid = json.dumps(ex.context, sort_keys=True)
        cid = contexts.setdefault(cid, "c%d" % len(contexts))
        toklist = ex.tokens
        lim = 3500 if ex.label.startswith("adj2-") else ex.limit
        if not th and lim and len(toklist) > lim:
            # quick tier: a seeded sample of the large exhaustive sets (the thorough tier runs all of them)
            toklist = ctx.rng.sample(sorted(toklist), lim)
        for o, toks in toklist:
            key = cid + "\x00" + "\x00".join(toks)
            if key not in seen:
                seen.add(key)
                seqs.append((o, cid, toks))
    deepseqs = []
    for ex in deep:
        cid = json.dumps(ex.context, sort_keys=True)
        cid = contexts.setdefault(cid, "c%d" % len(contexts))
        deepseqs += [(o, cid, toks) for o, toks in ex.tokens if "nest" in o]
    if not th:
        # each costs seconds (a gigabyte of stack is grown before it overflows): a seeded sample in the quick tier
        deepseqs = ctx.rng.sample(sorted(deepseqs), min(8, len(deepseqs)))
    ctx.log("TLC exported %d token sequences (+%d deep) from %d configurations" % (len(seqs), len(deepseqs), len(exps) + len(deep)))
    gendir = ctx.subdir("gen")
    nestp = os.path.join(gendir, "nest.json")
    json.dump(nest, open(nestp, "w"))
    ctxp = os.path.join(gendir, "contexts.json")
    json.dump({v: json.loads(k) for k, v in contexts.items()}, open(ctxp, "w"))

    # 2. render + byte-level inputs from the seed
    tokp = os.path.join(gendir, "tokens.ndjson")
    write_tokens(tokp, seqs)
    srcp = os.path.join(gendir, "sources.ndjson")
    k = 8 if th else 1
    r = ctx.run([bins["toolreplay"], "gen", "-seed", str(ctx.seed), "-repo", vlib.REPO, "-tokens", tokp, "-nest", nestp, "-contexts", ctxp, "-out", srcp,
                 "-random", str(1500 * k), "-mut-small", str(3000 * k), "-mut-std", str(800 * k), "-mut-pkg", str(100 * k),
                 "-flat-every", "7"], timeout=1800)
    if r.returncode != 0:
        raise ToolingError("toolreplay gen failed: " + r.stderr[-2000:])
    genstats = json.loads(r.stdout.strip().splitlines()[-1])
    # the known witnesses are always presented (a KNOWN-FINDING line appears while they still fail)
    wit = load_known_witnesses()
    with open(srcp, "a") as f:
        nid = genstats["sources"]
        for fname, w in wit:
            nid += 1
            f.write(json.dumps({"id": nid, "o": "witness:" + fname, "s": w["source"]}) + "\n")
    deepp = os.path.join(gendir, "deep.ndjson")
    dtok = os.path.join(gendir, "deeptokens.ndjson")
    write_tokens(dtok, deepseqs)
    r = ctx.run([bins["toolreplay"], "gen", "-seed", str(ctx.seed), "-repo", vlib.REPO, "-tokens", dtok, "-nest", nestp, "-contexts", ctxp, "-out", deepp,
                 "-random", "0", "-mut-small", "0", "-mut-std", "0", "-mut-pkg", "0", "-flat-every", "0", "-no-corpus"], timeout=1800)
    if r.returncode != 0:
        raise ToolingError("toolreplay gen (deep) failed: " + r.stderr[-2000:])
    deepstats = json.loads(r.stdout.strip().splitlines()[-1])
    ctx.log("sources: %s" % genstats["by_origin"], "deep:", deepstats["by_origin"])

    # 3. the real tool chain
    ev, fails, hstats = run_harness(ctx, bins, root, "main", srcp, workers=16, budget_ms=30000, batch=4000)
    ctx.log("main run: %s" % hstats)
    ev2, fails2, hstats2 = run_harness(ctx, bins, root, "deep", deepp, workers=1, budget_ms=60000, batch=1, individual=True, par=4)
    ctx.log("deep run: %s" % hstats2)

    # 4. TLC validates the recorded traces
    rej, traces = validate(ctx, "main", ev)
    rej2, traces2 = validate(ctx, "deep", ev2)
    groups = report(ctx, "main", rej, traces, fails) + report(ctx, "deep", rej2, traces2, fails2)

    # 5. evidence
    alltr = traces + traces2
    def stage_counts(trs):
        c = {}
        for t in trs:
            for e in t["ev"]:
                c.setdefault(e[0], {}).setdefault(e[1], 0)
                c[e[0]][e[1]] += 1
        return c
    sc = stage_counts(alltr)
    accepted = sum(1 for t in alltr if any(e[0] == "generate" and e[1] == "result" for e in t["ev"]))
    # distinct non-trivial: distinct (trace shape, first error message class) pairs among sources that got past the tokenizer
    shapes = set()
    for t in alltr:
        if len(t["ev"]) > 1:
            msg = re.sub(r"[0-9]+", "N", (t.get("err") or ""))
            msg = re.sub(r'"[^"]*"', "Q", msg)[:60]
            shapes.add((tuple(e[0] + "=" + e[1] for e in t["ev"]), msg))
    samples = []
    rng = ctx.rng
    lines = [l for l in open(srcp)]
    tr_by_id = {t["id"]: t for t in traces}
    for l in rng.sample(lines, min(40, len(lines))):
        s = json.loads(l)
        text = src_text(s).decode("utf-8", "replace")
        tr = tr_by_id.get(s["id"])
        if tr is None or len(samples) >= 10:
            continue
        samples.append({"origin": s["o"], "source": text[-400:] if s["o"].startswith("tlc-") else text[:400], "events": tr["ev"], "first_error": tr.get("err", "")[:200]})
    ctx.evidence("exploration", {
        "evaluations": len(alltr),
        "distinct_nontrivial": len(shapes),
        "rule": "one evaluation = one source text run through every stage the pipeline allows; sources = TLC-enumerated/simulated token "
                "sequences of WuffsSyntax.tla (exhaustive statement skeletons, single damages, token-kind pairs/triples, nestings, seeded "
                "simulations) + seeded byte-level inputs; distinct non-trivial = distinct (per-stage outcome sequence, class of the first "
                "error message) pairs among sources that passed the tokenizer",
        "samples": samples,
        "states": sum(t["distinct"] for t in ctx.tlc_stats),
        "transitions": sum(t["generated"] for t in ctx.tlc_stats),
        "traces_validated_against_impl": len(alltr),
        "traces_rejected": len(rej) + len(rej2),
        "accepted_programs_compiled_by_gcc": accepted,
        "stage_outcomes": sc,
        "sources_by_origin": genstats["by_origin"], "deep_sources_by_origin": deepstats["by_origin"],
        "tlc_exports": [ex.stats for ex in exps + deep],
        "harness": {"main": hstats, "deep": hstats2},
        "failure_groups": [{"key": k, "sources": n, "origin": o} for k, n, o in groups],
        "corpus_files": genstats["corpus_files"],
        "exhaustive": False,
    }, assumptions=[
        "gcc 12 -fsyntax-only -Werror=implicit-function-declaration stands for 'the C compiler'",
        "watchdog: 30 s per stage (scaled with input size), a timeout counts only after an individual re-run with 4x budget in an own process",
        "stack: Go's default 1 GB goroutine stack limit, i.e. what the real binaries have",
        "render output is capped at 256 MiB by the writer handed to render.Render (an ordinary write error beyond it)",
        "internal/cgen runs inside the freshly built wuffs-c binary (one process per checked program), all other stages in-process",
    ])


def replay(ctx, path):
    rep = json.load(open(path))["replay"]
    bins = build(ctx)
    root = prepare_root(ctx, bins)
    d = ctx.subdir("replay")
    p = os.path.join(d, "w.wuffs")
    data = gzip.decompress(base64.b64decode(rep["source_gz_b64"]))
    open(p, "wb").write(data)
    srcp = os.path.join(d, "s.ndjson")
    s = {"id": 1, "o": "replay", "sib": rep.get("siblings") or []}
    try:
        s["s"] = data.decode("ascii")
    except Exception:
        s["b"] = base64.b64encode(data).decode()
    open(srcp, "w").write(json.dumps(s) + "\n")
    ev, fails, st = run_harness(ctx, bins, root, "replay", srcp, workers=1, budget_ms=60000, batch=1, individual=True)
    print(open(ev).read())
    rej, traces = validate(ctx, "replay", ev)
    report(ctx, "replay", rej, traces, fails)
    if not rej:
        print("not reproduced: the trace is accepted by ToolPipeline")

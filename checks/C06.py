"""C06 - interval arithmetic over-approximates, tightly when finite.

Mode V: harness/cmd/intervalreplay calls /repo's lib/interval for every
<<X, Y, op>> of a small universe (and of the same universe lifted to far-away
regions) and TLC validates every answer against the comprehension-style
specification spec/Interval.tla (invariant RowOK evaluated in 10^5..10^6
initial states).  spec/IntervalLift.tla justifies the lifts.
"""
import json, os, re
from vlib import ToolingError

META = {
    "level": "model_checking",
    "technique": "TLA+ comprehension-style specification (Interval.tla); every answer of lib/interval on a small universe and on lifted regions is an initial state validated by TLC (trace/table validation), lift laws model-checked (IntervalLift.tla)",
    "text": "Exhaustive within the universe: every pair of interval representations with bounds in -B..B or infinite (B=4 quick, 7 thorough) x 10 operations is answered by the real code and checked by TLC against the set-comprehension definition (soundness, exact hull when finite, ok iff some pair undefined, no aliasing); the same table is re-checked after moving operands to regions around 2^31..2^100 by lifts whose laws are TLC-checked.",
    "note": "Trusted: TLC, the JSON table writer in harness/cmd/intervalreplay (moves answers back exactly, flags inexact un-lifting), the magnitude-independence of the lift laws. Soundness for infinite bounds is sampled on a window; shift amounts >= 2^32 are not driven (one call does not return within minutes).",
}

OPS10 = ["add", "sub", "mul", "quo", "lsh", "rsh", "and", "or", "unite", "intersect"]


def cfg(B, W, ops, table):
    return ("SPECIFICATION Spec\nCONSTANTS\n  B = %d\n  W = %d\n  Ops = {%s}\n  TableFile = \"%s\"\n"
            "INVARIANT RowOK\nCHECK_DEADLOCK FALSE\n") % (B, W, ",".join('"%s"' % o for o in ops), table)


def liftcfg(B, ks, js, cs, ds):
    f = lambda s: "{" + ",".join(str(v) for v in s) + "}"
    cs = [v + 4 for v in cs]
    ds = [v + 4 for v in ds]
    return ("SPECIFICATION LSpec\nCONSTANTS\n  B = %d\n  W = %d\n  Ops = {\"add\"}\n  TableFile = \"none.json\"\n"
            "  KS = %s\n  JS = %s\n  CS = %s\n  DS = %s\n"
            "INVARIANTS LawTranslate LawScale LawBox LawRshBig LawSparse\nCHECK_DEADLOCK FALSE\n") % (B, B + 1, f(ks), f(js), f(cs), f(ds))


def state_from_tlc(out):
    """Extract the violating initial state <<x, y, op>> from TLC's output."""
    st = {}
    m = re.search(r"/\\ op = \"(\w+)\"", out)
    if m:
        st["op"] = m.group(1)
    for v in ("x", "y"):
        m = re.search(r"/\\ %s = \[([^\]]*)\]" % v, out)
        if m:
            d = {}
            for kv in m.group(1).split(","):
                k, val = kv.split("|->")
                val = val.strip()
                d[k.strip()] = (val == "TRUE") if val in ("TRUE", "FALSE") else int(val)
            st[v] = d
    return st


def ival_str(d):
    if d.get("lf") and d.get("hf") and d["lo"] > d["hi"]:
        return "[empty %d..%d]" % (d["lo"], d["hi"])
    return "[%s ..= %s]" % (d["lo"] if d.get("lf") else "-inf", d["hi"] if d.get("hf") else "+inf")


def run(ctx):
    thorough = ctx.tier == "thorough"
    B = 7 if thorough else 4
    W = B + 2
    binp = ctx.go_build("./cmd/intervalreplay")
    rng = ctx.rng

    # 1. the lift laws (a property of the specification itself)
    if thorough:
        lc = liftcfg(3, [1, 2, 3], [0, 1, 2], [-3, -1, 0, 2], [-2, 0, 1])
    else:
        lc = liftcfg(3, [1, 2], [0, 1], [-3, 2], [-2, 1])
    ctx.tlc_ok("IntervalLift", cfg="lift.cfg", data={"lift.cfg": lc}, timeout=1500, label="lift-laws")
    ctx.log("lift laws hold:", ctx.tlc_stats[-1])

    # 2. tables from the real code
    bigs = [2 ** 31, 2 ** 32, 2 ** 63, 2 ** 64, 10 ** 30, 2 ** 100 + 12345]
    exps = [7, 31, 32, 33, 63, 64, 100]
    tables = [("base", ["-lift", "none"], OPS10)]
    if thorough:
        for c in bigs:
            for sg in (1, -1):
                tables.append(("translate c=%d" % (sg * c), ["-lift", "translate", "-c", str(sg * c), "-d", str(-sg * c + rng.randrange(-5, 6))],
                               ["add", "sub", "unite", "intersect"]))
        for k in [0] + exps:
            for k2 in (sorted({0, 31, 64, k}) if k in (0, 31, 32, 63, 64) else [rng.choice([0] + exps)]):
                if k == 0 and k2 == 0:
                    continue
                tables.append(("scale k=%d,%d" % (k, k2), ["-lift", "scale", "-k", str(k), "-k2", str(k2)], ["mul", "quo", "lsh", "rsh"]))
        for k in (30, 31, 61, 62, 63, 99):
            tables.append(("scaledividend k=%d" % k, ["-lift", "scaledividend", "-k", str(k)], ["quo"]))
        # shift amounts and operands beyond 2^16 bits (seeded change C06-m6: a shortcut for shift counts above 0xFFFF)
        for k in (65535, 65536, 65537, 100003):
            tables.append(("scale k=%d,0" % k, ["-lift", "scale", "-k", str(k), "-k2", "0"], ["lsh", "rsh"]))
        for k in exps + [40, 48, 56]:
            tables.append(("box k=%d" % k, ["-lift", "box", "-k", str(k)], ["and", "or"]))
        for k in (7, 31, 32, 33, 36, 40, 48, 63, 64, 100):
            tables.append(("sparse k=%d" % k, ["-lift", "sparse", "-k", str(k)], ["andsc", "orsc"]))
        for c in (64, 1000, 2 ** 20, 2 ** 31 - 1):
            tables.append(("rshbig +%d" % c, ["-lift", "rshbig", "-c", str(c)], ["rshbig"]))
    else:
        c = rng.choice(bigs) * rng.choice((1, -1))
        tables.append(("translate c=%d" % c, ["-lift", "translate", "-c", str(c), "-d", str(rng.choice(bigs) + rng.randrange(-5, 6))],
                       ["add", "sub", "unite", "intersect"]))
        # machine-word boundaries are where fast paths go wrong: always one pair with an unscaled operand against 2^63 / 2^64,
        # one just above 2^32, and a seeded one
        for (k, k2) in ((0, rng.choice((63, 64))), (rng.choice((32, 33)), rng.choice((0, 31))), (rng.choice(exps), rng.choice(exps))):
            tables.append(("scale k=%d,%d" % (k, k2), ["-lift", "scale", "-k", str(k), "-k2", str(k2)], ["mul", "quo", "lsh", "rsh"]))
        kbig = rng.choice((65536, 65537, 70001))
        tables.append(("scale k=%d,0" % kbig, ["-lift", "scale", "-k", str(kbig), "-k2", "0"], ["rsh"]))
        # the dividend alone at -2^63 / 2^63 (even bounds x 2^62) against the divisors -2 .. 2, and one more word boundary
        for k in (62, rng.choice((30, 31, 61, 63))):
            tables.append(("scaledividend k=%d" % k, ["-lift", "scaledividend", "-k", str(k)], ["quo"]))
        for k in (rng.choice((32, 33)), rng.choice(exps)):
            tables.append(("box k=%d" % k, ["-lift", "box", "-k", str(k)], ["and", "or"]))
        tables.append(("rshbig", ["-lift", "rshbig", "-c", str(rng.choice((64, 1000, 2 ** 20)) + rng.randrange(0, 9))], ["rshbig"]))
        # and/or on sparsely scaled operands [a*2^k, b*2^k]: bounds whose set bits are far apart (the bit-twiddling paths)
        for k in (rng.choice((33, 34, 36, 40, 47)), rng.choice(exps)):
            tables.append(("sparse k=%d" % k, ["-lift", "sparse", "-k", str(k)], ["andsc", "orsc"]))

    # call histories on a wider universe (no table, no TLC: the storage clause only): results kept across later calls
    hout = os.path.join(ctx.subdir("tab"), "hist.json")
    r = ctx.run([binp, "-B", "12" if thorough else "9", "-hist", "-lift", "none", "-out", hout], timeout=1200)
    if r.returncode != 0:
        raise ToolingError("intervalreplay -hist failed: " + r.stderr[-2000:])
    hst = json.loads(r.stdout)
    if hst.get("kept_results_changed") or hst.get("results_sharing_storage_with_kept"):
        ctx.violation("lib/interval: results share storage across calls: %d kept results changed by later calls, %d results share a *big.Int with a kept result or an operand; e.g. %s" % (
            hst.get("kept_results_changed", 0), hst.get("results_sharing_storage_with_kept", 0), hst.get("history_example")),
            {"key": "storage:call-history", "table": "history", "example": hst.get("history_example")})
    rows_total = lifted_total = 0
    samples = []
    nontrivial = 0
    for name, args, ops in tables:
        d = ctx.subdir("tab")
        out = os.path.join(d, "rows.json")
        r = ctx.run([binp, "-B", str(B), "-out", out] + args, timeout=600)
        if r.returncode != 0:
            # a panic of lib/interval on valid operands is a violation on real code
            if "panic" in r.stderr:
                ctx.violation("lib/interval panicked while building table '%s':\n%s" % (name, r.stderr[-1500:]),
                              {"table": name, "args": args, "stderr": r.stderr[-3000:]})
                continue
            raise ToolingError("intervalreplay failed: " + r.stderr[-2000:])
        st = json.loads(r.stdout)
        if st.get("kept_results_changed") or st.get("results_sharing_storage_with_kept"):
            ctx.violation("lib/interval: results share storage across calls in table '%s': %d kept results changed by later calls, %d results share a *big.Int with a kept result; e.g. %s" % (
                name, st.get("kept_results_changed", 0), st.get("results_sharing_storage_with_kept", 0), st.get("history_example")),
                {"key": "storage:call-history", "table": name, "args": args, "example": st.get("history_example")})
        if st["plain_vs_try_mismatch"]:
            ctx.violation("Foo and TryFoo disagree on %d rows of table '%s'" % (st["plain_vs_try_mismatch"], name), {"table": name, "args": args})
        table = open(out).read()
        # one TLC run per op group keeps JSON parsing and the search parallel
        res = ctx.tlc("Interval", cfg="t.cfg", data={"t.cfg": cfg(B, W, ops, "rows.json"), "rows.json": table},
                      timeout=3000, label="table " + name)
        if res["error"]:
            raise ToolingError("TLC error on table %s:\n%s" % (name, res["error"]))
        nrows = (len(ops)) * st["universe"] ** 2
        rows_total += nrows
        lifted_total += st["lifted_rows"]
        if res["violated"]:
            s = state_from_tlc(res["out"])
            rows = json.loads(table)
            what = "lib/interval answer rejected by Interval!RowOK (table '%s'): %s %s %s" % (
                name, ival_str(s.get("x", {})), s.get("op"), ival_str(s.get("y", {})))
            ctx.violation(what, {"table": name, "harness_args": args, "B": B, "W": W, "state": s,
                                 "row_layout": "[ok, empty, lf, lo, hf, hi, alias, fits]", "tlc_tail": res["out"][-1500:]})
        else:
            ctx.log("table '%s': %d rows accepted (%d lifted) in %.1fs" % (name, nrows, st["lifted_rows"], res["wall_s"]))
        # distinct non-trivial rows: both operands non-empty
        rows = json.loads(table)
        nb = 2 * B + 2
        n = st["universe"]
        for oi, op in enumerate(["add", "sub", "mul", "quo", "lsh", "rsh", "and", "or", "unite", "intersect", "rshbig", "andsc", "orsc"]):
            if op not in ops:
                continue
            base = oi * n * n
            for idx in range(base, base + n * n):
                xi, yi = divmod(idx - base, n)
                xl, xh = divmod(xi, nb)
                yl, yh = divmod(yi, nb)
                xe = xl > 0 and xh < nb - 1 and (xl - B - 1) > (xh - B)
                ye = yl > 0 and yh < nb - 1 and (yl - B - 1) > (yh - B)
                if not xe and not ye:
                    nontrivial += 1
            if len(samples) < 12:
                idx = base + rng.randrange(n * n)
                xi, yi = divmod(idx - base, n)
                samples.append({"table": name, "op": op, "x_index": xi, "y_index": yi, "answer_row": rows[idx]})

    ctx.evidence("model_checking", {
        "states": sum(t["distinct"] for t in ctx.tlc_stats),
        "transitions": sum(t["generated"] for t in ctx.tlc_stats),
        "traces_validated_against_impl": rows_total,
        "samples": samples,
        "evaluations": rows_total,
        "distinct_nontrivial": nontrivial,
        "rule": "every <<X, Y, op>> with bounds in -%d..%d or infinite (all %d interval representations incl. every empty one), "
                "10 operations, plus the same universe lifted by translation/scaling/boxing to regions around 2^31..2^100 "
                "(%d genuinely lifted rows); a row is non-trivial when both operands are non-empty; each answer of the real "
                "code is one initial state of Interval.tla and RowOK is evaluated on it" % (B, B, (2 * B + 2) ** 2, lifted_total),
        "exhaustive": True,
        "universe_B": B, "window_W": W, "tables": [t[0] for t in tables],
    }, assumptions=[
        "soundness for infinite bounds is checked on the members inside the window -W..W only",
        "lifted rows rely on the lift laws of IntervalLift.tla, TLC-checked at small parameters (they are magnitude-independent integer laws)",
        "the JSON table is produced by harness/cmd/intervalreplay linked against /repo's working tree",
    ])


def replay(ctx, path):
    rep = json.load(open(path))["replay"]
    print(json.dumps(rep, indent=1))
    run(ctx)

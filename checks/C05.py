"""C05 - coroutine results do not depend on where the I/O streams are split.

(a) generated coroutines: spec/WuffsCore.tla in cgen-shaped coroutine mode -
    TLC explores EVERY partition of the source and of the destination capacity
    into successive calls (a suspension at every possible point, also inside
    multi-byte reads and nested coroutine calls); invariant NoPoisonRead uses the
    set of locals that the generated C really saves; every schedule is replayed
    on the compiled C and each call's status / consumed / produced / bytes must
    equal the specification's.
(b) std decoders: the one-shot run of the freshly generated C is the oracle;
    schedules (every/sampled single split of source and destination, multi-
    splits down to 1 byte, both at once) are run on the same binary and TLC
    validates the recorded traces against spec/Trace_Std.tla (Mode = "split"):
    prefix of the oracle at every step, equal output and status at the end,
    equal consumption unless the final status is an error.  Token decoders
    (std/json, std/cbor): the token stream of every call is recorded and TLC
    checks it against spec/TokenStream.tla - well-formed (lengths partition the
    source, chains closed, structure balanced, UTF-8 not straddled) under every
    schedule, and NORMAL FORM of the chunked run = normal form of the one-shot
    run (a buffer boundary may only cut additive tokens); schedules include
    1-byte source pieces and token buffers of 1, 2, 3 tokens; inputs include
    generated JSON / CBOR documents (lib/tokgen.py)."""
import json, os, random, threading
import wcorepipe, stdbuild, stdtrace, stdinputs, tokgen
from vlib import ToolingError

META = {
    "level": "model_checking",
    "technique": "TLC explores every source/destination partition of generated coroutines under WuffsCore.tla (cgen-shaped resumption with cgen's own resumable sets) and the schedules are replayed on the compiled C; std decoders: traces of chunked runs validated by TLC against Trace_Std.tla (prefix-of-one-shot at every step)",
    "text": "Generated coroutines: exhaustive over all split points of inputs up to 3 bytes and destination capacities up to 3, including suspension inside multi-byte reads and nested calls; std decoders: exploration over corpus files and mutants with single splits, multi-splits and simultaneous source/destination splits, every call validated by TLC.",
    "note": "Trusted: the TLA+ semantics and trace spec, TLC, the drivers. For std the oracle is the one-shot run of the same binary. Token decoders (std/json, std/cbor): the token streams are compared in the normal form of spec/TokenStream.tla (only additive tokens - strings, filler - may be cut by a buffer boundary; model-checked in TokenStreamMC.tla), token by token by TLC for inputs up to 16 KiB and by the driver's normal-form hash above.",
}


def part_a(ctx):
    variants = (("gcc", "-O1"), ("gcc", "-O2")) if ctx.tier == "thorough" else (("gcc", "-O1"),)
    # only programs with a coroutine matter
    mism = []
    tot = {"calls": 0, "hists": 0}
    dead = set()      # (program, function) on which a compiled variant hung or crashed (confirmed): not driven again

    def drive(b, hs):
        tot["hists"] += len(hs)
        for v, exe in b.exes.items():
            bad, calls = wcorepipe.replay(ctx, b, hs, exe, dead=dead)
            tot["calls"] += calls
            for m in bad:
                m["compiler"] = " ".join(v)
                mism.append(m)
    thorough = ctx.tier == "thorough"
    b, viols, hists, stats, st = wcorepipe.model_check(ctx, "C05", "cgen", "split", ["NoPoisonRead"], {"poison"}, want_export=True, compile_c=variants,
                                                       sink=drive if thorough else None)
    if not thorough:
        drive(b, hists)
    total_calls = 0
    # A program on which the cgen-shaped model reads a local that the generated C does not save has no exported
    # histories behind that read (the model stops there).  What the C does with such a program is decided against the
    # IDEAL semantics (every local survives a suspension) under the same split schedules: a difference there is the
    # observable consequence of the missing save (seeded change C04-m1: the index local of `this.tab[i] = read_u8?()`).
    poisoned = []
    for (p, kind, detail, inv, tail) in viols:
        if p["name"] not in [q["name"] for q in poisoned]:
            poisoned.append(p)
    if poisoned:
        cfg2 = wcorepipe.cfg_text(st["maxcalls"], "ideal", "split", st["fuel"], ["ExportInv"], view=False)
        v2, hists2, stats2 = wcorepipe.run_tlc_groups(ctx, poisoned, cfg2, "C05 ideal/split (programs with an unsaved local)", group=st["group"],
                                                      workers=st["workers"], par=st["par"])
        stats["states"] += stats2["states"]
        stats["generated"] += stats2["generated"]
        stats["runs"] += stats2["runs"]
        drive(b, hists2)
        ctx.log("%d programs with an unsaved local: %d more histories from the ideal semantics replayed" % (len(poisoned), len(hists2)))
    # a poison read is a violation only if it is observable: replay found a mismatch for that program
    mism_progs = {m["prog"] for m in mism}
    seen = set()
    for m in mism:
        last = m["history"][-1]
        k = (m["prog"], last["fn"])
        if k in seen:
            continue
        seen.add(k)
        what = "chunked run of generated coroutine `%s.%s` (%s) differs from the specification at call %d (source supplied %d, closed %s, destination capacity %d) on input %s: expected %s, C returned %s\n--- source ---\n%s" % (
            m["prog"], last["fn"], m["compiler"], m["call_index"], last["wi0"], last["closed0"], last["cap0"], m["input"], m["spec_expects"], m["c_says"], m["source"])
        ctx.violation(what, dict(m, key="%s:%s" % (m["prog"].split("~")[0], last["fn"])))
    benign = 0
    for (p, kind, detail, inv, tail) in viols:
        if p["name"] in mism_progs:
            continue
        # The generated C does not save the local `detail` although the model reads it after a resumption.
        # Without an observable difference in the replay this is logged, not reported (the property is about results).
        benign += 1
        ctx.log("poison read of local `%s` in %s without observable difference (logged as benign)" % (detail, p["name"]))
    total_calls = tot["calls"]
    stats["histories"] = tot["hists"]
    return b, stats, st, hists, total_calls, len(seen), benign, len(viols)


def part_b(ctx):
    thorough = ctx.tier == "thorough"
    tools = stdbuild.build_tools(ctx)
    root = stdbuild.gen_std(ctx, tools)
    exe, log = stdbuild.compile_driver(ctx, root, "stddrive.c", "plain")
    if exe is None:
        raise ToolingError("generated std C does not compile:\n" + log[-3000:])
    rng = ctx.rng
    maxsize = (256 << 10) if thorough else (48 << 10)
    corp = [c for c in stdinputs.corpus(max_size=maxsize)]
    mdir = ctx.subdir("c05-mutants")
    inputs = [(p, dec, extra, "corpus") for (p, dec, extra) in corp]
    for (p, dec, extra) in corp:
        data = open(p, "rb").read()
        for i in range(2 if thorough else 1):
            kind = rng.choice(("trunc", "flip", "byte", "zero"))
            mp = os.path.join(mdir, "%s.%s%d" % (os.path.basename(p), kind, i))
            open(mp, "wb").write(stdinputs.mutate(data, rng, kind))
            inputs.append((mp, dec, extra, "mutant:" + kind))
    # token decoders: generated JSON / CBOR documents and their mutants (own random stream: the other decoders' jobs stay as they were)
    trng = random.Random(ctx.seed * 7919 + 5)
    inputs += tokgen.write_docs(ctx.subdir("c05-tokdocs"), trng, 24 if thorough else 12, 20 if thorough else 10, mutants=2 if thorough else 1)
    mc = token_model_start(ctx)
    odir = ctx.subdir("c05-oracle")
    # 1. one-shot oracle runs
    ojobs, meta = [], {}
    jid = 0
    for (p, dec, extra, origin) in inputs:
        jid += 1
        j = {"id": jid, "dec": dec, "in": p, "src": "*", "dst": "*", "budget_ms": 30000}
        j.update(extra)
        if stdinputs.KIND[dec] == "xform":
            j["out"] = os.path.join(odir, "o%d.bin" % jid)
        meta[jid] = {"input": p, "dec": dec, "extra": extra, "origin": origin, "class": "one-shot"}
        ojobs.append(j)
    oev = stdtrace.run_jobs(ctx, exe, ojobs, sanitizer=False)
    # 2. scheduled runs
    sjobs = []
    per = 10 if thorough else 4
    for oj in ojobs:
        evs = oev.get(oj["id"], [])
        end = stdtrace.end_event(evs)
        if end is None or end.get("stop") not in ("status",):
            continue
        m = meta[oj["id"]]
        n = os.path.getsize(m["input"]) - int(m["extra"].get("skip", 0))
        outn = end.get("out_total", 0)
        kind = stdinputs.KIND[m["dec"]]
        scheds = []
        for _ in range(per if not m["origin"].startswith("generated") else max(2, per // 2)):
            r = rng.random()
            if r < 0.35:
                k = rng.choice([0, 1, 2, max(0, n - 1), max(0, n - 2)] + [rng.randrange(0, n + 1) for _ in range(4)])
                scheds.append({"src": "%d,*" % k, "close": rng.choice(("end", "late"))})
            elif r < 0.55 and kind in ("xform", "token"):
                cap = outn if kind == "xform" else max(1, outn)
                k = rng.choice([1, 2, max(1, cap - 1), max(1, cap)] + [rng.randrange(1, cap + 2) for _ in range(3)])
                scheds.append({"dst": "%d,*" % k, "dstmode": rng.choice(("grow", "compact"))})
            elif r < 0.8:
                piece = rng.choice([p_ for p_ in (1, 2, 3, 7, 64, 4096) if n // p_ <= (3000 if thorough else 400)] or [4096])
                scheds.append({"src": str(piece), "srcmode": rng.choice(("view", "fresh")), "close": rng.choice(("end", "late"))})
            else:
                piece = rng.choice([p_ for p_ in (1, 3, 64, 4096) if n // p_ <= (1500 if thorough else 200)] or [4096])
                dp = rng.choice([p_ for p_ in (1, 5, 64, 4096) if max(1, outn) // p_ <= (1500 if thorough else 200)] or [4096])
                scheds.append({"src": str(piece), "dst": str(dp), "dstmode": rng.choice(("grow", "compact")), "srcmode": rng.choice(("view", "fresh"))})
        if kind == "token":
            scheds += token_schedules(trng, m["dec"], n, max(1, outn), thorough)
        for sc in scheds:
            sc = stdinputs.avoid_known(m["dec"], m["input"], sc)
            jid += 1
            j = {"id": jid, "dec": m["dec"], "in": m["input"], "budget_ms": 60000, "wb": rng.choice(("min", "max")), "maxcalls": 6000}
            j.update(m["extra"])
            j.update(sc)
            if "out" in oj:
                j["oracle"] = oj["out"]
            meta[jid] = {"input": m["input"], "dec": m["dec"], "origin": m["origin"], "class": sc, "oracle_job": oj["id"]}
            sjobs.append(j)
    # the committed witnesses of the known std findings that concern this property are re-run on every run
    wit_oracle = {}
    for (key, fields, opath) in stdinputs.known_witnesses():
        jid += 1
        oj = {"id": jid, "dec": fields["dec"], "in": fields["in"], "src": "*", "dst": "*", "budget_ms": 60000, "out": os.path.join(odir, "w%d.bin" % jid)}
        meta[jid] = {"input": fields["in"], "dec": fields["dec"], "origin": "known-witness", "class": "one-shot"}
        wev = stdtrace.run_jobs(ctx, exe, [oj], sanitizer=False)
        oev.update(wev)
        wj = dict(fields, id=jid + 1, oracle=oj["out"], budget_ms=60000, maxcalls=6000)
        jid += 1
        meta[jid] = {"input": fields["in"], "dec": fields["dec"], "origin": "known-witness", "class": {k: v for k, v in fields.items() if k not in ("dec", "in")},
                     "oracle_job": oj["id"], "witness_key": key}
        sjobs.append(wj)
    sev = stdtrace.run_jobs(ctx, exe, sjobs, sanitizer=False)
    # 3. traces: insert the oracle's end as the expectation of each scheduled job
    traces = []
    for j in sjobs:
        evs = sev.get(j["id"], [])
        oe = stdtrace.end_event(oev[meta[j["id"]]["oracle_job"]])
        if stdinputs.KIND.get(meta[j["id"]]["dec"]) == "token":
            # a token decoder may cut one token into several at a buffer boundary (documented): the RAW token sequence is not
            # compared; status, consumption and the NORMAL FORM of the token stream are (clause NormalFormEqualsOracle)
            x = stdtrace.token_expect(oe, oev[meta[j["id"]]["oracle_job"]])
        else:
            x = stdtrace.expect_from(oe)
        x["j"] = j["id"]
        if evs and evs[0].get("k") == "start":
            evs = [evs[0], x] + evs[1:]
        traces.append((j["id"], evs))
    nev, rej = stdtrace.validate(ctx, traces, "split", "C05b")
    tokmc = token_model_finish(mc)
    byid = {int(j["id"]): j for j in sjobs}
    for r in rej:
        m = meta.get(r["job"], {})
        ev = r["event"]
        oe = stdtrace.end_event(oev[m["oracle_job"]]) if m.get("oracle_job") in oev else None
        what = "std/%s: chunked run differs from the one-shot run of the same binary: clauses %s at trace line %d; input %s [%s], schedule %s\n  event: %s\n  one-shot end: %s" % (
            m.get("dec"), r["clauses"], r["line"], os.path.basename(m.get("input", "?")), m.get("origin"), json.dumps(m.get("class")),
            _short(ev), oe)
        saved = None
        if m.get("input") and os.path.exists(m["input"]):
            import shutil
            d = os.path.join(os.path.dirname(os.path.dirname(os.path.abspath(__file__))), "replays", "inputs")
            os.makedirs(d, exist_ok=True)
            saved = os.path.join(d, "C05-%s-%d-%s" % (ctx.tier, ctx.seed, os.path.basename(m["input"])))
            shutil.copy(m["input"], saved)
        ctx.violation(what, {"key": m.get("witness_key") or "%s:%s:%s" % (m.get("dec"), ",".join(sorted(r["clauses"])), os.path.basename(m.get("input", "?")).split(".")[0]),
                             "decoder": m.get("dec"), "input_saved": saved, "schedule": m.get("class"), "clauses": r["clauses"], "event": ev,
                             "job": stdtrace.job_line(dict(byid.get(r["job"], {}), **({"in": saved} if saved else {})))})
    distinct = {(meta[j["id"]]["dec"], os.path.basename(meta[j["id"]]["input"]), json.dumps(meta[j["id"]]["class"], sort_keys=True)) for j in sjobs}
    tokstats = stdtrace.token_stats({**{k: v for k, v in oev.items() if stdinputs.KIND.get(meta.get(k, {}).get("dec")) == "token"}, **sev})
    tokstats["scheduled_jobs_compared_by_normal_form"] = sum(1 for j in sjobs if stdinputs.KIND.get(meta[j["id"]]["dec"]) == "token")
    tokstats["normal_form_model"] = tokmc
    tokstats["corrupted_trace_selftest"] = token_selftest(ctx, traces, tokstats)
    return {"jobs": len(sjobs), "oracle_jobs": len(ojobs), "events": nev, "distinct": len(distinct), "tokens": tokstats,
            "samples": [{"decoder": meta[j["id"]]["dec"], "input": os.path.basename(meta[j["id"]]["input"]), "schedule": meta[j["id"]]["class"],
                         "calls": (stdtrace.end_event(sev.get(j["id"], [])) or {}).get("calls")} for j in sjobs[:: max(1, len(sjobs) // 5)][:5]]}


TOKMC_CFG = ("SPECIFICATION Spec\nCONSTANTS Family = \"%s\" MaxTokens = %d MaxTotal = %d MaxPieces = %d FullContext = %s\n"
             "INVARIANTS Invariant Idempotent Canonical Conserves SameAsDC Discriminates\nCHECK_DEADLOCK FALSE\n")


def token_model_start(ctx):
    """Design-level check of the token normal form (spec/TokenStreamMC.tla), run beside the driver: every re-splitting
    of a chain of total length <= 6 between every kind of neighbour, and of every small stream, has the same normal
    form; the normal form is idempotent, canonical, conserving, and tells illegitimate changes apart."""
    thorough = ctx.tier == "thorough"
    cfgs = [("chains", 3, 6, 4 if thorough else 3, "TRUE" if thorough else "FALSE"), ("streams", 3 if thorough else 2, 3, 3, "TRUE")]
    box = {"res": [], "err": None}

    def work():
        try:
            for c in cfgs:
                box["res"].append(ctx.tlc_ok("TokenStreamMC", cfg="tsmc.cfg", data={"tsmc.cfg": TOKMC_CFG % c}, workers=4 if thorough else 3,
                                             timeout=3000, label="TokenStreamMC %s total<=%d pieces<=%d" % (c[0], c[2], c[3])))
        except BaseException as e:       # re-raised by token_model_finish in the main thread
            box["err"] = e
    th = threading.Thread(target=work)
    th.start()
    return th, box


def token_model_finish(mc):
    th, box = mc
    th.join()
    if box["err"] is not None:
        raise box["err"]
    return [{"config": r["label"], "logical_streams": r["distinct"], "wall_s": r["wall_s"]} for r in box["res"]]


def token_selftest(ctx, traces, tokstats):
    """Guards against vacuous acceptance: token jobs must have logged tokens, and a recorded trace with ONE token's
    length changed / ONE value bit flipped must be rejected by TLC with the clause that owns it."""
    if tokstats["token_decoder_jobs"] and not tokstats["tokens_validated_by_tlc"]:
        raise ToolingError("token decoders ran but no event carries tokens: the driver's recording is gone")
    pick = None
    for jid, evs in traces:
        end = stdtrace.end_event(evs)
        calls = [e for e in evs if e.get("k") == "call" and len(e.get("tk", ())) >= 3]
        if end and end.get("cls") == "ok" and end.get("tok_recorded") and calls and len(evs) < 400 and any(e.get("k") == "expect" and "otk" in e for e in evs):
            pick = (jid, evs)
            break
    if pick is None:
        return {"ran": False}
    out = {"ran": True}
    for name, clause in (("length of a recorded token", "TokenLengthsPartitionSource"), ("value of an oracle token", "NormalFormEqualsOracle")):
        evs = json.loads(json.dumps(pick[1]))
        if clause == "TokenLengthsPartitionSource":
            [e for e in evs if e.get("k") == "call" and len(e.get("tk", ())) >= 3][0]["tk"][1][4] += 1
        else:
            [e for e in evs if e.get("k") == "expect"][0]["otk"][1][2] += 1
        n, rej = stdtrace.validate(ctx, [(pick[0], evs)], "split", "C05b selftest " + name.split()[0])
        got = sorted({c for r in rej for c in r["clauses"]})
        if clause not in got:
            raise ToolingError("self-test: a trace with the %s corrupted was not rejected for %s (got %s)" % (name, clause, got))
        out[name] = got
    return out


def token_schedules(rng, dec, n, ntok, thorough):
    """Schedules aimed at the token path (piece-list semantics: spec/IOSchedule.tla; TokDstLists there): 1-byte source
    pieces, token buffers of 1, 2, 3 tokens (not below the decoder's documented minimum), both at once."""
    capmin = tokgen.TOKEN_CAP_MIN.get(dec, 1)
    lim = 5000 if thorough else 1500        # (the scheduled jobs' call budget is 6000)
    cands = []
    for piece in (1, 1, 2, 3):
        if n // piece <= lim:
            cands.append({"src": str(piece), "srcmode": rng.choice(("view", "fresh")), "close": rng.choice(("end", "late"))})
    for cap in (1, 2, 3):
        if cap >= capmin and ntok // cap <= lim:
            cands.append({"dst": str(cap)})
            if n // 2 + ntok // cap <= lim:
                cands.append({"src": str(rng.choice((1, 2, 5))), "dst": str(cap), "srcmode": rng.choice(("view", "fresh")), "close": rng.choice(("end", "late"))})
    rng.shuffle(cands)
    return cands[: (6 if thorough else 2)]


def run(ctx):
    b, stats, st, hists, calls, nmism, benign, npoison = part_a(ctx)
    ctx.log("part (a): %d histories, %d calls replayed, %d mismatching programs, %d poison reads (%d benign)" % (stats.get("histories", len(hists)), calls, nmism, npoison, benign))
    pb = part_b(ctx)
    ctx.log("part (b): %d scheduled jobs, %d events validated" % (pb["jobs"], pb["events"]))
    cov = wcorepipe.coverage_common(ctx, b, stats, st)
    nonempty = [h for h in hists if h["hist"]]
    cov["states"] = max(1, sum(t["distinct"] for t in ctx.tlc_stats))
    cov["transitions"] = max(1, sum(t["generated"] for t in ctx.tlc_stats))
    cov["traces_validated_against_impl"] = stats.get("histories", len(nonempty)) + pb["jobs"]
    cov["generated_coroutine_histories_replayed"] = stats.get("histories", len(nonempty))
    cov["generated_coroutine_calls_compared"] = calls
    cov["poison_reads_in_model"] = npoison
    cov["poison_reads_without_observable_difference"] = benign
    cov["std_scheduled_jobs"] = pb["jobs"]
    cov["std_events_validated_by_tlc"] = pb["events"]
    cov["std_distinct_decoder_input_schedule"] = pb["distinct"]
    cov["std_token_streams"] = pb["tokens"]
    cov["samples"] = [{"program": h["progname"], "input": h["input"], "history": h["hist"]} for h in nonempty[:: max(1, len(nonempty) // 3)][:3]] + pb["samples"]
    ctx.evidence("model_checking", cov, assumptions=[
        "generated coroutines: exhaustive inside the bounds of coverage.bounds; std decoders: sampled schedules (exploration) on corpus files and mutants",
        "std oracle = one-shot run of the same freshly generated binary",
    ])



def _short(ev):
    """An event for a message: the recorded token / byte arrays are elided (the replay file keeps them)."""
    return {k: (v if not (isinstance(v, list) and len(v) > 12) else v[:12] + ["... %d more" % (len(v) - 12)]) for k, v in ev.items() if k != "stderr_tail"}

def replay(ctx, path):
    print(json.dumps(json.load(open(path))["replay"], indent=1)[:8000])

"""The WuffsCore pipeline shared by C01, C02, C04, C05:

  sources (hand corpus, seeded near-miss mutants, generated programs)
    -> wexport (checked AST + claims, with the working tree's lang/check)
    -> enrich (declaration tables, argument choices, inputs, cgen's resumable sets)
    -> TLC on spec/WuffsCore.tla (property configs and export configs)
    -> replay of the exported histories on the C that the working tree's
       wuffs-c generates for the same programs (gcc, several optimisation levels)
"""
import json, os, re, random, shutil, subprocess, concurrent.futures, time
from vlib import ToolingError, VERIF, parse_tlc_prints, NCPU
import wcore

TESTDATA = os.path.join(VERIF, "harness", "testdata", "wcore")


def build_tools(ctx):
    return {
        "wexport": ctx.go_build("./cmd/wexport", tags="verif"),
        "wuffs-c": ctx.go_build("github.com/google/wuffs/cmd/wuffs-c", out="wuffs-c", tags="verif"),
    }


# ------------------------------------------------------------------ sources

MUT_OPS = [
    (r"<=", "<"), (r"(?<![<>=~])<(?![=<])", "<="), (r">=", ">"), (r"(?<![<>=~\-])>(?![=>])", ">="),
    (r"~mod\+", "+"), (r"~mod-", "-"), (r"~mod\*", "*"), (r"~sat\+", "+"), (r"~sat-", "-"),
    (r"==", "<>"), (r"<>", "=="), (r" and ", " or "), (r" or ", " and "),
]


def mutants(text, rng, n):
    """n single-change near-miss mutants of a Wuffs source: literal +-1, operator
    swaps, a dropped guard / assert / invariant line, a widened mask or
    refinement.  Returns [(descriptor, text)]."""
    out = []
    lines = text.split("\n")
    tries = 0
    seen = set()
    while len(out) < n and tries < n * 20:
        tries += 1
        kind = rng.choice(["lit", "lit", "op", "op", "dropline", "dropblock"])
        if kind == "lit":
            ms = [m for m in re.finditer(r"(?<![\w.\"])(0[xX][0-9A-Fa-f_]+|\d+)(?![\w\"])", text)]
            if not ms:
                continue
            m = rng.choice(ms)
            v = int(m.group(1).replace("_", ""), 0)
            nv = rng.choice([v + 1, v - 1, v * 2, v // 2, v + 2])
            if nv < 0 or nv == v:
                continue
            t2 = text[:m.start()] + str(nv) + text[m.end():]
            desc = "lit@%d:%s->%d" % (m.start(), m.group(1), nv)
        elif kind == "op":
            pat, rep = rng.choice(MUT_OPS)
            ms = [m for m in re.finditer(pat, text)]
            ms = [m for m in ms if "//" not in text[text.rfind("\n", 0, m.start()) + 1:m.start()]]
            if not ms:
                continue
            m = rng.choice(ms)
            t2 = text[:m.start()] + rep + text[m.end():]
            desc = "op@%d:%s->%s" % (m.start(), m.group(0), rep)
        elif kind == "dropline":
            idx = [i for i, l in enumerate(lines) if re.match(r"\s*(assert |inv |pre |post |\w[\w.\[\]]* (=|[+\-*&|^]=|~mod[+\-*]=) )", l)]
            if not idx:
                continue
            i = rng.choice(idx)
            t2 = "\n".join(lines[:i] + lines[i + 1:])
            desc = "dropline@%d:%s" % (i + 1, lines[i].strip()[:30])
        else:
            # drop a whole `if ... { ... }` block without else (a guard)
            idx = [i for i, l in enumerate(lines) if re.match(r"\s*if .*\{\s*$", l)]
            if not idx:
                continue
            i = rng.choice(idx)
            ind = len(lines[i]) - len(lines[i].lstrip())
            j = i + 1
            while j < len(lines) and not (lines[j].strip() == "}" and len(lines[j]) - len(lines[j].lstrip()) == ind):
                j += 1
            if j >= len(lines):
                continue
            t2 = "\n".join(lines[:i] + lines[j + 1:])
            desc = "dropif@%d" % (i + 1)
        if t2 in seen or t2 == text:
            continue
        seen.add(t2)
        out.append((desc, t2))
    return out


def load_sources(ctx, n_mut_per_file, include_known=True, gen=0, pid=None):
    """[(name, text, origin)]"""
    res = []
    # open/: witnesses of REPORTED, unrepaired defects (each has a `known:` line in KNOWN_FINDINGS.txt and a file under
    # findings/).  The first line `// open-finding: C04 C05` names the properties whose check drives the witness.
    od = os.path.join(TESTDATA, "open")
    if include_known and os.path.isdir(od):
        for fn in sorted(os.listdir(od)):
            if fn.endswith(".wuffs"):
                text = open(os.path.join(od, fn)).read()
                m = re.match(r"// open-finding:([ \w]*)\n", text)
                if m and (pid is None or pid in m.group(1).split()):
                    res.append((fn[:-6], text, "open-finding"))
    # corpus: accepted programs, one per mechanism; known/: witnesses of repaired checker defects (now rejected);
    # reject/: unsafe programs that the checker must reject, each for exactly one reason - a checker regression that
    # accepts one of them turns it into an accepted program like any other, and the model finds its fault
    dirs = [(TESTDATA, "corpus")] + ([(os.path.join(TESTDATA, "known"), "known-shape"), (os.path.join(TESTDATA, "reject"), "must-reject")] if include_known else [])
    for d, origin in dirs:
        for fn in sorted(os.listdir(d)):
            if fn.endswith(".wuffs"):
                res.append((fn[:-6], open(os.path.join(d, fn)).read(), origin))
    if include_known:
        import wgen
        for name, text in wgen.stalefact_programs():
            res.append((name, text, "must-reject"))
    base = [r for r in res if r[2] == "corpus"]
    for name, text, _ in base:
        for desc, t2 in mutants(text, ctx.rng, n_mut_per_file):
            res.append(("%s~%s" % (name, desc), t2, "mutant"))
    if gen:
        import wgen
        # operator grid (see lib/wgen.py): thorough = every operator at both widths, 6 range pairs; quick = u32, 3 range pairs
        if pid not in (None, "C01", "C04"):
            grid = []      # (pure functions without I/O: nothing for the suspension schedules of C02 / C05 to explore)
        elif ctx.tier == "thorough":
            grid = wgen.opgrid_programs(random.Random(ctx.seed * 31 + 7))
        else:
            grid = wgen.opgrid_programs(random.Random(ctx.seed * 31 + 7), per_op=3, widths=("u32",))
        for name, text in grid:
            res.append((name, text, "opgrid"))
        if pid == "C05":
            # liveness grid (see lib/wgen.py): one local through every event sequence x control-flow shape
            for name, text in wgen.livegrid_programs(random.Random(ctx.seed * 17 + 3), per_shape=(None if os.environ.get("VERIF_LIVEGRID") == "all" else 60 if ctx.tier == "thorough" else 12)):
                res.append((name, text, "livegrid"))
        for k in range(gen):
            res.append(("gen%04d_%d" % (k, ctx.seed), wgen.generate(random.Random(ctx.seed * 100003 + k)), "generated"))
    only = os.environ.get("VERIF_WCORE_ONLY")      # (debugging aid: a regular expression on the source names)
    if only:
        res = [r for r in res if re.search(only, r[0])]
    return res


# ------------------------------------------------------------------ prepare

class Batch:
    def __init__(self):
        self.progs = []       # enriched programs (dicts), each with name/origin/src
        self.rejected = []    # (name, origin, error)
        self.skipped = []     # (name, origin, why)  outside the interpreted fragment / bad C
        self.cdir = None
        self.exes = {}


def prepare(ctx, tools, sources, max_in=3, max_inputs=8, max_choices=3, dstcap=3, lenient=False):
    b = Batch()
    wd = ctx.subdir("wcore")
    b.cdir = os.path.join(wd, "c")
    os.makedirs(b.cdir, exist_ok=True)

    def one(k, name, text, origin):
        pkg = "p%04d" % k
        src = os.path.join(wd, pkg + ".wuffs")
        with open(src, "w") as f:
            f.write(text)
        d, err = wcore.export(tools["wexport"], src, os.path.join(wd, pkg + ".json"), pkg)
        if d is None:
            return ("tool", name, origin, err)
        if not d["accepted"]:
            return ("rej", name, origin, d["error"])
        p = wcore.Prog(d, pkg, text)
        out, why = wcore.enrich(p, random.Random(ctx.seed * 7919 + k), max_in=max_in, max_inputs=max_inputs,
                                max_choices=max_choices, dstcap=dstcap, allargs=bool(re.search(r"^// wcore:.*\ballargs\b", text, re.M)), lenient=lenient)
        if out is None:
            return ("skip", name, origin, why)
        c = subprocess.run([tools["wuffs-c"], "gen", "-package_name", pkg, src], capture_output=True, text=True, timeout=120)
        if c.returncode != 0:
            return ("skip", name, origin, "wuffs-c gen failed: " + c.stderr[-300:])
        with open(os.path.join(b.cdir, pkg + ".c"), "w") as f:
            f.write(c.stdout)
        res = wcore.resumable_from_c(c.stdout, out["structname"], out["funcs"])
        for f in out["funcs"]:
            f["resum"] = res[f["name"]]
        out["name"], out["origin"], out["src"] = name, origin, text
        # directive of a corpus program: `// wcore: maxcalls=1` (histories of one public call)
        m = re.search(r"^// wcore:.*\bmaxcalls=(\d+)", text, re.M)
        if m:
            out["maxcalls"] = int(m.group(1))
        return ("ok", name, origin, out)

    with concurrent.futures.ThreadPoolExecutor(max_workers=8) as ex:
        futs = [ex.submit(one, k, n, t, o) for k, (n, t, o) in enumerate(sources)]
        for f in futs:
            kind, name, origin, x = f.result()
            if kind == "tool":
                raise ToolingError("wexport failed on %s: %s" % (name, x))
            elif kind == "rej":
                b.rejected.append((name, origin, x))
            elif kind == "skip":
                b.skipped.append((name, origin, x))
            else:
                b.progs.append(x)
    r = subprocess.run([tools["wuffs-c"], "gen", "-package_name", "base"], capture_output=True, text=True, timeout=120)
    if r.returncode != 0:
        raise ToolingError("wuffs-c gen base failed: " + r.stderr[-500:])
    with open(os.path.join(b.cdir, "wuffs-base.c"), "w") as f:
        f.write(r.stdout)
    return b


def compile_batch(ctx, b, variants=(("gcc", "-O1"),)):
    """Compile the batch driver; programs whose generated C does not compile are
    dropped from the batch (that is C11's clause; they are listed in skipped)."""
    for attempt in range(6):
        drv = os.path.join(b.cdir, "driver.c")
        with open(drv, "w") as f:
            f.write(wcore.gen_driver_c(b.progs, b.cdir))
        cc, opt = variants[0]
        exe = os.path.join(b.cdir, "driver-%s%s" % (cc, opt))
        r = subprocess.run([cc, opt, "-o", exe, drv], capture_output=True, text=True, cwd=b.cdir, timeout=900)
        if r.returncode == 0:
            b.exes[(cc, opt)] = exe
            break
        badpk = set(re.findall(r"(p\d{4})\.c:\d+:\d+: error", r.stderr))
        if not badpk:
            raise ToolingError("batch driver does not compile:\n" + r.stderr[-3000:])
        for p in list(b.progs):
            if p["pkg"] in badpk:
                m = re.search(r"%s\.c:\d+:\d+: error: ([^\n]*)" % p["pkg"], r.stderr)
                b.skipped.append((p["name"], p["origin"], "generated C rejected by gcc: " + (m.group(1) if m else "")))
                b.progs.remove(p)
    else:
        raise ToolingError("batch driver still does not compile after dropping programs")

    def build(v):
        cc, opt = v
        exe = os.path.join(b.cdir, "driver-%s%s" % (cc, opt.replace("=", "").replace(",", "")))
        flags = opt.split()
        r = subprocess.run([cc] + flags + ["-o", exe, os.path.join(b.cdir, "driver.c")], capture_output=True, text=True, cwd=b.cdir, timeout=900)
        return v, (exe if r.returncode == 0 else None), r.stderr
    with concurrent.futures.ThreadPoolExecutor(max_workers=4) as ex:
        for v, exe, err in ex.map(build, variants[1:]):
            if exe is None:
                raise ToolingError("driver does not compile with %s: %s" % (v, err[-1500:]))
            b.exes[v] = exe
    return b


# ---------------------------------------------------------------------- TLC

def cfg_text(maxcalls, mode, schedule, fuel, invariants, view):
    # facts end a behaviour only where they are the property (C02): elsewhere execution goes on to the unsafe step itself
    s = ("SPECIFICATION Spec\nCONSTANTS\n  ProgFile = \"progs.json\"\n  MaxCalls = %d\n  Mode = \"%s\"\n  Schedule = \"%s\"\n  Fuel = %d\n  CheckFacts = %s\n"
         % (maxcalls, mode, schedule, fuel, "TRUE" if "FactsTrue" in invariants else "FALSE"))
    s += "INVARIANTS " + " ".join(invariants) + "\n"
    if view:
        s += "VIEW View\n"
    s += "CHECK_DEADLOCK FALSE\n"
    return s


def strip_prog(p):
    return {k: v for k, v in p.items() if k not in ("src",)}


def run_tlc_groups(ctx, progs, cfg, label, group=4, workers=4, par=4, timeout=3000):
    """Run TLC on groups of programs in parallel.  When a group's run stops at
    an invariant violation the offending program is cut out and the group is run
    again, so that every program is explored.  Returns (violations, histories,
    stats): violations = [(prog, kind, detail, tlc_tail)]."""
    groups = [progs[i:i + group] for i in range(0, len(progs), group)]
    viols, hists = [], []
    stats = {"states": 0, "generated": 0, "runs": 0}

    def do(gi, g):
        v, h = [], []
        g = list(g)
        while g:
            res = ctx.tlc("WuffsCore", cfg="w.cfg", data={"w.cfg": cfg, "progs.json": json.dumps([strip_prog(p) for p in g])},
                          workers=workers, timeout=timeout, label="%s group %d" % (label, gi), heap="4g")
            stats["states"] += res["distinct"]
            stats["generated"] += res["generated"]
            stats["runs"] += 1
            if res["error"]:
                raise ToolingError("TLC error in %s group %d (programs %s):\n%s" % (label, gi, [p["name"] for p in g], res["error"][-2500:]))
            for o in parse_tlc_prints(res["out"]):
                if isinstance(o, dict) and "hist" in o:
                    o["progname"] = g[o["prog"] - 1]["name"]
                    h.append(o)
            if not res["violated"]:
                break
            out = res["out"]
            pis = re.findall(r"/\\ pi = (\d+)", out)
            m = re.search(r'fault = \[k \|-> "(\w+)", d \|-> "([^"]*)"\]', out[out.rfind("State "):])
            if not pis or not m:
                raise ToolingError("cannot parse TLC counterexample:\n" + out[-2500:])
            pidx = int(pis[-1]) - 1
            tail = out[out.rfind("State "):][:6000]
            v.append((g[pidx], m.group(1), m.group(2), res["violated"], tail))
            g = g[:pidx] + g[pidx + 1:]
        return v, h

    with concurrent.futures.ThreadPoolExecutor(max_workers=par) as ex:
        futs = [ex.submit(do, i, g) for i, g in enumerate(groups)]
        for f in futs:
            v, h = f.result()
            viols += v
            hists += h
    return viols, hists, stats


# ------------------------------------------------------------------- replay

def _drive(exe, lines, per_line_s):
    """Feed `lines` to the replay driver and collect its answers (one per line).
    Returns (answers, why): why is None when every line was answered, "hang"
    when an answer did not arrive within per_line_s seconds, "died rc=.." when
    the driver ended early (crash)."""
    import select, threading
    p = subprocess.Popen([exe], stdin=subprocess.PIPE, stdout=subprocess.PIPE, stderr=subprocess.DEVNULL)
    data = ("\n".join(lines) + "\n").encode()

    def feed():
        try:
            p.stdin.write(data)
            p.stdin.close()
        except (BrokenPipeError, OSError):
            pass
    th = threading.Thread(target=feed, daemon=True)
    th.start()
    out, buf, why = [], b"", None
    fd = p.stdout.fileno()
    while len(out) < len(lines):
        r, _, _ = select.select([fd], [], [], per_line_s)
        if not r:
            why = "hang"
            break
        chunk = os.read(fd, 1 << 16)
        if not chunk:
            break
        buf += chunk
        while b"\n" in buf:
            ln, buf = buf.split(b"\n", 1)
            out.append(ln.decode("latin-1"))
    if why == "hang":
        p.kill()
    try:
        p.wait(timeout=10)
    except subprocess.TimeoutExpired:
        p.kill()
        p.wait()
    if why is None and len(out) < len(lines):
        why = "died rc=%s" % p.returncode
    return out, why


def replay(ctx, b, hists, exe, per_line_s=3.0, dead=None):
    """Step the compiled C through every exported history; return mismatches.
    A history on which the compiled C does not answer (it hangs, confirmed by a
    second run of that history alone with a 4x budget, or it crashes, confirmed
    the same way) is a mismatch too; after a confirmed one the remaining
    histories of the same program and function are not driven."""
    byname = {p["name"]: (i, p) for i, p in enumerate(b.progs)}
    items = []
    for h in hists:
        if not h["hist"] or h["progname"] not in byname:
            continue
        i, p = byname[h["progname"]]
        items.append((h, p, wcore.history_script(i, h)))
    bad, calls = [], 0
    dead = set() if dead is None else dead           # (program, function) with a confirmed hang / crash (shared between compilers)
    pos = 0
    while pos < len(items):
        chunk = [it for it in items[pos:] if not any((it[1]["name"], c["fn"]) in dead for c in it[0]["hist"])]
        pos = len(items)
        if not chunk:
            break
        lines, starts = [], []
        for (h, p, scr) in chunk:
            starts.append(len(lines))
            lines += scr
        outl, why = _drive(exe, lines, per_line_s)
        nfull = len(chunk)
        if why is not None:
            # the history that contains the first unanswered line
            k = max(i for i, st in enumerate(starts) if st <= len(outl))
            nfull = k
            h, p, scr = chunk[k]
            out2, why2 = _drive(exe, scr, per_line_s * 4)
            if why2 is None:
                # not reproducible in isolation (load spike, or a crash that needs the earlier histories): tooling, not a verdict
                out3, why3 = _drive(exe, lines[:starts[k] + len(scr)], per_line_s * 4)
                if why3 is None:
                    outl = out3 + outl[len(out3):]
                    nfull = k + 1
                else:
                    raise ToolingError("replay driver %s only in a batch, not on the history alone: %s" % (why3, json.dumps(h)[:1500]))
            else:
                ci = max(0, min(len(h["hist"]) - 1, len(out2) - 1))
                c = h["hist"][ci]
                bad.append({"prog": p["name"], "origin": p["origin"], "input": h["input"], "call_index": ci, "history": h["hist"][:ci + 1],
                            "spec_expects": {"status": c["st"], "ri": c["ri"], "out": c["out"], "ret": c["rv"]},
                            "c_says": "no answer: the compiled C %s (confirmed by a second run of this history alone, %.0f s per call)" % (
                                "hangs" if why2 == "hang" else "crashes, " + why2, per_line_s * 4),
                            "source": p["src"]})
                dead.add((p["name"], c["fn"]))
                calls += ci + 1
            # continue behind the failing history
            rest = chunk[k + 1:]
            items = items[:0] + rest
            pos = 0
        for j in range(nfull):
            h, p, scr = chunk[j]
            start = starts[j]
            frec = {f["name"]: f for f in p["funcs"]}
            for k2, c in enumerate(h["hist"]):
                rep = wcore.parse_reply(outl[start + 1 + k2])
                calls += 1
                f = frec[c["fn"]]
                if f["eff"] == "?":
                    exp_st = wcore.c_status(p["pkg"], c["st"])
                elif f["rets"] == "status":
                    exp_st = wcore.c_status(p["pkg"], c["rv"] if isinstance(c["rv"], str) else c["st"])
                else:
                    exp_st = None
                exp_ret = c["rv"] if f["rets"] == "num" and isinstance(c["rv"], int) else 0
                # (the source's write index and closed flag belong to the caller: a call returns them as it got them)
                ok = (rep is not None and rep["st"] == exp_st and rep["ri"] == c["ri"] and rep["out"] == c["out"] and rep["ret"] == exp_ret
                      and rep["swi"] == c["wi0"] and rep["sclosed"] == (1 if c["closed0"] else 0)
                      and rep.get("pchg", -1) <= 0)       # (a method declared pure leaves the receiver and the buffers unchanged)
                if not ok:
                    bad.append({"prog": p["name"], "origin": p["origin"], "input": h["input"], "call_index": k2, "history": h["hist"][:k2 + 1],
                                "spec_expects": {"status": exp_st, "ri": c["ri"], "out": c["out"], "ret": exp_ret, "swi": c["wi0"], "sclosed": 1 if c["closed0"] else 0},
                                "c_says": rep,
                                "source": p["src"]})
                    break
            else:
                # every call agreed: the observable receiver state at the end of the history (not after an error: the
                # object is dead then and its contents are unspecified)
                last = h["hist"][-1] if h["hist"] else None
                fl = wcore.parse_fields(outl[start + 1 + len(h["hist"])]) if start + 1 + len(h["hist"]) < len(outl) else None
                # (only for histories that ended normally: a call that the model abandoned - out of fuel, out of the
                # modelled fragment - is not part of `hist` but may already have changed the model's receiver)
                if fl is not None and "th" in h and last is not None and not last.get("disabled") and (h.get("fault") or {}).get("k") == "none":
                    for fname, want in h["th"].items():
                        got = fl.get(fname)
                        if got is None or isinstance(want, str):
                            continue
                        w2 = list(want) if isinstance(want, (list, tuple)) else want
                        if isinstance(w2, list) and isinstance(got, int):
                            got = [got]
                        if got != w2:
                            bad.append({"prog": p["name"], "origin": p["origin"], "input": h["input"], "call_index": len(h["hist"]) - 1, "history": h["hist"],
                                        "spec_expects": {"field": fname, "value": w2}, "c_says": {"field": fname, "value": got},
                                        "source": p["src"]})
                            break
    return bad, calls


def describe_node(p, nid):
    """Source-like rendering of an expression node (for reports)."""
    N = p["nodes"]

    def s(i):
        n = N[i - 1]
        if n["k"] != "Expr":
            return n["k"]
        a = n["a"]
        if a == "":
            return n["c"]
        if a == ".":
            return s(n["l"]) + "." + n["c"]
        if a == "(":
            return s(n["l"]) + "(" + ",".join(N[x - 1]["c"] + ":" + s(N[x - 1]["r"]) for x in n["x"]) + ")"
        if a == "[":
            return s(n["l"]) + "[" + s(n["r"]) + "]"
        if a == "..":
            return s(n["l"]) + "[" + (s(n["m"]) if n["m"] else "") + " .. " + (s(n["r"]) if n["r"] else "") + "]"
        if a == "as":
            return "(" + s(n["l"]) + " as " + N[n["r"] - 1]["c"] + ")"
        if n["ar"] == "u":
            return a + " " + s(n["r"])
        if n["ar"] == "b":
            return "(" + s(n["l"]) + " " + a + " " + s(n["r"]) + ")"
        if n["ar"] == "a":
            return "(" + (" " + a + " ").join(s(x) for x in n["x"]) + ")"
        return "?" + a
    return s(nid)


def explain(p, kind, detail):
    N = p["nodes"]
    try:
        if kind == "fact" and ":" in detail and detail.split(":")[0].isdigit():
            sid, k = detail.split(":")
            st = N[int(sid) - 1]
            return "false fact `%s` held by the checker before the statement at line %d" % (describe_node(p, st["fx"][int(k) - 1]), st["ln"])
        if kind == "fact" and detail.startswith("assert "):
            st = N[int(detail.split()[1]) - 1]
            return "assert `%s` at line %d is false at run time" % (describe_node(p, st["r"]), st["ln"])
        if kind == "fact" and detail.startswith("loop "):
            st = N[int(detail.split()[1]) - 1]
            return "loop %s condition `%s` is false when reached" % (st["a"], describe_node(p, st["r"]))
        if kind == "viol" and "@" in detail:
            what, sid = detail.rsplit("@", 1)
            st = N[int(sid) - 1]
            lines = p.get("src", "").split("\n")
            text = lines[st["ln"] - 1].strip() if 0 < st["ln"] <= len(lines) else st["k"]
            return "safety violation (%s) while executing line %d `%s`" % (what, st["ln"], text)
        if kind == "range":
            n = N[int(detail) - 1]
            return "value of `%s` (line %d) outside the claimed range [%s ..= %s]" % (
                describe_node(p, int(detail)), n["ln"], n["lo"] if n["hlo"] == 1 else "-inf", n["hi"] if n["hhi"] == 1 else "+inf")
    except Exception:
        pass
    return "%s %s" % (kind, detail)


# ------------------------------------------------------------- check bodies

def signature(p, kind, detail):
    """A root-cause signature of a model-level violation, independent of the
    program's name: fault kind + the offending expression with identifiers and
    numbers abstracted.  Used as the key of `known:` entries."""
    text = explain(p, kind, detail)
    m = re.search(r"`([^`]*)`", text)
    expr = m.group(1) if m else detail
    names = {}

    def ren(mo):
        w = mo.group(0)
        if w in ("this", "args", "and", "or", "not", "as", "mod", "sat", "length", "base"):
            return w
        if w.isdigit() or re.match(r"0[xX]", w):
            return "N"
        return names.setdefault(w, "v%d" % (len(names) + 1))
    norm = re.sub(r"[A-Za-z_]\w*|\d+", ren, expr)
    norm = re.sub(r"\s+", "", norm)
    if kind == "viol":
        return "viol:%s:%s" % (detail.split("@")[0].replace(" ", "-"), norm)
    return "%s:%s" % (kind, norm)


def settings(ctx, pid="C01"):
    t = ctx.tier == "thorough"
    st = {
        "n_mut": 40 if t else 2,
        "gen": 120 if t else 6,
        "max_in": 3,
        "max_inputs": 10 if t else 5,
        "max_choices": 3 if t else 1,     # random ones, in addition to the all-min, all-max and all-equal combinations
        "maxcalls": 3 if t else 2,
        "fuel": 400,
        "group": 6 if t else 9,            # (a TLC process costs ~30 CPU-seconds before its first state: fewer, larger groups in the quick tier)
        "par": 4,
        "workers": 4,
    }
    # every check explores a different cut of the same space (see DESIGN 5): C01 deeper call histories without
    # suspension, C02 all suspension schedules, C04 one-shot export, C05 one call with every split
    if pid == "C01":
        st["maxcalls"] = 4 if t else 3
    if pid == "C05":
        st["maxcalls"] = 2 if t else 1
    return st


def model_check(ctx, pid, mode, schedule, invariants, fault_kinds, want_export=False, compile_c=False, sink=None, sink_chunk=60):
    """Common driver: returns (batch, violations, hists, stats, settings).  With sink (a function of (batch, histories))
    the programs are explored sink_chunk at a time and each chunk's exported histories are handed to sink and dropped
    (a thorough run exports tens of millions of calls: kept in memory they took 30 GB); the returned list is then only a
    sample of about 2000 histories."""
    st = settings(ctx, pid)
    tools = build_tools(ctx)
    srcs = load_sources(ctx, st["n_mut"], include_known=True, gen=st["gen"], pid=pid)
    b = prepare(ctx, tools, srcs, max_in=st["max_in"], max_inputs=st["max_inputs"], max_choices=st["max_choices"])
    ctx.log("%d sources: %d accepted and interpreted, %d rejected by the compiler, %d outside the fragment" % (
        len(srcs), len(b.progs), len(b.rejected), len(b.skipped)))
    if compile_c:
        compile_batch(ctx, b, variants=compile_c)
        ctx.log("compiled the batch driver (%d programs kept)" % len(b.progs))
    inv = list(invariants) + (["ExportInv"] if want_export else [])
    cfg = cfg_text(st["maxcalls"], mode, schedule, st["fuel"], inv, view=not want_export)
    if sink is None:
        viols, hists, stats = run_tlc_groups(ctx, b.progs, cfg, "%s %s/%s" % (pid, mode, schedule), group=st["group"], workers=st["workers"], par=st["par"])
    else:
        viols, hists, stats = [], [], {"states": 0, "generated": 0, "runs": 0, "histories": 0}
        for i in range(0, len(b.progs), sink_chunk):
            v, h, s1 = run_tlc_groups(ctx, b.progs[i:i + sink_chunk], cfg, "%s %s/%s [%d..]" % (pid, mode, schedule, i), group=st["group"], workers=st["workers"], par=st["par"])
            viols += v
            for k in ("states", "generated", "runs"):
                stats[k] += s1[k]
            stats["histories"] += len(h)
            sink(b, h)
            keep = [x for x in h if x["hist"]]
            hists += keep[:: max(1, len(keep) // 200)][:200]
            del h
    viols = [v for v in viols if v[1] in fault_kinds]
    return b, viols, hists, stats, st


def report_model_violations(ctx, pid, viols):
    for (p, kind, detail, inv, tail) in viols:
        sig = signature(p, kind, detail)
        what = "%s: accepted program `%s` (%s): %s [invariant %s of WuffsCore]\n--- source ---\n%s\n--- TLC state ---\n%s" % (
            pid, p["name"], p["origin"], explain(p, kind, detail), inv, p["src"], tail[:2500])
        ctx.violation(what, {"key": sig, "program": p["name"], "origin": p["origin"], "fault": {"kind": kind, "detail": detail},
                             "explanation": explain(p, kind, detail), "source": p["src"], "tlc_state": tail[:6000]})


def coverage_common(ctx, b, stats, st, hists=None):
    origins = {}
    for p in b.progs:
        origins[p["origin"]] = origins.get(p["origin"], 0) + 1
    cov = {
        "states": max(1, stats["states"]),
        "transitions": max(1, stats["generated"]),
        "programs": len(b.progs),
        "programs_by_origin": origins,
        "rejected_by_compiler": len(b.rejected),
        "rejected_samples": [{"name": n, "origin": o, "error": e[:160]} for (n, o, e) in b.rejected[:5]],
        "outside_fragment": len(b.skipped),
        "outside_fragment_samples": [{"name": n, "why": w[:160]} for (n, o, w) in b.skipped[:5]],
        "bounds": {"max_calls": st["maxcalls"], "max_input_len": st["max_in"], "inputs_per_program": st["max_inputs"],
                   "arg_choices_per_function": st["max_choices"], "fuel": st["fuel"]},
        "tlc_process_runs": stats["runs"],
    }
    return cov


# ------------------------------------------------------------------- pure-method probes (C10)

def pure_probe(ctx, b, exe, per_line_s=3.0):
    """Model-free probe of the frame condition of pure methods on every accepted program of the batch: after
    initialize and one call of every impure non-coroutine method (so that the receiver is not all zeroes), every
    method declared pure is called with every exported argument choice while the driver snapshots the receiver's
    bytes and the destination buffer around the call.  Returns rows [{prog, fn, pure, objchg, bufchg, args}]."""
    rows = []
    lines, owners = [], []
    for i, p in enumerate(b.progs):
        pubs = [f for f in p["funcs"] if f["pub"]]
        pures = [f for f in pubs if f["eff"] == "" and not any(prm["kind"] not in ("num",) for prm in f["params"])]
        if not pures:
            continue
        lines.append("H %d -" % i)
        owners.append(None)

        def kv(f, ch):
            return " ".join("%s=%d" % (a["n"], a["v"]) for a in ch if isinstance(a["v"], int))
        for f in pubs:
            if f["eff"] == "!" and f["choices"] and all(prm["kind"] == "num" for prm in f["params"]):
                for ch in f["choices"][-2:]:
                    lines.append("C %s 0 1 3 %s" % (f["name"], kv(f, ch)))
                    owners.append(None)
        for f in pures:
            for ch in (f["choices"] or [[]])[:40]:
                lines.append("C %s 0 1 3 %s" % (f["name"], kv(f, ch)))
                owners.append((p, f, ch))
    if not lines:
        return rows
    outl, why = _drive(exe, lines, per_line_s)
    if why is not None:
        # a hang or crash of a generated program is C04's / C01's business; here only complete probes count
        ctx.notes.append("pure-method probe: the driver stopped early (%s) after %d of %d lines" % (why, len(outl), len(lines)))
    for ln, own in zip(outl, owners):
        if own is None:
            continue
        rep = wcore.parse_reply(ln)
        if rep is None or rep.get("pchg", -1) < 0:
            continue
        p, f, ch = own
        rows.append({"prog": p["name"], "fn": f["name"], "pure": True, "objchg": bool(rep["pchg"] & 1), "bufchg": bool(rep["pchg"] & 2),
                     "args": {a["n"]: a["v"] for a in ch}, "src": p["src"]})
    return rows

"""Generated inputs for the std token decoders (std/json, std/cbor), used by the token-stream clauses of
spec/Trace_Std.tla (spec/TokenStream.tla) in C03, C05 and C09.

  json_docs(rng, n)  -> [(name, bytes, quirks-string or "")]
  cbor_docs(rng, n)  -> [(name, bytes, "")]
  write_docs(dir, rng, n_json, n_cbor, mutants) -> [(path, decoder, extra job fields, origin)]

Every document family aims at one mechanism of the decoders' token emission (what is emitted as ONE token, what
as a chain, where a chain may be cut by a buffer boundary): nested containers to depth ~20, strings with every
escape kind / multi-byte UTF-8 / invalid UTF-8, numbers in every syntactic form, JSON quirks, CBOR indefinite-
length strings / arrays / maps, tags, every major type x additional-info value.  Invalid documents are wanted
too: the stream up to the error is compared as well.

Token-buffer capacities: the decoders document a minimum (json.DECODER_DST_TOKEN_BUFFER_LENGTH_MIN_INCL = 1,
cbor.DECODER_DST_TOKEN_BUFFER_LENGTH_MIN_INCL = 2); TOKEN_CAP_MIN keeps generated schedules above it.
"""
import os, struct
import stdinputs

TOKEN_CAP_MIN = {"json": 1, "cbor": 2}
TOK_RECORD_MAX = 16384          # harness/c/stddrive.c logs the tokens themselves up to this source size

JQ = 0x45990800                  # std/json QUIRKS_BASE
Q = {
    "ascii_control": JQ | 0x00, "bs_a": JQ | 0x01, "bs_U": JQ | 0x02, "bs_e": JQ | 0x03, "bs_nl": JQ | 0x04,
    "bs_q": JQ | 0x05, "bs_sq": JQ | 0x06, "bs_v": JQ | 0x07, "bs_x": JQ | 0x09, "bs_0": JQ | 0x0A,
    "comment_block": JQ | 0x0B, "comment_line": JQ | 0x0C, "extra_comma": JQ | 0x0D, "inf_nan": JQ | 0x0E,
    "lead_rs": JQ | 0x0F, "lead_bom": JQ | 0x10, "trailing_filler": JQ | 0x11, "trailing_nl": JQ | 0x12,
    "replace_invalid": JQ | 0x14,
}


def quirks(*names):
    return ",".join("0x%08X:1" % Q[n] for n in names)


# ------------------------------------------------------------------------------------------------ JSON

WS = [b" ", b"\t", b"\n", b"\r", b"  ", b" \n ", b""]
ESC_STD = [b'\\"', b"\\\\", b"\\/", b"\\b", b"\\f", b"\\n", b"\\r", b"\\t"]
ESC_U = [b"\\u0041", b"\\u00e9", b"\\u4E8C", b"\\uFFFF", b"\\u0000", b"\\uD83D\\uDE00", b"\\udbff\\udfff"]
ESC_U_BAD = [b"\\uD83D", b"\\uDE00", b"\\uD83Dx", b"\\uD83D\\u0041", b"\\u12G4", b"\\u12"]
ESC_QUIRKY = [(b"\\a", "bs_a"), (b"\\e", "bs_e"), (b"\\\n", "bs_nl"), (b"\\?", "bs_q"), (b"\\'", "bs_sq"), (b"\\v", "bs_v"),
              (b"\\0", "bs_0"), (b"\\x41", "bs_x"), (b"\\xe9", "bs_x"), (b"\\U0001F600", "bs_U"), (b"\\U00110000", "bs_U"),
              (b"\\U0000D800", "bs_U")]
UTF8_OK = ["é".encode(), "߿".encode(), "ࠀ".encode(), "二".encode(), "￿".encode(),
           "\U00010000".encode(), "\U0001F600".encode(), "\U0010FFFF".encode()]
UTF8_BAD = [b"\x80", b"\xbf", b"\xc0\x80", b"\xc1\xbf", b"\xc3", b"\xe4\xba", b"\xe0\x80\x80", b"\xed\xa0\x80", b"\xf0\x9f\x98",
            b"\xf4\x90\x80\x80", b"\xf5\x80\x80\x80", b"\xff", b"\xc3\x41", b"\xe4\x41\x41"]
NUM_OK = [b"0", b"-0", b"1", b"-1", b"9", b"42", b"1234567890", b"0.5", b"-0.0", b"1.25", b"1e5", b"1E5", b"1e+5", b"1E-5",
          b"-1.5e+10", b"0e0", b"123.456e-789", b"9" * 99, b"-" + b"9" * 98, b"1." + b"0" * 97, b"1e" + b"1" * 97]
NUM_BAD = [b"01", b"-", b"1.", b".5", b"1e", b"1e+", b"+1", b"--1", b"1.e5", b"9" * 100, b"-" + b"9" * 99, b"1." + b"0" * 98,
           b"0x10", b"1e5.5"]
NUM_INFNAN = [b"inf", b"-inf", b"+inf", b"Infinity", b"-Infinity", b"+INFINITY", b"nan", b"NaN", b"-nan", b"+NAN", b"infin", b"-i"]
LITS = [b"true", b"false", b"null"]
LITS_BAD = [b"tru", b"nul", b"fals", b"True", b"nulL", b"truefalse"]


def _ws(rng):
    r = rng.random()
    if r < 0.5:
        return b""
    if r < 0.9:
        return rng.choice(WS)
    return bytes(rng.choice(b" \t\n\r") for _ in range(rng.randrange(1, 40)))


def _jstring(rng, st, kind=None):
    """A JSON string literal; st collects the quirk names the pieces need and whether the text is valid."""
    kind = kind or ("bad" if rng.random() < st.get("badp", 0.03) else rng.choice(("plain", "esc", "utf8", "mixed", "mixed", "long", "empty", "quirky")))
    parts = []
    if kind == "empty":
        pass
    elif kind == "plain":
        parts.append(bytes(rng.choice(b"abcdefghijklmnopqrstuvwxyz0123456789 _-") for _ in range(rng.randrange(1, 30))))
    elif kind == "long":
        n = rng.choice((100, 257, 1000, 4097))
        parts.append(bytes(rng.choice(b"abcdefghij ") for _ in range(n)))
        if rng.random() < 0.5:
            parts.insert(0, rng.choice(UTF8_OK))
            parts.append(rng.choice(UTF8_OK))
    else:
        for _ in range(rng.randrange(1, 12)):
            r = rng.random()
            if kind == "esc" or (kind in ("mixed", "bad", "quirky") and r < 0.3):
                parts.append(rng.choice(ESC_STD + ESC_U))
            elif kind == "utf8" or (kind in ("mixed", "bad", "quirky") and r < 0.6):
                parts.append(rng.choice(UTF8_OK))
            else:
                parts.append(bytes(rng.choice(b"abcxyz 019") for _ in range(rng.randrange(0, 9))))
        if kind == "bad":
            bad = rng.choice(UTF8_BAD + ESC_U_BAD + [b"\x01", b"\x1f", b"\n", b"\x7f", b"\\q", b"\\"])
            parts.insert(rng.randrange(len(parts) + 1), bad)
            st["valid"] = False
        if kind == "quirky":
            e, qn = rng.choice(ESC_QUIRKY)
            parts.insert(rng.randrange(len(parts) + 1), e)
            st["want"].add(qn)
    return b'"' + b"".join(parts) + b'"'


def _jvalue(rng, st, depth, maxdepth):
    r = rng.random()
    onspine = depth < st["spine"] and st.get("onspine", True)
    if depth < maxdepth and (onspine or r < 0.25):
        n = rng.choice((1, 2, 3)) if onspine else rng.choice((0, 1, 1, 2, 3, 5))
        heir = rng.randrange(n) if onspine else -1     # exactly one child continues the deep spine; its siblings stay shallow
        items = []

        def child(i):
            st["onspine"] = (i == heir)
            v = _jvalue(rng, st, depth + 1, maxdepth if (i == heir or not onspine) else min(maxdepth, depth + 2))
            st["onspine"] = onspine
            return v
        if rng.random() < 0.5:
            for i in range(n):
                items.append(_ws(rng) + child(i) + _ws(rng))
            body = b",".join(items)
            if st["extra_comma"] and items and rng.random() < 0.5:
                body += b"," + _ws(rng)
                st["want"].add("extra_comma")
            return b"[" + (body if items else _ws(rng)) + b"]"
        for i in range(n):
            items.append(_ws(rng) + _jstring(rng, st, rng.choice(("plain", "plain", "esc", "utf8", "empty"))) + _ws(rng) + b":" + _ws(rng)
                         + child(i) + _ws(rng))
        body = b",".join(items)
        if st["extra_comma"] and items and rng.random() < 0.5:
            body += b","
            st["want"].add("extra_comma")
        return b"{" + (body if items else _ws(rng)) + b"}"
    r = rng.random()
    if r < 0.35:
        return _jstring(rng, st)
    if r < 0.7:
        if st["infnan"] and rng.random() < 0.4:
            st["want"].add("inf_nan")
            return rng.choice(NUM_INFNAN)
        if rng.random() < st.get("badp", 0.03):
            st["valid"] = False
            return rng.choice(NUM_BAD)
        return rng.choice(NUM_OK)
    if rng.random() < st.get("badp", 0.03):
        st["valid"] = False
        return rng.choice(LITS_BAD)
    return rng.choice(LITS)


def _comment(rng, st):
    if rng.random() < 0.5:
        st["want"].add("comment_block")
        body = bytes(rng.choice(b"abc *\n/") for _ in range(rng.randrange(0, 30))).replace(b"*/", b"* ")
        return b"/*" + body + b"*/"
    st["want"].add("comment_line")
    return b"//" + bytes(rng.choice(b"abc /*") for _ in range(rng.randrange(0, 30))) + b"\n"


def json_doc(rng, family=None):
    """One JSON document: (family, bytes, quirks string)."""
    family = family or rng.choice(("tree", "tree", "deep", "strings", "numbers", "quirks", "comments", "scalar", "ws", "longstring", "badtail"))
    st = {"want": set(), "valid": True, "extra_comma": False, "infnan": False, "spine": 0, "badp": 0.0 if family == "deep" else 0.03}
    if family == "deep":
        d = rng.choice((18, 20, 24))
        st["spine"] = d
        body = _jvalue(rng, st, 0, d + 2)
    elif family == "strings":
        body = b"[" + b",".join(_ws(rng) + _jstring(rng, st) for _ in range(rng.randrange(1, 14))) + b"]"
    elif family == "numbers":
        st["infnan"] = rng.random() < 0.4
        nums = [rng.choice(NUM_OK) for _ in range(rng.randrange(1, 25))]
        if st["infnan"]:
            st["want"].add("inf_nan")
            nums += [rng.choice(NUM_INFNAN) for _ in range(3)]
        if rng.random() < 0.15:
            nums.append(rng.choice(NUM_BAD))
        rng.shuffle(nums)
        body = b"[" + b",".join(_ws(rng) + x + _ws(rng) for x in nums) + b"]"
    elif family == "quirks":
        st["extra_comma"] = True
        st["infnan"] = True
        body = _jvalue(rng, st, 0, 5)
        if rng.random() < 0.5:
            body = b"[" + _jstring(rng, st, "quirky") + b"," + body + b"]"
        lead = b""
        if rng.random() < 0.5:
            lead += b"\x1e"
            st["want"].add("lead_rs")
        if rng.random() < 0.5:
            lead += b"\xef\xbb\xbf"
            st["want"].add("lead_bom")
        body = lead + body
        r = rng.random()
        if r < 0.3:
            body += b"\n"
            st["want"].add("trailing_nl")
        elif r < 0.6:
            body += _ws(rng) + b" \n\t "
            st["want"].add("trailing_filler")
        if rng.random() < 0.3:
            st["want"].add("replace_invalid")
            body = body.replace(b'"', b'"' + rng.choice(UTF8_BAD + [b"\\uD800"]), 1)
        if rng.random() < 0.2:
            st["want"].add("ascii_control")
            body = body.replace(b'"', b'"\x01\x1f', 1)
    elif family == "comments":
        parts = [_comment(rng, st), _ws(rng), b"[", _comment(rng, st)]
        for i in range(rng.randrange(1, 6)):
            parts += [_jvalue(rng, st, 1, 3), _ws(rng), _comment(rng, st) if rng.random() < 0.6 else b"", b","]
        parts[-1] = b"]"
        if rng.random() < 0.6:
            st["want"].add("trailing_filler")
            parts += [_ws(rng), _comment(rng, st), _comment(rng, st) if rng.random() < 0.5 else b"//x"]
            if parts[-1] == b"//x":
                st["want"].add("comment_line")
        body = b"".join(parts)
    elif family == "scalar":
        body = _ws(rng) + rng.choice([rng.choice(NUM_OK), rng.choice(LITS), _jstring(rng, st)]) + _ws(rng)
    elif family == "ws":
        body = bytes(rng.choice(b" \t\n\r") for _ in range(rng.choice((1, 7, 300, 5000)))) + _jvalue(rng, st, 0, 2) + b" \n"
    elif family == "longstring":
        # a string longer than one token can span (65535): above TOK_RECORD_MAX, compared through the normal-form hash
        n = rng.choice((65530, 65536, 70001))
        unit = rng.choice((b"a", b"ab" + "é".encode(), "二".encode(), b"abcd" + "\U0001F600".encode()))
        body = b'["' + (unit * (n // len(unit) + 1))[: n - n % len(unit)] + b'", "tail"]'
    elif family == "badtail":
        body = _jvalue(rng, st, 0, 4) + rng.choice((b"x", b",", b"]", b"}", b" 1", b"\x00", b"/"))
    else:
        st["spine"] = 2
        body = _ws(rng) + _jvalue(rng, st, 0, rng.choice((3, 4, 6))) + _ws(rng)
    want = sorted(st["want"])
    if "trailing_nl" in want:
        want = [w for w in want if w not in ("comment_block", "comment_line", "trailing_filler")]   # "#bad quirk combination" otherwise
    return family, body, quirks(*want[:14])


def json_docs(rng, n):
    fams = ["tree", "deep", "strings", "numbers", "quirks", "comments", "scalar", "ws", "badtail", "strings", "quirks", "tree"]
    out = []
    for i in range(n):
        fam, body, qs = json_doc(rng, fams[i % len(fams)])
        out.append(("gen%02d-%s.json" % (i, fam), body, qs))
    return out


# ------------------------------------------------------------------------------------------------ CBOR

def _head(major, val=None, ai=None):
    """Initial byte(s) of a data item: major type + argument, in the shortest form or in the form `ai` forces."""
    if ai is None:
        ai = val if val < 24 else 24 if val < 0x100 else 25 if val < 0x10000 else 26 if val < 0x100000000 else 27
    b = bytes([(major << 5) | ai])
    if ai < 24 or ai >= 28:
        return b
    return b + {24: struct.pack(">B", val & 0xFF), 25: struct.pack(">H", val & 0xFFFF), 26: struct.pack(">I", val & 0xFFFFFFFF),
                27: struct.pack(">Q", val & 0xFFFFFFFFFFFFFFFF)}[ai]


INTS = [0, 1, 10, 23, 24, 25, 100, 255, 256, 1000, 65535, 65536, 1000000, 0xFFFFFFFF, 0x100000000, (1 << 46) - 1, 1 << 46, (1 << 63) - 1,
        1 << 63, (1 << 64) - 1]
TAGS = [0, 1, 2, 23, 24, 32, 55799, 0x3FFFF, 0x40000, 0xFFFFFFFF, 1 << 46, (1 << 64) - 1]


def _ctext(rng, st, n=None):
    n = rng.choice((0, 1, 5, 23, 24, 100, 255, 256, 700)) if n is None else n
    parts = []
    while sum(map(len, parts)) < n:
        parts.append(rng.choice(UTF8_OK) if rng.random() < 0.3 else bytes(rng.choice(b"abc xyz") for _ in range(rng.randrange(1, 9))))
    s = b"".join(parts)
    while len(s) > n:            # cut back to n bytes on a code point boundary (pad with ASCII)
        s = s[:-1]
        while s and (s[-1] & 0xC0) == 0x80:
            s = s[:-1]
        if s and s[-1] >= 0xC0:
            s = s[:-1]
    s = s + b"." * (n - len(s))
    if rng.random() < st.get("badp", 0.01) and n:
        bad = rng.choice(UTF8_BAD)
        k = rng.randrange(len(s) + 1)
        s = (s[:k] + bad + s[k:])[:n] if rng.random() < 0.5 else s[:k] + bad + s[k:]
        st["valid"] = False
    return s


def _citem(rng, st, depth, maxdepth, spine=0):
    r = rng.random()
    onspine = depth < spine
    if depth < maxdepth and (onspine or r < 0.22):
        n = rng.choice((1, 2, 3)) if onspine else rng.choice((0, 1, 2, 3, 6, 24))
        heir = rng.randrange(n) if onspine else -1     # exactly one child continues the deep spine; its siblings stay shallow
        indef = rng.random() < 0.4
        ismap = rng.random() < 0.5
        items = []
        for i in range(n):
            if ismap:
                items.append(_citem(rng, st, maxdepth, maxdepth) if rng.random() < 0.8 else _citem(rng, st, maxdepth - 1, maxdepth))
            if onspine:
                items.append(_citem(rng, st, depth + 1, maxdepth, spine) if i == heir else _citem(rng, st, depth + 1, min(maxdepth, depth + 2)))
            else:
                items.append(_citem(rng, st, depth + 1, maxdepth))
        major = 5 if ismap else 4
        if indef:
            return _head(major, ai=31) + b"".join(items) + b"\xff"
        # (an empty container keeps its minimal head: std/cbor takes `98 00` for an indefinite-length array - a defect of the
        # decoder's CBOR semantics that is C07's business; here it would only end most generated documents early)
        return _head(major, n, ai=rng.choice((None, None, 24, 25, 26, 27)) if 0 < n and (n < 24 or rng.random() < 0.5) else None) + b"".join(items)
    r = rng.random()
    if r < 0.2:
        v = rng.choice(INTS)
        major = rng.choice((0, 1))
        minai = 0 if v < 24 else 24 if v < 0x100 else 25 if v < 0x10000 else 26 if v < 0x100000000 else 27
        ai = None if rng.random() < 0.7 else rng.choice([a for a in (24, 25, 26, 27) if a >= minai] or [None])
        return _head(major, v, ai=ai)
    if r < 0.45:      # strings
        text = rng.random() < 0.6
        major = 3 if text else 2
        if rng.random() < 0.3:   # indefinite: chunks of the same major type
            chunks = []
            for _ in range(rng.choice((0, 1, 2, 3, 5))):
                # (zero-length chunks are rare: std/cbor ends the whole string at one - C07's business, see above)
                cn = rng.choice((1, 3, 24, 300)) if rng.random() < 0.95 else 0
                c = _ctext(rng, st, cn) if text else bytes(rng.randrange(256) for _ in range(cn))
                chunks.append(_head(major, len(c)) + c)
            return _head(major, ai=31) + b"".join(chunks) + b"\xff"
        c = _ctext(rng, st) if text else bytes(rng.randrange(256) for _ in range(rng.choice((0, 1, 23, 24, 255, 256, 1000))))
        return _head(major, len(c), ai=rng.choice((None, None, None, 25, 26, 27)) if len(c) < 0x100 or rng.random() < 0.3 else None) + c
    if r < 0.6:
        t = rng.choice(TAGS)
        minai = 0 if t < 24 else 24 if t < 0x100 else 25 if t < 0x10000 else 26 if t < 0x100000000 else 27
        ai = None if rng.random() < 0.7 else rng.choice([a for a in (24, 25, 26, 27) if a >= minai] or [None])
        return _head(6, t, ai=ai) + _citem(rng, st, depth + 1, maxdepth, spine)
    if r < 0.75:      # floats
        return rng.choice((b"\xf9\x3c\x00", b"\xf9\x7e\x00", b"\xf9\xfc\x00", b"\xfa\x47\xc3\x50\x00", b"\xfa\x7f\x80\x00\x00",
                           b"\xfb\x3f\xf1\x99\x99\x99\x99\x99\x9a", b"\xfb\x7f\xf8\x00\x00\x00\x00\x00\x00", b"\xfb\xc0\x10\x66\x66\x66\x66\x66\x66"))
    if r < 1.0 - st.get("badp", 0.01):      # simple values
        v = rng.choice(list(range(0, 24)) + [32, 100, 255])
        return bytes([0xE0 | v]) if v < 24 else b"\xf8" + bytes([v])
    st["valid"] = False
    return rng.choice((b"\x1c", b"\x1d", b"\x1e", b"\x3f", b"\x5c", b"\x7e", b"\x9d", b"\xbe", b"\xdc", b"\xdf", b"\xf8\x10", b"\xfc", b"\xfd",
                       b"\xfe", b"\xff", b"\x5f\x61a\xff", b"\x7f\x41a\xff", b"\x7f\x7f\xff\xff", b"\xbf\x01\xff", b"\xc1\xff", b"\x9f\xc1\xff",
                       b"\x18", b"\x19\x01", b"\x1b\x00\x00", b"\x62a", b"\x5a\x00\x00"))


def cbor_doc(rng, family=None):
    family = family or rng.choice(("tree", "deep", "heads", "strings", "tags", "indef", "bad"))
    st = {"valid": True, "badp": 0.0 if family == "deep" else 0.01}
    if family == "deep":
        d = rng.choice((18, 20, 24))
        body = _citem(rng, st, 0, d + 2, spine=d)
    elif family == "heads":
        # every major type x additional-info value, each as one element of a definite-length array
        items = []
        reserved = rng.random() < 0.3
        for major in range(8):
            for ai in rng.sample(range(28), 10) + [24, 25, 26, 27, 31] + ([28, 29, 30] if reserved else []):
                if major in (2, 3) and ai < 28:
                    n = ai if ai < 24 else rng.choice((0, 1, 30))
                    c = _ctext(rng, {"valid": True}, n) if major == 3 else bytes(n)
                    items.append(_head(major, n, ai=ai) + c)
                elif major in (4, 5) and ai < 28:
                    n = ai if ai < 24 else rng.choice((1, 2))
                    items.append(_head(major, n, ai=ai) + b"\x00" * (n * (2 if major == 5 else 1)))
                elif major == 6 and ai < 28:
                    items.append(_head(6, ai if ai < 24 else rng.choice(TAGS), ai=ai) + b"\x00")
                elif major == 7 and ai == 24:
                    items.append(b"\xf8" + bytes([rng.choice((32, 255, 0, 24))]))
                elif ai == 31 and major in (2, 3, 4, 5):
                    items.append(_head(major, ai=31) + b"\xff")
                elif ai < 28:
                    items.append(_head(major, rng.choice(INTS), ai=ai))
                elif reserved:
                    items.append(bytes([(major << 5) | ai]))      # reserved 28..30 (and break outside a container): invalid
        rng.shuffle(items)
        keep = items[: rng.randrange(8, 40)]
        body = _head(4, len(keep)) + b"".join(keep)
    elif family == "strings":
        items = [_citem(rng, st, 9, 9) for _ in range(3)]
        for _ in range(rng.randrange(2, 10)):
            text = rng.random() < 0.6
            c = _ctext(rng, st, rng.choice((0, 1, 23, 24, 255, 256, 2000))) if text else bytes(rng.randrange(256) for _ in range(rng.choice((0, 1, 24, 256, 2000))))
            items.append(_head(3 if text else 2, len(c)) + c)
        body = _head(4, ai=31) + b"".join(items) + b"\xff"
    elif family == "tags":
        body = b"".join(_head(6, rng.choice(TAGS)) for _ in range(rng.randrange(1, 6))) + _citem(rng, st, 0, 3)
    elif family == "indef":
        body = _head(rng.choice((4, 5)), ai=31)
        for _ in range(rng.randrange(0, 6)):
            body += _citem(rng, st, 1, 4) + _citem(rng, st, 1, 4)
        body += b"\xff"
    elif family == "bad":
        body = _citem(rng, st, 0, 4)
        k = rng.randrange(len(body) + 1)
        body = body[:k] + rng.choice((b"\xff", b"\x1c", b"\x7f", b"\x5f", b"\xf8\x00", b"\xc0")) + body[k:]
    elif family == "longstring":
        n = rng.choice((65530, 65536, 70001))
        unit = rng.choice((b"a", b"ab" + "é".encode(), "\U0001F600".encode()))
        c = (unit * (n // len(unit) + 1))[: n - n % len(unit)]
        body = _head(4, 2) + _head(3, len(c)) + c + _head(2, n) + bytes(n)
    else:
        body = _citem(rng, st, 0, rng.choice((3, 4, 6)), spine=2)
    return family, body, ""


def cbor_docs(rng, n):
    fams = ["tree", "deep", "heads", "strings", "tags", "indef", "bad", "heads", "tree", "strings"]
    out = []
    for i in range(n):
        fam, body, qs = cbor_doc(rng, fams[i % len(fams)])
        out.append(("gen%02d-%s.cbor" % (i, fam), body, qs))
    return out


def write_docs(dirpath, rng, n_json, n_cbor, mutants=1, large=True):
    """Writes generated documents (and `mutants` seeded mutations of each) under dirpath.
    Returns [(path, decoder, extra job fields, origin)] in a deterministic order."""
    os.makedirs(dirpath, exist_ok=True)
    docs = [("json", d) for d in json_docs(rng, n_json)] + [("cbor", d) for d in cbor_docs(rng, n_cbor)]
    if large:
        f, b, q = json_doc(rng, "longstring")
        docs.append(("json", ("gen-longstring.json", b, q)))
        f, b, q = cbor_doc(rng, "longstring")
        docs.append(("cbor", ("gen-longstring.cbor", b, q)))
    out = []
    for dec, (name, body, qs) in docs:
        p = os.path.join(dirpath, name)
        with open(p, "wb") as fh:
            fh.write(body)
        extra = {"quirks": qs} if qs else {}
        out.append((p, dec, extra, "generated"))
        if len(body) > 20000:
            continue
        for i in range(mutants):
            kind = rng.choice(stdinputs.MUT_KINDS)
            mp = os.path.join(dirpath, "%s.%s%d" % (name, kind, i))
            with open(mp, "wb") as fh:
                fh.write(stdinputs.mutate(body, rng, kind))
            out.append((mp, dec, extra, "generated-mutant:" + kind))
    return out

"""Support for the WuffsCore pipeline (C01, C02, C04, C05a): exporting checked
programs, projecting declaration tables for the TLA+ interpreter, reading
cgen's resumable sets out of the generated C, building and running the C side
of a program batch, and comparing it with the histories TLC exports."""
import json, os, re, subprocess, itertools, random
from vlib import ToolingError, VERIF, REPO

LIM = 1 << 30
NUM = {"u8": (0, 255), "u16": (0, 65535), "u32": (0, (1 << 32) - 1), "u64": (0, (1 << 64) - 1),
       "i8": (-128, 127), "i16": (-32768, 32767), "i32": (-(1 << 31), (1 << 31) - 1), "i64": (-(1 << 63), (1 << 63) - 1)}
CTYPE = {"u8": "uint8_t", "u16": "uint16_t", "u32": "uint32_t", "u64": "uint64_t", "i8": "int8_t", "i16": "int16_t",
         "i32": "int32_t", "i64": "int64_t", "bool": "bool"}
BASE_STATUSES = ['"$short read"', '"$short write"', '"#bad argument"', '"#disabled by previous error"',
                 '"#interleaved coroutine calls"', '"@end of data"', '"#bad data"', '"#too much data"', '"#not enough data"',
                 '"#bad receiver"', '"#initialize not called"', '"#unsupported option"', '"@metadata reported"']


def export(wexport, src_path, out_path, pkg):
    r = subprocess.run([wexport, "-pkg", pkg, "-out", out_path, src_path], capture_output=True, text=True, timeout=120)
    if r.returncode not in (0, 3):
        return None, "wexport failed rc=%d: %s" % (r.returncode, (r.stdout + r.stderr)[-2000:])
    d = json.load(open(out_path))
    return d, None


class Prog:
    def __init__(self, d, pkg, src_text):
        self.d = d
        self.pkg = pkg
        self.src = src_text
        self.N = d["nodes"]

    def nd(self, i):
        return self.N[i - 1]

    def tykind(self, t):
        if not t:
            return "none", 0
        n = self.nd(t)
        if n["a"] in ("array", "roarray"):
            ln = self.nd(n["l"])
            return "arr", (ln["cv"] if ln["hcv"] == 1 else 0)
        if n["a"] in ("slice", "roslice"):
            return "slice", 0
        if n["a"] in ("ptr", "nptr"):
            return "ptr", 0
        if n["a"] == "" and n["b"] == "base":
            c = n["c"]
            if c in NUM or c == "bool":
                return "num", 0
            if c == "status":
                return "status", 0
            if c == "io_reader":
                return "reader", 0
            if c == "io_writer":
                return "writer", 0
            if c == "empty_struct":
                return "none", 0
        return "other", 0

    def num_range(self, t):
        """(lo, hi) of a possibly refined numeric type, python ints."""
        n = self.nd(t)
        lo, hi = NUM.get(n["c"], (0, 1))
        if n["l"]:
            e = self.nd(n["l"])
            if e["hcv"] == 1:
                lo = e["cv"]
        if n["m"]:
            e = self.nd(n["m"])
            if e["hcv"] == 1:
                hi = e["cv"]
        return lo, hi

    def base_name(self, t):
        return self.nd(t)["c"]

    def walk_stmts(self, ids):
        for i in ids:
            n = self.nd(i)
            yield i, n
            for lst in (n["y"], n["z"]):
                if n["k"] in ("If", "While", "IOManip", "Iterate"):
                    yield from self.walk_stmts(lst)
            if n["k"] in ("If", "Iterate") and n["r"]:
                yield from self.walk_stmts([n["r"]])

    def literals(self):
        s = set()
        for n in self.N:
            if n["k"] == "Expr" and n["hcv"] == 1:
                s.add(n["cv"])
        return s


def enrich(prog, rng, max_in=3, max_inputs=10, max_choices=4, dstcap=3, allargs=False, lenient=False):
    """Adds the declaration tables the TLA+ interpreter needs.  Returns None and a
    reason if the program is outside the interpreted fragment at declaration level."""
    d, N = prog.d, prog.N
    if len(d["structs"]) != 1:
        return None, "need exactly one struct"
    st = prog.nd(d["structs"][0])
    fields = []
    for fi in st["y"]:
        f = prog.nd(fi)
        k, ln = prog.tykind(f["l"])
        if k not in ("num", "arr"):
            return None, "field kind " + k
        if k == "arr":
            inner = prog.nd(prog.nd(f["l"])["r"])
            if prog.tykind(prog.nd(f["l"])["r"])[0] != "num":
                return None, "array of non-numeric"
            if ln > 16 or ln <= 0:
                return None, "array too long"
        fields.append({"n": f["c"], "ty": f["l"], "arr": ln if k == "arr" else 0})
    lits = sorted(v for v in prog.literals() if -LIM < v < LIM)
    funcs = []
    for fi in d["funcs"]:
        f = prog.nd(fi)
        pub = bool(f["f"] & 0x100)
        params = []
        ins = prog.nd(f["l"])
        for pi_ in ins["y"]:
            p = prog.nd(pi_)
            k, _ = prog.tykind(p["l"])
            # a slice-typed parameter is interpreted for PRIVATE functions only (the caller's slice value is passed;
            # the model faults as "unsupported" if it points into a local array of the caller's frame)
            if k not in ("num", "reader", "writer") and not (k == "slice" and not pub):
                return None, "param kind " + k
            params.append({"n": p["c"], "ty": p["l"], "kind": k, "base": prog.base_name(p["l"]) if k == "num" else ""})
        locs = []
        for i, n in prog.walk_stmts(f["z"]):
            if n["k"] == "Var":
                k, ln = prog.tykind(n["l"])
                if k not in ("num", "status", "arr", "slice", "reader", "writer"):
                    if lenient:      # (C10's model-free probes only need the declarations of the public methods)
                        continue
                    return None, "local kind " + k
                if k == "arr" and (ln > 16 or ln <= 0 or prog.tykind(prog.nd(n["l"])["r"])[0] != "num"):
                    return None, "local array shape"
                locs.append({"n": n["c"], "ty": n["l"], "arr": ln if k == "arr" else 0, "kind": k})
        rk, _ = prog.tykind(f["r"])
        if rk not in ("none", "num", "status"):
            return None, "return kind " + rk
        # argument choices for public functions
        choices = []
        if pub:
            cands = []
            for p in params:
                if p["kind"] != "num":
                    # an io argument is a reference: the buffer the environment passes (spec/WuffsCore.tla, "I/O objects")
                    cands.append([[0, "src" if p["kind"] == "reader" else "dst"]])
                    continue
                blo, bhi = NUM.get(prog.base_name(p["ty"]), (0, 1))
                rlo, rhi = prog.num_range(p["ty"])
                c = {blo, blo + 1, rlo, rhi, rhi + 1, rlo - 1, bhi, bhi - 1, 2, 3}
                c |= {v + dlt for v in lits for dlt in (-1, 0, 1)}
                c = sorted(v for v in c if blo <= v <= bhi and -LIM < v < LIM)
                cands.append(c)
            cands = [[tuple(x) if isinstance(x, list) else x for x in c] for c in cands]
            seen = set()
            tries = 0
            # boundary coverage first: a combination of every argument's smallest and of every argument's largest candidate
            # (a guard like `args.n < 8` must see both sides, also across a resumption with changed arguments)
            for pickf in (min, max):
                combo = tuple(pickf(c) if p["kind"] == "num" else c[0] for p, c in zip(params, cands))
                if combo not in seen:
                    seen.add(combo)
                    choices.append([{"n": p["n"], "v": x} for p, x in zip(params, combo)])
            # aliasing needs equal arguments: always offer one combination where every numeric argument has the same value
            nums = [c for p, c in zip(params, cands) if p["kind"] == "num"]
            if len(nums) >= 2:
                common = set(nums[0])
                for c in nums[1:]:
                    common &= set(c)
                if common:
                    v = rng.choice(sorted(common))
                    combo = tuple(v if p["kind"] == "num" else c[0] for p, c in zip(params, cands))
                    if combo not in seen:
                        seen.add(combo)
                        choices.append([{"n": p["n"], "v": x} for p, x in zip(params, combo)])
            # corners of the argument box, and the value next to the smallest, for functions of up to three numeric
            # arguments (a branch like `if x > y { ... continue }` needs an ORDERED pair, which all-min / all-max / all-equal
            # never give); a single numeric argument gets every candidate
            nnum = sum(1 for p in params if p["kind"] == "num")
            if 1 <= nnum <= 3:
                picks = []
                for p, c in zip(params, cands):
                    if p["kind"] != "num":
                        picks.append([c[0]])
                    elif nnum == 1:
                        cl = list(c)
                        picks.append(cl if len(cl) <= 8 else sorted(set(cl[:4] + cl[-2:] + rng.sample(cl[4:-2], 2))))
                    elif nnum == 2:
                        picks.append(sorted({c[0], c[min(1, len(c) - 1)], c[-1]}))
                    else:
                        picks.append(sorted({c[0], c[-1]}))
                for combo in itertools.product(*picks):
                    if combo not in seen and len(choices) < 11:
                        seen.add(combo)
                        choices.append([{"n": p["n"], "v": x} for p, x in zip(params, combo)])
            # `// wcore: allargs`: every combination of in-range values of the (small, refined) numeric parameter
            # ranges - the claimed range of an expression over refined operands is then checked against EVERY operand pair
            if allargs and nums and all(p["kind"] == "num" for p in params):
                rngs = [prog.num_range(p["ty"]) for p in params]
                if all(hi - lo <= 24 for lo, hi in rngs):
                    n = 1
                    for lo, hi in rngs:
                        n *= hi - lo + 1
                    if n <= 200:
                        for combo in itertools.product(*[range(lo, hi + 1) for lo, hi in rngs]):
                            if combo not in seen:
                                seen.add(combo)
                                choices.append([{"n": p["n"], "v": v} for p, v in zip(params, combo)])
            while len(choices) < max_choices + 2 + (1 if len(nums) >= 2 else 0) and tries < 50 and params:
                tries += 1
                combo = tuple(rng.choice(c) for c in cands)
                if combo in seen:
                    continue
                seen.add(combo)
                choices.append([{"n": p["n"], "v": v} for p, v in zip(params, combo)])
            if not params:
                choices = [[]]
            if not any(p["kind"] == "num" for p in params):
                choices = choices[:1]
        funcs.append({"id": fi, "name": f["a"], "pub": pub, "eff": f["eff"], "rets": rk, "params": params, "locals": locs,
                      "resum": [], "choices": choices, "choosy": bool(f["f"] & 0x40000), "cpuarch": bool(f["f"] & 0x80000)})
    # inputs over a small alphabet drawn from the program's literals
    alpha = sorted({0, 1, 255} | {v for v in lits if 0 <= v <= 255})
    if len(alpha) > 4:
        keep = {0}
        others = [a for a in alpha if a != 0]
        rng.shuffle(others)
        alpha = sorted(keep | set(others[:3]))
    inputs = [[]]
    for ln in range(1, max_in + 1):
        inputs += [list(t) for t in itertools.product(alpha, repeat=ln)]
    if len(inputs) > max_inputs:
        head = [[]] + [[a] * max_in for a in alpha]
        rest = [i for i in inputs if i not in head]
        rng.shuffle(rest)
        inputs = head + rest[: max(0, max_inputs - len(head))]
    # multi-byte reads / peeks / copies wider than max_in need longer inputs to complete at all: a few inputs of the widest
    # width + 1 (small values, so that they stay inside the 2^30 window, and one with 0xFF bytes that leaves it)
    widest = 0
    for n in N:
        if n["k"] == "Expr" and n["a"] == "." and n["c"]:
            m = re.match(r"(?:read|peek)_u(\d+)", n["c"])
            if m:
                widest = max(widest, int(m.group(1)) // 8)
            elif n["c"].startswith("limited_copy_u32") or n["c"] in ("copy_from_slice",):
                widest = max(widest, 4)
    widew = any(n["k"] == "Expr" and n["a"] == "." and (re.match(r"write_u(16|24|32|40|48|56|64)", n["c"] or "") or (n["c"] or "").startswith("limited_copy_u32_from"))
                for n in N)
    if widew:
        dstcap = max(dstcap, 4)         # room for a multi-byte write / a copy behind some history
    if widest > max_in:
        ln = min(widest + 1, 9)
        small = [a for a in alpha if a < 64] or [0]
        extra = [[rng.choice(small) if i < 3 else 0 for i in range(ln)], [(i + 1) & 0x3F for i in range(ln)]]
        inputs += [e for e in extra if e not in inputs]
    if not any(p["kind"] == "reader" for f in funcs for p in f["params"]):
        inputs = [[]]                   # no function takes a source: its contents cannot matter
    statuses = []
    for si in d["statuses"] or []:
        statuses.append(prog.nd(si)["c"])
    errs = [s for s in statuses if s.startswith('"#')] + ["base." + s for s in BASE_STATUSES if s.startswith('"#')]
    susps = [s for s in statuses if s.startswith('"$')] + ["base." + s for s in BASE_STATUSES if s.startswith('"$')]
    notes = [s for s in statuses if s.startswith('"@')] + ["base." + s for s in BASE_STATUSES if s.startswith('"@')]
    for f in funcs:
        f["ltype"] = {l["n"]: l["ty"] for l in f["locals"]}
    out = {"pkg": prog.pkg, "nodes": N, "fields": fields, "funcs": funcs, "fmap": {f["name"]: f for f in funcs},
           "ftype": {f["n"]: f["ty"] for f in fields}, "inputs": inputs, "dstcap": dstcap,
           "errs": errs, "susps": susps, "notes": notes, "structname": st["c"]}
    return out, None


def resumable_from_c(ctext, structname, funcs):
    """cgen's decision which locals survive a suspension: the v_* members of
    private_data.s_<func> in the generated struct."""
    res = {}
    for f in funcs:
        names = []
        end = ctext.find("} s_%s;" % f["name"])
        if end >= 0:
            start = ctext.rfind("struct {", 0, end)
            body = ctext[start:end] if start >= 0 else ""
            for mm in re.finditer(r"\bv_(\w+)\s*(?:\[[^\]]*\])*;", body):
                names.append(mm.group(1))
        res[f["name"]] = names
    return res


def c_status(pkg, s):
    """specification status value -> the C status string (NULL = None)"""
    if s == "ok":
        return None
    if s.startswith("base."):
        body = s[5:].strip('"')
        return body[0] + "base: " + body[1:]
    body = s.strip('"')
    return body[0] + pkg + ": " + body[1:]


# ------------------------------------------------------------------ C side

def field_part(ctext, structname, pkg, fname):
    """Which part of the generated struct holds field `fname`: "private_impl" or "private_data" (from the C text)."""
    m = re.search(r"struct wuffs_%s__%s__struct \{(.*?)\n\};" % (pkg, structname), ctext, re.S)
    body = m.group(1) if m else ctext
    i = body.find("} private_impl;")
    j = body.find("} private_data;")
    k = -1
    for mm in re.finditer(r"\bf_%s\b" % re.escape(fname), body):
        k = mm.start()
        break
    if k < 0:
        return None
    if i >= 0 and k < i:
        return "private_impl"
    if j >= 0 and k < j:
        return "private_data"
    return None


def gen_driver_c(progs, cdir=None):
    """C driver for a batch of enriched programs (each with its own package
    name `pkg` and generated C file <pkg>.c next to the driver)."""
    o = []
    o.append("#define WUFFS_IMPLEMENTATION\n#define WUFFS_CONFIG__MODULES\n#define WUFFS_CONFIG__MODULE__BASE\n")
    for p in progs:
        o.append("#define WUFFS_CONFIG__MODULE__%s\n" % p["pkg"].upper())
    o.append("#include \"wuffs-base.c\"\n")
    for p in progs:
        o.append("#include \"%s.c\"\n" % p["pkg"])
    o.append(r'''
#include <stdio.h>
#include <stdlib.h>
#include <string.h>

static uint8_t g_in[64], g_out[64], g_outsnap[64], g_snap[1 << 16];
static size_t g_in_n;
static wuffs_base__io_buffer g_src, g_dst;
static void* g_obj = NULL;
static int g_prog = -1;

static long argval(int n, char** kv, const char* name) {
  size_t ln = strlen(name);
  for (int i = 0; i < n; i++) {
    if (!strncmp(kv[i], name, ln) && kv[i][ln] == '=') return atol(kv[i] + ln + 1);
  }
  return 0;
}
static void hex(const uint8_t* p, size_t n) {
  if (!n) { printf("-"); return; }
  for (size_t i = 0; i < n; i++) printf("%02x", p[i]);
}
''')
    # per program: init + dispatcher
    for idx, p in enumerate(progs):
        pkg, sn = p["pkg"], p["structname"]
        T = "wuffs_%s__%s" % (pkg, sn)
        o.append("static int init_%d(void) {\n  free(g_obj);\n  g_obj = malloc(sizeof(%s));\n  memset(g_obj, 0xA5, sizeof(%s));\n"
                 "  wuffs_base__status st = %s__initialize((%s*)g_obj, sizeof(%s), WUFFS_VERSION, 0);\n  return st.repr == NULL;\n}\n" % (idx, T, T, T, T, T))
        # the receiver's fields, printed on request ("F" line): name=value;name=v0,v1,...;
        o.append("static void fields_%d(void) {\n  %s* obj = (%s*)g_obj;\n  (void)obj;\n  printf(\"F \");\n" % (idx, T, T))
        ctext = ""
        if cdir:
            try:
                ctext = open(os.path.join(cdir, pkg + ".c")).read()
            except OSError:
                ctext = ""
        for fd in p["fields"]:
            part = field_part(ctext, sn, pkg, fd["n"]) if ctext else None
            if part is None:
                continue
            if fd["arr"] > 0:
                o.append("  printf(\"%s=\");\n  for (int i = 0; i < %d; i++) printf(\"%%s%%llu\", i ? \",\" : \"\", (unsigned long long)obj->%s.f_%s[i]);\n  printf(\";\");\n"
                         % (fd["n"], fd["arr"], part, fd["n"]))
            else:
                o.append("  printf(\"%s=%%llu;\", (unsigned long long)obj->%s.f_%s);\n" % (fd["n"], part, fd["n"]))
        o.append("  printf(\"\\n\");\n}\n")
        o.append("static void call_%d(const char* fn, int n, char** kv) {\n  %s* obj = (%s*)g_obj;\n  const char* st = NULL; long long ret = 0; int known = 0, ispure = 0, pchg = 0;\n" % (idx, T, T))
        for f in p["funcs"]:
            if not f["pub"]:
                continue
            args = []
            for prm in f["params"]:
                if prm["kind"] == "reader":
                    args.append("&g_src")
                elif prm["kind"] == "writer":
                    args.append("&g_dst")
                else:
                    args.append("(%s)argval(n, kv, \"%s\")" % (CTYPE.get(prm["base"], "uint32_t"), prm["n"]))
            callx = "%s__%s(obj%s)" % (T, f["name"], "".join(", " + a for a in args))
            o.append("  if (!strcmp(fn, \"%s\")) {\n    known = 1;\n" % f["name"])
            if f["eff"] == "":
                # a method declared pure: the receiver's bytes and the destination buffer must come back unchanged (C10)
                o.append("    ispure = 1;\n    memcpy(g_snap, obj, sizeof(%s) < sizeof g_snap ? sizeof(%s) : sizeof g_snap);\n"
                         "    memcpy(g_outsnap, g_out, sizeof g_out);\n" % (T, T))
            if f["eff"] == "?" or f["rets"] == "status":
                o.append("    wuffs_base__status s = %s;\n    st = s.repr;\n" % callx)
            elif f["rets"] == "num":
                o.append("    ret = (long long)%s;\n" % callx)
            else:
                o.append("    %s;\n" % callx)
            o.append("  }\n")
        o.append("  if (!known) { printf(\"R ?unknown\\n\"); return; }\n"
                 "  if (ispure) {\n    if (memcmp(g_snap, obj, sizeof(%s) < sizeof g_snap ? sizeof(%s) : sizeof g_snap)) pchg |= 1;\n"
                 "    if (memcmp(g_outsnap, g_out, sizeof g_out)) pchg |= 2;\n  }\n"
                 "  printf(\"R %%s|%%zu|%%zu|\", st ? st : \"-\", g_src.meta.ri, g_dst.meta.wi);\n"
                 "  hex(g_out, g_dst.meta.wi);\n  printf(\"|%%lld|%%zu|%%d|%%d\\n\", ret, g_src.meta.wi, (int)g_src.meta.closed, ispure ? pchg : -1);\n}\n" % (T, T))
    o.append("int main(void) {\n  static char line[4096];\n  while (fgets(line, sizeof line, stdin)) {\n"
             "    char* tok[64]; int nt = 0;\n    for (char* t = strtok(line, \" \\n\"); t && nt < 64; t = strtok(NULL, \" \\n\")) tok[nt++] = t;\n"
             "    if (nt == 0) continue;\n"
             "    if (tok[0][0] == 'H') {\n      g_prog = atoi(tok[1]);\n      g_in_n = 0;\n"
             "      if (nt > 2 && strcmp(tok[2], \"-\")) { size_t L = strlen(tok[2]) / 2; for (size_t i = 0; i < L && i < sizeof g_in; i++) { unsigned v; sscanf(tok[2] + 2 * i, \"%2x\", &v); g_in[g_in_n++] = (uint8_t)v; } }\n"
             "      memset(g_out, 0xEE, sizeof g_out);\n"
             "      g_src = wuffs_base__ptr_u8__reader(g_in, g_in_n, false);\n      g_src.meta.wi = 0;\n"
             "      g_dst = wuffs_base__ptr_u8__writer(g_out, 0);\n      int ok = 0;\n      switch (g_prog) {\n")
    for idx in range(len(progs)):
        o.append("        case %d: ok = init_%d(); break;\n" % (idx, idx))
    o.append("      }\n      printf(\"H %d\\n\", ok);\n    } else if (tok[0][0] == 'C' && nt >= 5) {\n"
             "      g_src.meta.wi = (size_t)atol(tok[2]);\n      g_src.meta.closed = atoi(tok[3]) != 0;\n      g_dst.data.len = (size_t)atol(tok[4]);\n"
             "      switch (g_prog) {\n")
    for idx in range(len(progs)):
        o.append("        case %d: call_%d(tok[1], nt - 5, tok + 5); break;\n" % (idx, idx))
    o.append("      }\n    } else if (tok[0][0] == 'F') {\n      switch (g_prog) {\n")
    for idx in range(len(progs)):
        o.append("        case %d: fields_%d(); break;\n" % (idx, idx))
    o.append("        default: printf(\"F \\n\");\n      }\n    }\n    fflush(stdout);\n  }\n  return 0;\n}\n")
    return "".join(o)


def history_script(pidx, h):
    """One TLC-exported history -> driver input lines."""
    inp = "".join("%02x" % b for b in h["input"]) or "-"
    lines = ["H %d %s" % (pidx, inp)]
    for c in h["hist"]:
        kv = " ".join("%s=%d" % (a["n"], a["v"]) for a in c["args"] if isinstance(a["v"], int))
        lines.append("C %s %d %d %d %s" % (c["fn"], c["wi0"], 1 if c["closed0"] else 0, c["cap0"], kv))
    lines.append("F")        # the receiver's fields at the end of the history
    return lines


def parse_fields(line):
    """'F a=1;b=2,3;' -> {"a": 1, "b": [2, 3]} (None if the line is not a field line)."""
    if not line.startswith("F"):
        return None
    out = {}
    for item in line[1:].strip().split(";"):
        if "=" in item:
            k, v = item.split("=", 1)
            out[k] = [int(x) for x in v.split(",")] if "," in v else int(v)
    return out


def parse_reply(line):
    if not line.startswith("R "):
        return None
    parts = line[2:].rstrip("\n").split("|")
    if len(parts) not in (7, 8):
        return None
    st = None if parts[0] == "-" else parts[0]
    out = [] if parts[3] == "-" else [int(parts[3][i:i + 2], 16) for i in range(0, len(parts[3]), 2)]
    # swi / sclosed: the source's write index and closed flag AFTER the call (the callee must leave them as passed)
    # pchg: -1 = the method is not declared pure; else bit 0 = the receiver's bytes changed, bit 1 = the destination buffer changed
    return {"st": st, "ri": int(parts[1]), "dwi": int(parts[2]), "out": out, "ret": int(parts[4]), "swi": int(parts[5]), "sclosed": int(parts[6]),
            "pchg": int(parts[7]) if len(parts) == 8 else -1}

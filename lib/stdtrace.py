"""Running harness/c/stddrive job lists and validating the recorded events with
TLC against spec/Trace_Std.tla (shared by C03, C05, C07, C09, C08-side checks).
"""
import json, os, re, subprocess, concurrent.futures, time
from vlib import ToolingError, NCPU
import stdbuild


def job_line(j):
    return " ".join("%s=%s" % (k, v) for k, v in j.items())


def _run_shard(exe, jobs, workdir, idx, env, attempt_budget=1):
    """Run one shard of jobs; survive crashes and time-outs of single jobs.
    Returns list of event dicts (with synthesized crash/timeout events)."""
    events = []
    pending = list(jobs)
    rnd = 0
    while pending:
        rnd += 1
        jf = os.path.join(workdir, "jobs-%d-%d.txt" % (idx, rnd))
        ef = os.path.join(workdir, "ev-%d-%d.ndjson" % (idx, rnd))
        with open(jf, "w") as f:
            for j in pending:
                f.write(job_line(j) + "\n")
        if os.path.exists(ef):
            os.remove(ef)
        budget = min(6 * 3600.0, sum(int(j.get("budget_ms", 20000)) for j in pending) / 1000.0 * 3 + 60)   # (poll() cannot take more than ~24 days)
        try:
            r = subprocess.run([exe, jf, ef], capture_output=True, text=True, errors="replace", timeout=budget, env=env)
            rc, err = r.returncode, r.stderr
        except subprocess.TimeoutExpired as ex:
            rc, err = -9, "wall-clock timeout of the driver process"
        evs = []
        if os.path.exists(ef):
            for line in open(ef, errors="replace"):
                line = line.strip()
                if not line:
                    continue
                try:
                    evs.append(json.loads(line))
                except Exception:
                    pass  # a line cut off by the crash
        if rc == 0:
            events += evs
            break
        # find the job in flight
        last_start = None
        ended = set()
        for e in evs:
            if e.get("k") == "start":
                last_start = e["j"]
            elif e.get("k") in ("end", "skip"):
                ended.add(e["j"])
        if last_start is None or last_start in ended:
            # died outside a job: keep what we have, report as tooling problem
            raise ToolingError("driver died outside a job (rc=%s): %s" % (rc, err[-1500:]))
        pos = [i for i, j in enumerate(pending) if int(j["id"]) == last_start]
        if not pos:
            raise ToolingError("driver reported unknown job %s" % last_start)
        pos = pos[0]
        culprit = pending[pos]
        # keep events of completed jobs and of the culprit's prefix
        keep = [e for e in evs if e.get("j") != last_start]
        cul = [e for e in evs if e.get("j") == last_start and e.get("k") != "timeout"]
        events += keep
        timed_out = (rc == 3) or (rc == -9)
        if timed_out:
            # confirm with a 4x budget before it counts
            big = dict(culprit)
            big["budget_ms"] = int(culprit.get("budget_ms", 20000)) * 4
            jf2 = os.path.join(workdir, "jobs-%d-%d-confirm.txt" % (idx, rnd))
            ef2 = os.path.join(workdir, "ev-%d-%d-confirm.ndjson" % (idx, rnd))
            open(jf2, "w").write(job_line(big) + "\n")
            if os.path.exists(ef2):
                os.remove(ef2)
            try:
                r2 = subprocess.run([exe, jf2, ef2], capture_output=True, text=True, errors="replace",
                                    timeout=big["budget_ms"] / 1000.0 * 3 + 60, env=env)
                rc2 = r2.returncode
            except subprocess.TimeoutExpired:
                rc2 = -9
            if rc2 == 0:
                events += [json.loads(x) for x in open(ef2, errors="replace") if x.strip()]
            else:
                events += cul + [{"j": last_start, "k": "timeout", "phase": "confirmed with 4x budget", "rc": rc2}]
        else:
            what = "sanitizer" if rc in (77, 78) or "Sanitizer" in err or "runtime error" in err else "signal_or_abort_rc%s" % rc
            m = re.search(r"(ERROR: AddressSanitizer: [^\n]*|runtime error: [^\n]*|SUMMARY: [^\n]*)", err)
            events += cul + [{"j": last_start, "k": "crash", "what": what, "report": (m.group(1) if m else err[-300:]),
                              "stderr_tail": err[-2500:]}]
        pending = pending[pos + 1:]
    return events


def run_jobs(ctx, exe, jobs, sanitizer=True, shards=None):
    """Run all jobs (list of dicts with at least id, dec, in) through the driver
    in parallel shards.  Returns {job_id: [events]} preserving event order."""
    if not jobs:
        return {}
    workdir = ctx.subdir("drive")
    env = dict(os.environ)
    if sanitizer:
        env.update(stdbuild.ASAN_ENV)
    shards = shards or min(NCPU, max(1, len(jobs) // 4))
    # round-robin so that expensive neighbours spread out
    parts = [jobs[i::shards] for i in range(shards)]
    allev = []
    with concurrent.futures.ThreadPoolExecutor(max_workers=shards) as ex:
        futs = [ex.submit(_run_shard, exe, p, workdir, i, env) for i, p in enumerate(parts) if p]
        for f in futs:
            allev += f.result()
    by = {}
    for e in allev:
        by.setdefault(e.get("j"), []).append(e)
    return by


def end_event(evs):
    for e in reversed(evs):
        if e.get("k") == "end":
            return e
    return None


def expect_from(end, fields=("st", "cls", "out_total", "out_hash", "in_total", "sum", "nf_hash")):
    x = {"k": "expect"}
    for f in fields:
        if f in end:
            x[f] = end[f]
    return x


def token_expect(end, oracle_events, fields=("st", "cls", "in_total", "nf_hash")):
    """The expectation of a token decoder's run (std/json, std/cbor): status, consumption, the hash of the oracle
    run's normal form (spec/TokenStream.tla; every input size) and - when the driver logged the oracle's tokens -
    the oracle's raw token list "otk" ([x, a, b, con, len] each; TLC normalises both sides itself).  The raw token
    sequence is NOT compared: a buffer boundary may legitimately cut a token (clause NormalFormEqualsOracle)."""
    x = expect_from(end, fields=fields)
    if end.get("tok_recorded"):
        x["otk"] = [t[:5] for e in oracle_events if e.get("k") == "call" and "tk" in e for t in e["tk"]]
    return x


def token_stats(events_by_job):
    """Measured numbers for the evidence of the token clauses: tokens logged, distinct token values, how many
    tokens the normal form merged away, source bytes logged."""
    ntok = nrec = merged = nbytes = jobs = 0
    values = set()
    for evs in events_by_job.values():
        end = end_event(evs)
        if end is None or "nf_n" not in end:
            continue
        jobs += 1
        ntok += end.get("out_total", 0)
        merged += max(0, end.get("out_total", 0) - end.get("nf_n", 0))
        for e in evs:
            if e.get("k") == "call" and "tk" in e:
                nrec += len(e["tk"])
                nbytes += len(e.get("sb", ()))
                for t in e["tk"]:
                    values.add((t[0], t[1], t[2]))
    return {"token_decoder_jobs": jobs, "tokens_emitted": ntok, "tokens_validated_by_tlc": nrec, "source_bytes_logged": nbytes,
            "distinct_token_values": len(values), "tokens_merged_by_normal_form": merged}


CFG = """SPECIFICATION TSpec
CONSTANTS
  TraceFile = "%s"
  Mode = "%s"
  AmpleDst = 4096
INVARIANT Accepted
POSTCONDITION AllConsumed
CHECK_DEADLOCK FALSE
"""


def _strip(e):
    """Drop bulky diagnostic fields TLC does not need."""
    if "stderr_tail" in e or "report" in e:
        e = {k: v for k, v in e.items() if k not in ("stderr_tail", "report")}
    return e


def validate(ctx, jobs_events, mode, label, chunk_events=12000, max_rejections=25):
    """jobs_events: list of (job_id, [events]) in the order to validate.
    Returns (n_events_validated, rejections) where a rejection is a dict
    {job, clauses, event, line}.  Chunks are validated by parallel TLC runs."""
    chunks, cur, n = [], [], 0
    for jid, evs in jobs_events:
        if cur and n + len(evs) > chunk_events:
            chunks.append(cur)
            cur, n = [], 0
        cur.append((jid, evs))
        n += len(evs)
    if cur:
        chunks.append(cur)
    rejections = []
    total = 0

    def check_chunk(ci, chunk):
        rej = []
        done_events = 0
        chunk = list(chunk)
        for attempt in range(max_rejections + 1):
            lines, owner = [], []
            for jid, evs in chunk:
                for e in evs:
                    lines.append(json.dumps(_strip(e)))
                    owner.append((jid, e))
            if not lines:
                break
            fn = "trace-%d.ndjson" % ci
            res = ctx.tlc("Trace_Std", cfg="t.cfg", data={"t.cfg": CFG % (fn, mode), fn: "\n".join(lines) + "\n"},
                          workers=1, dfs=True, timeout=1800, label="%s chunk %d" % (label, ci), heap="3g")
            if res["error"]:
                raise ToolingError("TLC error validating %s chunk %d:\n%s" % (label, ci, res["error"]))
            if not res["violated"]:
                if res["postcondition_failed"] or res["distinct"] != len(lines) + 1:
                    raise ToolingError("trace %s chunk %d not fully consumed (%d states for %d lines):\n%s" % (
                        label, ci, res["distinct"], len(lines), res["out"][-1500:]))
                done_events += len(lines)
                break
            # parse the violating state: last state of the printed behaviour
            out = res["out"]
            ls = re.findall(r"/\\ l = (\d+)", out)
            bads = re.findall(r"/\\ bad = (\{[^\n]*\})", out)
            if not ls or not bads:
                raise ToolingError("cannot parse TLC rejection:\n" + out[-2000:])
            lnum = int(ls[-1])
            clauses = re.findall(r'"([^"]+)"', bads[-1])
            jid, ev = owner[lnum - 2]
            rej.append({"job": jid, "clauses": clauses, "event": ev, "line": lnum - 1})
            # The walk is one state per line in line order, so every job BEFORE the rejected one has been accepted:
            # only the jobs after it are validated again.
            pos = [i for i, (j, e) in enumerate(chunk) if j == jid][0]
            done_events += sum(len(e) for (j, e) in chunk[:pos])
            chunk = [(j, e) for (j, e) in chunk[pos + 1:] if j != jid]
        return done_events, rej

    with concurrent.futures.ThreadPoolExecutor(max_workers=min(8, len(chunks) or 1)) as ex:
        futs = [ex.submit(check_chunk, i, c) for i, c in enumerate(chunks)]
        for f in futs:
            n, rej = f.result()
            total += n
            rejections += rej
    return total, rejections

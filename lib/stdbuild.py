"""Regenerate the C of std/ from /repo's working tree and build C drivers
against it.  Everything happens in the check's scratch directory.

  tools = build_tools(ctx)            -> {"wuffs": path, "wuffs-c": path, ...}
  root  = gen_std(ctx, tools)         -> scratch root holding gen/c/*.c and
                                         release/c/wuffs-unsupported-snapshot.c
  exe   = compile_driver(ctx, root, "stddrive.c", variant)   variant in VARIANTS

The "checked build" (hook H3, internal/cgen/range_verif.go, Go build tag verif):
  root  = gen_std(ctx, tools, range_assert=True)   -> a second scratch root whose C asserts the compiler's own
                                                      ranges (MBounds) at run time; None if the working tree has no H3
  exe   = compile_driver(ctx, root, "stddrive.c", "rangeassert")
  range_sites(root)                    -> {kind: number of assertion sites} parsed from the generated site tables
"""
import os, shutil, subprocess, concurrent.futures
from vlib import ToolingError, REPO, VERIF

VARIANTS = {
    # name: (compiler, flags)
    # nonnull-attribute is off: memset(NULL, 0, 0) (zero-length fill of an empty pixel row) is flagged by it, but it
    # is none of the behaviours the property lists (no access happens); a non-zero length through NULL is a SEGV
    # that ASan reports anyway.
    "asan": ("gcc", ["-O1", "-g", "-fsanitize=address,undefined", "-fno-sanitize=nonnull-attribute", "-fno-sanitize-recover=all",
                     "-fno-omit-frame-pointer"]),
    "plain": ("gcc", ["-O2", "-DWRAP_ALLOC", "-Wl,--wrap=malloc,--wrap=calloc,--wrap=realloc,--wrap=free"]),
    "plain_nocpu": ("gcc", ["-O2", "-DWUFFS_CONFIG__AVOID_CPU_ARCH", "-DWRAP_ALLOC", "-Wl,--wrap=malloc,--wrap=calloc,--wrap=realloc,--wrap=free"]),
    "o0": ("gcc", ["-O0"]),
    "tsan": ("gcc", ["-O1", "-g", "-fsanitize=thread"]),
    "clang_asan": ("clang", ["-O1", "-g", "-fsanitize=address,undefined", "-fno-sanitize=nonnull-attribute", "-fno-sanitize-recover=all"]),
    # the checked build of H3: only meaningful with a root from gen_std(..., range_assert=True).  The driver installs
    # the recorder (-DVERIF_RANGE) and the generated helpers count the assertions they evaluate.
    "rangeassert": ("gcc", ["-O1", "-DVERIF_RANGE", "-DWUFFS_VERIF_RANGE_COUNT"]),
}

ASAN_ENV = {
    "ASAN_OPTIONS": "detect_leaks=0:abort_on_error=0:exitcode=77:allocator_may_return_null=1",
    "UBSAN_OPTIONS": "print_stacktrace=1:halt_on_error=1:exitcode=78",
}


def build_tools(ctx, names=("wuffs", "wuffs-c")):
    tools = {}
    for n in names:
        tools[n] = ctx.go_build("github.com/google/wuffs/cmd/" + n, out=n, tags="verif")
    return tools


def has_range_hook():
    """Whether the working tree carries hook H3 (the checked build of cgen)."""
    return os.path.exists(os.path.join(REPO, "internal", "cgen", "range_verif.go"))


def gen_std(ctx, tools, name="stdroot", range_assert=False):
    if range_assert:
        if not has_range_hook():
            return None
        name = name + "-range"
    root = ctx.subdir(name)
    if os.path.exists(os.path.join(root, "release", "c", "wuffs-unsupported-snapshot.c")):
        return root
    shutil.copytree(os.path.join(REPO, "std"), os.path.join(root, "std"), dirs_exist_ok=True)
    shutil.copy(os.path.join(REPO, "wuffs-root-directory.txt"), root)
    env = dict(ctx.env)
    env["PATH"] = os.path.dirname(tools["wuffs"]) + ":" + env.get("PATH", "")
    env.pop("WUFFS_VERIF_RANGE", None)
    if range_assert:
        env["WUFFS_VERIF_RANGE"] = "1"   # read by the verif-tagged internal/cgen/range_verif.go
    r = subprocess.run([tools["wuffs"], "gen"], cwd=root, env=env, capture_output=True, text=True, timeout=600)
    snap = os.path.join(root, "release", "c", "wuffs-unsupported-snapshot.c")
    if r.returncode != 0 or not os.path.exists(snap):
        # The working tree's compiler rejects the working tree's std: the
        # properties about generated C cannot be exercised.  Not ours to call a
        # violation of a behavioural property; report as tooling error.
        raise ToolingError("`wuffs gen` failed on the working tree's std/:\n" + (r.stdout + r.stderr)[-3000:])
    if range_assert and "wuffs_verif__sites__" not in open(snap, errors="replace").read():
        raise ToolingError("the checked build's `wuffs gen` produced C without range assertions (is wuffs-c built with -tags verif?)")
    return root


_SITE_RE = None


def range_sites(root):
    """{kind: count} and the total of the assertion sites in a checked-build root (parsed from the site tables that
    cgen emits: one line `{"file", line, "func", "kind", "expr", "lo", "hi"},` per site)."""
    import re
    global _SITE_RE
    if _SITE_RE is None:
        q = r'"((?:[^"\\]|\\.)*)"'
        _SITE_RE = re.compile(r'^\s*\{' + q + r', (\d+), ' + q + ', ' + q + ', ' + q + ', ' + q + ', ' + q + r'\},\s*$')
    kinds = {}
    intable = False
    for line in open(os.path.join(root, "release", "c", "wuffs-unsupported-snapshot.c"), errors="replace"):
        if line.startswith("static const wuffs_verif__site wuffs_verif__sites__"):
            intable = True
        elif intable and line.startswith("};"):
            intable = False
        elif intable:
            m = _SITE_RE.match(line)
            if m and m.group(1):
                kinds[m.group(4)] = kinds.get(m.group(4), 0) + 1
    return kinds


def compile_driver(ctx, root, src, variant, out=None, extra=(), timeout=900):
    cc, flags = VARIANTS[variant]
    incdir = ctx.subdir("inc-" + os.path.basename(root))
    link = os.path.join(incdir, "wuffs-snapshot.c")
    if not os.path.exists(link):
        shutil.copy(os.path.join(root, "release", "c", "wuffs-unsupported-snapshot.c"), link)
    outp = os.path.join(ctx.subdir("bin"), out or (os.path.splitext(os.path.basename(src))[0] + "-" + variant))
    srcp = src if os.path.isabs(src) else os.path.join(VERIF, "harness", "c", src)
    cmd = [cc] + flags + ["-pthread"] + list(extra) + ["-I", incdir, "-o", outp, srcp]
    r = subprocess.run(cmd, capture_output=True, text=True, timeout=timeout)
    if r.returncode != 0:
        return None, (r.stdout + r.stderr)
    return outp, (r.stdout + r.stderr)


def compile_many(ctx, root, src, variants):
    """Compile several variants in parallel. Returns {variant: exe}; a compile
    failure of the generated C (not of the driver) is reported by the caller."""
    res = {}
    with concurrent.futures.ThreadPoolExecutor(max_workers=len(variants)) as ex:
        futs = {v: ex.submit(compile_driver, ctx, root, src, v) for v in variants}
        for v, f in futs.items():
            res[v] = f.result()
    return res

"""Regenerate the C of std/ from /repo's working tree and build C drivers
against it.  Everything happens in the check's scratch directory.

  tools = build_tools(ctx)            -> {"wuffs": path, "wuffs-c": path, ...}
  root  = gen_std(ctx, tools)         -> scratch root holding gen/c/*.c and
                                         release/c/wuffs-unsupported-snapshot.c
  exe   = compile_driver(ctx, root, "stddrive.c", variant)   variant in VARIANTS
"""
import os, shutil, subprocess, concurrent.futures
from vlib import ToolingError, REPO, VERIF

VARIANTS = {
    # name: (compiler, flags)
    # nonnull-attribute is off: memset(NULL, 0, 0) (zero-length fill of an empty pixel row) is flagged by it, but it
    # is none of the behaviours the property lists (no access happens); a non-zero length through NULL is a SEGV
    # that ASan reports anyway.
    "asan": ("gcc", ["-O1", "-g", "-fsanitize=address,undefined", "-fno-sanitize=nonnull-attribute", "-fno-sanitize-recover=all",
                     "-fno-omit-frame-pointer"]),
    "plain": ("gcc", ["-O2", "-DWRAP_ALLOC", "-Wl,--wrap=malloc,--wrap=calloc,--wrap=realloc,--wrap=free"]),
    "plain_nocpu": ("gcc", ["-O2", "-DWUFFS_CONFIG__AVOID_CPU_ARCH", "-DWRAP_ALLOC", "-Wl,--wrap=malloc,--wrap=calloc,--wrap=realloc,--wrap=free"]),
    "o0": ("gcc", ["-O0"]),
    "tsan": ("gcc", ["-O1", "-g", "-fsanitize=thread"]),
    "clang_asan": ("clang", ["-O1", "-g", "-fsanitize=address,undefined", "-fno-sanitize=nonnull-attribute", "-fno-sanitize-recover=all"]),
}

ASAN_ENV = {
    "ASAN_OPTIONS": "detect_leaks=0:abort_on_error=0:exitcode=77:allocator_may_return_null=1",
    "UBSAN_OPTIONS": "print_stacktrace=1:halt_on_error=1:exitcode=78",
}


def build_tools(ctx, names=("wuffs", "wuffs-c")):
    tools = {}
    for n in names:
        tools[n] = ctx.go_build("github.com/google/wuffs/cmd/" + n, out=n, tags="verif")
    return tools


def gen_std(ctx, tools, name="stdroot"):
    root = ctx.subdir(name)
    if os.path.exists(os.path.join(root, "release", "c", "wuffs-unsupported-snapshot.c")):
        return root
    shutil.copytree(os.path.join(REPO, "std"), os.path.join(root, "std"), dirs_exist_ok=True)
    shutil.copy(os.path.join(REPO, "wuffs-root-directory.txt"), root)
    env = dict(ctx.env)
    env["PATH"] = os.path.dirname(tools["wuffs"]) + ":" + env.get("PATH", "")
    r = subprocess.run([tools["wuffs"], "gen"], cwd=root, env=env, capture_output=True, text=True, timeout=600)
    snap = os.path.join(root, "release", "c", "wuffs-unsupported-snapshot.c")
    if r.returncode != 0 or not os.path.exists(snap):
        # The working tree's compiler rejects the working tree's std: the
        # properties about generated C cannot be exercised.  Not ours to call a
        # violation of a behavioural property; report as tooling error.
        raise ToolingError("`wuffs gen` failed on the working tree's std/:\n" + (r.stdout + r.stderr)[-3000:])
    return root


def compile_driver(ctx, root, src, variant, out=None, extra=(), timeout=900):
    cc, flags = VARIANTS[variant]
    incdir = ctx.subdir("inc-" + os.path.basename(root))
    link = os.path.join(incdir, "wuffs-snapshot.c")
    if not os.path.exists(link):
        shutil.copy(os.path.join(root, "release", "c", "wuffs-unsupported-snapshot.c"), link)
    outp = os.path.join(ctx.subdir("bin"), out or (os.path.splitext(os.path.basename(src))[0] + "-" + variant))
    srcp = src if os.path.isabs(src) else os.path.join(VERIF, "harness", "c", src)
    cmd = [cc] + flags + ["-pthread"] + list(extra) + ["-I", incdir, "-o", outp, srcp]
    r = subprocess.run(cmd, capture_output=True, text=True, timeout=timeout)
    if r.returncode != 0:
        return None, (r.stdout + r.stderr)
    return outp, (r.stdout + r.stderr)


def compile_many(ctx, root, src, variants):
    """Compile several variants in parallel. Returns {variant: exe}; a compile
    failure of the generated C (not of the driver) is reported by the caller."""
    res = {}
    with concurrent.futures.ThreadPoolExecutor(max_workers=len(variants)) as ex:
        futs = {v: ex.submit(compile_driver, ctx, root, src, v) for v in variants}
        for v, f in futs.items():
            res[v] = f.result()
    return res

"""Inputs for the std drivers: the repository's corpus mapped to decoders,
seeded mutations, and instantiation of IOSchedule classes as job fields."""
import os, random
from vlib import REPO

EXT2DEC = {
    ".gz": "gzip", ".bz2": "bzip2", ".zlib": "zlib", ".deflate": "deflate", ".xz": "xz", ".lzma": "lzma",
    ".litonlylzma": "lzma", ".lz": "lzip", ".giflzw": "lzw",
    ".png": "png", ".apng": "png", ".gif": "gif", ".bmp": "bmp", ".jpeg": "jpeg", ".jpg": "jpeg", ".webp": "webp",
    ".qoi": "qoi", ".tga": "targa", ".nie": "nie", ".wbmp": "wbmp", ".pkm": "etc2", ".handsum": "handsum",
    ".th": "thumbhash", ".ppm": "netpbm", ".pgm": "netpbm", ".pbm": "netpbm",
    ".json": "json", ".cbor": "cbor",
}
KIND = {}
for d in ("deflate", "zlib", "gzip", "lzw", "bzip2", "lzma", "lzip", "xz"):
    KIND[d] = "xform"
for d in ("adler32", "crc32", "xxhash32", "crc64", "xxhash64", "sha256"):
    KIND[d] = "hasher"
for d in ("bmp", "etc2", "gif", "handsum", "jpeg", "netpbm", "nie", "png", "qoi", "targa", "thumbhash", "wbmp", "webp"):
    KIND[d] = "image"
for d in ("cbor", "json"):
    KIND[d] = "token"
HASHERS = ["adler32", "crc32", "xxhash32", "crc64", "xxhash64", "sha256"]


def corpus(max_size=None):
    """[(path, decoder, extra_job_fields)] for every corpus file with a known extension."""
    out = []
    root = os.path.join(REPO, "test", "data")
    for dp, dn, fn in sorted(os.walk(root)):
        dn.sort()
        for f in sorted(fn):
            ext = os.path.splitext(f)[1].lower()
            dec = EXT2DEC.get(ext)
            if not dec:
                continue
            p = os.path.join(dp, f)
            sz = os.path.getsize(p)
            if max_size is not None and sz > max_size:
                continue
            extra = {}
            if dec == "lzw":
                with open(p, "rb") as fh:
                    b = fh.read(1)
                if not b or b[0] > 8:
                    continue
                extra = {"skip": 1, "quirks": "0x4CEE1800:%d" % (b[0] + 1)}
            if f.endswith(".two-concatenated-streams.xz"):
                extra = {"quirks": "0x750B0000:1"}
            out.append((p, dec, extra))
    return out


def mutate(data, rng, kind):
    """One seeded mutation of a byte string."""
    b = bytearray(data)
    n = len(b)
    if kind == "trunc":
        return bytes(b[:rng.randrange(0, n)]) if n else b""
    if kind == "flip" and n:
        for _ in range(rng.choice((1, 1, 2, 4))):
            i = rng.randrange(n)
            b[i] ^= 1 << rng.randrange(8)
        return bytes(b)
    if kind == "byte" and n:
        for _ in range(rng.choice((1, 2, 8))):
            b[rng.randrange(n)] = rng.choice((0, 1, 0x7F, 0x80, 0xFF, rng.randrange(256)))
        return bytes(b)
    if kind == "splice" and n > 4:
        i, j = sorted((rng.randrange(n), rng.randrange(n)))
        k = rng.randrange(n)
        seg = b[i:j][:4096]
        return bytes(b[:k] + seg + b[k:])
    if kind == "dup" and n > 4:
        i = rng.randrange(n)
        j = min(n, i + rng.randrange(1, 64))
        return bytes(b[:j] + b[i:j] * rng.randrange(1, 4) + b[j:])
    if kind == "zero" and n > 4:
        i = rng.randrange(n)
        j = min(n, i + rng.randrange(1, 16))
        b[i:j] = bytes(j - i)
        return bytes(b)
    if kind == "head" and n > 8:
        # damage a header field: early bytes matter most
        i = rng.randrange(min(n, 64))
        b[i] = rng.choice((0, 0xFF, b[i] ^ 0x80, (b[i] + 1) & 0xFF))
        return bytes(b)
    return bytes(b)


MUT_KINDS = ["trunc", "flip", "byte", "splice", "dup", "zero", "head"]


def plist(p):
    return ",".join("*" if v < 0 else str(v) for v in p)


def class_fields(c):
    return {"src": plist(c["src"]), "srcmode": c["srcmode"], "dst": plist(c["dst"]), "dstmode": c["dstmode"],
            "wb": c["wb"], "close": c["close"], "init": c["init"], "prefill": "%02X" % c["prefill"]}


def est_calls(n, out_n, c):
    """Upper estimate of the number of calls a class causes on an input of n bytes
    producing out_n bytes (used to keep 1-byte schedules to small inputs)."""
    def per(p, total):
        last = p[-1]
        if last < 0:
            return len(p)
        return len(p) + total // max(1, last)
    return per(c["src"], n) + per(c["dst"], out_n)


# ------------------------------------------------------------------ known findings (std/lzma family)
LZMA_FAMILY = ("lzma", "xz", "lzip")


def avoid_known(dec, path, fields):
    """Keep random schedules away from the EXACT constructs of the known std/lzma-family findings (each is
    re-run as a witness by the checks that own it, see KNOWN_WITNESSES), and from a schedule under which these
    decoders cannot progress by design."""
    f = dict(fields)
    if dec in LZMA_FAMILY:
        # known: lzma-undrained-dst-after-compacted-history (compacted destination + a call entered with undrained output)
        if f.get("dstmode") == "compact":
            f["dstmode"] = "grow"
        # these decoders want >= 274 bytes of room at once: a destination that only ever offers less never progresses
        d = str(f.get("dst", "*"))
        if not d.endswith("*"):
            try:
                if min(int(x) for x in d.split(",") if x != "*") < 4096:
                    f["dst"] = "4096"
            except ValueError:
                pass
    # (BCJ-filtered xz blocks were driven one-shot only until the repair of io_forget_history, 9a5020d: they are
    # split like everything else now)
    return f


def known_witnesses():
    """[(key, job fields, oracle path or None)] - the committed witnesses of the std findings that the split/
    contract checks re-run on every run."""
    td = os.path.join(REPO, "test", "data")
    w = []
    if os.path.exists(os.path.join(td, "enwik5.xz")):
        w.append(("lzma-undrained-dst-after-compacted-history",
                  {"dec": "xz", "in": os.path.join(td, "enwik5.xz"), "src": "4096", "dst": "4096", "dstmode": "compact"}, os.path.join(td, "enwik5")))
    p = os.path.join(td, "artificial-xz-filter", "xz-filter-07-9a3fb8ae-arm_start_1000.dat.xz")
    if os.path.exists(p):
        w.append(("xz-bcj-filter-resumed-after-suspension", {"dec": "xz", "in": p, "src": "100"}, p[:-3]))
    return w

"""Full-width (32/64-bit) check of the checker's claimed ranges, by Apalache (DESIGN 3: TLC's integers are 32-bit, so
WuffsCore keeps every value below 2^30; Apalache's integers are unbounded).

For straight-line pure functions `return <expression over args.x, args.y>` with REFINED parameter ranges near the
machine-word boundaries (2^31, 2^32, 2^63, 2^64) the exporter (-wide) writes the exact decimal bounds the checker
claims for every expression node.  Each function becomes one TLA+ module:

    Init == x \\in lo_x..hi_x /\\ y \\in lo_y..hi_y          (ALL operand pairs, symbolically)
    Val_n == the value of node n under the language semantics (ideal integers; ~mod wraps, ~sat clamps)
    Inv   == /\\ lo_n <= Val_n /\\ Val_n <= hi_n  for every non-constant node n      (the checker's claims)
             /\\ the root value fits the function's return type

and `apalache-mc check --length=0 --inv=Inv` decides it for all operand pairs.  A counterexample is a concrete operand
pair for which a claimed range is false (or an accepted program overflows its type): reported as C01 reports refuted
static claims."""
import json, os, re, subprocess, concurrent.futures

OPS = ["+", "-", "*", "/", "%", "<<", ">>", "~mod<<", "~mod+", "~mod-", "~mod*", "~sat+", "~sat-"]
OPNAME = {"+": "add", "-": "sub", "*": "mul", "/": "quo", "%": "mod", "<<": "shl", ">>": "shr", "~mod<<": "modshl", "~mod+": "modadd", "~mod-": "modsub",
          "~mod*": "modmul", "~sat+": "satadd", "~sat-": "satsub"}


def wide_programs(rng, per_op=4):
    """[(name, text)]: one package per operator and width; operand ranges hug the top of the type, the sign bit and
    small values; a pair is used only if the exact result fits the type (the checker should accept)."""
    out = []
    for ty, bits in (("u32", 32), ("u64", 64)):
        top = (1 << bits) - 1
        half = 1 << (bits - 1)
        R = [(top - 5, top), (top - 9, top - 4), (top - 2, top - 1), (half - 3, half + 2), (half, half + 4), (0, 5), (1, 3), (2, 2), (1, 1), (bits - 3, bits - 1), (0, 1)]
        for op in OPS:
            pairs, near = [], []
            for X in R:
                for Y in R:
                    (a, b), (c, d) = X, Y
                    ok = True
                    if op == "+":
                        ok = b + d <= top
                    elif op == "-":
                        ok = a >= d
                    elif op == "*":
                        ok = b * d <= top
                    elif op in ("/", "%"):
                        ok = c >= 1
                    elif op == "<<":
                        ok = d <= bits - 1 and (b << d) <= top
                    elif op in (">>", "~mod<<"):
                        ok = d <= bits - 1
                    if ok and (b - a + 1) * (d - c + 1) <= 64:
                        pairs.append((X, Y))
                    elif not ok and (b - a + 1) * (d - c + 1) <= 64:
                        # a near miss: how far outside is the worst case?  Those that overflow by one or two are kept:
                        # the compiler must reject them (accepted ones are decided like the others)
                        over = {"+": b + d - top, "-": d - a, "*": b * d - top, "<<": ((b << d) - top) if d <= bits - 1 else 99,
                                "/": 1 if c == 0 else 99, "%": 1 if c == 0 else 99}.get(op, 99)
                        if 1 <= over <= 2:
                            near.append((X, Y))
            rng.shuffle(pairs)
            # pairs with a big operand first (that is what TLC cannot do)
            pairs.sort(key=lambda p: 0 if max(p[0][1], p[1][1]) >= half else 1)
            pairs = pairs[:per_op]
            if not pairs:
                continue
            L = ["pub struct foo?(", "\tz : base.u32,", ")", ""]
            for k, (X, Y) in enumerate(pairs):
                L += ["pub func foo.g%d(x: base.%s[%d ..= %d], y: base.%s[%d ..= %d]) base.%s {" % (k, ty, X[0], X[1], ty, Y[0], Y[1], ty),
                      "\treturn args.x %s args.y" % op, "}", ""]
            out.append(("wide_%s_%s" % (ty, OPNAME[op]), "\n".join(L)))
            rng.shuffle(near)
            for k, (X, Y) in enumerate(near[:2]):
                L = ["pub struct foo?(", "\tz : base.u32,", ")", "",
                     "pub func foo.g%d(x: base.%s[%d ..= %d], y: base.%s[%d ..= %d]) base.%s {" % (k, ty, X[0], X[1], ty, Y[0], Y[1], ty),
                     "\treturn args.x %s args.y" % op, "}", ""]
                out.append(("wide_%s_%s_near%d" % (ty, OPNAME[op], k), "\n".join(L)))
    return out


class Untranslatable(Exception):
    pass


def _num(n, key):
    s = n.get("s" + key)
    if s not in (None, ""):
        return int(s)
    return None


def translate(d, fnode, sfx="", falsify=False):
    """(variable declarations, Init conjuncts, definitions, Inv conjuncts, claims, params) for one exported function,
    every identifier suffixed with sfx; raises Untranslatable.  falsify=True shrinks the root's claimed upper bound by
    one (the negative control: Apalache must refute it whenever that bound is attained)."""
    N = d["nodes"]

    def nd(i):
        return N[i - 1]
    params = {}
    for pi in nd(fnode["l"])["y"]:
        p = nd(pi)
        t = nd(p["l"])
        if t.get("b") != "base" or t.get("c") not in ("u8", "u16", "u32", "u64"):
            raise Untranslatable("param type")
        bits = int(t["c"][1:])
        lo = _num(nd(t["l"]), "cv") if t.get("l") else 0
        hi = _num(nd(t["m"]), "cv") if t.get("m") else (1 << bits) - 1
        if lo is None or hi is None:
            raise Untranslatable("param bounds")
        params[p["c"]] = (lo, hi)
    body = fnode["z"]
    if len(body) != 1 or nd(body[0])["k"] != "Ret" or not nd(body[0])["l"]:
        raise Untranslatable("body is not a single return")
    rt = nd(fnode["r"]) if fnode.get("r") else None
    if not rt or rt.get("c") not in ("u8", "u16", "u32", "u64"):
        raise Untranslatable("return type")
    rbits = int(rt["c"][1:])
    defs, claims, guards = [], [], []

    def width_of(n):
        t = nd(n["ty"]) if n.get("ty") else None
        if t and t.get("b") == "base" and t.get("c") in ("u8", "u16", "u32", "u64"):
            return int(t["c"][1:])
        return None

    def ex(i):
        n = nd(i)
        name = "V%d%s" % (i, sfx)
        a = n.get("a", "")
        cv = _num(n, "cv")
        if cv is not None:
            return str(cv)
        if a == "." and nd(n["l"]).get("c") == "args" and n["c"] in params:
            e = n["c"] + sfx
        elif a == "as":
            e = ex(n["l"])
        elif n.get("ar") == "b" and a in OPS:
            x, y = ex(n["l"]), ex(n["r"])
            w = width_of(n)
            if a in ("+", "-", "*"):
                e = "(%s %s %s)" % (x, a, y)
            elif a == "/":
                e = "(%s \\div %s)" % (x, y)
                guards.append("(%s # 0)" % y)
            elif a == "%":
                e = "(%s %% %s)" % (x, y)
                guards.append("(%s # 0)" % y)
            elif a in ("<<", ">>", "~mod<<"):
                # the shift amount ranges over a small interval: a case expression keeps the encoding in linear arithmetic
                rb = nd(n["r"])
                lo, hi = _num(rb, "lo"), _num(rb, "hi")
                if lo is None or hi is None or hi - lo > 70:
                    raise Untranslatable("shift amount range")
                if w is not None:
                    guards.append("(0 <= %s /\\ %s <= %d)" % (y, y, w - 1))
                parts = []
                for k in range(lo, hi + 1):
                    parts.append("%s = %d -> (%s %s %d)" % (y, k, x, "\\div" if a == ">>" else "*", 1 << k))
                e = "(CASE " + " [] ".join(parts) + " [] OTHER -> 0)"
                if a == "~mod<<":
                    if w is None:
                        raise Untranslatable("width")
                    e = "(%s %% %d)" % (e, 1 << w)
            elif a in ("~mod+", "~mod-", "~mod*"):
                if w is None:
                    raise Untranslatable("width")
                e = "((%s %s %s) %% %d)" % (x, a[4:], y, 1 << w)
            elif a == "~sat+":
                e = "(IF %s + %s > %d THEN %d ELSE %s + %s)" % (x, y, (1 << w) - 1, (1 << w) - 1, x, y)
            elif a == "~sat-":
                e = "(IF %s < %s THEN 0 ELSE %s - %s)" % (x, y, x, y)
            else:
                raise Untranslatable("operator " + a)
        else:
            raise Untranslatable("expression " + (a or n.get("c", "?")))
        defs.append("%s == %s" % (name, e))
        lo, hi = _num(n, "lo"), _num(n, "hi")
        if lo is not None and hi is not None:
            claims.append((i, name, lo, hi))
        return name
    root = ex(nd(body[0])["l"])
    vs = sorted(params)
    if falsify:
        claims[-1] = (claims[-1][0], claims[-1][1], claims[-1][2], claims[-1][3] - 1)
    decl = ["  \\* @type: Int;\n  %s%s" % (v, sfx) for v in vs]
    init = ["%s%s \\in %d..%d" % (v, sfx, params[v][0], params[v][1]) for v in vs]
    conj = ["(%d <= %s /\\ %s <= %d)" % (lo, nm, nm, hi) for (_, nm, lo, hi) in claims]
    conj.append("(0 <= %s /\\ %s <= %d)" % (root, root, (1 << rbits) - 1))
    conj += guards
    return decl, init, defs, conj, claims, params


def module(parts):
    """One module for several translated functions (their variables are disjoint)."""
    L = ["---- MODULE Wide ----", "EXTENDS Integers", "VARIABLES"]
    L.append(",\n".join(x for p in parts for x in p[0]))
    L.append("Init == " + " /\\ ".join(x for p in parts for x in p[1]))
    L.append("Next == UNCHANGED <<%s>>" % ", ".join(x.split()[-1] for p in parts for x in p[0]))
    for p in parts:
        L += p[2]
    L.append("Inv == " + " /\\ ".join(x for p in parts for x in p[3]))
    L.append("====")
    return "\n".join(L) + "\n"


def check_function(workdir, tag, modtext, timeout=240):
    d = os.path.join(workdir, tag)
    os.makedirs(d, exist_ok=True)
    fn = os.path.join(d, "Wide.tla")
    open(fn, "w").write(modtext)
    try:
        r = subprocess.run(["apalache-mc", "check", "--length=0", "--inv=Inv", "--out-dir=" + os.path.join(d, "out"), fn],
                           capture_output=True, text=True, timeout=timeout, cwd=d)
    except subprocess.TimeoutExpired:
        return "timeout", ""
    out = r.stdout + r.stderr
    if "The outcome is: NoError" in out:
        return "ok", ""
    if "The outcome is: Error" in out or "Found a violation" in out or "violation of the invariant" in out.lower():
        cex = ""
        for root, _, files in os.walk(os.path.join(d, "out")):
            for f in files:
                if f.startswith("violation") and f.endswith(".tla"):
                    cex = open(os.path.join(root, f)).read()
                    break
        return "refuted", cex or out[-1500:]
    return "error", out[-1500:]


def run(ctx, wexport, programs, par=6, batch=8):
    """Returns (stats, refutations): every function of every accepted program checked by Apalache."""
    wd = ctx.subdir("wide")
    jobs, stats = [], {"programs": 0, "rejected": 0, "functions": 0, "proved": 0, "untranslatable": 0, "inconclusive": 0}
    for k, (name, text) in enumerate(programs):
        src = os.path.join(wd, "w%03d.wuffs" % k)
        open(src, "w").write(text)
        outp = os.path.join(wd, "w%03d.json" % k)
        r = subprocess.run([wexport, "-wide", "-pkg", "w%03d" % k, "-out", outp, src], capture_output=True, text=True, timeout=120)
        if r.returncode not in (0, 3) or not os.path.exists(outp):
            from vlib import ToolingError
            raise ToolingError("wexport -wide failed on %s: rc=%d %s" % (name, r.returncode, (r.stdout + r.stderr)[-500:]))
        d = json.load(open(outp))
        if not d.get("accepted"):
            stats["rejected"] += 1
            continue
        stats["programs"] += 1
        for fi in d["funcs"]:
            f = d["nodes"][fi - 1]
            try:
                part = translate(d, f, "_%d" % len(jobs))
            except Untranslatable:
                stats["untranslatable"] += 1
                continue
            jobs.append({"program": name, "function": f["a"], "source": text, "part": part, "d": d, "f": f})
    refuted = []
    batches = [jobs[i:i + batch] for i in range(0, len(jobs), batch)]

    def report(j, info):
        refuted.append({"program": j["program"], "function": j["function"], "source": j["source"], "module": module([j["part"]]),
                        "counterexample": info[:3000],
                        "claims": [{"node": c[0], "lo": str(c[2]), "hi": str(c[3])} for c in j["part"][4]],
                        "params": {k: [str(v[0]), str(v[1])] for k, v in j["part"][5].items()}})

    def one(a):
        k, bt = a
        v, info = check_function(wd, "b%03d" % k, module([j["part"] for j in bt]), timeout=240 + 60 * len(bt))
        if v == "ok" or len(bt) == 1:
            return [(j, v, info) for j in bt]
        # a batch that is not proved as a whole is decided function by function
        return [(j,) + check_function(wd, "b%03d_%d" % (k, i), module([j["part"]])) for i, j in enumerate(bt)]
    with concurrent.futures.ThreadPoolExecutor(max_workers=par) as ex:
        for res in ex.map(one, list(enumerate(batches))):
            for j, verdict, info in res:
                stats["functions"] += 1
                if verdict == "ok":
                    stats["proved"] += 1
                elif verdict == "refuted":
                    report(j, info)
                else:
                    stats["inconclusive"] += 1
    # negative control: the first function whose root claim is attained, with that claim shrunk by one, must be refuted
    stats["control"] = "none"
    for j in jobs[:1]:
        part = translate(j["d"], j["f"], "_c", falsify=True)
        v, info = check_function(wd, "control", module([part]))
        stats["control"] = v
        if v != "refuted":
            from vlib import ToolingError
            raise ToolingError("full-width negative control: a falsified claim was not refuted (%s) %s" % (v, info[-300:]))
    return stats, refuted

"""A seeded generator of Wuffs programs inside the fragment that
spec/WuffsCore.tla interprets, built WITH the proof structure the checker needs
(masks or guards before index expressions, widening before arithmetic,
refinements with guards, loop bounds carried by refined counters), so that most
programs are accepted.  Rejected ones are counted by the caller.

Every program has one struct `foo`, getters for its fields, one or two impure
methods, and usually a coroutine (reads/writes single bytes and multi-byte
values, loops, a nested private coroutine or helper).  Also generated: iterate
loops over byte-array fields (length / advance / unroll drawn from small sets,
sometimes with an else round), low_bits / high_bits, a choosy helper with a
`choose` statement, and an io_limit block around the nested coroutine call."""

U = {"u8": 255, "u16": 65535}


class G:
    def __init__(self, rng):
        self.r = rng
        self.fields = []     # (name, type string, kind, info)
        self.lines = []

    def pick(self, xs):
        return self.r.choice(list(xs))

    # ---- expressions of a given width, over the names in scope -----------------
    def atom(self, ty, scope):
        c = [n for (n, t) in scope if t == ty]
        r = self.r.random()
        if c and r < 0.6:
            return self.pick(c)
        other = [n for (n, t) in scope if t in U and t != ty]
        if other and r < 0.75:
            n = self.pick(other)
            if ty == "u16":
                return "(%s as base.u16)" % n           # u8 -> u16 always fits
            return "((%s & 0xFF) as base.u8)" % n       # u16 -> u8 needs a mask
        return str(self.pick([0, 1, 2, 3, 7, 8, 15, 16, 31, 100, 127, 128, 200, 255] if ty == "u8"
                             else [0, 1, 2, 255, 256, 257, 1000, 4095, 32767, 32768, 65535]))

    def var(self, ty, scope):
        c = [n for (n, t) in scope if t == ty]
        return self.pick(c) if c else None

    def typed(self, e, ty, scope):
        """an operand that is not an ideal (untyped) constant"""
        if e.lstrip("-").isdigit():
            v = self.var(ty, scope)
            return v if v is not None else "(%s as base.%s)" % (e, ty)
        return e

    def expr(self, ty, scope, depth=2):
        if depth == 0 or self.r.random() < 0.3:
            return self.atom(ty, scope)
        a = self.typed(self.expr(ty, scope, depth - 1), ty, scope)
        b = self.expr(ty, scope, depth - 1)
        k = self.r.random()
        if k < 0.30:
            return "(%s %s %s)" % (a, self.pick(["~mod+", "~mod-", "~mod*"]), b)
        if k < 0.50:
            return "(%s %s %s)" % (a, self.pick(["&", "|", "^"]), b)
        if k < 0.60:
            return "(%s >> %d)" % (a, self.r.randrange(0, 8 if ty == "u8" else 16))
        if k < 0.68:
            return "(%s ~mod<< %d)" % (a, self.r.randrange(0, 8 if ty == "u8" else 16))
        if k < 0.76:
            # a bounded sum: mask both sides so that the checker can prove the range
            m = 0x7F if ty == "u8" else 0x7FFF
            return "((%s & 0x%X) + (%s & 0x%X))" % (a, m, b, m)
        if k < 0.84:
            return "(%s / %d)" % (a, self.pick([1, 2, 3, 7, 16]))
        if k < 0.92:
            return "(%s %% %d)" % (a, self.pick([2, 3, 10, 16, 100]))
        v = self.var(ty, scope)
        if v is None:
            return a
        k2 = self.r.random()
        if k2 < 0.3 and not v.startswith("("):
            # (high_bits(n: 0) is avoided only at 32 bits, see KNOWN_FINDINGS C04 o08; u8 / u16 take every count)
            return "%s.%s(n: %d)" % (v, self.pick(["low_bits", "high_bits"]), self.r.randrange(0, 8 if ty == "u8" else 16))
        if k2 < 0.65:
            return "%s.min(no_more_than: %s)" % (v, b)
        return "%s.max(no_less_than: %s)" % (v, b)

    def cond(self, scope):
        ty = self.pick(["u8", "u16"])
        a = self.typed(self.expr(ty, scope, 1), ty, scope)
        b = self.atom(ty, scope)
        c = "%s %s %s" % (a, self.pick(["<", "<=", ">", ">=", "==", "<>"]), b)
        if self.r.random() < 0.25:
            c2 = "%s %s %s" % (self.typed(self.atom(ty, scope), ty, scope), self.pick(["<", ">=", "=="]), self.atom(ty, scope))
            c = "(%s) %s (%s)" % (c, self.pick(["and", "or"]), c2)
        return c

    # ---- statements -----------------------------------------------------------
    def stmts(self, scope, writable, n, ind, coro, depth=0):
        out = []
        for _ in range(n):
            k = self.r.random()
            t = "\t" * ind
            if k < 0.30 and writable:
                nm, ty = self.pick(writable)
                op = self.pick(["=", "=", "~mod+=", "~mod-=", "&=", "|=", "^="])
                out.append("%s%s %s %s" % (t, nm, op, self.expr(ty, scope)))
            elif k < 0.45:
                out += self.field_store(scope, ind)
            elif k < 0.58:
                out += self.array_op(scope, writable, ind)
            elif (not coro) and k < 0.67 and depth < 1 and any(a == "it" for a, _ in scope):
                out += self.iterate(scope, writable, ind)
            elif k < 0.72 and depth < 2:
                out.append("%sif %s {" % (t, self.cond(scope)))
                out += self.stmts(scope, writable, self.r.randrange(1, 3), ind + 1, coro, depth + 1)
                if self.r.random() < 0.4:
                    out.append("%s} else {" % t)
                    out += self.stmts(scope, writable, self.r.randrange(1, 3), ind + 1, coro, depth + 1)
                out.append("%s}" % t)
            elif k < 0.84 and depth < 1 and any(a == "i" for a, _ in scope):
                out += self.loop(scope, writable, ind, coro, depth)
            elif coro and k < 0.95:
                out += self.io(scope, writable, ind)
            elif writable:
                nm, ty = self.pick(writable)
                out.append("%s%s = %s" % (t, nm, self.expr(ty, scope)))
        return out

    def field_store(self, scope, ind):
        t = "\t" * ind
        cands = [f for f in self.fields if f[2] == "num"]
        if not cands:
            return []
        nm, ty, _, info = self.pick(cands)
        base, hi = info
        e = self.expr(base, scope)
        if hi is None:
            return ["%sthis.%s = %s" % (t, nm, e)]
        # refined field: guard, mask, or min
        k = self.r.random()
        if k < 0.4:
            loc = [n for (n, tt) in scope if tt == base and not n.startswith("this.") and not n.startswith("args.")]
            if loc:
                v = self.pick(loc)
                return ["%sif %s <= %d {" % (t, v, hi), "%s\tthis.%s = %s" % (t, nm, v), "%s}" % t]
        if (hi + 1) & hi == 0:
            return ["%sthis.%s = %s & %d" % (t, nm, e, hi)]
        return ["%sthis.%s = %s %% %d" % (t, nm, e, hi + 1)]

    def array_op(self, scope, writable, ind):
        t = "\t" * ind
        arrs = [f for f in self.fields if f[2] == "arr"]
        if not arrs:
            return []
        nm, ty, _, (ety, ln) = self.pick(arrs)
        ity = self.pick(["u8", "u16"])
        idx = self.expr(ity, scope, 1)
        if ln & (ln - 1) == 0:
            ix = "(%s & %d)" % (idx, ln - 1)
        else:
            ix = "(%s %% %d)" % (idx, ln)
        if self.r.random() < 0.5 or not writable:
            return ["%sthis.%s[%s] = %s" % (t, nm, ix, self.expr(ety, scope))]
        cands = [w for w in writable if w[1] == ety]
        if not cands:
            return ["%sthis.%s[%s] = %s" % (t, nm, ix, self.expr(ety, scope))]
        return ["%s%s = this.%s[%s]" % (t, self.pick(cands)[0], nm, ix)]

    def loop(self, scope, writable, ind, coro, depth):
        t = "\t" * ind
        bound = self.pick([2, 3, 4])
        out = ["%si = 0" % t, "%swhile i < %d {" % (t, bound)]
        body = self.stmts(scope, [w for w in writable if w[0] != "i"], self.r.randrange(1, 3), ind + 1, coro, depth + 1)
        if self.r.random() < 0.3:
            body.append("%s\tif %s {" % (t, self.cond(scope)))
            body.append("%s\t\tbreak" % t)
            body.append("%s\t}" % t)
        out += body
        out.append("%s\ti += 1" % t)
        out.append("%s}" % t)
        return out

    def iterate(self, scope, writable, ind):
        """iterate over (a part of) a byte-array field: the body reads it[j] for j < length and accumulates into a
        writable u8 / u16 local (iterate is not allowed in coroutines)"""
        t = "\t" * ind
        arrs = [f for f in self.fields if f[2] == "arr" and f[3][0] == "u8"]
        acc = [w for w in writable if w[1] in U]
        if not arrs or not acc:
            return []
        nm, ty, _, (ety, ln) = self.pick(arrs)
        length = self.pick([1, 1, 2, 3])
        advance = self.pick([a for a in (1, 2, 3) if a <= length])
        unroll = self.pick([1, 1, 2, 4])
        cut = self.r.randrange(0, ln + 1)
        rng_ = self.pick(["this.%s[..]" % nm, "this.%s[.. %d]" % (nm, cut), "this.%s[%d ..]" % (nm, cut)])
        an, aty = self.pick(acc)

        def body(l, ind2):
            t2 = "\t" * ind2
            j = self.r.randrange(0, l)
            e = "it[%d]" % j if aty == "u8" else "(it[%d] as base.u16)" % j
            o = ["%s%s = (%s ~mod* 3) ~mod+ %s" % (t2, an, an, e)]
            if self.r.random() < 0.3:
                o.append("%sit[%d] = %s" % (t2, self.r.randrange(0, l), self.expr("u8", [x for x in scope if x[0] != "it"], 1)))
            return o
        out = ["%siterate (it = %s)(length: %d, advance: %d, unroll: %d) {" % (t, rng_, length, advance, unroll)]
        out += body(length, ind + 1)
        if length > 1 and self.r.random() < 0.6:
            out.append("%s} else (length: 1, advance: 1, unroll: %d) {" % (t, self.pick([1, 2])))
            out += body(1, ind + 1)
        out.append("%s}" % t)
        return out

    def io(self, scope, writable, ind):
        t = "\t" * ind
        k = self.r.random()
        w8 = [w for w in writable if w[1] == "u8"]
        w16 = [w for w in writable if w[1] == "u16"]
        if k < 0.45 and w8:
            return ["%s%s = args.src.read_u8?()" % (t, self.pick(w8)[0])]
        if k < 0.65 and w16:
            return ["%s%s = args.src.%s?()" % (t, self.pick(w16)[0], self.pick(["read_u16le", "read_u16be", "read_u8_as_u16"]))]
        if self.has_dst:
            return ["%sargs.dst.write_u8?(a: %s)" % (t, self.expr("u8", scope, 1))]
        if w8:
            return ["%s%s = args.src.read_u8?()" % (t, self.pick(w8)[0])]
        return []


def generate(rng):
    g = G(rng)
    L = []
    nf = rng.randrange(2, 5)
    for i in range(nf):
        base = rng.choice(["u8", "u16", "u8", "u16"])
        if rng.random() < 0.35:
            hi = rng.choice([3, 7, 15, 100, 200] if base == "u8" else [255, 1000, 4095, 40000])
            g.fields.append(("f%d" % i, "base.%s[..= %d]" % (base, hi), "num", (base, hi)))
        else:
            g.fields.append(("f%d" % i, "base." + base, "num", (base, None)))
    for i in range(rng.randrange(1, 3)):
        ety = rng.choice(["u8", "u16"])
        ln = rng.choice([2, 3, 4, 5, 8])
        g.fields.append(("a%d" % i, "array[%d] base.%s" % (ln, ety), "arr", (ety, ln)))
    if rng.random() < 0.5:
        L.append('pub status "#gen failure"')
        L.append("")
        has_status = True
    else:
        has_status = False
    L.append("pub struct foo?(")
    for nm, ty, _, _ in g.fields:
        L.append("\t%s : %s," % (nm, ty))
    L.append(")")
    L.append("")
    for nm, ty, kind, info in g.fields:
        if kind == "num":
            L.append("pub func foo.get_%s() base.%s {\n\treturn this.%s\n}\n" % (nm, info[0], nm))
        else:
            L.append("pub func foo.get_%s(i: base.u32) base.%s {\n\treturn this.%s[args.i %% %d]\n}\n" % (nm, info[0], nm, info[1]))
    fscope = [("this." + nm, info[0]) for nm, ty, kind, info in g.fields if kind == "num"]

    def locals_block(names, it=False):
        return ["\tvar %s : base.%s" % (n, t) for n, t in names] + ["\tvar i : base.u32[..= 4]"] + (["\tvar it : slice base.u8"] if it else []) + [""]

    # a choosy helper with two alternatives; one impure method selects, the others call it
    choosy = rng.random() < 0.35
    if choosy:
        L.append("pri func foo.pick!(x: base.u8) base.u8,\n\tchoosy,\n{\n\treturn args.x ~mod+ %d\n}\n" % rng.choice([1, 2, 100]))
        L.append("pri func foo.pick_a!(x: base.u8) base.u8 {\n\treturn args.x ^ %d\n}\n" % rng.choice([1, 0x55, 0xFF]))
        L.append("pri func foo.pick_b!(x: base.u8) base.u8 {\n\treturn args.x >> %d\n}\n" % rng.choice([1, 3, 7]))

    # impure methods
    for k in range(rng.randrange(1, 3)):
        args = [("x", rng.choice(["u8", "u16"])), ("y", rng.choice(["u8", "u16"]))][: rng.randrange(1, 3)]
        locs = [("p", "u8"), ("q", "u16"), ("r", rng.choice(["u8", "u16"]))][: rng.randrange(1, 4)]
        use_it = rng.random() < 0.7
        scope = fscope + [("args." + n, t) for n, t in args] + locs + [("i", "ctr")] + ([("it", "itvar")] if use_it else [])
        g.has_dst = False
        ret = rng.choice([None, "u8", "u16"])
        L.append("pub func foo.m%d!(%s)%s {" % (k, ", ".join("%s: base.%s" % a for a in args), " base." + ret if ret else ""))
        L += locals_block(locs, it=use_it)
        if choosy and k == 0:
            L.append("\tif %s {" % g.cond(scope))
            L.append("\t\tchoose pick = [%s]" % rng.choice(["pick_a", "pick_b", "pick_b, pick_a", "pick"]))
            L.append("\t}")
        L += g.stmts(scope, locs, rng.randrange(2, 6), 1, False)
        if choosy and any(t == "u8" for _, t in locs):
            v8 = [n for n, t in locs if t == "u8"][0]
            L.append("\t%s = this.pick!(x: %s)" % (v8, g.atom("u8", scope)))
        if ret:
            L.append("\treturn %s" % g.expr(ret, scope, 1))
        L.append("}\n")
    # coroutine(s)
    if rng.random() < 0.8:
        g.has_dst = rng.random() < 0.5
        params = (["dst: base.io_writer"] if g.has_dst else []) + ["src: base.io_reader"]
        helper = rng.random() < 0.4
        if helper:
            L.append("pri func foo.sub?(src: base.io_reader) {")
            L += locals_block([("c", "u8"), ("w", "u16")])
            hs = fscope + [("c", "u8"), ("w", "u16"), ("i", "ctr")]
            hd, g.has_dst = g.has_dst, False
            L += g.stmts(hs, [("c", "u8"), ("w", "u16")], rng.randrange(2, 4), 1, True)
            if has_status and rng.random() < 0.5:
                L += ["\tif c == %d {" % rng.choice([0, 1, 255]), '\t\treturn "#gen failure"', "\t}"]
            g.has_dst = hd
            L.append("}\n")
        locs = [("c", "u8"), ("d", "u8"), ("w", "u16")][: rng.randrange(1, 4)]
        scope = fscope + locs + [("i", "ctr")]
        L.append("pub func foo.run?(%s) {" % ", ".join(params))
        L += locals_block(locs) if not helper else locals_block(locs)[:-1] + ["\tvar status : base.status", ""]
        body = g.stmts(scope, locs, rng.randrange(2, 6), 1, True)
        if helper:
            at = rng.randrange(0, len(body) + 1)
            if rng.random() < 0.5:
                call = ["\tthis.sub?(src: args.src)"]
            else:
                call = ["\tstatus =? this.sub?(src: args.src)"]
                if rng.random() < 0.6:
                    # the std idiom: the sub-coroutine sees a limited source, its status is taken as a value inside the block
                    call = ["\tio_limit (io: args.src, limit: %d as base.u64) {" % rng.choice([0, 1, 2, 3, 5]), "\t" + call[0], "\t}"]
                call += ["\tif status.is_error() {", "\t\treturn status", "\t} else if status.is_suspension() {",
                         "\t\tyield? status", "\t}"]
            body = body[:at] + call + body[at:]
        if has_status and rng.random() < 0.4 and locs:
            body += ["\tif %s {" % g.cond(scope), '\t\treturn "#gen failure"', "\t}"]
        L += body
        L += g.field_store(scope, 1)
        L.append("}\n")
    return "\n".join(L) + "\n"


if __name__ == "__main__":
    import random, sys
    print(generate(random.Random(int(sys.argv[1]) if len(sys.argv) > 1 else 1)))


# ---------------------------------------------------------------------------
# Operator grid: one small package per operator, each a handful of pure functions `return args.x OP args.y` over
# REFINED parameter ranges.  With the `allargs` directive the pipeline calls every function with every operand pair
# of the ranges, so the range the checker claims for `args.x OP args.y` (and for each operand) is compared with the
# value of EVERY pair (WuffsCore!ClaimedRanges) and the C with the semantics (C04).  Range pairs are chosen so that
# the exact result fits the type (the checker should accept; a rejected package is counted, never an alarm).

_GRID_RANGES = [(0, 0), (0, 1), (1, 1), (0, 7), (2, 4), (5, 9), (3, 14), (17, 28)]


def _grid_valid(op, ty, X, Y):
    top = 255 if ty == "u8" else (1 << 30) - 1
    a, b = X
    c, d = Y
    if op == "+":
        return b + d <= top
    if op == "-":
        return a >= d
    if op == "*":
        return b * d <= top
    if op in ("/", "%"):
        return c >= 1
    if op in ("<<", "~mod<<"):
        return d <= (7 if ty == "u8" else 31) and (op == "~mod<<" or (b << d) <= top)
    if op == ">>":
        return d <= (7 if ty == "u8" else 31)
    return True


GRID_OPS = ["+", "-", "*", "/", "%", "<<", ">>", "&", "|", "^", "~mod+", "~mod-", "~mod*", "~mod<<", "~sat+", "~sat-"]


def opgrid_programs(rng, ops=None, per_op=6, widths=("u32", "u8")):
    """[(name, text)]: one package per operator and width."""
    out = []
    for op in (ops or GRID_OPS):
        for ty in widths:
            pairs = [(X, Y) for X in _GRID_RANGES for Y in _GRID_RANGES if _grid_valid(op, ty, X, Y)]
            rng.shuffle(pairs)
            # always keep the pairs where the operand ranges overlap or straddle each other (that is where range rules differ)
            pairs.sort(key=lambda p: 0 if (p[0][0] <= p[1][1] and p[1][0] <= p[0][1] and p[0] != p[1]) else 1)
            # the operators whose range rule has case distinctions on how the operand ranges relate get more pairs
            if op in ("%", "/", ">>", "-", "&", "~sat-"):
                # every pair of DIFFERENT, overlapping ranges (how the operand ranges relate decides the rule's case)
                nov = sum(1 for p in pairs if (p[0][0] <= p[1][1] and p[1][0] <= p[0][1] and p[0] != p[1]))
                pairs = pairs[:max(per_op, min(nov, 16))]
            else:
                pairs = pairs[:per_op]
            if not pairs:
                continue
            L = ["// wcore: allargs maxcalls=1", "pub struct foo?(", "\tz : base.u32,", ")", ""]
            for k, (X, Y) in enumerate(pairs):
                L += ["pub func foo.g%d(x: base.%s[%d ..= %d], y: base.%s[%d ..= %d]) base.%s {" % (k, ty, X[0], X[1], ty, Y[0], Y[1], ty),
                      "\treturn args.x %s args.y" % op, "}", ""]
                # the same operands inside a larger expression: the operator's claimed range feeds the next step
                if op in ("%", "/", ">>", "&", "-", "~sat-") and ty == "u32":
                    L += ["pub func foo.h%d(x: base.u32[%d ..= %d], y: base.u32[%d ..= %d]) base.u32 {" % (k, X[0], X[1], Y[0], Y[1]),
                          "\treturn (args.x %s args.y) + 1" % op, "}", ""]
            name = "opgrid_%s_%s" % (ty, {"+": "add", "-": "sub", "*": "mul", "/": "quo", "%": "mod", "<<": "shl", ">>": "shr", "&": "and",
                                        "|": "or", "^": "xor", "~mod+": "modadd", "~mod-": "modsub", "~mod*": "modmul",
                                        "~mod<<": "modshl", "~sat+": "satadd", "~sat-": "satsub"}[op])
            out.append((name, "\n".join(L)))
    return out


# ---------------------------------------------------------------------------
# Stale-fact grid (negative corpus, generated): a guard establishes a fact that mentions a variable in one syntactic
# POSITION (index, slice lower/upper bound, operand of an arithmetic sub-expression, element of an array), an EVENT
# changes the variable (assignment, compound assignment, impure call, suspension), and a use needs the fact.  Every
# program must be REJECTED; if a checker change accepts one it becomes an accepted program like any other and the
# model finds the index / slice / pre-condition fault or the false fact.

_SF_HEAD = """pub status "$wait"

pub struct foo?(
	a : array[4] base.u8,
	buf : array[8] base.u8,
	n : base.u32[..= 8],
	last : base.u32,
)

pub func foo.get_last() base.u32 {
	return this.last
}

pub func foo.set!(i: base.u32[..= 7], v: base.u8) {
	this.buf[args.i] = args.v
	this.a[args.i & 3] = args.v
}

pri func foo.bump!() {
	this.n = 8
}
"""

# (name, variable kind, guard using V, use needing the guard)
_SF_SHAPES = [
    ("index", "V < 4", "v = this.a[V] as base.u32"),
    ("slicelo", "this.buf[V ..].length() >= 4", "v = this.buf[V ..].peek_u32le()"),
    ("slicehi", "this.buf[.. V].length() >= 2", "v = this.buf[.. V].peek_u16le() as base.u32"),
    ("arith", "(V + 1) < 4", "v = this.a[V + 1] as base.u32"),
    ("elem", "this.a[V & 3] < 4", "v = this.a[this.a[V & 3]] as base.u32"),
]


def stalefact_programs():
    out = []
    for sname, guard, use in _SF_SHAPES:
        # local variable i: base.u32[..= 8]
        for ename, event in (("assign", "i = args.k"), ("addassign", "i ~mod+= 1\n\t\ti = i & 7"), ("selfassign", "i = (i + 1) & 7")):
            if ename == "addassign":
                ev = "i = (i ~mod+ 1) & 7"
            else:
                ev = event
            body = ["pub func foo.f!(k: base.u32[..= 8]) base.u32 {", "\tvar i : base.u32[..= 8]", "\tvar v : base.u32", "",
                    "\ti = args.k & 3", "\tif %s {" % guard.replace("V", "i"), "\t\t" + ev, "\t\t" + use.replace("V", "i"), "\t}",
                    "\tthis.last = v", "\treturn v", "}", ""]
            out.append(("stalefact_%s_local_%s" % (sname, ename), _SF_HEAD + "\n" + "\n".join(body)))
        # field this.n, changed by an impure call or across a suspension
        g, u = guard.replace("V", "this.n"), use.replace("V", "this.n")
        body = ["pub func foo.f!(k: base.u32[..= 8]) base.u32 {", "\tvar v : base.u32", "",
                "\tthis.n = args.k & 3", "\tif %s {" % g, "\t\tthis.bump!()", "\t\t" + u, "\t}",
                "\tthis.last = v", "\treturn v", "}", ""]
        out.append(("stalefact_%s_field_call" % sname, _SF_HEAD + "\n" + "\n".join(body)))
        body = ["pub func foo.set_n!(k: base.u32[..= 8]) {", "\tthis.n = args.k", "}", "",
                "pub func foo.f?(src: base.io_reader) {", "\tvar v : base.u32", "",
                "\tif %s {" % g, "\t\tyield? \"$wait\"", "\t\t" + u, "\t}", "\tthis.last = v", "}", ""]
        out.append(("stalefact_%s_field_yield" % sname, _SF_HEAD + "\n" + "\n".join(body)))
    return out


# ------------------------------------------------------------------ liveness grid (C05)
# internal/cgen/liveness.go decides per local whether it is saved across suspensions.  A wrong "no" is invisible in a
# one-shot run; C05's cgen-shaped model reads the exported resumable sets and reports the read of an unsaved local.
# The grid puts one local through every short sequence of the analysis' events - W (write), R (read), P (suspension
# point that does not mention it), Q (suspension point whose argument mentions it) - inside every control-flow shape the
# analysis treats differently: straight line, counted loop, while-true with break / continue / return / no exit, nested
# loops, if/else joins.  (The shape "while true without exit" is the one whose locals fc008b2 repaired.)
_LV_HEAD = "pub status \"#bad\"\n\npub struct foo?(\n\tn : base.u8,\n)\n\npub func foo.get_n() base.u8 {\n\treturn this.n\n}\n"
_LV_EVENTS = {
    "W": "x = c ~mod+ 7",
    "R": "this.n = this.n ~mod+ x",
    "P": "c = args.src.read_u8?()",
    "Q": "args.dst.write_u8?(a: x)",
    "-": None,
}
# shapes: lists of lines; {0}..{3} are the four slots
_LV_SHAPES = [
    ("line", ["{0}", "{1}", "{2}", "{3}"]),
    ("count", ["while k < 2 {", "\tk += 1", "\t{0}", "\t{1}", "\t{2}", "}", "{3}"]),
    ("wtbreak", ["while true {", "\t{0}", "\t{1}", "\tif c == 0 {", "\t\tbreak", "\t}", "\t{2}", "}", "{3}"]),
    ("wtcont", ["while true {", "\t{0}", "\t{1}", "\tif c == 1 {", "\t\tcontinue", "\t}", "\t{2}", "\t{3}", "}"]),
    ("wtret", ["while true {", "\t{0}", "\tif c == 0 {", "\t\treturn ok", "\t}", "\t{1}", "\t{2}", "\t{3}", "}"]),
    ("wtnone", ["while true {", "\t{0}", "\t{1}", "\t{2}", "\t{3}", "}"]),
    ("nestbreak", ["while k < 2 {", "\tk += 1", "\twhile true {", "\t\t{0}", "\t\t{1}", "\t\tif c == 0 {", "\t\t\tbreak", "\t\t}", "\t\t{2}", "\t}", "\t{3}", "}"]),
    ("nestouter", ["while.outer k < 2 {", "\tk += 1", "\twhile true {{", "\t\t{0}", "\t\t{1}", "\t\tif c == 0 {", "\t\t\tcontinue.outer", "\t\t}", "\t\t{2}", "\t\t{3}", "\t}}", "}.outer"]),
    ("ifelse", ["if c == 0 {", "\t{0}", "\t{1}", "} else {", "\t{2}", "}", "{3}"]),
    ("ifinloop", ["while k < 2 {", "\tk += 1", "\tif c == 0 {", "\t\t{0}", "\t} else {", "\t\t{1}", "\t}", "\t{2}", "}", "{3}"]),
]


def livegrid_programs(rng, per_shape=None):
    """[(name, text)]: one package per (shape, chunk of 12 slot fillings).  per_shape=None: every filling with at least one
    suspension point and one read (the only ones on which the analysis can be wrong); else that many per shape (seeded)."""
    import itertools, re
    fills = [f for f in itertools.product("WRPQ-", repeat=4) if ("P" in f or "Q" in f) and ("R" in f or "Q" in f)]
    out = []
    for sname, lines in _LV_SHAPES:
        fs = list(fills)
        if per_shape is not None:
            rng.shuffle(fs)
            fs = fs[:per_shape]
        for ci in range(0, len(fs), 12):
            L = [_LV_HEAD]
            for fi, f in enumerate(fs[ci:ci + 12]):
                body = []
                for ln in lines:
                    ln2 = ln.replace("{{", "{").replace("}}", "}")
                    m = re.search(r"\{(\d)\}", ln)
                    if m:
                        ev = _LV_EVENTS[f[int(m.group(1))]]
                        if ev is None:
                            continue
                        ln2 = ln[:m.start()].replace("{{", "{") + ev
                    body.append("\t" + ln2)
                L += ["pub func foo.f%d?(dst: base.io_writer, src: base.io_reader) {" % fi, "\tvar x : base.u8", "\tvar c : base.u8", "\tvar k : base.u8", "",
                      "\tc = args.src.read_u8?()", "\tx = c ~mod+ 1"] + body + ["\tthis.n = this.n ~mod+ c", "}", "",
                      "// slots: " + "".join(f), ""]
            out.append(("livegrid_%s_%d" % (sname, ci // 12), "\n".join(L)))
    return out

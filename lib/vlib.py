"""Shared runner library for the /verif checks.

Every check is `bin/check <ID> <tier>`; it imports checks/<ID>.py and calls
run(ctx).  This module provides: scratch handling, building Go harness
binaries from /repo's working tree, running TLC/SANY/Apalache with timeouts,
parsing TLC statistics, the verdict policy (exit 0 / 1 / 2), known-findings
handling and the evidence writer.

Verdict policy (DESIGN 2.2): exit 1 + VIOLATION only for something reproduced
on the real code (or a static claim refuted with a concrete state); tooling
failures (TLC crash, timeouts of our own machinery, build failure of the
harness itself) are exit 2.
"""
import json, os, re, shutil, subprocess, sys, tempfile, time, hashlib, random

VERIF = os.path.dirname(os.path.dirname(os.path.abspath(__file__)))
REPO = os.environ.get("VERIF_REPO", "/repo")
SPEC = os.path.join(VERIF, "spec")
HARNESS = os.path.join(VERIF, "harness")
NCPU = os.cpu_count() or 4

GOENV = {
    "GOFLAGS": "-mod=mod",
    "GOPROXY": "off",
    "GOSUMDB": "off",
    "GOTOOLCHAIN": "local",
}


class ToolingError(Exception):
    """Our own machinery failed: exit 2, never a violation."""


class Ctx:
    def __init__(self, pid, tier, seed):
        self.id = pid
        self.tier = tier
        self.seed = seed
        self.t0 = time.time()
        self.violations = []      # list of (what, replay_path)
        self.known_hits = []      # list of strings
        self.notes = []
        self.scratch = tempfile.mkdtemp(prefix="verif-%s-" % pid, dir=os.environ.get("VERIF_TMP", "/tmp"))
        self.rng = random.Random(seed)
        self.env = dict(os.environ)
        self.env.update(GOENV)
        self.env["VERIF_SEED"] = str(seed)
        self.env["VERIF_TIER"] = tier
        os.makedirs(os.path.join(VERIF, "replays"), exist_ok=True)
        os.makedirs(os.path.join(VERIF, "evidence"), exist_ok=True)
        self._known = load_known()
        self._repo_status0 = self._repo_status()
        self.tlc_stats = []       # accumulated per TLC run

    # ------------------------------------------------------------ housekeeping
    def _repo_status(self):
        try:
            return subprocess.run(["git", "-C", REPO, "status", "--porcelain"], capture_output=True, text=True, timeout=60).stdout
        except Exception:
            return None

    def cleanup(self):
        if os.environ.get("VERIF_KEEP"):
            print("scratch kept: " + self.scratch)
            return
        shutil.rmtree(self.scratch, ignore_errors=True)

    def tier_pick(self, quick, thorough):
        return thorough if self.tier == "thorough" else quick

    def log(self, *a):
        print("[%s %6.1fs]" % (self.id, time.time() - self.t0), *a, flush=True)

    def subdir(self, name):
        p = os.path.join(self.scratch, name)
        os.makedirs(p, exist_ok=True)
        return p

    # ------------------------------------------------------------------ builds
    def go_build(self, pkg, out=None, tags="verif", race=False, cwd=None, timeout=900):
        """Build a Go package (harness cmd or a cmd of /repo) from the harness
        module, which `replace`s github.com/google/wuffs => /repo.  Never builds
        with cwd=/repo (that would rewrite /repo/go.mod under -mod=mod)."""
        cwd = cwd or self.harness_dir()
        name = out or os.path.basename(pkg.rstrip("/"))
        outp = os.path.join(self.subdir("bin"), name)
        cmd = ["go", "build", "-o", outp]
        if tags:
            cmd += ["-tags", tags]
        if race:
            cmd += ["-race"]
        cmd += [pkg]
        r = subprocess.run(cmd, cwd=cwd, env=self.env, capture_output=True, text=True, timeout=timeout)
        if r.returncode != 0:
            # A build failure of /repo's own code is not ours to judge as a
            # violation; the properties are about code that compiles.
            raise ToolingError("go build %s failed:\n%s" % (pkg, (r.stdout + r.stderr)[-4000:]))
        return outp

    def go_test_build(self, pkg, out, tags="verif", race=False, timeout=900):
        outp = os.path.join(self.subdir("bin"), out)
        cmd = ["go", "test", "-c", "-o", outp]
        if tags:
            cmd += ["-tags", tags]
        if race:
            cmd += ["-race"]
        cmd += [pkg]
        r = subprocess.run(cmd, cwd=self.harness_dir(), env=self.env, capture_output=True, text=True, timeout=timeout)
        if r.returncode != 0:
            raise ToolingError("go test -c %s failed:\n%s" % (pkg, (r.stdout + r.stderr)[-4000:]))
        return outp

    def harness_dir(self):
        """The Go harness module.  With VERIF_REPO pointing at a scratch
        worktree (mutation experiments) a private copy of the module is made
        whose `replace` points there, so that concurrent checks against /repo
        are not disturbed."""
        if REPO == "/repo":
            self._ensure_gosum(HARNESS)
            return HARNESS
        d = os.path.join(self.scratch, "harness")
        if not os.path.isdir(d):
            shutil.copytree(HARNESS, d)
            gm = open(os.path.join(d, "go.mod")).read().replace("=> /repo", "=> " + REPO)
            open(os.path.join(d, "go.mod"), "w").write(gm)
            self._ensure_gosum(d)
        return d

    def _ensure_gosum(self, hdir):
        dst = os.path.join(hdir, "go.sum")
        src = os.path.join(REPO, "go.sum")
        want = ""
        if os.path.exists(src):
            want = open(src).read()
        extra = os.path.join(HARNESS, "go.sum.extra")
        if os.path.exists(extra):
            want += open(extra).read()
        cur = open(dst).read() if os.path.exists(dst) else None
        if cur is None or not all(l in cur for l in want.splitlines()):
            tmp = dst + ".%d.tmp" % os.getpid()
            with open(tmp, "w") as f:
                f.write(want)
            os.replace(tmp, dst)

    def run(self, cmd, timeout=600, cwd=None, env=None, input=None, check=False, text=True):
        e = dict(self.env)
        if env:
            e.update(env)
        try:
            r = subprocess.run(cmd, cwd=cwd or self.scratch, env=e, capture_output=True, text=text, timeout=timeout, input=input)
        except subprocess.TimeoutExpired as ex:
            raise ToolingError("timeout after %ss: %s" % (timeout, " ".join(map(str, cmd))[:300]))
        if check and r.returncode != 0:
            raise ToolingError("command failed (%d): %s\n%s" % (r.returncode, " ".join(map(str, cmd))[:300], ((r.stdout or "") + (r.stderr or ""))[-4000:] if text else ""))
        return r

    # --------------------------------------------------------------------- TLC
    def tlc(self, module, cfg=None, files=(), workers=None, timeout=900, simulate=None, depth=None,
            extra=(), deadlock=None, data=None, heap=None, dfs=False, label=None, coverage=False):
        """Run TLC on spec/<module>.tla in a scratch copy.  `files` are extra
        spec files (relative to spec/) to copy; every .tla in spec/ and
        spec/trace/ is copied anyway.  `data` = {name: text} written next to the
        spec (JSON inputs, traces).  Returns a dict with rc, out, generated,
        distinct, violated (invariant name or None), deadlock (bool)."""
        d = tempfile.mkdtemp(prefix="tlc-", dir=self.scratch)
        for root in (SPEC, os.path.join(SPEC, "trace")):
            if os.path.isdir(root):
                for fn in os.listdir(root):
                    if fn.endswith(".tla") or fn.endswith(".cfg"):
                        shutil.copy(os.path.join(root, fn), d)
        for name, text in (data or {}).items():
            mode = "wb" if isinstance(text, bytes) else "w"
            with open(os.path.join(d, name), mode) as f:
                f.write(text)
        cfgname = cfg or (module + ".cfg")
        meta = os.path.join(d, "meta")
        w = workers or min(NCPU, 8)
        cmd = ["java", "-XX:+UseParallelGC", "-Xss64m"]
        if heap:
            cmd += ["-Xmx" + heap]
        if dfs:
            cmd += ["-Dtlc2.tool.queue.IStateQueue=StateDeque"]
        cmd += ["-cp", "/opt/veriftools/tla/tla2tools.jar:/opt/veriftools/tla/CommunityModules-deps.jar", "tlc2.TLC",
                "-metadir", meta, "-config", cfgname, "-workers", str(w)]
        if simulate:
            cmd += ["-simulate", simulate]
        if depth:
            cmd += ["-depth", str(depth)]
        if deadlock is False:
            cmd += ["-deadlock"]
        if coverage:
            cmd += ["-coverage", "1"]
        cmd += ["-seed", str(self.seed)] if simulate else []
        cmd += list(extra)
        cmd += [module]
        t = time.time()
        try:
            r = subprocess.run(cmd, cwd=d, capture_output=True, text=True, timeout=timeout, env=self.env)
        except subprocess.TimeoutExpired:
            subprocess.run(["pkill", "-f", "metadir " + meta])
            raise ToolingError("TLC timeout (%ss) on %s/%s" % (timeout, module, cfgname))
        out = r.stdout + r.stderr
        res = {"rc": r.returncode, "out": out, "dir": d, "wall_s": round(time.time() - t, 2),
               "module": module, "cfg": cfgname, "label": label or (module + "/" + cfgname)}
        m = re.search(r"(\d+) states generated, (\d+) distinct states found", out)
        res["generated"] = int(m.group(1)) if m else 0
        res["distinct"] = int(m.group(2)) if m else 0
        m = re.search(r"The depth of the complete state graph search is (\d+)", out)
        res["diameter"] = int(m.group(1)) if m else None
        m = re.search(r"Invariant (\S+) is violated", out)
        res["violated"] = m.group(1) if m else None
        if not res["violated"]:
            m = re.search(r"Action property (\S+) is violated|Temporal properties were violated", out)
            if m:
                res["violated"] = m.group(1) or "temporal"
        res["deadlock"] = "Deadlock reached" in out
        res["postcondition_failed"] = bool(re.search(r"Postcondition \S+ .* is false", out))
        res["finished"] = "Model checking completed. No error has been found." in out or "Finished in" in out and r.returncode == 0
        res["error"] = None
        if r.returncode != 0 and not res["violated"] and not res["deadlock"] and not res["postcondition_failed"]:
            # rc 12 = safety violation, 11 deadlock, 13 liveness; others are errors.
            if r.returncode not in (10, 11, 12, 13):
                res["error"] = out[-3000:]
        self.tlc_stats.append({k: res[k] for k in ("label", "generated", "distinct", "diameter", "wall_s", "rc")})
        return res

    def tlc_ok(self, *a, **kw):
        """Run TLC on a specification whose properties must hold in the model
        itself (design-level check).  A violated invariant here is a defect of
        our specification -> tooling error (exit 2), unless the caller handles
        it (use tlc() directly for counterexample-guided modes)."""
        res = self.tlc(*a, **kw)
        if res["error"]:
            raise ToolingError("TLC error in %s:\n%s" % (res["label"], res["error"]))
        if res["violated"] or res["deadlock"]:
            raise ToolingError("specification %s does not satisfy its own properties (%s):\n%s" % (
                res["label"], res["violated"] or "deadlock", res["out"][-3000:]))
        return res

    def sany(self, module):
        d = tempfile.mkdtemp(prefix="sany-", dir=self.scratch)
        for root in (SPEC, os.path.join(SPEC, "trace")):
            if os.path.isdir(root):
                for fn in os.listdir(root):
                    if fn.endswith(".tla"):
                        shutil.copy(os.path.join(root, fn), d)
        r = subprocess.run(["tla-sany", module + ".tla"], cwd=d, capture_output=True, text=True, timeout=120)
        return r.returncode == 0 and "error" not in r.stdout.lower().replace("0 error", ""), r.stdout + r.stderr

    # ---------------------------------------------------------------- verdicts
    def violation(self, what, replay):
        """Record a violation reproduced on the real code.  `replay` is a JSON
        serialisable object; it is written to /verif/replays/ and named in the
        VIOLATION line.  If the witness matches a `known:` entry the line
        printed is KNOWN-FINDING instead."""
        key = replay.get("key") if isinstance(replay, dict) else None
        for k in self._known["known"]:
            if k["property"] == self.id and key is not None and k.get("key") == key:
                msg = "KNOWN-FINDING: property=%s %s" % (self.id, k["text"])
                if msg not in self.known_hits:
                    self.known_hits.append(msg)
                    print(msg, flush=True)
                return False
        n = len(self.violations) + 1
        rdir = os.path.join(VERIF, "replays") if REPO == "/repo" else os.path.join("/tmp", "verif-replays-alt")
        os.makedirs(rdir, exist_ok=True)
        path = os.path.join(rdir, "%s-%s-%d-%d.json" % (self.id, self.tier, self.seed, n))
        with open(path, "w") as f:
            json.dump({"property": self.id, "what": what, "replay": replay}, f, indent=1, default=str)
        self.violations.append((what, path))
        print("VIOLATION property=%s replay=%s" % (self.id, path), flush=True)
        print("  " + what.replace("\n", "\n  ")[:3000], flush=True)
        return True

    def known_keys(self):
        return {k.get("key") for k in self._known["known"] if k["property"] == self.id}

    # ---------------------------------------------------------------- evidence
    def evidence(self, level, coverage, assumptions=()):
        cov = dict(coverage)
        if self.tlc_stats:
            cov.setdefault("tlc_runs", self.tlc_stats)
        ev = {
            "property_id": self.id,
            "tier": self.tier,
            "seed": self.seed,
            "level": level,
            "coverage": cov,
            "assumptions": list(assumptions),
            "wall_s": round(time.time() - self.t0, 2),
            "violations": len(self.violations),
            "known_findings_reported": self.known_hits,
        }
        edir = os.path.join(VERIF, "evidence") if REPO == "/repo" else os.path.join("/tmp", "verif-evidence-alt")
        os.makedirs(edir, exist_ok=True)
        path = os.path.join(edir, self.id + ".json")
        tmp = path + ".tmp"
        with open(tmp, "w") as f:
            json.dump(ev, f, indent=1, default=str)
        os.replace(tmp, path)
        return path


def load_known():
    """KNOWN_FINDINGS.txt grammar (DESIGN A.5):
       known: property=C14 key=<witness key> <text>
       fixed: property=C15 <commit> <text>"""
    res = {"known": [], "fixed": []}
    p = os.path.join(VERIF, "KNOWN_FINDINGS.txt")
    if not os.path.exists(p):
        return res
    for line in open(p):
        line = line.strip()
        if not line or line.startswith("#"):
            continue
        m = re.match(r"known:\s+property=(\S+)\s+key=(\S+)\s+(.*)", line)
        if m:
            res["known"].append({"property": m.group(1), "key": m.group(2), "text": m.group(3)})
            continue
        m = re.match(r"fixed:\s+property=(\S+)\s+(\S+)\s+(.*)", line)
        if m:
            res["fixed"].append({"property": m.group(1), "commit": m.group(2), "text": m.group(3)})
    return res


def sha(b):
    if isinstance(b, str):
        b = b.encode()
    return hashlib.sha256(b).hexdigest()[:16]


def parse_tlc_prints(out):
    """Lines printed by PrintT/Print of JSON strings come out as TLA+ strings:
    "…" with escaped quotes.  Return the decoded JSON objects of every line that
    is a quoted string whose payload parses as JSON."""
    objs = []
    for line in out.splitlines():
        line = line.strip()
        if len(line) >= 2 and line[0] == '"' and line[-1] == '"':
            body = line[1:-1].replace('\\"', '"').replace("\\\\", "\\")
            try:
                objs.append(json.loads(body))
            except Exception:
                pass
    return objs


def main(argv):
    import importlib.util
    if len(argv) < 2:
        print("usage: check <ID> [quick|thorough] [--replay PATH]")
        return 2
    pid = argv[1]
    tier = os.environ.get("VERIF_TIER", "quick")
    replay = None
    rest = argv[2:]
    i = 0
    while i < len(rest):
        if rest[i] in ("quick", "thorough"):
            tier = rest[i]
        elif rest[i] == "--replay":
            replay = rest[i + 1]
            i += 1
        i += 1
    try:
        seed = int(os.environ.get("VERIF_SEED", "1"))
    except ValueError:
        seed = 1
    seed = seed % (2 ** 31)
    modpath = os.path.join(VERIF, "checks", pid + ".py")
    if not os.path.exists(modpath):
        print("no such check: " + pid)
        return 2
    spec = importlib.util.spec_from_file_location("check_" + pid, modpath)
    mod = importlib.util.module_from_spec(spec)
    sys.path.insert(0, os.path.join(VERIF, "lib"))
    sys.path.insert(0, os.path.join(VERIF, "checks"))
    spec.loader.exec_module(mod)
    ctx = Ctx(pid, tier, seed)
    rc = 2
    try:
        if replay:
            mod.replay(ctx, replay)
        else:
            mod.run(ctx)
        st = ctx._repo_status()
        if st is not None and ctx._repo_status0 is not None and st != ctx._repo_status0:
            raise ToolingError("the check changed /repo's working tree:\n" + st)
        rc = 1 if ctx.violations else 0
    except ToolingError as e:
        print("TOOLING-ERROR property=%s: %s" % (pid, e), flush=True)
        rc = 1 if ctx.violations else 2
    except Exception:
        import traceback
        traceback.print_exc()
        print("TOOLING-ERROR property=%s: internal error of the check" % pid, flush=True)
        rc = 1 if ctx.violations else 2
    finally:
        ctx.cleanup()
    print("[%s] %s tier=%s seed=%d wall=%.1fs violations=%d known=%d -> exit %d" % (
        pid, "done", tier, seed, time.time() - ctx.t0, len(ctx.violations), len(ctx.known_hits), rc), flush=True)
    return rc

// Package c07 holds what harness/cmd/fmtcases and harness/cmd/refenc (property
// C07) share: the manifest they write for checks/C07.py, the hash the C driver
// (harness/c/stddrive.c) uses for pixel buffers, conversion of Go images to the
// BGRA_NONPREMUL layout the driver asks std/png and std/gif for, and a PNG
// chunk writer.  Nothing here takes a verdict.
package c07

import (
	"bytes"
	"compress/zlib"
	"encoding/binary"
	"encoding/json"
	"hash/crc32"
	"image"
	"image/color"
	"os"
	"path/filepath"
)

// Member is one gzip member of a multi-member file: the Wuffs decoder handles
// one member per object, the runner chains them.
type Member struct {
	Oracle string `json:"oracle"`
	OutLen int    `json:"out_len"`
	EncLen int    `json:"enc_len"` // length of the encoded member (information only; the runner uses the consumed count Wuffs reports)
}

// Img is the expectation for an image decode through stddrive's image path
// with pixfmt=bgra and prefill=A5: the pixel buffer after every frame.
type Img struct {
	W        int    `json:"w"`
	H        int    `json:"h"`
	Frames   int    `json:"frames"`
	Expected string `json:"expected"`  // file: 8 bytes (w, h as LE u32) + final BGRA_NONPREMUL buffer, as stddrive's out= file
	OutHash  string `json:"out_hash"`  // the driver's hash over the per-frame pixel-buffer hashes
	OutTotal int    `json:"out_total"` // w*h*4
}

// Entry is one file for the runner to turn into stddrive jobs.
type Entry struct {
	ID       string            `json:"id"`
	Family   string            `json:"family"`
	Class    string            `json:"class,omitempty"`
	Dec      string            `json:"dec"`
	File     string            `json:"file"`
	Oracle   string            `json:"oracle,omitempty"`
	OutLen   int               `json:"out_len"`
	Sums     map[string]string `json:"sums,omitempty"`
	Quirks   string            `json:"quirks,omitempty"`
	Dict     string            `json:"dict,omitempty"`
	Chain    []Member          `json:"chain,omitempty"`
	Img      *Img              `json:"img,omitempty"`
	GoRef    string            `json:"goref"` // "ok", "n/a" or how Go's own decoder disagrees with the expectation (a tooling problem, never a verdict)
	Settings json.RawMessage   `json:"settings,omitempty"`
	Note     string            `json:"note,omitempty"`
}

type Manifest struct {
	Entries []Entry  `json:"entries"`
	Skipped []string `json:"skipped,omitempty"`
}

func WriteFile(dir, name string, b []byte) (string, error) {
	p := filepath.Join(dir, name)
	return p, os.WriteFile(p, b, 0o644)
}

func (m *Manifest) Save(path string) error {
	b, err := json.Marshal(m)
	if err != nil {
		return err
	}
	return os.WriteFile(path, b, 0o644)
}

// DriverHash is the hash of harness/c/stddrive.c (FNV-1a's prime with the
// driver's own offset basis, which is not the standard one).
const driverBasis = 1469598103934665603
const driverPrime = 1099511628211

func DriverHash(b []byte) uint64 { return DriverHashMore(driverBasis, b) }
func DriverHashMore(h uint64, b []byte) uint64 {
	for _, c := range b {
		h ^= uint64(c)
		h *= driverPrime
	}
	return h
}

// FramesHash folds the per-frame pixel-buffer hashes the way the driver does
// (each 64-bit hash enters as its 8 little-endian bytes).
func FramesHash(frameHashes []uint64) uint64 {
	h := uint64(driverBasis)
	var b [8]byte
	for _, ph := range frameHashes {
		binary.LittleEndian.PutUint64(b[:], ph)
		h = DriverHashMore(h, b[:])
	}
	return h
}

// Canvas is a w x h BGRA_NONPREMUL buffer as the driver allocates it: every
// byte 0xA5 until a frame is drawn (the jobs use prefill=A5).
type Canvas struct {
	W, H int
	Pix  []byte
}

func NewCanvas(w, h int) *Canvas {
	c := &Canvas{W: w, H: h, Pix: make([]byte, w*h*4)}
	for i := range c.Pix {
		c.Pix[i] = 0xA5
	}
	return c
}

func (c *Canvas) Set(x, y int, b, g, r, a uint8) {
	if x < 0 || y < 0 || x >= c.W || y >= c.H {
		return
	}
	o := (y*c.W + x) * 4
	c.Pix[o], c.Pix[o+1], c.Pix[o+2], c.Pix[o+3] = b, g, r, a
}

// OutFile is the layout of stddrive's out= file for images.
func (c *Canvas) OutFile() []byte {
	b := make([]byte, 8, 8+len(c.Pix))
	binary.LittleEndian.PutUint32(b[0:], uint32(c.W))
	binary.LittleEndian.PutUint32(b[4:], uint32(c.H))
	return append(b, c.Pix...)
}

// NonPremul8 gives the non-premultiplied 8-bit channels of a pixel of the image
// types image/png and image/gif produce or accept, without a round trip through
// premultiplied alpha (16-bit samples are reduced by dropping the low byte).
func NonPremul8(m image.Image, x, y int) (r, g, b, a uint8) {
	switch p := m.(type) {
	case *image.Gray:
		v := p.GrayAt(x, y).Y
		return v, v, v, 255
	case *image.Gray16:
		v := uint8(p.Gray16At(x, y).Y >> 8)
		return v, v, v, 255
	case *image.NRGBA:
		c := p.NRGBAAt(x, y)
		return c.R, c.G, c.B, c.A
	case *image.NRGBA64:
		c := p.NRGBA64At(x, y)
		return uint8(c.R >> 8), uint8(c.G >> 8), uint8(c.B >> 8), uint8(c.A >> 8)
	case *image.RGBA:
		c := p.RGBAAt(x, y)
		if c.A == 255 || c.A == 0 {
			return c.R, c.G, c.B, c.A
		}
		n := color.NRGBAModel.Convert(c).(color.NRGBA)
		return n.R, n.G, n.B, n.A
	case *image.RGBA64:
		c := p.RGBA64At(x, y)
		if c.A == 0xFFFF || c.A == 0 {
			return uint8(c.R >> 8), uint8(c.G >> 8), uint8(c.B >> 8), uint8(c.A >> 8)
		}
		n := color.NRGBA64Model.Convert(c).(color.NRGBA64)
		return uint8(n.R >> 8), uint8(n.G >> 8), uint8(n.B >> 8), uint8(n.A >> 8)
	case *image.Paletted:
		return PaletteNonPremul8(p.Palette[p.ColorIndexAt(x, y)])
	}
	n := color.NRGBAModel.Convert(m.At(x, y)).(color.NRGBA)
	return n.R, n.G, n.B, n.A
}

func PaletteNonPremul8(c color.Color) (r, g, b, a uint8) {
	switch q := c.(type) {
	case color.NRGBA:
		return q.R, q.G, q.B, q.A
	case color.RGBA:
		if q.A == 255 || q.A == 0 {
			return q.R, q.G, q.B, q.A
		}
	}
	n := color.NRGBAModel.Convert(c).(color.NRGBA)
	return n.R, n.G, n.B, n.A
}

// IsExactAlpha reports whether the image's pixels can be read back without a
// premultiplication round trip (every type except RGBA/RGBA64 with partial alpha).
func IsExactAlpha(m image.Image) bool {
	switch p := m.(type) {
	case *image.RGBA:
		for i := 3; i < len(p.Pix); i += 4 {
			if p.Pix[i] != 0 && p.Pix[i] != 255 {
				return false
			}
		}
	case *image.RGBA64:
		for i := 6; i+1 < len(p.Pix); i += 8 {
			a := uint16(p.Pix[i])<<8 | uint16(p.Pix[i+1])
			if a != 0 && a != 0xFFFF {
				return false
			}
		}
	}
	return true
}

// DrawFrame overwrites the frame's rectangle (PIXEL_BLEND__SRC, which is what
// the driver passes to decode_frame) with the image's pixels.
func (c *Canvas) DrawFrame(m image.Image) {
	r := m.Bounds()
	for y := r.Min.Y; y < r.Max.Y; y++ {
		for x := r.Min.X; x < r.Max.X; x++ {
			rr, gg, bb, aa := NonPremul8(m, x, y)
			c.Set(x, y, bb, gg, rr, aa)
		}
	}
}

// PngChunk appends one chunk (length, type, data, CRC-32 of type and data).
func PngChunk(dst []byte, typ string, data []byte) []byte {
	var l [4]byte
	binary.BigEndian.PutUint32(l[:], uint32(len(data)))
	dst = append(dst, l[:]...)
	start := len(dst)
	dst = append(dst, typ...)
	dst = append(dst, data...)
	binary.BigEndian.PutUint32(l[:], crc32.ChecksumIEEE(dst[start:]))
	return append(dst, l[:]...)
}

var PngSignature = []byte{0x89, 'P', 'N', 'G', 0x0D, 0x0A, 0x1A, 0x0A}

// PngFromScanlines assembles a non-interlaced PNG whose IDAT data is the zlib
// compression (at the given compress/zlib level) of the given scanline bytes
// (filter type bytes included), split into idatParts chunks.
func PngFromScanlines(w, h, depth, colorType int, scanlines []byte, level int, idatParts int) ([]byte, error) {
	var z bytes.Buffer
	zw, err := zlib.NewWriterLevel(&z, level)
	if err != nil {
		return nil, err
	}
	if _, err := zw.Write(scanlines); err != nil {
		return nil, err
	}
	if err := zw.Close(); err != nil {
		return nil, err
	}
	out := append([]byte{}, PngSignature...)
	ihdr := make([]byte, 13)
	binary.BigEndian.PutUint32(ihdr[0:], uint32(w))
	binary.BigEndian.PutUint32(ihdr[4:], uint32(h))
	ihdr[8], ihdr[9] = byte(depth), byte(colorType)
	out = PngChunk(out, "IHDR", ihdr)
	zb := z.Bytes()
	if idatParts < 1 {
		idatParts = 1
	}
	for i := 0; i < idatParts; i++ {
		lo, hi := len(zb)*i/idatParts, len(zb)*(i+1)/idatParts
		out = PngChunk(out, "IDAT", zb[lo:hi])
	}
	return PngChunk(out, "IEND", nil), nil
}

// Package jpegwalk is an independent walker over a baseline sequential JPEG
// file, written from ITU-T T.81 (Annexes A, B, C, F) and NOT from
// lib/lowleveljpeg: it imports nothing of wuffs.  It recognises the marker
// structure (SOI, APPn, COM, DQT, SOF0, DHT, SOS, EOI), reports the contents of
// each segment as an event, and decodes the single interleaved (or
// one-component) scan with the Huffman tables found IN THE FILE: byte
// un-stuffing, DECODE (F.2.2.3), RECEIVE/EXTEND (F.2.2.1/F.2.2.4), DC prediction per
// component (F.2.1.3.1), run/size, ZRL and EOB (F.2.2.2), the padding of the
// last byte.  It makes no judgement: what the events must look like is stated
// in spec/Trace_Jpeg.tla.  Anything it cannot walk becomes an "error" event
// (which the specification rejects).
//
// Not supported (reported as "error"): restart intervals (DRI with Ri != 0),
// more than one scan, progressive / extended / arithmetic frames.
package jpegwalk

import "fmt"

// Event is one ndjson-able event.  Field "k" is the kind.
type Event map[string]interface{}

type comp struct {
	id, h, v, tq int
}

type huff struct {
	defined bool
	counts  [17]int // counts[l] = number of codes of length l (1..16)
	vals    []int
	mincode [17]int
	maxcode [17]int // -1 if no code of that length
	valptr  [17]int
}

// build generates the code table of Annex C (Figures C.1-C.3) in the
// min/max/valptr form of F.2.2.3 (Figure F.15).
func (h *huff) build() {
	code, k := 0, 0
	for l := 1; l <= 16; l++ {
		h.valptr[l] = k
		h.mincode[l] = code
		code += h.counts[l]
		k += h.counts[l]
		if h.counts[l] == 0 {
			h.maxcode[l] = -1
		} else {
			h.maxcode[l] = code - 1
		}
		code <<= 1
	}
}

type bitReader struct {
	d     []byte
	pos   int
	cur   byte
	nbits int
	err   string
	ffs   int // number of stuffed 0xFF data bytes seen
}

func (b *bitReader) bit() int {
	if b.err != "" {
		return 0
	}
	if b.nbits == 0 {
		if b.pos >= len(b.d) {
			b.err = "end of file inside entropy-coded data"
			return 0
		}
		c := b.d[b.pos]
		if c == 0xFF {
			if b.pos+1 >= len(b.d) {
				b.err = "end of file after 0xFF inside entropy-coded data"
				return 0
			}
			if b.d[b.pos+1] != 0x00 {
				b.err = fmt.Sprintf("marker 0xFF%02X inside entropy-coded data (more MCUs expected)", b.d[b.pos+1])
				return 0
			}
			b.pos += 2
			b.ffs++
		} else {
			b.pos++
		}
		b.cur = c
		b.nbits = 8
	}
	v := int(b.cur >> 7)
	b.cur <<= 1
	b.nbits--
	return v
}

// receive is RECEIVE(SSSS) of F.2.2.4.
func (b *bitReader) receive(s int) int {
	v := 0
	for i := 0; i < s; i++ {
		v = (v << 1) | b.bit()
	}
	return v
}

// extend is EXTEND(V, T) of F.2.2.1 (Figure F.12).
func extend(v, t int) int {
	if t == 0 {
		return 0
	}
	if v < (1 << uint(t-1)) {
		return v + (-1 << uint(t)) + 1
	}
	return v
}

// decode is DECODE of F.2.2.3 (Figure F.16).
func (b *bitReader) decode(h *huff) int {
	code := 0
	for l := 1; l <= 16; l++ {
		code = (code << 1) | b.bit()
		if b.err != "" {
			return 0
		}
		if h.maxcode[l] >= 0 && code <= h.maxcode[l] && code >= h.mincode[l] {
			return h.vals[h.valptr[l]+code-h.mincode[l]]
		}
	}
	b.err = "bit string is not a code of the Huffman table"
	return 0
}

func ints(b []byte) []int {
	r := make([]int, len(b))
	for i, v := range b {
		r[i] = int(v)
	}
	return r
}

// Walk parses d and returns the events.  Decoded blocks are "blk" events with
// "mcu" (index of the MCU), "comp" (0-based index of the component in the
// scan) and "zz": the 64 quantised coefficients in the order they are coded
// (zig-zag order), zz[0] being the DC value after prediction.
func Walk(d []byte) (evs []Event) {
	pos := 0
	fail := func(msg string) []Event {
		return append(evs, Event{"k": "error", "at": pos, "msg": msg})
	}
	if len(d) < 2 || d[0] != 0xFF || d[1] != 0xD8 {
		return fail("file does not start with SOI")
	}
	evs = append(evs, Event{"k": "SOI"})
	pos = 2

	var frame []comp
	haveFrame := false
	fx, fy := 0, 0
	var dc, ac [4]huff
	scans := 0

	for {
		if pos >= len(d) {
			return fail("end of file before EOI")
		}
		if d[pos] != 0xFF {
			return fail(fmt.Sprintf("expected a marker, found byte 0x%02X", d[pos]))
		}
		fill := -1
		for pos < len(d) && d[pos] == 0xFF {
			pos++
			fill++
		}
		if pos >= len(d) {
			return fail("end of file inside a marker")
		}
		m := int(d[pos])
		pos++
		switch {
		case m == 0xD9:
			evs = append(evs, Event{"k": "EOI", "fill": fill})
			evs = append(evs, Event{"k": "EOF", "trailing": len(d) - pos})
			return evs
		case m == 0x00:
			return fail("0xFF00 outside entropy-coded data")
		case m == 0xD8:
			return fail("second SOI")
		case (m >= 0xD0 && m <= 0xD7) || m == 0x01:
			return fail(fmt.Sprintf("unexpected stand-alone marker 0xFF%02X", m))
		}
		// a marker segment with a length field
		if pos+2 > len(d) {
			return fail("end of file inside a segment length")
		}
		L := int(d[pos])<<8 | int(d[pos+1])
		if L < 2 || pos+L > len(d) {
			return fail(fmt.Sprintf("segment 0xFF%02X: bad length %d", m, L))
		}
		p := d[pos+2 : pos+L]
		segAt := pos
		pos += L
		switch {
		case m == 0xDB: // DQT (B.2.4.1)
			tabs := []interface{}{}
			for len(p) > 0 {
				pq, tq := int(p[0]>>4), int(p[0]&15)
				n := 64
				if pq != 0 {
					n = 128
				}
				if pq > 1 || len(p) < 1+n {
					pos = segAt
					return fail("DQT: malformed table")
				}
				v := make([]int, 64)
				for i := 0; i < 64; i++ {
					if pq == 0 {
						v[i] = int(p[1+i])
					} else {
						v[i] = int(p[1+2*i])<<8 | int(p[2+2*i])
					}
				}
				tabs = append(tabs, Event{"pq": pq, "tq": tq, "v": v})
				p = p[1+n:]
			}
			evs = append(evs, Event{"k": "DQT", "len": L, "fill": fill, "tables": tabs})
		case m == 0xC4: // DHT (B.2.4.2)
			tabs := []interface{}{}
			for len(p) > 0 {
				if len(p) < 17 {
					pos = segAt
					return fail("DHT: malformed table")
				}
				tc, th := int(p[0]>>4), int(p[0]&15)
				var h huff
				n := 0
				for l := 1; l <= 16; l++ {
					h.counts[l] = int(p[l])
					n += int(p[l])
				}
				if len(p) < 17+n {
					pos = segAt
					return fail("DHT: malformed table")
				}
				h.vals = ints(p[17 : 17+n])
				h.defined = true
				h.build()
				if tc <= 1 && th <= 3 {
					if tc == 0 {
						dc[th] = h
					} else {
						ac[th] = h
					}
				}
				tabs = append(tabs, Event{"tc": tc, "th": th, "counts": append([]int{}, h.counts[1:]...), "syms": h.vals})
				p = p[17+n:]
			}
			evs = append(evs, Event{"k": "DHT", "len": L, "fill": fill, "tables": tabs})
		case m == 0xC0: // SOF0 (B.2.2)
			if len(p) < 6 || len(p) != 6+3*int(p[5]) {
				pos = segAt
				return fail("SOF0: malformed frame header")
			}
			if haveFrame {
				pos = segAt
				return fail("second frame header")
			}
			haveFrame = true
			fy, fx = int(p[1])<<8|int(p[2]), int(p[3])<<8|int(p[4])
			cs := []interface{}{}
			for i := 0; i < int(p[5]); i++ {
				c := comp{int(p[6+3*i]), int(p[7+3*i] >> 4), int(p[7+3*i] & 15), int(p[8+3*i])}
				frame = append(frame, c)
				cs = append(cs, Event{"id": c.id, "h": c.h, "v": c.v, "tq": c.tq})
			}
			evs = append(evs, Event{"k": "SOF0", "len": L, "fill": fill, "p": int(p[0]), "y": fy, "x": fx, "nf": int(p[5]), "comps": cs})
		case m >= 0xC1 && m <= 0xCF && m != 0xC4 && m != 0xC8 && m != 0xCC:
			evs = append(evs, Event{"k": "SOFOTHER", "marker": m})
			return fail("not a baseline frame")
		case m == 0xDD:
			if len(p) != 2 {
				pos = segAt
				return fail("DRI: malformed")
			}
			ri := int(p[0])<<8 | int(p[1])
			evs = append(evs, Event{"k": "DRI", "ri": ri})
			if ri != 0 {
				return fail("restart intervals are not supported by this walker")
			}
		case m >= 0xE0 && m <= 0xEF:
			evs = append(evs, Event{"k": "APP", "n": m - 0xE0, "len": L, "fill": fill})
		case m == 0xFE:
			evs = append(evs, Event{"k": "COM", "len": L, "fill": fill})
		case m == 0xDA: // SOS (B.2.3) followed by the entropy-coded segment
			if len(p) < 4 || len(p) != 4+2*int(p[0]) {
				pos = segAt
				return fail("SOS: malformed scan header")
			}
			ns := int(p[0])
			scs := []interface{}{}
			type sc struct{ cs, td, ta int }
			var scan []sc
			for i := 0; i < ns; i++ {
				s := sc{int(p[1+2*i]), int(p[2+2*i] >> 4), int(p[2+2*i] & 15)}
				scan = append(scan, s)
				scs = append(scs, Event{"cs": s.cs, "td": s.td, "ta": s.ta})
			}
			q := p[1+2*ns:]
			evs = append(evs, Event{"k": "SOS", "len": L, "fill": fill, "ns": ns, "comps": scs,
				"ss": int(q[0]), "se": int(q[1]), "ah": int(q[2] >> 4), "al": int(q[2] & 15)})
			scans++
			if scans > 1 {
				return fail("more than one scan is not supported by this walker")
			}
			if !haveFrame {
				return fail("scan before frame header")
			}
			if int(q[0]) != 0 || int(q[1]) != 63 || q[2] != 0 {
				return fail("not a sequential scan")
			}
			// bind scan components to frame components (B.2.3: same order)
			var sel []comp
			hmax, vmax := 1, 1
			for _, c := range frame {
				if c.h < 1 || c.h > 4 || c.v < 1 || c.v > 4 {
					return fail("bad sampling factor")
				}
				if c.h > hmax {
					hmax = c.h
				}
				if c.v > vmax {
					vmax = c.v
				}
			}
			for _, s := range scan {
				found := false
				for _, c := range frame {
					if c.id == s.cs {
						sel = append(sel, c)
						found = true
						break
					}
				}
				if !found {
					return fail("scan component not in frame")
				}
				if s.td > 3 || s.ta > 3 || !dc[s.td].defined || !ac[s.ta].defined {
					return fail("scan refers to an undefined Huffman table")
				}
			}
			if fx == 0 || fy == 0 {
				return fail("zero dimension (DNL not supported)")
			}
			ceil := func(a, b int) int { return (a + b - 1) / b }
			nmcu := 0
			if ns > 1 {
				nmcu = ceil(fx, 8*hmax) * ceil(fy, 8*vmax) // A.2.3
			} else {
				// A.2.2: non-interleaved: the component's own data units
				c := sel[0]
				nmcu = ceil(ceil(fx*c.h, hmax), 8) * ceil(ceil(fy*c.v, vmax), 8)
			}
			br := &bitReader{d: d, pos: pos}
			pred := make([]int, ns)
			for mi := 0; mi < nmcu; mi++ {
				for ci := 0; ci < ns; ci++ {
					nb := sel[ci].h * sel[ci].v
					if ns == 1 {
						nb = 1
					}
					for b := 0; b < nb; b++ {
						zz := make([]int, 64)
						t := br.decode(&dc[scan[ci].td])
						if br.err == "" && t > 11 {
							br.err = fmt.Sprintf("DC category %d > 11", t)
						}
						if br.err == "" {
							pred[ci] += extend(br.receive(t), t)
							zz[0] = pred[ci]
						}
						nzrl, eob := 0, 0
						for k := 1; k <= 63 && br.err == ""; {
							rs := br.decode(&ac[scan[ci].ta])
							if br.err != "" {
								break
							}
							r, s := rs>>4, rs&15
							if s == 0 {
								if r == 15 {
									k += 16
									nzrl++
									if k > 63 {
										br.err = "ZRL runs past the end of the block"
									}
									continue
								}
								if r != 0 {
									br.err = fmt.Sprintf("run/size 0x%02X is not valid in a sequential scan", rs)
									break
								}
								eob = 1
								break
							}
							if s > 10 {
								br.err = fmt.Sprintf("AC category %d > 10", s)
								break
							}
							k += r
							if k > 63 {
								br.err = "AC run past the end of the block"
								break
							}
							zz[k] = extend(br.receive(s), s)
							k++
						}
						if br.err != "" {
							pos = br.pos
							return fail(fmt.Sprintf("mcu %d comp %d block %d: %s", mi, ci, b, br.err))
						}
						evs = append(evs, Event{"k": "blk", "mcu": mi, "comp": ci, "zz": zz, "zrl": nzrl, "eob": eob})
					}
				}
			}
			// padding of the last byte (F.1.2.3) and what follows
			pad := br.nbits
			ones := true
			for i := 0; i < br.nbits; i++ {
				if (br.cur<<uint(i))&0x80 == 0 {
					ones = false
				}
			}
			pos = br.pos
			extra := 0
			for pos < len(d) {
				if d[pos] == 0xFF {
					if pos+1 < len(d) && d[pos+1] == 0x00 {
						pos += 2
						extra++
						continue
					}
					break
				}
				pos++
				extra++
			}
			evs = append(evs, Event{"k": "ECSEND", "mcus": nmcu, "pad": pad, "padones": ones, "extra": extra, "stuffed": br.ffs})
		default:
			evs = append(evs, Event{"k": "OTHER", "marker": m, "len": L})
		}
	}
}

// Package racfmt encodes RAC Branch Nodes from an abstract description.
//
// The byte layout is written from doc/spec/rac-spec.md ("Branch Nodes"), not
// copied from lib/rac:
//
//	group 0      : Magic(3) Arity(1) Checksum(2) Reserved(1) TTag[0](1)
//	group i<Arity: DPtr[i](6)            Reserved(1) TTag[i](1)
//	group Arity  : DPtrMax(6)            Reserved(1) CodecByte(1)
//	then i<Arity : CPtr[i](6) CLen[i](1) STag[i](1)
//	last         : CPtrMax(6) Version(1) Arity(1)
//
// Checksum = low 16 bits XOR high 16 bits of CRC-32/IEEE over the
// (16*Arity + 10) bytes after the checksum, little-endian.  The checksum is
// always repaired (computed last) unless the node carries Dmg = 3.
//
// Users: cmd/racireplay (C15: hostile index graphs, any field may be wrong on
// purpose) and cmd/racrreplay (C14: structurally diverse VALID files).
package racfmt

import "hash/crc32"

// Node is one Branch Node, field by field.  DPtr holds DPtr[1..Arity] (DPtr[0]
// is implicit), the other slices hold one value per element.
type Node struct {
	Off, CMax         int64 // Branch COffset (not encoded; for the caller's bookkeeping), CPtrMax
	Ar, Ar2, Ver, Cod int   // Arity byte at the start / at the end, Version, CodecByte
	Dmg               int   // 0 none, 1 magic, 2 reserved byte, 3 checksum
	DPtr, CPtr        []int64
	TTag, CLen, STag  []int
}

// Put48 stores the low 48 bits of v, little-endian.
func Put48(b []byte, v int64) {
	for i := 0; i < 6; i++ {
		b[i] = byte(uint64(v) >> (8 * uint(i)))
	}
}

// NodeChecksum computes the two Checksum bytes of the encoded node b.
func NodeChecksum(b []byte) (byte, byte) {
	c := crc32.ChecksumIEEE(b[6:])
	c ^= c >> 16
	return byte(c), byte(c >> 8)
}

// Size is the encoded size of a Branch Node of the given arity.
func Size(arity int) int { return 16*arity + 16 }

// EncodeNode returns the (16*Ar + 16) bytes of n.
func EncodeNode(n Node) []byte {
	ar := n.Ar
	size := 16*ar + 16
	b := make([]byte, size)
	b[0], b[1], b[2] = 0x72, 0xC3, 0x63
	if n.Dmg == 1 {
		b[2] = 0x64
	}
	b[3] = byte(ar)
	for i := 1; i <= ar; i++ {
		Put48(b[8*i:], n.DPtr[i-1])
	}
	for i := 0; i < ar; i++ {
		b[8*i+7] = byte(n.TTag[i])
	}
	b[8*ar+7] = byte(n.Cod)
	if n.Dmg == 2 {
		b[8*ar+6] = 1
	}
	base := 8*ar + 8
	for i := 0; i < ar; i++ {
		Put48(b[base+8*i:], n.CPtr[i])
		b[base+8*i+6] = byte(n.CLen[i])
		b[base+8*i+7] = byte(n.STag[i])
	}
	Put48(b[base+8*ar:], n.CMax)
	b[base+8*ar+6] = byte(n.Ver)
	b[base+8*ar+7] = byte(n.Ar2)
	b[4], b[5] = NodeChecksum(b)
	if n.Dmg == 3 {
		b[4] ^= 0x5A
	}
	return b
}

// wreg.h - registry of generated objects for harness/c/protodrive.c (check C08).
//
// Same idea as the DEF/ENT registry of stddrive.c, extended with thunks that
// call the CONCRETE generated functions (wuffs_gif__decoder__decode_frame, ...)
// and not only the generic interface wrappers of base: the life-cycle checks of
// interest are the ones internal/cgen/func.go writes into every public
// function's prologue.  Include after the generated C.
//
// With -DPROTO_TWOCORO the only object is the generated test object of
// harness/testdata/c08/twocoro.wuffs.

#ifndef VERIF_WREG_H
#define VERIF_WREG_H

enum { K_XFORM, K_HASH, K_IMAGE, K_TOKEN, K_TWOCORO };
static const char* const g_kind_names[] = {"xform", "hasher", "image", "token", "twocoro"};

typedef struct {
  const char* name;
  int kind;
  int hash_bits;  // hashers: 32 or 256
  size_t (*size)(void);
  wuffs_base__status (*init)(void* self, size_t sz, uint64_t ver, uint32_t opts);
  void* (*upcast)(void* self);
  // direct (concrete) entry points; NULL where the kind has none
  wuffs_base__status (*set_quirk)(void*, uint32_t, uint64_t);
  wuffs_base__range_ii_u64 (*workbuf_len)(const void*);
  wuffs_base__status (*transform_io)(void*, wuffs_base__io_buffer*, wuffs_base__io_buffer*, wuffs_base__slice_u8);
  wuffs_base__status (*decode_tokens)(void*, wuffs_base__token_buffer*, wuffs_base__io_buffer*, wuffs_base__slice_u8);
  wuffs_base__status (*dic)(void*, wuffs_base__image_config*, wuffs_base__io_buffer*);
  wuffs_base__status (*dfc)(void*, wuffs_base__frame_config*, wuffs_base__io_buffer*);
  wuffs_base__status (*df)(void*, wuffs_base__pixel_buffer*, wuffs_base__io_buffer*, wuffs_base__pixel_blend,
                           wuffs_base__slice_u8, wuffs_base__decode_frame_options*);
  wuffs_base__status (*tmm)(void*, wuffs_base__io_buffer*, wuffs_base__more_information*, wuffs_base__io_buffer*);
  wuffs_base__status (*restart_frame)(void*, uint64_t, uint64_t);
  void (*set_report_metadata)(void*, uint32_t, bool);
  uint64_t (*num_decoded_frames)(const void*);
  void (*update)(void*, wuffs_base__slice_u8);
  uint64_t (*checksum)(const void*);
  // the test object
  wuffs_base__status (*foo)(void*, wuffs_base__io_buffer*);
  wuffs_base__status (*bar)(void*, wuffs_base__io_buffer*);
  wuffs_base__status (*set_mode)(void*, uint32_t);
  void (*set_level)(void*, uint32_t);
  uint64_t (*get_sum)(const void*);
} obj_t;

#define DEF_COMMON(pkg, T)                                                                            \
  static wuffs_base__status init_##pkg##_##T(void* s, size_t sz, uint64_t v, uint32_t o) {            \
    return wuffs_##pkg##__##T##__initialize((wuffs_##pkg##__##T*)s, sz, v, o);                        \
  }

#ifndef PROTO_TWOCORO

#define DEF_UP(pkg, T, iface)                                                                         \
  static void* up_##pkg##_##T(void* s) {                                                              \
    return wuffs_##pkg##__##T##__upcast_as__wuffs_base__##iface((wuffs_##pkg##__##T*)s);              \
  }                                                                                                   \
  static wuffs_base__status sq_##pkg##_##T(void* s, uint32_t k, uint64_t v) {                         \
    return wuffs_##pkg##__##T##__set_quirk((wuffs_##pkg##__##T*)s, k, v);                             \
  }

#define DEF_XFORM(pkg)                                                                                \
  DEF_COMMON(pkg, decoder)                                                                            \
  DEF_UP(pkg, decoder, io_transformer)                                                                \
  static wuffs_base__range_ii_u64 wl_##pkg(const void* s) {                                           \
    return wuffs_##pkg##__decoder__workbuf_len((const wuffs_##pkg##__decoder*)s);                     \
  }                                                                                                   \
  static wuffs_base__status tio_##pkg(void* s, wuffs_base__io_buffer* d, wuffs_base__io_buffer* r,    \
                                      wuffs_base__slice_u8 w) {                                       \
    return wuffs_##pkg##__decoder__transform_io((wuffs_##pkg##__decoder*)s, d, r, w);                 \
  }
#define ENT_XFORM(nm, pkg)                                                                            \
  { .name = nm, .kind = K_XFORM, .size = sizeof__wuffs_##pkg##__decoder, .init = init_##pkg##_decoder, \
    .upcast = up_##pkg##_decoder, .set_quirk = sq_##pkg##_decoder, .workbuf_len = wl_##pkg,           \
    .transform_io = tio_##pkg }

#define DEF_TOKEN(pkg)                                                                                \
  DEF_COMMON(pkg, decoder)                                                                            \
  DEF_UP(pkg, decoder, token_decoder)                                                                 \
  static wuffs_base__range_ii_u64 wl_##pkg(const void* s) {                                           \
    return wuffs_##pkg##__decoder__workbuf_len((const wuffs_##pkg##__decoder*)s);                     \
  }                                                                                                   \
  static wuffs_base__status dt_##pkg(void* s, wuffs_base__token_buffer* d, wuffs_base__io_buffer* r,  \
                                     wuffs_base__slice_u8 w) {                                        \
    return wuffs_##pkg##__decoder__decode_tokens((wuffs_##pkg##__decoder*)s, d, r, w);                \
  }
#define ENT_TOKEN(nm, pkg)                                                                            \
  { .name = nm, .kind = K_TOKEN, .size = sizeof__wuffs_##pkg##__decoder, .init = init_##pkg##_decoder, \
    .upcast = up_##pkg##_decoder, .set_quirk = sq_##pkg##_decoder, .workbuf_len = wl_##pkg,           \
    .decode_tokens = dt_##pkg }

#define DEF_IMAGE(pkg)                                                                                \
  DEF_COMMON(pkg, decoder)                                                                            \
  DEF_UP(pkg, decoder, image_decoder)                                                                 \
  static wuffs_base__range_ii_u64 wl_##pkg(const void* s) {                                           \
    return wuffs_##pkg##__decoder__workbuf_len((const wuffs_##pkg##__decoder*)s);                     \
  }                                                                                                   \
  static wuffs_base__status dic_##pkg(void* s, wuffs_base__image_config* d, wuffs_base__io_buffer* r) { \
    return wuffs_##pkg##__decoder__decode_image_config((wuffs_##pkg##__decoder*)s, d, r);             \
  }                                                                                                   \
  static wuffs_base__status dfc_##pkg(void* s, wuffs_base__frame_config* d, wuffs_base__io_buffer* r) { \
    return wuffs_##pkg##__decoder__decode_frame_config((wuffs_##pkg##__decoder*)s, d, r);             \
  }                                                                                                   \
  static wuffs_base__status df_##pkg(void* s, wuffs_base__pixel_buffer* d, wuffs_base__io_buffer* r,  \
                                     wuffs_base__pixel_blend b, wuffs_base__slice_u8 w,               \
                                     wuffs_base__decode_frame_options* o) {                           \
    return wuffs_##pkg##__decoder__decode_frame((wuffs_##pkg##__decoder*)s, d, r, b, w, o);           \
  }                                                                                                   \
  static wuffs_base__status tmm_##pkg(void* s, wuffs_base__io_buffer* d, wuffs_base__more_information* m, \
                                      wuffs_base__io_buffer* r) {                                     \
    return wuffs_##pkg##__decoder__tell_me_more((wuffs_##pkg##__decoder*)s, d, m, r);                 \
  }                                                                                                   \
  static wuffs_base__status rf_##pkg(void* s, uint64_t i, uint64_t p) {                               \
    return wuffs_##pkg##__decoder__restart_frame((wuffs_##pkg##__decoder*)s, i, p);                   \
  }                                                                                                   \
  static void srm_##pkg(void* s, uint32_t f, bool r) {                                                \
    wuffs_##pkg##__decoder__set_report_metadata((wuffs_##pkg##__decoder*)s, f, r);                    \
  }                                                                                                   \
  static uint64_t ndf_##pkg(const void* s) {                                                          \
    return wuffs_##pkg##__decoder__num_decoded_frames((const wuffs_##pkg##__decoder*)s);              \
  }
#define ENT_IMAGE(nm, pkg)                                                                            \
  { .name = nm, .kind = K_IMAGE, .size = sizeof__wuffs_##pkg##__decoder, .init = init_##pkg##_decoder, \
    .upcast = up_##pkg##_decoder, .set_quirk = sq_##pkg##_decoder, .workbuf_len = wl_##pkg,           \
    .dic = dic_##pkg, .dfc = dfc_##pkg, .df = df_##pkg, .tmm = tmm_##pkg, .restart_frame = rf_##pkg,   \
    .set_report_metadata = srm_##pkg, .num_decoded_frames = ndf_##pkg }

#define DEF_HASH(pkg, T, iface, SUMEXPR)                                                              \
  DEF_COMMON(pkg, T)                                                                                  \
  DEF_UP(pkg, T, iface)                                                                               \
  static void upd_##pkg(void* s, wuffs_base__slice_u8 x) {                                            \
    wuffs_##pkg##__##T##__update((wuffs_##pkg##__##T*)s, x);                                          \
  }                                                                                                   \
  static uint64_t sum_##pkg(const void* s0) {                                                         \
    const wuffs_##pkg##__##T* s = (const wuffs_##pkg##__##T*)s0;                                      \
    return SUMEXPR;                                                                                   \
  }
#define ENT_HASH(nm, pkg, T, bits)                                                                    \
  { .name = nm, .kind = K_HASH, .hash_bits = bits, .size = sizeof__wuffs_##pkg##__##T,                 \
    .init = init_##pkg##_##T, .upcast = up_##pkg##_##T, .set_quirk = sq_##pkg##_##T, .update = upd_##pkg, \
    .checksum = sum_##pkg }

DEF_XFORM(deflate)
DEF_XFORM(zlib)
DEF_XFORM(gzip)
DEF_XFORM(lzw)
DEF_XFORM(bzip2)
DEF_HASH(crc32, ieee_hasher, hasher_u32, wuffs_crc32__ieee_hasher__checksum_u32(s))
DEF_HASH(sha256, hasher, hasher_bitvec256, wuffs_sha256__hasher__checksum_bitvec256(s).elements_u64[0])
DEF_IMAGE(gif)
DEF_IMAGE(png)
DEF_IMAGE(bmp)
DEF_IMAGE(jpeg)
DEF_IMAGE(wbmp)
DEF_TOKEN(json)

static const obj_t g_objs[] = {
    ENT_XFORM("deflate", deflate), ENT_XFORM("zlib", zlib), ENT_XFORM("gzip", gzip), ENT_XFORM("lzw", lzw),
    ENT_XFORM("bzip2", bzip2),     ENT_HASH("crc32", crc32, ieee_hasher, 32), ENT_HASH("sha256", sha256, hasher, 256),
    ENT_IMAGE("gif", gif),         ENT_IMAGE("png", png),  ENT_IMAGE("bmp", bmp),   ENT_IMAGE("jpeg", jpeg),
    ENT_IMAGE("wbmp", wbmp),       ENT_TOKEN("json", json),
};

#else  // PROTO_TWOCORO

DEF_COMMON(twocoro, thing)
static wuffs_base__status foo_twocoro(void* s, wuffs_base__io_buffer* r) {
  return wuffs_twocoro__thing__foo((wuffs_twocoro__thing*)s, r);
}
static wuffs_base__status bar_twocoro(void* s, wuffs_base__io_buffer* d) {
  return wuffs_twocoro__thing__bar((wuffs_twocoro__thing*)s, d);
}
static wuffs_base__status sm_twocoro(void* s, uint32_t m) {
  return wuffs_twocoro__thing__set_mode((wuffs_twocoro__thing*)s, m);
}
static void sl_twocoro(void* s, uint32_t n) { wuffs_twocoro__thing__set_level((wuffs_twocoro__thing*)s, n); }
static uint64_t gs_twocoro(const void* s) { return wuffs_twocoro__thing__get_sum((const wuffs_twocoro__thing*)s); }

static const obj_t g_objs[] = {
    {.name = "twocoro", .kind = K_TWOCORO, .size = sizeof__wuffs_twocoro__thing, .init = init_twocoro_thing,
     .foo = foo_twocoro, .bar = bar_twocoro, .set_mode = sm_twocoro, .set_level = sl_twocoro, .get_sum = gs_twocoro},
};

#endif  // PROTO_TWOCORO

static const obj_t* find_obj(const char* name) {
  for (size_t i = 0; i < sizeof(g_objs) / sizeof(g_objs[0]); i++) {
    if (!strcmp(g_objs[i].name, name)) return &g_objs[i];
  }
  return NULL;
}

#endif  // VERIF_WREG_H

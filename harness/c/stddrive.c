// stddrive.c - drives the C code that `wuffs gen` produced from /repo's working
// tree through the generic interfaces (io_transformer, hasher_*, image_decoder,
// token_decoder) under a job list, and logs ONE EVENT PER PUBLIC CALL as ndjson
// (schema: DESIGN.md appendix A.1).  The events are validated by TLC against
// spec/IOContract.tla / Trace_Std.tla; this program decides nothing except the
// byte comparisons TLC cannot do (memcmp against an oracle file, hashes).
//
// Build:  gcc -I<dir with wuffs-snapshot.c> stddrive.c   (see lib/stdbuild.py)
// Usage:  stddrive <jobs.txt> <events.ndjson>
//
// A job is one line of space-separated key=value pairs:
//   id=17 dec=deflate in=/path/file src=1,2,* srcmode=view|fresh dst=3,* dstmode=grow|compact
//   wb=min|max init=0|1|2 prefill=A5 close=end|late oracle=/path out=/path pixfmt=native|bgra quirks=k:v,k:v
//   maxcalls=N budget_ms=N parts=3,5,* (hashers)
//
// With -DVERIF_RANGE the snapshot must be the "checked build" (hook H3: cgen built with -tags verif and run
// with WUFFS_VERIF_RANGE=1): the driver installs the recorder for the run-time assertions of the compiler's
// own ranges and every event of a public call carries "range_viol": <violations during that call> (+ the first
// violating site and value).  Without it nothing changes.

#define WUFFS_IMPLEMENTATION
#include "wuffs-snapshot.c"

#include <errno.h>
#include <signal.h>
#include <stdio.h>
#include <stdlib.h>
#include <string.h>
#include <sys/time.h>
#include <unistd.h>

#if defined(__SANITIZE_ADDRESS__)
#include <sanitizer/asan_interface.h>
#define POISON(p, n) ASAN_POISON_MEMORY_REGION((p), (n))
#define UNPOISON(p, n) ASAN_UNPOISON_MEMORY_REGION((p), (n))
#else
#define POISON(p, n) ((void)0)
#define UNPOISON(p, n) ((void)0)
#endif

// ---------------------------------------------------------------- registry

enum { K_XFORM, K_H32, K_H64, K_H256, K_IMAGE, K_TOKEN };

typedef struct {
  const char* name;
  int kind;
  size_t (*size)(void);
  wuffs_base__status (*init)(void* self, size_t sz, uint64_t ver, uint32_t opts);
  void* (*upcast)(void* self);
} decoder_t;

#define DEF(pkg, T, iface)                                                      \
  static wuffs_base__status init_##pkg##_##T(void* s, size_t sz, uint64_t v,    \
                                             uint32_t o) {                      \
    return wuffs_##pkg##__##T##__initialize((wuffs_##pkg##__##T*)s, sz, v, o);  \
  }                                                                             \
  static void* up_##pkg##_##T(void* s) {                                        \
    return wuffs_##pkg##__##T##__upcast_as__wuffs_base__##iface(                \
        (wuffs_##pkg##__##T*)s);                                                \
  }
#define ENT(nm, pkg, T, kind) \
  { nm, kind, sizeof__wuffs_##pkg##__##T, init_##pkg##_##T, up_##pkg##_##T }

DEF(deflate, decoder, io_transformer)
DEF(zlib, decoder, io_transformer)
DEF(gzip, decoder, io_transformer)
DEF(lzw, decoder, io_transformer)
DEF(bzip2, decoder, io_transformer)
DEF(lzma, decoder, io_transformer)
DEF(lzip, decoder, io_transformer)
DEF(xz, decoder, io_transformer)
DEF(adler32, hasher, hasher_u32)
DEF(crc32, ieee_hasher, hasher_u32)
DEF(xxhash32, hasher, hasher_u32)
DEF(crc64, ecma_hasher, hasher_u64)
DEF(xxhash64, hasher, hasher_u64)
DEF(sha256, hasher, hasher_bitvec256)
DEF(bmp, decoder, image_decoder)
DEF(etc2, decoder, image_decoder)
DEF(gif, decoder, image_decoder)
DEF(handsum, decoder, image_decoder)
DEF(jpeg, decoder, image_decoder)
DEF(netpbm, decoder, image_decoder)
DEF(nie, decoder, image_decoder)
DEF(png, decoder, image_decoder)
DEF(qoi, decoder, image_decoder)
DEF(targa, decoder, image_decoder)
DEF(thumbhash, decoder, image_decoder)
DEF(wbmp, decoder, image_decoder)
DEF(webp, decoder, image_decoder)
DEF(cbor, decoder, token_decoder)
DEF(json, decoder, token_decoder)

static const decoder_t g_decoders[] = {
    ENT("deflate", deflate, decoder, K_XFORM),
    ENT("zlib", zlib, decoder, K_XFORM),
    ENT("gzip", gzip, decoder, K_XFORM),
    ENT("lzw", lzw, decoder, K_XFORM),
    ENT("bzip2", bzip2, decoder, K_XFORM),
    ENT("lzma", lzma, decoder, K_XFORM),
    ENT("lzip", lzip, decoder, K_XFORM),
    ENT("xz", xz, decoder, K_XFORM),
    ENT("adler32", adler32, hasher, K_H32),
    ENT("crc32", crc32, ieee_hasher, K_H32),
    ENT("xxhash32", xxhash32, hasher, K_H32),
    ENT("crc64", crc64, ecma_hasher, K_H64),
    ENT("xxhash64", xxhash64, hasher, K_H64),
    ENT("sha256", sha256, hasher, K_H256),
    ENT("bmp", bmp, decoder, K_IMAGE),
    ENT("etc2", etc2, decoder, K_IMAGE),
    ENT("gif", gif, decoder, K_IMAGE),
    ENT("handsum", handsum, decoder, K_IMAGE),
    ENT("jpeg", jpeg, decoder, K_IMAGE),
    ENT("netpbm", netpbm, decoder, K_IMAGE),
    ENT("nie", nie, decoder, K_IMAGE),
    ENT("png", png, decoder, K_IMAGE),
    ENT("qoi", qoi, decoder, K_IMAGE),
    ENT("targa", targa, decoder, K_IMAGE),
    ENT("thumbhash", thumbhash, decoder, K_IMAGE),
    ENT("wbmp", wbmp, decoder, K_IMAGE),
    ENT("webp", webp, decoder, K_IMAGE),
    ENT("cbor", cbor, decoder, K_TOKEN),
    ENT("json", json, decoder, K_TOKEN),
};

static const decoder_t* find_decoder(const char* name) {
  for (size_t i = 0; i < sizeof(g_decoders) / sizeof(g_decoders[0]); i++) {
    if (!strcmp(g_decoders[i].name, name)) return &g_decoders[i];
  }
  return NULL;
}

// ------------------------------------------------------------- allocation
// Plain build: linked with -Wl,--wrap=malloc,--wrap=calloc,--wrap=realloc,
// --wrap=free; any allocator call while g_in_call is set is counted.

static __thread volatile int g_in_call = 0;
static __thread volatile long g_allocs_in_call = 0;

#ifdef WRAP_ALLOC
void* __real_malloc(size_t);
void* __real_calloc(size_t, size_t);
void* __real_realloc(void*, size_t);
void __real_free(void*);
void* __wrap_malloc(size_t n) {
  if (g_in_call) g_allocs_in_call++;
  return __real_malloc(n);
}
void* __wrap_calloc(size_t a, size_t b) {
  if (g_in_call) g_allocs_in_call++;
  return __real_calloc(a, b);
}
void* __wrap_realloc(void* p, size_t n) {
  if (g_in_call) g_allocs_in_call++;
  return __real_realloc(p, n);
}
void __wrap_free(void* p) {
  if (g_in_call && p) g_allocs_in_call++;
  __real_free(p);
}
#endif

// ------------------------------------------------------------------ utils

static __thread FILE* g_ev = NULL;
static __thread long g_job_id = -1;
static __thread const char* g_phase = "";

// ---- range assertions of the checked build (H3)
#ifdef VERIF_RANGE
static void json_str(FILE* f, const char* s);
static unsigned long long g_rv_total = 0;    // violations recorded so far
static unsigned long long g_rv_emitted = 0;  // ... of which already reported in an event
static const wuffs_verif__site* g_rv_site = NULL;  // first violation since the last event
static wuffs_verif__wide g_rv_value = 0, g_rv_lo = 0, g_rv_hi = 0;

static void rv_record(const wuffs_verif__site* site, wuffs_verif__wide value, wuffs_verif__wide lo, wuffs_verif__wide hi) {
  if (g_rv_total == g_rv_emitted) {
    g_rv_site = site;
    g_rv_value = value;
    g_rv_lo = lo;
    g_rv_hi = hi;
  }
  g_rv_total++;
}

static void rv_dec(char* out, size_t n, wuffs_verif__wide v) {
  char tmp[48];
  int i = 0, neg = v < 0;
  unsigned __int128 u = neg ? (unsigned __int128)(-(v + 1)) + 1 : (unsigned __int128)v;
  do {
    tmp[i++] = (char)('0' + (int)(u % 10));
    u /= 10;
  } while (u && i < 45);
  size_t k = 0;
  if (neg && k + 1 < n) out[k++] = '-';
  while (i > 0 && k + 1 < n) out[k++] = tmp[--i];
  out[k] = 0;
}

// appends ,"range_viol":N[,"range_site":..,"range_value":..] to the event being written
static void rv_emit(FILE* f) {
  unsigned long long d = g_rv_total - g_rv_emitted;
  g_rv_emitted = g_rv_total;
  // (TLC's integers are 32-bit: the count is capped, the number of evaluated assertions is a string)
  fprintf(f, ",\"range_viol\":%llu", d > 1000000000ULL ? 1000000000ULL : d);
#ifdef WUFFS_VERIF_RANGE_COUNT
  {
    static unsigned long long evals_emitted = 0;
    fprintf(f, ",\"range_evals\":\"%llu\"", (unsigned long long)wuffs_verif__range_evaluations - evals_emitted);
    evals_emitted = wuffs_verif__range_evaluations;
  }
#endif
  if (d && g_rv_site) {
    char site[1024], v[48], lo[48], hi[48];
    rv_dec(v, sizeof v, g_rv_value);
    rv_dec(lo, sizeof lo, g_rv_lo);
    rv_dec(hi, sizeof hi, g_rv_hi);
    snprintf(site, sizeof site, "%s:%u %s [%s] %s claimed %s ..= %s", g_rv_site->file, (unsigned)g_rv_site->line,
             g_rv_site->func, g_rv_site->kind, g_rv_site->expr, g_rv_site->lo, g_rv_site->hi);
    fprintf(f, ",\"range_site\":");
    json_str(f, site);
    fprintf(f, ",\"range_file\":");
    json_str(f, g_rv_site->file);
    fprintf(f, ",\"range_line\":%u,\"range_kind\":\"%s\",\"range_value\":\"%s\",\"range_lo\":\"%s\",\"range_hi\":\"%s\"",
            (unsigned)g_rv_site->line, g_rv_site->kind, v, lo, hi);
  }
}
#define RV_EMIT(f) rv_emit(f)
#else
#define RV_EMIT(f) ((void)0)
#endif

// ---- pair mode: two jobs on two objects in two threads, either handing a
// baton over before every Wuffs call (deterministic interleaving) or running
// freely (real concurrency, for the TSan build).
#include <pthread.h>
static pthread_mutex_t g_mu = PTHREAD_MUTEX_INITIALIZER;
static pthread_cond_t g_cv = PTHREAD_COND_INITIALIZER;
static int g_turn = -1;          // -1: no baton
static int g_alive[2] = {0, 0};
static __thread int g_tid = -1;

static void baton_yield(void) {
  if (g_tid < 0) return;
  pthread_mutex_lock(&g_mu);
  if (g_turn >= 0) {
    int other = 1 - g_tid;
    if (g_alive[other]) {
      g_turn = other;
      pthread_cond_broadcast(&g_cv);
      while (g_turn != g_tid && g_alive[other]) pthread_cond_wait(&g_cv, &g_mu);
      g_turn = g_tid;
    }
  }
  pthread_mutex_unlock(&g_mu);
}

static uint64_t fnv(const uint8_t* p, size_t n) {
  uint64_t h = 1469598103934665603ULL;
  for (size_t i = 0; i < n; i++) {
    h ^= p[i];
    h *= 1099511628211ULL;
  }
  return h;
}
static uint64_t fnv_more(uint64_t h, const uint8_t* p, size_t n) {
  for (size_t i = 0; i < n; i++) {
    h ^= p[i];
    h *= 1099511628211ULL;
  }
  return h;
}

static void json_str(FILE* f, const char* s) {
  fputc('"', f);
  if (s) {
    for (; *s; s++) {
      unsigned char c = (unsigned char)*s;
      if (c == '"' || c == '\\') {
        fputc('\\', f);
        fputc(c, f);
      } else if (c < 0x20 || c >= 0x7F) {
        fprintf(f, "?");
      } else {
        fputc(c, f);
      }
    }
  }
  fputc('"', f);
}

static const char* cls_of(const char* repr) {
  if (!repr) return "ok";
  switch (repr[0]) {
    case '@': return "note";
    case '$': return "susp";
    case '#': return "err";
  }
  return "bad";
}

static void on_timeout(int sig) {
  (void)sig;
  // async-signal-safe enough for our purpose: the process ends here.
  char buf[160];
  int n = snprintf(buf, sizeof buf, "{\"j\":%ld,\"k\":\"timeout\",\"phase\":\"%s\"}\n", g_job_id, g_phase);
  if (g_ev) {
    fflush(g_ev);
    if (write(fileno(g_ev), buf, (size_t)n) < 0) {}
  }
  _exit(3);
}

static void arm_budget(long ms) {
  struct itimerval it;
  memset(&it, 0, sizeof it);
  it.it_value.tv_sec = ms / 1000;
  it.it_value.tv_usec = (ms % 1000) * 1000;
  setitimer(ITIMER_VIRTUAL, &it, NULL);
}

static uint8_t* read_file(const char* path, size_t* n) {
  FILE* f = fopen(path, "rb");
  if (!f) return NULL;
  fseek(f, 0, SEEK_END);
  long sz = ftell(f);
  fseek(f, 0, SEEK_SET);
  uint8_t* p = (uint8_t*)malloc(sz > 0 ? (size_t)sz : 1);
  if (sz > 0 && fread(p, 1, (size_t)sz, f) != (size_t)sz) {
    fclose(f);
    free(p);
    return NULL;
  }
  fclose(f);
  *n = (size_t)sz;
  return p;
}

// ------------------------------------------------------------------- jobs

#define MAXP 64
typedef struct {
  long n;
  long v[MAXP];  // -1 means "all the rest" / "ample"
} pieces_t;

typedef struct {
  long id;
  char dec[32];
  char in[512];
  char oracle[512];
  char out[512];
  pieces_t src, dst, parts;
  int noupdate;        // hashers: take the checksum without any update call (empty input only)
  int srcmode_fresh;   // 0 view, 1 fresh
  int dstmode_compact; // 0 grow, 1 compact
  int wb_max;
  int init;            // 0 default, 1 already zeroed, 2 leave internal buffers uninitialized
  int prefill;         // byte value
  int close_late;
  int pix_bgra;
  long maxcalls;
  long budget_ms;
  long skip;           // leading bytes of the input file that are not part of the stream
  char prior[512];     // decode this file first on the same object memory, then re-initialize (C09)
  char quirks[256];
} job_t;

static void parse_pieces(pieces_t* p, const char* s) {
  p->n = 0;
  while (*s && p->n < MAXP) {
    if (*s == '*') {
      p->v[p->n++] = -1;
      s++;
    } else {
      char* e;
      long v = strtol(s, &e, 10);
      if (e == s) break;
      p->v[p->n++] = v;
      s = e;
    }
    if (*s == ',') s++;
  }
  if (p->n == 0) {
    p->v[0] = -1;
    p->n = 1;
  }
}
static long piece_at(const pieces_t* p, long i) { return p->v[i < p->n ? i : p->n - 1]; }

static int parse_job(char* line, job_t* j) {
  memset(j, 0, sizeof *j);
  j->id = -1;
  j->prefill = 0xA5;
  j->maxcalls = 2000000;
  j->budget_ms = 20000;
  parse_pieces(&j->src, "*");
  parse_pieces(&j->dst, "*");
  parse_pieces(&j->parts, "*");
  for (char* tok = strtok(line, " \t\r\n"); tok; tok = strtok(NULL, " \t\r\n")) {
    char* eq = strchr(tok, '=');
    if (!eq) continue;
    *eq = 0;
    const char* k = tok;
    const char* v = eq + 1;
    if (!strcmp(k, "id")) j->id = atol(v);
    else if (!strcmp(k, "dec")) snprintf(j->dec, sizeof j->dec, "%s", v);
    else if (!strcmp(k, "in")) snprintf(j->in, sizeof j->in, "%s", v);
    else if (!strcmp(k, "oracle")) snprintf(j->oracle, sizeof j->oracle, "%s", v);
    else if (!strcmp(k, "out")) snprintf(j->out, sizeof j->out, "%s", v);
    else if (!strcmp(k, "src")) parse_pieces(&j->src, v);
    else if (!strcmp(k, "dst")) parse_pieces(&j->dst, v);
    else if (!strcmp(k, "parts")) parse_pieces(&j->parts, v);
    else if (!strcmp(k, "noupdate")) j->noupdate = atoi(v);
    else if (!strcmp(k, "srcmode")) j->srcmode_fresh = !strcmp(v, "fresh");
    else if (!strcmp(k, "dstmode")) j->dstmode_compact = !strcmp(v, "compact");
    else if (!strcmp(k, "wb")) j->wb_max = !strcmp(v, "max");
    else if (!strcmp(k, "init")) j->init = atoi(v);
    else if (!strcmp(k, "prefill")) j->prefill = (int)strtol(v, NULL, 16) & 0xFF;
    else if (!strcmp(k, "close")) j->close_late = !strcmp(v, "late");
    else if (!strcmp(k, "pixfmt")) j->pix_bgra = !strcmp(v, "bgra");
    else if (!strcmp(k, "maxcalls")) j->maxcalls = atol(v);
    else if (!strcmp(k, "budget_ms")) j->budget_ms = atol(v);
    else if (!strcmp(k, "skip")) j->skip = atol(v);
    else if (!strcmp(k, "prior")) snprintf(j->prior, sizeof j->prior, "%s", v);
    else if (!strcmp(k, "quirks")) snprintf(j->quirks, sizeof j->quirks, "%s", v);
  }
  return j->id >= 0 && j->dec[0];
}

static uint32_t init_opts(int init) {
  switch (init) {
    case 1: return WUFFS_INITIALIZE__ALREADY_ZEROED;
    case 2: return WUFFS_INITIALIZE__LEAVE_INTERNAL_BUFFERS_UNINITIALIZED;
  }
  return WUFFS_INITIALIZE__DEFAULT_OPTIONS;
}

// ------------------------------------------------------- source scheduling

typedef struct {
  const uint8_t* all;  // the whole input
  size_t n;
  size_t supplied;     // bytes of `all` made available so far
  size_t dropped;      // fresh mode: bytes before the current buffer
  long next_piece;
  int fresh;
  int close_late;
  uint8_t* viewbuf;    // view mode: copy of `all` (exact size, poisoned past wi)
  uint8_t* freshbuf;   // fresh mode: current exact-size buffer
  wuffs_base__io_buffer buf;
  const pieces_t* pieces;
  int exhausted;       // nothing more can be offered (closed already set)
} source_t;

static void source_refresh(source_t* s, size_t consumed_total, bool closed) {
  if (!s->fresh) {
    s->buf.data.ptr = s->viewbuf;
    s->buf.data.len = s->n;
    s->buf.meta.wi = s->supplied;
    s->buf.meta.pos = 0;
    s->buf.meta.ri = consumed_total;
    s->buf.meta.closed = closed;
    UNPOISON(s->viewbuf, s->n ? s->n : 1);
    if (s->supplied < s->n) POISON(s->viewbuf + s->supplied, s->n - s->supplied);
  } else {
    size_t unread = s->supplied - consumed_total;
    free(s->freshbuf);
    s->freshbuf = (uint8_t*)malloc(unread ? unread : 1);
    if (unread) memcpy(s->freshbuf, s->all + consumed_total, unread);
    s->dropped = consumed_total;
    s->buf.data.ptr = s->freshbuf;
    s->buf.data.len = unread;
    s->buf.meta.wi = unread;
    s->buf.meta.ri = 0;
    s->buf.meta.pos = consumed_total;
    s->buf.meta.closed = closed;
  }
}

static size_t source_consumed(const source_t* s) { return (size_t)(s->buf.meta.pos + s->buf.meta.ri); }

static void source_init(source_t* s, const uint8_t* all, size_t n, const job_t* j) {
  memset(s, 0, sizeof *s);
  s->all = all;
  s->n = n;
  s->fresh = j->srcmode_fresh;
  s->close_late = j->close_late;
  s->pieces = &j->src;
  s->viewbuf = (uint8_t*)malloc(n ? n : 1);
  if (n) memcpy(s->viewbuf, all, n);
}

// Offer the next piece.  Returns 0 if nothing more can be offered.
static int source_supply(source_t* s) {
  size_t consumed = source_consumed(s);
  if (s->buf.meta.closed) {
    s->exhausted = 1;
    return 0;
  }
  if (s->supplied >= s->n) {
    // everything supplied, not yet closed (close=late, or n == 0)
    source_refresh(s, consumed, true);
    return 1;
  }
  long p = piece_at(s->pieces, s->next_piece++);
  size_t rest = s->n - s->supplied;
  size_t k = (p < 0 || (size_t)p > rest) ? rest : (size_t)p;
  if (k == 0) k = rest < 1 ? rest : 1;
  s->supplied += k;
  bool closed = (s->supplied >= s->n) && !s->close_late;
  source_refresh(s, consumed, closed);
  return 1;
}

static void source_start(source_t* s) {
  s->supplied = 0;
  s->next_piece = 0;
  long p = piece_at(s->pieces, s->next_piece++);
  size_t k = (p < 0 || (size_t)p > s->n) ? s->n : (size_t)p;
  s->supplied = k;
  bool closed = (s->supplied >= s->n) && !s->close_late;
  source_refresh(s, 0, closed);
}

static void source_free(source_t* s) {
  UNPOISON(s->viewbuf, s->n ? s->n : 1);
  free(s->viewbuf);
  free(s->freshbuf);
}

// ----------------------------------------------------- per-call bookkeeping

typedef struct {
  size_t sri0, swi0, slen0, sri1, swi1;
  uint64_t spos0, spos1;
  bool scl0, scl1;
  uint64_t shash0;  // hash of src data[0..wi0)
  size_t dri0, dwi0, dlen0, dri1, dwi1;
  uint64_t dhash0;  // hash of dst data[0..wi0)
  uint64_t dpos0, dpos1;
  bool dcl0, dcl1;
} snap_t;

static void snap_before(snap_t* sn, const wuffs_base__io_buffer* src, const wuffs_base__io_buffer* dst) {
  baton_yield();
  memset(sn, 0, sizeof *sn);
  if (src) {
    sn->sri0 = src->meta.ri;
    sn->swi0 = src->meta.wi;
    sn->slen0 = src->data.len;
    sn->spos0 = src->meta.pos;
    sn->scl0 = src->meta.closed;
    sn->shash0 = fnv(src->data.ptr, src->meta.wi);
  }
  if (dst) {
    sn->dri0 = dst->meta.ri;
    sn->dwi0 = dst->meta.wi;
    sn->dlen0 = dst->data.len;
    sn->dpos0 = dst->meta.pos;
    sn->dcl0 = dst->meta.closed;
    sn->dhash0 = fnv(dst->data.ptr, dst->meta.wi);
  }
}

// emits the common part of a call event (without closing brace)
static void emit_call(const char* m, int coro, const snap_t* sn, const wuffs_base__io_buffer* src,
                      const wuffs_base__io_buffer* dst, const uint8_t* src_ptr0, size_t src_len0,
                      const uint8_t* dst_ptr0, size_t dst_len0, wuffs_base__status st) {
  fprintf(g_ev, "{\"j\":%ld,\"k\":\"call\",\"m\":\"%s\",\"coro\":%d", g_job_id, m, coro);
  if (src) {
    bool same = src->data.ptr == src_ptr0 && src->data.len == src_len0 &&
                (src->meta.wi >= sn->swi0 ? fnv(src->data.ptr, sn->swi0) == sn->shash0 : false);
    fprintf(g_ev,
            ",\"sri0\":%zu,\"swi0\":%zu,\"slen\":%zu,\"scl0\":%s,\"sri1\":%zu,\"swi1\":%zu,\"scl1\":%s,"
            "\"spos_same\":%s,\"ssame\":%s",
            sn->sri0, sn->swi0, sn->slen0, sn->scl0 ? "true" : "false", src->meta.ri, src->meta.wi,
            src->meta.closed ? "true" : "false", src->meta.pos == sn->spos0 ? "true" : "false",
            same ? "true" : "false");
  }
  if (dst) {
    bool same = dst->data.ptr == dst_ptr0 && dst->data.len == dst_len0 && dst->meta.wi >= sn->dwi0 &&
                fnv(dst->data.ptr, sn->dwi0) == sn->dhash0;
    fprintf(g_ev,
            ",\"dri0\":%zu,\"dwi0\":%zu,\"dlen\":%zu,\"dri1\":%zu,\"dwi1\":%zu,\"dcl_same\":%s,"
            "\"dpos_same\":%s,\"dsame\":%s",
            sn->dri0, sn->dwi0, sn->dlen0, dst->meta.ri, dst->meta.wi,
            dst->meta.closed == sn->dcl0 ? "true" : "false", dst->meta.pos == sn->dpos0 ? "true" : "false",
            same ? "true" : "false");
  }
  fprintf(g_ev, ",\"st\":");
  json_str(g_ev, st.repr);
  fprintf(g_ev, ",\"cls\":\"%s\",\"internal\":%s,\"al\":%ld", cls_of(st.repr),
          (st.repr && strstr(st.repr, "internal error")) ? "true" : "false", (long)g_allocs_in_call);
  RV_EMIT(g_ev);
}

static void emit_begin(const job_t* j, const decoder_t* d, size_t n, wuffs_base__status ist) {
  static const char* kinds[] = {"xform", "h32", "h64", "h256", "image", "token"};
  fprintf(g_ev, "{\"j\":%ld,\"k\":\"begin\",\"dec\":\"%s\",\"kind\":\"%s\",\"n\":%zu,\"init\":%d,\"prefill\":%d,"
                "\"srcmode\":\"%s\",\"dstmode\":\"%s\",\"wb\":\"%s\",\"close\":\"%s\",\"ist\":",
          j->id, d->name, kinds[d->kind], n, j->init, j->prefill, j->srcmode_fresh ? "fresh" : "view",
          j->dstmode_compact ? "compact" : "grow", j->wb_max ? "max" : "min", j->close_late ? "late" : "end");
  json_str(g_ev, ist.repr);
  RV_EMIT(g_ev);
  fprintf(g_ev, "}\n");
}

static void apply_quirks(const job_t* j, const decoder_t* d, void* iface) {
  if (!j->quirks[0]) return;
  char tmp[256];
  snprintf(tmp, sizeof tmp, "%s", j->quirks);
  for (char* t = tmp; t && *t;) {
    char* comma = strchr(t, ',');
    if (comma) *comma = 0;
    char* colon = strchr(t, ':');
    if (colon) {
      uint32_t key = (uint32_t)strtoul(t, NULL, 0);
      uint64_t val = strtoull(colon + 1, NULL, 0);
      wuffs_base__status st = wuffs_base__make_status(NULL);
      g_in_call = 1;
      g_allocs_in_call = 0;
      switch (d->kind) {
        case K_XFORM: st = wuffs_base__io_transformer__set_quirk((wuffs_base__io_transformer*)iface, key, val); break;
        case K_IMAGE: st = wuffs_base__image_decoder__set_quirk((wuffs_base__image_decoder*)iface, key, val); break;
        case K_TOKEN: st = wuffs_base__token_decoder__set_quirk((wuffs_base__token_decoder*)iface, key, val); break;
        case K_H32: st = wuffs_base__hasher_u32__set_quirk((wuffs_base__hasher_u32*)iface, key, val); break;
        case K_H64: st = wuffs_base__hasher_u64__set_quirk((wuffs_base__hasher_u64*)iface, key, val); break;
        case K_H256: st = wuffs_base__hasher_bitvec256__set_quirk((wuffs_base__hasher_bitvec256*)iface, key, val); break;
      }
      g_in_call = 0;
      fprintf(g_ev, "{\"j\":%ld,\"k\":\"quirk\",\"key\":%u,\"st\":", g_job_id, key);
      json_str(g_ev, st.repr);
      fprintf(g_ev, ",\"cls\":\"%s\",\"al\":%ld", cls_of(st.repr), (long)g_allocs_in_call);
      RV_EMIT(g_ev);
      fprintf(g_ev, "}\n");
    }
    t = comma ? comma + 1 : NULL;
  }
}

// ------------------------------------------------------------ io_transformer

typedef struct {
  uint8_t* out;     // accumulated output
  size_t out_n, out_cap;
} accum_t;

static void accum_add(accum_t* a, const uint8_t* p, size_t n) {
  if (a->out_n + n > a->out_cap) {
    size_t c = a->out_cap ? a->out_cap * 2 : 4096;
    while (c < a->out_n + n) c *= 2;
    a->out = (uint8_t*)realloc(a->out, c);
    a->out_cap = c;
  }
  if (n) memcpy(a->out + a->out_n, p, n);
  a->out_n += n;
}

#define OUT_LIMIT (256u * 1024u * 1024u)

static void run_xform(const job_t* j, const decoder_t* d, void* obj, const uint8_t* in, size_t n,
                      const uint8_t* oracle, size_t oracle_n, bool have_oracle) {
  wuffs_base__io_transformer* t = (wuffs_base__io_transformer*)d->upcast(obj);
  apply_quirks(j, d, t);
  wuffs_base__range_ii_u64 wl = wuffs_base__io_transformer__workbuf_len(t);
  size_t wn = (size_t)(j->wb_max ? wl.max_incl : wl.min_incl);
  uint8_t* wb = (uint8_t*)malloc(wn ? wn : 1);
  memset(wb, j->prefill, wn ? wn : 1);

  source_t s;
  source_init(&s, in, n, j);
  source_start(&s);

  accum_t acc;
  memset(&acc, 0, sizeof acc);
  size_t ample = (have_oracle ? oracle_n : 0) + 4096 + 2 * n;
  // grow mode: one buffer, the visible length grows; compact mode: window of
  // capacity (retain + k), flushed and compacted after every call.
  size_t gcap = 0;
  uint8_t* gbuf = NULL;
  long dpi = 0;
  wuffs_base__io_buffer dst;
  memset(&dst, 0, sizeof dst);
  size_t flushed = 0;  // compact mode: bytes already moved to acc
  long first = piece_at(&j->dst, dpi++);
  size_t room = first < 0 ? ample : (size_t)first;
  if (!j->dstmode_compact) {
    gcap = room;
    gbuf = (uint8_t*)malloc(gcap ? gcap : 1);
    memset(gbuf, j->prefill, gcap ? gcap : 1);
    dst.data.ptr = gbuf;
    dst.data.len = gcap;
  } else {
    gcap = room;
    gbuf = (uint8_t*)malloc(gcap ? gcap : 1);
    memset(gbuf, j->prefill, gcap ? gcap : 1);
    dst.data.ptr = gbuf;
    dst.data.len = gcap;
  }

  long calls = 0;
  bool pfx_ok = true;
  size_t out_total = 0;
  uint64_t out_hash = 1469598103934665603ULL;
  wuffs_base__status st = wuffs_base__make_status(NULL);
  const char* stop = "status";
  for (;;) {
    snap_t sn;
    snap_before(&sn, &s.buf, &dst);
    const uint8_t* sp0 = s.buf.data.ptr;
    size_t sl0 = s.buf.data.len;
    const uint8_t* dp0 = dst.data.ptr;
    size_t dl0 = dst.data.len;
    g_phase = "transform_io";
    g_allocs_in_call = 0;
    g_in_call = 1;
    st = wuffs_base__io_transformer__transform_io(t, &dst, &s.buf, wuffs_base__make_slice_u8(wb, wn));
    g_in_call = 0;
    calls++;
    // account the output produced by this call
    size_t produced = dst.meta.wi >= sn.dwi0 ? dst.meta.wi - sn.dwi0 : 0;
    bool valid_idx = dst.meta.ri <= dst.meta.wi && dst.meta.wi <= dst.data.len && dst.data.ptr == dp0;
    if (valid_idx && produced) {
      const uint8_t* np = dst.data.ptr + sn.dwi0;
      if (have_oracle) {
        if (out_total + produced > oracle_n || memcmp(np, oracle + out_total, produced) != 0) pfx_ok = false;
      }
      out_hash = fnv_more(out_hash, np, produced);
      if (j->out[0] || j->dstmode_compact) accum_add(&acc, np, produced);
      out_total += produced;
    }
    emit_call("transform_io", 1, &sn, &s.buf, &dst, sp0, sl0, dp0, dl0, st);
    fprintf(g_ev, ",\"out_total\":%zu,\"pfx\":%s,\"in_total\":%zu,\"wbn\":%zu}\n", out_total,
            pfx_ok ? "true" : "false", source_consumed(&s), wn);
    if (!valid_idx) {
      stop = "bad_indexes";
      break;
    }
    if (st.repr == NULL || st.repr[0] != '$') break;
    if (calls >= j->maxcalls) {
      stop = "maxcalls";
      break;
    }
    if (st.repr == wuffs_base__suspension__short_read) {
      if (!source_supply(&s)) {
        stop = "short_read_on_closed";
        break;
      }
    } else if (st.repr == wuffs_base__suspension__short_write) {
      long p = piece_at(&j->dst, dpi++);
      size_t k = p < 0 ? ample : (size_t)p;
      if (k == 0) k = 1;
      if (out_total + k > OUT_LIMIT) {
        stop = "out_limit";
        break;
      }
      if (!j->dstmode_compact) {
        size_t ncap = dst.meta.wi + k;
        uint8_t* nb = (uint8_t*)malloc(ncap ? ncap : 1);
        memset(nb, j->prefill, ncap ? ncap : 1);
        memcpy(nb, dst.data.ptr, dst.meta.wi);
        free(gbuf);
        gbuf = nb;
        dst.data.ptr = nb;
        dst.data.len = ncap;
      } else {
        // flush everything written, keep the history the decoder asks for
        dst.meta.ri = dst.meta.wi;
        wuffs_base__optional_u63 hrl = wuffs_base__io_transformer__dst_history_retain_length(t);
        uint64_t keep = wuffs_base__optional_u63__value_or(&hrl, UINT64_MAX);
        if (keep > dst.meta.wi) keep = dst.meta.wi;
        size_t ncap = (size_t)keep + k;
        uint8_t* nb = (uint8_t*)malloc(ncap ? ncap : 1);
        memset(nb, j->prefill, ncap ? ncap : 1);
        memcpy(nb, dst.data.ptr + (dst.meta.wi - (size_t)keep), (size_t)keep);
        dst.meta.pos += dst.meta.wi - (size_t)keep;
        free(gbuf);
        gbuf = nb;
        dst.data.ptr = nb;
        dst.data.len = ncap;
        dst.meta.wi = (size_t)keep;
        dst.meta.ri = (size_t)keep;
        flushed = out_total;
      }
    } else if (st.repr == wuffs_base__suspension__short_workbuf) {
      // the caller re-queries workbuf_len and comes back with a larger one
      wuffs_base__range_ii_u64 wl2 = wuffs_base__io_transformer__workbuf_len(t);
      uint64_t want = j->wb_max ? wl2.max_incl : wl2.min_incl;
      if (want <= wn) {
        stop = "short_workbuf_unjustified";
        break;
      }
      if (want > 256u * 1024u * 1024u) {
        stop = "too_large";
        break;
      }
      uint8_t* nwb = (uint8_t*)malloc((size_t)want);
      memset(nwb, j->prefill, (size_t)want);
      memcpy(nwb, wb, wn);
      free(wb);
      wb = nwb;
      wn = (size_t)want;
    } else {
      stop = "other_suspension";
      break;
    }
  }
  (void)flushed;
  fprintf(g_ev, "{\"j\":%ld,\"k\":\"end\",\"stop\":\"%s\",\"calls\":%ld,\"st\":", g_job_id, stop, calls);
  json_str(g_ev, st.repr);
  fprintf(g_ev, ",\"cls\":\"%s\",\"out_total\":%zu,\"out_hash\":\"%016llx\",\"in_total\":%zu,\"n\":%zu,"
                "\"have_oracle\":%s,\"oracle_n\":%zu,\"pfx\":%s}\n",
          cls_of(st.repr), out_total, (unsigned long long)out_hash, source_consumed(&s), n,
          have_oracle ? "true" : "false", oracle_n, pfx_ok ? "true" : "false");
  if (j->out[0]) {
    FILE* f = fopen(j->out, "wb");
    if (f) {
      if (acc.out_n) fwrite(acc.out, 1, acc.out_n, f);
      fclose(f);
    }
  }
  free(acc.out);
  free(gbuf);
  free(wb);
  source_free(&s);
}

// ------------------------------------------------------------------ hashers

static void run_hasher(const job_t* j, const decoder_t* d, void* obj, const uint8_t* in, size_t n) {
  void* h = d->upcast(obj);
  apply_quirks(j, d, h);
  size_t off = 0;
  long pi = 0, calls = 0;
  uint64_t last64 = 0;
  wuffs_base__bitvec256 bv;
  memset(&bv, 0, sizeof bv);
  // each piece is copied into an exact-size buffer so that ASan sees overreads
  // noupdate=1 (only meaningful for the empty input): no update call at all before the checksum is taken.
  // A piece of 0 bytes is an empty update call in between; only the repeated last piece must make progress.
  if (!(j->noupdate && n == 0)) do {
    long p = piece_at(&j->parts, pi++);
    size_t k = (p < 0 || (size_t)p > n - off) ? n - off : (size_t)p;
    if (k == 0 && pi > j->parts.n) k = n - off;
    uint8_t* piece = (uint8_t*)malloc(k ? k : 1);
    if (k) memcpy(piece, in + off, k);
    uint64_t h0 = fnv(piece, k);
    baton_yield();
    g_phase = "update";
    g_allocs_in_call = 0;
    g_in_call = 1;
    switch (d->kind) {
      case K_H32: last64 = wuffs_base__hasher_u32__update_u32((wuffs_base__hasher_u32*)h, wuffs_base__make_slice_u8(piece, k)); break;
      case K_H64: last64 = wuffs_base__hasher_u64__update_u64((wuffs_base__hasher_u64*)h, wuffs_base__make_slice_u8(piece, k)); break;
      case K_H256: bv = wuffs_base__hasher_bitvec256__update_bitvec256((wuffs_base__hasher_bitvec256*)h, wuffs_base__make_slice_u8(piece, k)); break;
    }
    g_in_call = 0;
    calls++;
    bool same = fnv(piece, k) == h0;
    fprintf(g_ev, "{\"j\":%ld,\"k\":\"hcall\",\"len\":%zu,\"ssame\":%s,\"al\":%ld", g_job_id, k, same ? "true" : "false",
            (long)g_allocs_in_call);
    RV_EMIT(g_ev);
    fprintf(g_ev, "}\n");
    free(piece);
    off += k;
  } while (off < n);
  // checksum_* is a pure method: calling it twice must give the same value
  char sum[80];
  if (d->kind == K_H256) {
    wuffs_base__bitvec256 c = wuffs_base__hasher_bitvec256__checksum_bitvec256((wuffs_base__hasher_bitvec256*)h);
    snprintf(sum, sizeof sum, "%016llx%016llx%016llx%016llx", (unsigned long long)c.elements_u64[3],
             (unsigned long long)c.elements_u64[2], (unsigned long long)c.elements_u64[1], (unsigned long long)c.elements_u64[0]);
    if (calls == 0) bv = wuffs_base__hasher_bitvec256__checksum_bitvec256((wuffs_base__hasher_bitvec256*)h);  // no update: compare two checksum calls
    bool eq = !memcmp(&c, &bv, sizeof c);
    fprintf(g_ev, "{\"j\":%ld,\"k\":\"end\",\"stop\":\"done\",\"calls\":%ld,\"st\":\"\",\"cls\":\"ok\",\"sum\":\"%s\",\"sum_eq_last\":%s,\"n\":%zu}\n",
            g_job_id, calls, sum, eq ? "true" : "false", n);
  } else {
    uint64_t c = d->kind == K_H32 ? wuffs_base__hasher_u32__checksum_u32((wuffs_base__hasher_u32*)h)
                                  : wuffs_base__hasher_u64__checksum_u64((wuffs_base__hasher_u64*)h);
    if (calls == 0)  // no update call was made: compare two checksum calls instead
      last64 = d->kind == K_H32 ? wuffs_base__hasher_u32__checksum_u32((wuffs_base__hasher_u32*)h)
                                : wuffs_base__hasher_u64__checksum_u64((wuffs_base__hasher_u64*)h);
    snprintf(sum, sizeof sum, d->kind == K_H32 ? "%08llx" : "%016llx", (unsigned long long)c);
    fprintf(g_ev, "{\"j\":%ld,\"k\":\"end\",\"stop\":\"done\",\"calls\":%ld,\"st\":\"\",\"cls\":\"ok\",\"sum\":\"%s\",\"sum_eq_last\":%s,\"n\":%zu}\n",
            g_job_id, calls, sum, c == last64 ? "true" : "false", n);
  }
}

// ----------------------------------------------------------- image decoders

static void run_image(const job_t* j, const decoder_t* d, void* obj, const uint8_t* in, size_t n) {
  wuffs_base__image_decoder* dec = (wuffs_base__image_decoder*)d->upcast(obj);
  apply_quirks(j, d, dec);
  source_t s;
  source_init(&s, in, n, j);
  source_start(&s);
  uint8_t* pixbuf = NULL;
  uint8_t* wb = NULL;
  size_t pixn = 0, wn = 0;
  long calls = 0;
  const char* stop = "status";
  wuffs_base__status st = wuffs_base__make_status(NULL);
  uint64_t frames_hash = 1469598103934665603ULL;
  long nframes = 0;
  wuffs_base__image_config ic;
  memset(&ic, 0, sizeof ic);

#define IMG_CALL(NAME, CORO, EXPR, EXTRA)                                               \
  for (;;) {                                                                            \
    snap_t sn;                                                                          \
    snap_before(&sn, &s.buf, NULL);                                                     \
    const uint8_t* sp0 = s.buf.data.ptr;                                                \
    size_t sl0 = s.buf.data.len;                                                        \
    g_phase = NAME;                                                                     \
    g_allocs_in_call = 0;                                                               \
    g_in_call = 1;                                                                      \
    st = (EXPR);                                                                        \
    g_in_call = 0;                                                                      \
    calls++;                                                                            \
    emit_call(NAME, CORO, &sn, &s.buf, NULL, sp0, sl0, NULL, 0, st);                    \
    EXTRA;                                                                              \
    fprintf(g_ev, ",\"in_total\":%zu}\n", source_consumed(&s));                         \
    if (st.repr == wuffs_base__suspension__short_read && calls < j->maxcalls) {         \
      if (!source_supply(&s)) {                                                         \
        stop = "short_read_on_closed";                                                  \
        goto done;                                                                      \
      }                                                                                 \
      continue;                                                                         \
    }                                                                                   \
    break;                                                                              \
  }

  IMG_CALL("decode_image_config", 1, wuffs_base__image_decoder__decode_image_config(dec, &ic, &s.buf), (void)0)
  if (st.repr) goto done;
  if (!wuffs_base__image_config__is_valid(&ic)) {
    stop = "invalid_image_config";
    goto done;
  }
  {
    uint32_t w = wuffs_base__pixel_config__width(&ic.pixcfg);
    uint32_t h = wuffs_base__pixel_config__height(&ic.pixcfg);
    if (j->pix_bgra) {
      wuffs_base__pixel_config__set(&ic.pixcfg, WUFFS_BASE__PIXEL_FORMAT__BGRA_NONPREMUL, WUFFS_BASE__PIXEL_SUBSAMPLING__NONE, w, h);
    }
    uint64_t wmax = wuffs_base__image_decoder__workbuf_len(dec).max_incl;
    uint64_t wmin = wuffs_base__image_decoder__workbuf_len(dec).min_incl;
    uint64_t pn = wuffs_base__pixel_config__pixbuf_len(&ic.pixcfg);
    fprintf(g_ev, "{\"j\":%ld,\"k\":\"imgcfg\",\"w\":%u,\"h\":%u,\"pixfmt\":%u,\"pixbuf_len\":%llu,\"wb_min\":%llu,\"wb_max\":%llu,"
                  "\"first_frame_io_pos\":%llu}\n",
            g_job_id, w, h, wuffs_base__pixel_config__pixel_format(&ic.pixcfg).repr, (unsigned long long)pn,
            (unsigned long long)wmin, (unsigned long long)wmax,
            (unsigned long long)wuffs_base__image_config__first_frame_io_position(&ic));
    if (wmax > 64u * 1024 * 1024 || pn > 64u * 1024 * 1024) {
      stop = "too_large";
      goto done;
    }
    wn = (size_t)(j->wb_max ? wmax : wmin);
    wb = (uint8_t*)malloc(wn ? wn : 1);
    memset(wb, j->prefill, wn ? wn : 1);
    pixn = (size_t)pn;
    pixbuf = (uint8_t*)malloc(pixn ? pixn : 1);
    // The pixel buffer is NOT filled with the job's prefill: a frame need not cover the whole canvas and a
    // failed or truncated decode writes only some rows, so bytes the decoder never wrote would make the hash
    // depend on the prefill.  (A pixel buffer has no write index; the property's "destination memory beyond
    // the write index" clause is about io_buffers, whose prefill does vary.)  The work buffer and the
    // object's own memory still take the job's prefill.
    memset(pixbuf, 0x7E, pixn ? pixn : 1);
  }
  {
    wuffs_base__pixel_buffer pb;
    memset(&pb, 0, sizeof pb);
    st = wuffs_base__pixel_buffer__set_from_slice(&pb, &ic.pixcfg, wuffs_base__make_slice_u8(pixbuf, pixn));
    if (st.repr) {
      stop = "pixel_buffer_set";
      goto done;
    }
    for (;;) {
      wuffs_base__frame_config fc;
      memset(&fc, 0, sizeof fc);
      IMG_CALL("decode_frame_config", 2, wuffs_base__image_decoder__decode_frame_config(dec, &fc, &s.buf), (void)0)
      if (st.repr) goto done;
      wuffs_base__rect_ie_u32 fr = wuffs_base__frame_config__bounds(&fc);
      fprintf(g_ev, "{\"j\":%ld,\"k\":\"framecfg\",\"x0\":%u,\"y0\":%u,\"x1\":%u,\"y1\":%u,\"index\":%llu,\"io_pos\":%llu,\"dur\":%llu}\n",
              g_job_id, fr.min_incl_x, fr.min_incl_y, fr.max_excl_x, fr.max_excl_y,
              (unsigned long long)wuffs_base__frame_config__index(&fc), (unsigned long long)wuffs_base__frame_config__io_position(&fc),
              (unsigned long long)wuffs_base__frame_config__duration(&fc));
      IMG_CALL("decode_frame", 3,
               wuffs_base__image_decoder__decode_frame(dec, &pb, &s.buf, WUFFS_BASE__PIXEL_BLEND__SRC, wuffs_base__make_slice_u8(wb, wn), NULL),
               {
                 wuffs_base__rect_ie_u32 dr = wuffs_base__image_decoder__frame_dirty_rect(dec);
                 fprintf(g_ev, ",\"dirty_in_frame\":%s", wuffs_base__rect_ie_u32__contains_rect(&fr, dr) ? "true" : "false");
               })
      uint64_t ph = fnv(pixbuf, pixn);
      fprintf(g_ev, "{\"j\":%ld,\"k\":\"frame\",\"i\":%ld,\"pix_hash\":\"%016llx\",\"st\":", g_job_id, nframes, (unsigned long long)ph);
      json_str(g_ev, st.repr);
      fprintf(g_ev, "}\n");
      frames_hash = fnv_more(frames_hash, (const uint8_t*)&ph, sizeof ph);
      nframes++;
      if (st.repr) goto done;
      if (nframes >= 64) {
        stop = "frame_limit";
        goto done;
      }
    }
  }
done:
  fprintf(g_ev, "{\"j\":%ld,\"k\":\"end\",\"stop\":\"%s\",\"calls\":%ld,\"st\":", g_job_id, stop, calls);
  json_str(g_ev, st.repr);
  fprintf(g_ev, ",\"cls\":\"%s\",\"frames\":%ld,\"out_hash\":\"%016llx\",\"out_total\":%zu,\"in_total\":%zu,\"n\":%zu,"
                "\"num_frame_configs\":%llu,\"num_frames\":%llu,\"have_oracle\":false,\"oracle_n\":0,\"pfx\":true}\n",
          cls_of(st.repr), nframes, (unsigned long long)frames_hash, pixn, source_consumed(&s), n,
          (unsigned long long)wuffs_base__image_decoder__num_decoded_frame_configs(dec),
          (unsigned long long)wuffs_base__image_decoder__num_decoded_frames(dec));
  if (j->out[0] && pixbuf) {
    FILE* f = fopen(j->out, "wb");
    if (f) {
      uint32_t hdr[2] = {wuffs_base__pixel_config__width(&ic.pixcfg), wuffs_base__pixel_config__height(&ic.pixcfg)};
      fwrite(hdr, 4, 2, f);
      fwrite(pixbuf, 1, pixn, f);
      fclose(f);
    }
  }
  free(pixbuf);
  free(wb);
  source_free(&s);
}

// ----------------------------------------------------------- token decoders
//
// Token recording (spec/TokenStream.tla, clauses Token* / NormalFormEqualsOracle of spec/Trace_Std.tla).
// For inputs of at most TOK_RECORD_MAX source bytes every call event carries
//   "tk":  the tokens written by the call, one array [x, a, b, con, len, pos] each:
//            x    1 for an extended token (bit 63), 0 for a simple one
//            a,b  simple: value_major (21 bits), value_minor (25 bits);
//                 extended: the high 23 and the low 23 bits of value_extension  (TLC integers are 32-bit)
//            con  the continued bit, len the length (16 bits),
//            pos  the driver's claim of where the token's bytes start in the source stream (the sum of the
//                 lengths of all earlier tokens) - TLC checks the chain pos[i+1] = pos[i] + len[i] itself
//   "sb0": the stream position of the first source byte consumed by the call, "sb": the bytes consumed.
// For every input (whatever its size) the driver also maintains, and logs per call, what the specification
// needs of a stream whose tokens are not logged: the running normal form (TokenStream!Normalise, computed
// incrementally: a pending token that the next token either extends or closes) as a hash and a count, the
// continued bit of the last token, the structure depth and whether a pop went below zero.

#define TOK_RECORD_MAX 16384

typedef struct {
  int have;         // a pending normal-form token exists
  uint64_t value;   // bits 17..63 of its repr
  int con;
  uint64_t len;     // may exceed 16 bits after merging
  uint64_t hash;    // hash of the closed normal-form tokens
  uint64_t n;       // number of closed normal-form tokens
} tok_nf_t;

// TokenStream!Mergeable: same value, of a category whose meaning is additive over concatenation of the spans
// (base-package FILLER and STRING tokens), and either the first is continued (same chain) or both are plain
// filler (value 0: white space, which the JSON decoder emits as stand-alone tokens).
static int tok_mergeable(uint64_t va, int con_a, uint64_t vb) {
  if (va != vb) return 0;
  if (va >> 25) return 0;                       // extended, or value_major != 0  (value = repr >> 17: major at bit 25)
  uint64_t vbc = (va >> 21) & 0xF;
  if (vbc != WUFFS_BASE__TOKEN__VBC__FILLER && vbc != WUFFS_BASE__TOKEN__VBC__STRING) return 0;
  return con_a || va == 0;
}

static void tok_nf_flush(tok_nf_t* f) {
  if (!f->have) return;
  uint64_t rec[3] = {f->value, (uint64_t)f->con, f->len};
  f->hash = fnv_more(f->hash, (const uint8_t*)rec, sizeof rec);
  f->n++;
  f->have = 0;
}

static void tok_nf_add(tok_nf_t* f, uint64_t repr) {
  uint64_t value = repr >> 17;
  int con = (repr >> 16) & 1;
  uint64_t len = repr & 0xFFFF;
  if (f->have && tok_mergeable(f->value, f->con, value)) {
    f->con = con;
    f->len += len;
    return;
  }
  tok_nf_flush(f);
  f->have = 1;
  f->value = value;
  f->con = con;
  f->len = len;
}

static void run_token(const job_t* j, const decoder_t* d, void* obj, const uint8_t* in, size_t n) {
  wuffs_base__token_decoder* dec = (wuffs_base__token_decoder*)d->upcast(obj);
  apply_quirks(j, d, dec);
  wuffs_base__range_ii_u64 wl = wuffs_base__token_decoder__workbuf_len(dec);
  size_t wn = (size_t)(j->wb_max ? wl.max_incl : wl.min_incl);
  uint8_t* wb = (uint8_t*)malloc(wn ? wn : 1);
  memset(wb, j->prefill, wn ? wn : 1);
  source_t s;
  source_init(&s, in, n, j);
  source_start(&s);
  long dpi = 0, calls = 0;
  uint64_t tok_hash = 1469598103934665603ULL;
  size_t ntok = 0;
  uint64_t tok_len_sum = 0;
  const int record = n <= TOK_RECORD_MAX;
  tok_nf_t nf;
  memset(&nf, 0, sizeof nf);
  nf.hash = 1469598103934665603ULL;
  int last_con = 0;           // continued bit of the last token written so far (0 before the first)
  long sdepth = 0;            // structure depth: pushes minus pops
  int spop_below_zero = 0;
  const char* stop = "status";
  wuffs_base__status st = wuffs_base__make_status(NULL);
  long p0 = piece_at(&j->dst, dpi++);
  size_t cap = p0 < 0 ? 4096 : (size_t)p0;
  if (cap == 0) cap = 1;
  for (;;) {
    wuffs_base__token* toks = (wuffs_base__token*)malloc(cap * sizeof(wuffs_base__token));
    memset(toks, j->prefill, cap * sizeof(wuffs_base__token));
    wuffs_base__token_buffer tb = wuffs_base__slice_token__writer(wuffs_base__make_slice_token(toks, cap));
    snap_t sn;
    snap_before(&sn, &s.buf, NULL);
    const uint8_t* sp0 = s.buf.data.ptr;
    size_t sl0 = s.buf.data.len;
    size_t consumed0 = source_consumed(&s);
    uint64_t tok_pos0 = tok_len_sum;
    g_phase = "decode_tokens";
    g_allocs_in_call = 0;
    g_in_call = 1;
    st = wuffs_base__token_decoder__decode_tokens(dec, &tb, &s.buf, wuffs_base__make_slice_u8(wb, wn));
    g_in_call = 0;
    calls++;
    bool tb_ok = tb.meta.ri <= tb.meta.wi && tb.meta.wi <= tb.data.len && tb.data.ptr == toks;
    if (tb_ok) {
      for (size_t i = 0; i < tb.meta.wi; i++) {
        uint64_t r = toks[i].repr;
        tok_hash = fnv_more(tok_hash, (const uint8_t*)&toks[i].repr, 8);
        tok_len_sum += wuffs_base__token__length(&toks[i]);
        tok_nf_add(&nf, r);
        last_con = (int)((r >> 16) & 1);
        if ((r >> 42) == 0 && ((r >> 38) & 0xF) == WUFFS_BASE__TOKEN__VBC__STRUCTURE) {
          uint64_t vbd = (r >> 17) & 0x1FFFFF;
          if (vbd & WUFFS_BASE__TOKEN__VBD__STRUCTURE__PUSH) sdepth++;
          if (vbd & WUFFS_BASE__TOKEN__VBD__STRUCTURE__POP) {
            sdepth--;
            if (sdepth < 0) {
              spop_below_zero = 1;
              sdepth = 0;
            }
          }
        }
      }
      ntok += tb.meta.wi;
    }
    emit_call("decode_tokens", 1, &sn, &s.buf, NULL, sp0, sl0, NULL, 0, st);
    fprintf(g_ev, ",\"tri1\":%zu,\"twi1\":%zu,\"tlen\":%zu,\"tok_ok\":%s,\"in_total\":%zu,\"tok_len_sum\":%llu", tb.meta.ri,
            tb.meta.wi, tb.data.len, tb_ok ? "true" : "false", source_consumed(&s), (unsigned long long)tok_len_sum);
    fprintf(g_ev, ",\"tok_last_con\":%d,\"tok_depth\":%ld,\"tok_pop_below_zero\":%s", last_con, sdepth,
            spop_below_zero ? "true" : "false");
    if (record && tb_ok) {
      uint64_t pos = tok_pos0;
      fprintf(g_ev, ",\"tk\":[");
      for (size_t i = 0; i < tb.meta.wi; i++) {
        uint64_t r = toks[i].repr;
        unsigned x = (unsigned)(r >> 63);
        unsigned long a, b;
        if (x) {
          uint64_t ext = (~r >> 17) & 0x3FFFFFFFFFFFULL;  // value_extension, 46 bits
          a = (unsigned long)(ext >> 23);
          b = (unsigned long)(ext & 0x7FFFFF);
        } else {
          a = (unsigned long)((r >> 42) & 0x1FFFFF);
          b = (unsigned long)((r >> 17) & 0x1FFFFFF);
        }
        fprintf(g_ev, "%s[%u,%lu,%lu,%u,%u,%llu]", i ? "," : "", x, a, b, (unsigned)((r >> 16) & 1), (unsigned)(r & 0xFFFF),
                (unsigned long long)pos);
        pos += r & 0xFFFF;
      }
      size_t consumed1 = source_consumed(&s);
      fprintf(g_ev, "],\"sb0\":%zu,\"sb\":[", consumed0);
      if (consumed1 >= consumed0 && consumed1 <= n) {
        for (size_t i = consumed0; i < consumed1; i++) fprintf(g_ev, "%s%u", i > consumed0 ? "," : "", (unsigned)in[i]);
      }
      fprintf(g_ev, "]");
    }
    fprintf(g_ev, "}\n");
    free(toks);
    if (!tb_ok) {
      stop = "bad_indexes";
      break;
    }
    if (st.repr == NULL || st.repr[0] != '$') break;
    if (calls >= j->maxcalls) {
      stop = "maxcalls";
      break;
    }
    if (st.repr == wuffs_base__suspension__short_read) {
      if (!source_supply(&s)) {
        stop = "short_read_on_closed";
        break;
      }
    } else if (st.repr == wuffs_base__suspension__short_write) {
      long p = piece_at(&j->dst, dpi++);
      cap = p < 0 ? 4096 : (size_t)p;
      if (cap == 0) cap = 1;
    } else {
      stop = "other_suspension";
      break;
    }
  }
  tok_nf_flush(&nf);
  fprintf(g_ev, "{\"j\":%ld,\"k\":\"end\",\"stop\":\"%s\",\"calls\":%ld,\"st\":", g_job_id, stop, calls);
  json_str(g_ev, st.repr);
  fprintf(g_ev, ",\"cls\":\"%s\",\"out_total\":%zu,\"out_hash\":\"%016llx\",\"in_total\":%zu,\"n\":%zu,\"tok_len_sum\":%llu,"
                "\"nf_hash\":\"%016llx\",\"nf_n\":%llu,\"tok_recorded\":%s,\"tok_last_con\":%d,\"tok_depth\":%ld,"
                "\"have_oracle\":false,\"oracle_n\":0,\"pfx\":true}\n",
          cls_of(st.repr), ntok, (unsigned long long)tok_hash, source_consumed(&s), n, (unsigned long long)tok_len_sum,
          (unsigned long long)nf.hash, (unsigned long long)nf.n, record ? "true" : "false", last_con, sdepth);
  free(wb);
  source_free(&s);
}

// --------------------------------------------------------------------- main

// Calls every pure method of the generic interface and reports whether the
// object's bytes changed (C10: a pure method leaves the receiver bit-for-bit
// unchanged).
static void probe_pure(const decoder_t* d, uint8_t* obj, size_t sz, const char* when) {
  uint8_t* snap = (uint8_t*)malloc(sz);
  memcpy(snap, obj, sz);
  void* h = d->upcast(obj);
  unsigned long long acc = 0;
  int ncalls = 0;
  g_in_call = 1;
  g_allocs_in_call = 0;
  switch (d->kind) {
    case K_XFORM: {
      wuffs_base__io_transformer* t = (wuffs_base__io_transformer*)h;
      acc += wuffs_base__io_transformer__get_quirk(t, 1);
      acc += wuffs_base__io_transformer__workbuf_len(t).min_incl;
      wuffs_base__optional_u63 o = wuffs_base__io_transformer__dst_history_retain_length(t);
      acc += wuffs_base__optional_u63__value_or(&o, 7);
      ncalls = 3;
      break;
    }
    case K_IMAGE: {
      wuffs_base__image_decoder* t = (wuffs_base__image_decoder*)h;
      acc += wuffs_base__image_decoder__get_quirk(t, 1);
      acc += wuffs_base__image_decoder__workbuf_len(t).max_incl;
      acc += wuffs_base__image_decoder__num_decoded_frames(t);
      acc += wuffs_base__image_decoder__num_decoded_frame_configs(t);
      acc += wuffs_base__image_decoder__num_animation_loops(t);
      acc += wuffs_base__image_decoder__frame_dirty_rect(t).max_excl_x;
      ncalls = 6;
      break;
    }
    case K_TOKEN: {
      wuffs_base__token_decoder* t = (wuffs_base__token_decoder*)h;
      acc += wuffs_base__token_decoder__get_quirk(t, 1);
      acc += wuffs_base__token_decoder__workbuf_len(t).max_incl;
      ncalls = 2;
      break;
    }
    case K_H32:
      acc += wuffs_base__hasher_u32__checksum_u32((wuffs_base__hasher_u32*)h);
      acc += wuffs_base__hasher_u32__get_quirk((wuffs_base__hasher_u32*)h, 1);
      ncalls = 2;
      break;
    case K_H64:
      acc += wuffs_base__hasher_u64__checksum_u64((wuffs_base__hasher_u64*)h);
      acc += wuffs_base__hasher_u64__get_quirk((wuffs_base__hasher_u64*)h, 1);
      ncalls = 2;
      break;
    case K_H256: {
      wuffs_base__bitvec256 c = wuffs_base__hasher_bitvec256__checksum_bitvec256((wuffs_base__hasher_bitvec256*)h);
      acc += c.elements_u64[0];
      acc += wuffs_base__hasher_bitvec256__get_quirk((wuffs_base__hasher_bitvec256*)h, 1);
      ncalls = 2;
      break;
    }
  }
  g_in_call = 0;
  bool chg = memcmp(snap, obj, sz) != 0;
  fprintf(g_ev, "{\"j\":%ld,\"k\":\"pure\",\"when\":\"%s\",\"ncalls\":%d,\"objchg\":%s,\"al\":%ld,\"acc\":\"%llx\"", g_job_id, when, ncalls,
          chg ? "true" : "false", (long)g_allocs_in_call, acc);
  RV_EMIT(g_ev);
  fprintf(g_ev, "}\n");
  free(snap);
}

static void run_kind(const job_t* j, const decoder_t* d, uint8_t* obj, const uint8_t* in, size_t n, const uint8_t* oracle, size_t on,
                     bool have_oracle) {
  switch (d->kind) {
    case K_XFORM: run_xform(j, d, obj, in, n, oracle, on, have_oracle); break;
    case K_H32:
    case K_H64:
    case K_H256: run_hasher(j, d, obj, in, n); break;
    case K_IMAGE: run_image(j, d, obj, in, n); break;
    case K_TOKEN: run_token(j, d, obj, in, n); break;
  }
}

static void run_job(const job_t* j) {
  const decoder_t* d = find_decoder(j->dec);
  g_job_id = j->id;
  if (!d) {
    fprintf(g_ev, "{\"j\":%ld,\"k\":\"skip\",\"why\":\"unknown decoder\"}\n", j->id);
    return;
  }
  size_t n = 0;
  uint8_t* in0 = read_file(j->in, &n);
  uint8_t* in = in0;
  if (in0 && j->skip > 0) {
    size_t k = (size_t)j->skip > n ? n : (size_t)j->skip;
    in = in0 + k;
    n -= k;
  }
  if (!in) {
    fprintf(g_ev, "{\"j\":%ld,\"k\":\"skip\",\"why\":\"cannot read input\"}\n", j->id);
    return;
  }
  size_t on = 0;
  uint8_t* oracle = NULL;
  bool have_oracle = false;
  if (j->oracle[0]) {
    oracle = read_file(j->oracle, &on);
    have_oracle = oracle != NULL;
  }
  size_t sz = d->size();
  uint8_t* obj = (uint8_t*)malloc(sz);
  int pf = j->init == 1 ? 0 : j->prefill;
  memset(obj, pf, sz);
  if (g_tid < 0) arm_budget(j->budget_ms);
  if (j->prior[0]) {
    // decode another file first on this very memory (events discarded), then
    // re-initialize below WITHOUT refilling the memory
    size_t pn = 0;
    uint8_t* pin = read_file(j->prior, &pn);
    if (pin) {
      wuffs_base__status pst = d->init(obj, sz, WUFFS_VERSION, WUFFS_INITIALIZE__DEFAULT_OPTIONS);
      if (pst.repr == NULL) {
        FILE* keep = g_ev;
        FILE* nul = fopen("/dev/null", "w");
        if (nul) {
          job_t pj = *j;
          pj.out[0] = 0;
          pj.oracle[0] = 0;
          pj.init = 0;
          pj.maxcalls = 5000;
          g_ev = nul;
          run_kind(&pj, d, obj, pin, pn, NULL, 0, false);
          g_ev = keep;
          fclose(nul);
        }
      }
      free(pin);
    }
  }
  g_phase = "initialize";
  g_allocs_in_call = 0;
  g_in_call = 1;
  wuffs_base__status ist = d->init(obj, sz, WUFFS_VERSION, init_opts(j->init));
  g_in_call = 0;
  emit_begin(j, d, n, ist);
  if (ist.repr == NULL) {
    probe_pure(d, obj, sz, "fresh");
    run_kind(j, d, obj, in, n, oracle, on, have_oracle);
    probe_pure(d, obj, sz, "after");
  } else {
    fprintf(g_ev, "{\"j\":%ld,\"k\":\"end\",\"stop\":\"init_failed\",\"calls\":0,\"st\":", j->id);
    json_str(g_ev, ist.repr);
    fprintf(g_ev, ",\"cls\":\"%s\",\"out_total\":0,\"out_hash\":\"\",\"in_total\":0,\"n\":%zu,\"have_oracle\":false,\"oracle_n\":0,\"pfx\":true}\n",
            cls_of(ist.repr), n);
  }
  if (g_tid < 0) arm_budget(0);
  free(obj);
  free(oracle);
  free(in0);
  fflush(g_ev);
}

typedef struct {
  job_t job;
  int tid;
  char* buf;
  size_t len;
} pair_arg_t;

static void* pair_thread(void* p) {
  pair_arg_t* a = (pair_arg_t*)p;
  g_tid = a->tid;
  g_ev = open_memstream(&a->buf, &a->len);
  pthread_mutex_lock(&g_mu);
  while (g_turn >= 0 && g_turn != g_tid && g_alive[1 - g_tid]) pthread_cond_wait(&g_cv, &g_mu);
  pthread_mutex_unlock(&g_mu);
  fprintf(g_ev, "{\"j\":%ld,\"k\":\"start\"}\n", a->job.id);
  run_job(&a->job);
  fclose(g_ev);
  pthread_mutex_lock(&g_mu);
  g_alive[g_tid] = 0;
  if (g_turn >= 0) g_turn = 1 - g_tid;
  pthread_cond_broadcast(&g_cv);
  pthread_mutex_unlock(&g_mu);
  return NULL;
}

int main(int argc, char** argv) {
  if (argc < 3) {
    fprintf(stderr, "usage: stddrive jobs.txt events.ndjson\n");
    return 2;
  }
  FILE* jf = fopen(argv[1], "r");
  FILE* ev = fopen(argv[2], "a");
  if (!jf || !ev) {
    fprintf(stderr, "cannot open files\n");
    return 2;
  }
  g_ev = ev;
#ifdef VERIF_RANGE
  wuffs_verif__range_hook = rv_record;
#endif
  signal(SIGVTALRM, on_timeout);
  static char line[16384];
  while (fgets(line, sizeof line, jf)) {
    if (line[0] == '#' || line[0] == '\n') continue;
    if (!strncmp(line, "pair ", 5)) {
      // pair baton|free <job A> || <job B>
      int baton = !strncmp(line + 5, "baton", 5);
      char* sep = strstr(line, "||");
      if (!sep) continue;
      *sep = 0;
      pair_arg_t a[2];
      memset(a, 0, sizeof a);
      char* first = strchr(line + 5, ' ');
      if (!first || !parse_job(first, &a[0].job) || !parse_job(sep + 2, &a[1].job)) continue;
      a[0].tid = 0;
      a[1].tid = 1;
      g_alive[0] = g_alive[1] = 1;
      g_turn = baton ? 0 : -1;
      pthread_t th[2];
      pthread_create(&th[0], NULL, pair_thread, &a[0]);
      pthread_create(&th[1], NULL, pair_thread, &a[1]);
      pthread_join(th[0], NULL);
      pthread_join(th[1], NULL);
      g_turn = -1;
      for (int i = 0; i < 2; i++) {
        if (a[i].buf) {
          fwrite(a[i].buf, 1, a[i].len, ev);
          free(a[i].buf);
        }
      }
      fflush(ev);
      continue;
    }
    job_t j;
    if (!parse_job(line, &j)) continue;
    // announce the job first: if a sanitizer aborts the process the runner
    // knows which job was in flight
    fprintf(g_ev, "{\"j\":%ld,\"k\":\"start\"}\n", j.id);
    fflush(g_ev);
    run_job(&j);
  }
  fclose(jf);
  fclose(ev);
  return 0;
}

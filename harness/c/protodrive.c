// protodrive.c - realises the abstract call histories that TLC enumerates from
// spec/WuffsObject.tla on the C code `wuffs gen` produced from the working tree
// (check C08), and logs ONE EVENT PER CALL as ndjson in the schema of
// stddrive.c (DESIGN.md appendix A.1) plus the abstract action and the observed
// status string.  The events are validated by TLC against spec/Trace_Proto.tla;
// this program decides nothing except byte comparisons (hashes before/after).
//
// Build:  gcc -I<dir with wuffs-snapshot.c> protodrive.c               (std objects)
//         gcc -DPROTO_TWOCORO -I<dir with wuffs-base.c, wuffs-twocoro.c> protodrive.c
// Usage:  protodrive <jobs.txt> <events.ndjson>
//
// A job is one line of space-separated key=value pairs:
//   id=7 dec=gif nf=2 hm=0 via=direct|iface mem=zero|garbage start=0|1 valid=/path corrupt=/path
//   steps=op:m:a:f:r,op:m:a:f:r,...     (the action records of WuffsObject.tla)
//
// How an abstract action is realised:
//   init    f: keep | zero (memset 0) | garbage (memset 0xA5) before the call; a: badsize = sizeof - 1,
//           badver = major version + 1; m: default | zeroed (ALREADY_ZEROED) | leave (LEAVE_INTERNAL_BUFFERS_UNINITIALIZED)
//   coro    the source is an exact-size copy of the first `supplied` bytes of the stream, ri = bytes consumed so
//           far; f: none (nothing new) | half (half of the rest) | all (the rest, closed) | closed (nothing new,
//           closed) | corrupt (the damaged file, everything, closed).  r: none = the destination has no room.
//           a: nullsrc / nulldst = NULL pointer.
//   impure  set_quirk ok = (1 IGNORE_CHECKSUM, 1), bad = (0, 0); restart_frame ok = (0, first frame's io
//           position), bad = (7, 0); set_mode ok = 2, bad = 9; set_level ok = 5, bad = 10; update = the valid file
//   nullrecv the method with self = NULL

#ifdef PROTO_TWOCORO
#define WUFFS_IMPLEMENTATION
#define WUFFS_CONFIG__MODULES
#define WUFFS_CONFIG__MODULE__BASE
#define WUFFS_CONFIG__MODULE__TWOCORO
#include "wuffs-base.c"
#include "wuffs-twocoro.c"
#else
#define WUFFS_IMPLEMENTATION
#include "wuffs-snapshot.c"
#endif

#include <errno.h>
#include <signal.h>
#include <stdio.h>
#include <stdlib.h>
#include <string.h>
#include <sys/time.h>
#include <unistd.h>

#include "wreg.h"

#if defined(__SANITIZE_ADDRESS__)
#include <sanitizer/asan_interface.h>
#define POISON(p, n) ASAN_POISON_MEMORY_REGION((p), (n))
#define UNPOISON(p, n) ASAN_UNPOISON_MEMORY_REGION((p), (n))
#else
#define POISON(p, n) ((void)0)
#define UNPOISON(p, n) ((void)0)
#endif

// ------------------------------------------------------------------ utils

static FILE* g_ev = NULL;
static long g_job_id = -1;
static int g_step = 0;
// when set, the event of the current call also reports whether the object's bytes changed
static const uint8_t* g_chk_obj = NULL;
static size_t g_chk_sz = 0;
static uint64_t g_chk_h0 = 0;

static uint64_t fnv(const uint8_t* p, size_t n) {
  uint64_t h = 1469598103934665603ULL;
  for (size_t i = 0; i < n; i++) {
    h ^= p[i];
    h *= 1099511628211ULL;
  }
  return h;
}

static void ev_objchg(void);

// hash of a whole object (up to ~1 MB, twice per pure call): 8 bytes at a time and not instrumented by ASan,
// the object is the driver's own allocation
#if defined(__GNUC__)
__attribute__((no_sanitize("address", "undefined")))
#endif
static uint64_t obj_hash(const uint8_t* p, size_t n) {
  uint64_t h = 1469598103934665603ULL;
  size_t i = 0;
  for (; i + 8 <= n; i += 8) {
    uint64_t w;
    memcpy(&w, p + i, 8);
    h = (h ^ w) * 1099511628211ULL;
    h ^= h >> 29;
  }
  for (; i < n; i++) h = (h ^ p[i]) * 1099511628211ULL;
  return h;
}

static void json_str(FILE* f, const char* s) {
  fputc('"', f);
  if (s) {
    for (; *s; s++) {
      unsigned char c = (unsigned char)*s;
      if (c == '"' || c == '\\') {
        fputc('\\', f);
        fputc(c, f);
      } else if (c < 0x20 || c >= 0x7F) {
        fputc('?', f);
      } else {
        fputc(c, f);
      }
    }
  }
  fputc('"', f);
}

static const char* cls_of(const char* repr) {
  if (!repr) return "ok";
  switch (repr[0]) {
    case '@': return "note";
    case '$': return "susp";
    case '#': return "err";
  }
  return "bad";
}

static void ev_objchg(void) {
  if (g_chk_obj) fprintf(g_ev, ",\"objchg\":%s", obj_hash(g_chk_obj, g_chk_sz) != g_chk_h0 ? "true" : "false");
}

static void on_timeout(int sig) {
  (void)sig;
  char buf[160];
  int n = snprintf(buf, sizeof buf, "{\"j\":%ld,\"k\":\"timeout\",\"i\":%d}\n", g_job_id, g_step);
  if (g_ev) {
    fflush(g_ev);
    if (write(fileno(g_ev), buf, (size_t)n) < 0) {}
  }
  _exit(3);
}

static void arm_budget(long ms) {
  struct itimerval it;
  memset(&it, 0, sizeof it);
  it.it_value.tv_sec = ms / 1000;
  it.it_value.tv_usec = (ms % 1000) * 1000;
  setitimer(ITIMER_VIRTUAL, &it, NULL);
}

static uint8_t* read_file(const char* path, size_t* n) {
  FILE* f = fopen(path, "rb");
  if (!f) return NULL;
  fseek(f, 0, SEEK_END);
  long sz = ftell(f);
  fseek(f, 0, SEEK_SET);
  uint8_t* p = (uint8_t*)malloc(sz > 0 ? (size_t)sz : 1);
  if (sz > 0 && fread(p, 1, (size_t)sz, f) != (size_t)sz) {
    fclose(f);
    free(p);
    return NULL;
  }
  fclose(f);
  *n = (size_t)sz;
  return p;
}

// -------------------------------------------------------------- file cache
// a process runs thousands of jobs over a handful of files

typedef struct {
  char path[512];
  uint8_t* data;
  size_t n;
} cfile_t;
static cfile_t g_files[64];
static int g_nfiles = 0;

static const cfile_t* get_file(const char* path) {
  for (int i = 0; i < g_nfiles; i++) {
    if (!strcmp(g_files[i].path, path)) return &g_files[i];
  }
  if (g_nfiles >= 64) return NULL;
  cfile_t* c = &g_files[g_nfiles];
  snprintf(c->path, sizeof c->path, "%s", path);
  c->data = read_file(path, &c->n);
  if (!c->data) return NULL;
  g_nfiles++;
  return c;
}

// ------------------------------------------------------------------- jobs

#define MAXSTEPS 16
typedef struct {
  char op[12], m[24], a[12], f[12], r[12];
} step_t;

typedef struct {
  long id;
  char dec[32];
  char valid[512], corrupt[512];
  int nf, hm, via_iface, mem_garbage, start;
  long halfk;        // > 0: a "half" supply is exactly this many bytes
  long budget_ms;
  int nsteps;
  step_t steps[MAXSTEPS];
} job_t;

static int parse_steps(job_t* j, char* s) {
  j->nsteps = 0;
  for (char* tok = s; tok && *tok && j->nsteps < MAXSTEPS;) {
    char* comma = strchr(tok, ',');
    if (comma) *comma = 0;
    step_t* st = &j->steps[j->nsteps];
    char* fld[5] = {st->op, st->m, st->a, st->f, st->r};
    size_t cap[5] = {sizeof st->op, sizeof st->m, sizeof st->a, sizeof st->f, sizeof st->r};
    char* p = tok;
    for (int i = 0; i < 5; i++) {
      char* colon = strchr(p, ':');
      if (colon) *colon = 0;
      snprintf(fld[i], cap[i], "%s", p);
      if (!colon) {
        if (i != 4) return 0;
        break;
      }
      p = colon + 1;
    }
    j->nsteps++;
    tok = comma ? comma + 1 : NULL;
  }
  return 1;
}

static int parse_job(char* line, job_t* j) {
  memset(j, 0, sizeof *j);
  j->id = -1;
  j->nf = 1;
  j->budget_ms = 20000;
  char* steps = NULL;
  for (char* tok = strtok(line, " \t\r\n"); tok; tok = strtok(NULL, " \t\r\n")) {
    char* eq = strchr(tok, '=');
    if (!eq) continue;
    *eq = 0;
    const char* k = tok;
    char* v = eq + 1;
    if (!strcmp(k, "id")) j->id = atol(v);
    else if (!strcmp(k, "dec")) snprintf(j->dec, sizeof j->dec, "%s", v);
    else if (!strcmp(k, "valid")) snprintf(j->valid, sizeof j->valid, "%s", v);
    else if (!strcmp(k, "corrupt")) snprintf(j->corrupt, sizeof j->corrupt, "%s", v);
    else if (!strcmp(k, "nf")) j->nf = atoi(v);
    else if (!strcmp(k, "hm")) j->hm = atoi(v);
    else if (!strcmp(k, "halfk")) j->halfk = atol(v);
    else if (!strcmp(k, "via")) j->via_iface = !strcmp(v, "iface");
    else if (!strcmp(k, "mem")) j->mem_garbage = !strcmp(v, "garbage");
    else if (!strcmp(k, "start")) j->start = atoi(v);
    else if (!strcmp(k, "budget_ms")) j->budget_ms = atol(v);
    else if (!strcmp(k, "steps")) steps = v;
  }
  if (j->id < 0 || !j->dec[0] || !steps) return 0;
  return parse_steps(j, steps);
}

// -------------------------------------------------------------- calibration
// One ordinary decode of the valid file per decoder and process tells the
// driver what a caller would know: the pixel configuration, the work buffer
// length and the I/O position of the first frame (for restart_frame).

typedef struct {
  char dec[32];
  char valid[512];
  bool ok;
  size_t wb_len;
  uint64_t p0;
  wuffs_base__image_config ic;
  size_t pix_len;
} calib_t;
static calib_t g_calib[32];
static int g_ncalib = 0;

static const calib_t* calibrate(const obj_t* o, const job_t* j, const cfile_t* valid) {
  for (int i = 0; i < g_ncalib; i++) {
    if (!strcmp(g_calib[i].dec, j->dec) && !strcmp(g_calib[i].valid, j->valid)) return &g_calib[i];
  }
  if (g_ncalib >= 32) return NULL;
  calib_t* c = &g_calib[g_ncalib++];
  memset(c, 0, sizeof *c);
  snprintf(c->dec, sizeof c->dec, "%s", j->dec);
  snprintf(c->valid, sizeof c->valid, "%s", j->valid);
  c->ok = true;
  c->pix_len = 64 * 64 * 4;
  if (o->kind == K_HASH || o->kind == K_TWOCORO) return c;
  size_t sz = o->size();
  void* obj = calloc(1, sz);
  wuffs_base__status st = o->init(obj, sz, WUFFS_VERSION, WUFFS_INITIALIZE__ALREADY_ZEROED);
  if (st.repr) {
    c->ok = false;
    free(obj);
    return c;
  }
  if (o->kind == K_IMAGE) {
    wuffs_base__io_buffer src = wuffs_base__ptr_u8__reader(valid->data, valid->n, true);
    st = o->dic(obj, &c->ic, &src);
    if (st.repr || !wuffs_base__image_config__is_valid(&c->ic)) {
      c->ok = false;
    } else {
      c->p0 = wuffs_base__image_config__first_frame_io_position(&c->ic);
      // the caller decodes into BGRA_NONPREMUL (every decoder's swizzler supports it)
      wuffs_base__pixel_config__set(&c->ic.pixcfg, WUFFS_BASE__PIXEL_FORMAT__BGRA_NONPREMUL, WUFFS_BASE__PIXEL_SUBSAMPLING__NONE,
                                    wuffs_base__pixel_config__width(&c->ic.pixcfg), wuffs_base__pixel_config__height(&c->ic.pixcfg));
      uint64_t pl = wuffs_base__pixel_config__pixbuf_len(&c->ic.pixcfg);
      if (pl == 0 || pl > (64u << 20)) c->ok = false;
      else c->pix_len = (size_t)pl;
    }
  }
  uint64_t wl = o->workbuf_len(obj).max_incl;
  if (wl > (64u << 20)) {
    c->ok = false;
    wl = 0;
  }
  c->wb_len = (size_t)wl;
  free(obj);
  return c;
}

// ------------------------------------------------------------ per-job state

#define DST_CAP (16u * 1024u)
#define TOK_CAP 512u

typedef struct {
  const obj_t* o;
  const job_t* j;
  const calib_t* cal;
  uint8_t* obj;
  size_t sz;
  // the source stream as the caller sees it
  const cfile_t *valid, *corrupt;
  const uint8_t* data;
  size_t n, cursor, supplied;
  bool closed;
  // destinations (persist between calls; reset by a successful initialize)
  uint8_t* dbuf;
  size_t dwi;
  wuffs_base__token* tbuf;
  size_t twi;
  uint8_t* wb;
  uint8_t* pix;
} run_t;

static void stream_reset(run_t* r) {
  r->data = r->valid->data;
  r->n = r->valid->n;
  r->cursor = 0;
  r->supplied = 0;
  r->closed = false;
  r->dwi = 0;
  r->twi = 0;
}

static void apply_feed(run_t* r, const char* f) {
  if (r->closed) return;  // nothing can be added to a closed source
  if (!strcmp(f, "half")) {
    size_t rest = r->n - r->supplied;
    size_t k = rest / 2;
    if (k == 0 && rest > 0) k = 1;
    // halfk=K (job parameter): a "partial" supply is exactly K more bytes - the same abstract action of
    // WuffsObject.tla ("part"), realised at every small split point (a boundary inside a fixed-size header field)
    if (r->j->halfk > 0) k = (size_t)r->j->halfk < rest ? (size_t)r->j->halfk : rest;
    r->supplied += k;
  } else if (!strcmp(f, "all")) {
    r->supplied = r->n;
    r->closed = true;
  } else if (!strcmp(f, "closed")) {
    r->closed = true;
  } else if (!strcmp(f, "corrupt")) {
    r->data = r->corrupt->data;
    r->n = r->corrupt->n;
    r->supplied = r->n;
    r->closed = true;
  }
}

// ------------------------------------------------------------------ events

typedef struct {
  bool has_src, has_dst;
  size_t sri0, swi0, slen0;
  bool scl0;
  uint64_t spos0, shash0;
  const uint8_t* sptr0;
  size_t dri0, dwi0, dlen0;
  bool dcl0;
  uint64_t dpos0, dhash0;
  const uint8_t* dptr0;
} snap_t;

static void ev_head(const step_t* s, bool via_iface) {
  fprintf(g_ev, "{\"j\":%ld,\"k\":\"call\",\"i\":%d,\"op\":\"%s\",\"m\":\"%s\",\"a\":\"%s\",\"f\":\"%s\",\"r\":\"%s\",\"via\":\"%s\"",
          g_job_id, g_step, s->op, s->m, s->a, s->f, s->r, via_iface ? "iface" : "direct");
}

static void ev_status(wuffs_base__status st, bool has_status) {
  fprintf(g_ev, ",\"st\":");
  json_str(g_ev, has_status ? st.repr : NULL);
  fprintf(g_ev, ",\"cls\":\"%s\",\"internal\":%s,\"al\":0", has_status ? cls_of(st.repr) : "ok",
          (has_status && st.repr && strstr(st.repr, "internal error")) ? "true" : "false");
}

static void snap_src(snap_t* sn, const wuffs_base__io_buffer* src) {
  sn->has_src = true;
  sn->sri0 = src->meta.ri;
  sn->swi0 = src->meta.wi;
  sn->slen0 = src->data.len;
  sn->scl0 = src->meta.closed;
  sn->spos0 = src->meta.pos;
  sn->sptr0 = src->data.ptr;
  sn->shash0 = fnv(src->data.ptr, src->meta.wi);
}

// dst fields are in units of the buffer's elements (bytes, or tokens)
static void snap_dst(snap_t* sn, const uint8_t* ptr, size_t ri, size_t wi, size_t len, bool closed, uint64_t pos, size_t elem) {
  sn->has_dst = true;
  sn->dri0 = ri;
  sn->dwi0 = wi;
  sn->dlen0 = len;
  sn->dcl0 = closed;
  sn->dpos0 = pos;
  sn->dptr0 = ptr;
  sn->dhash0 = fnv(ptr, wi * elem);
}

static void ev_src(const snap_t* sn, const wuffs_base__io_buffer* src) {
  if (!sn->has_src) return;
  bool same = src->data.ptr == sn->sptr0 && src->data.len == sn->slen0 && src->meta.wi >= sn->swi0 &&
              fnv(src->data.ptr, sn->swi0) == sn->shash0;
  fprintf(g_ev,
          ",\"sri0\":%zu,\"swi0\":%zu,\"slen\":%zu,\"scl0\":%s,\"sri1\":%zu,\"swi1\":%zu,\"scl1\":%s,\"spos_same\":%s,\"ssame\":%s",
          sn->sri0, sn->swi0, sn->slen0, sn->scl0 ? "true" : "false", src->meta.ri, src->meta.wi,
          src->meta.closed ? "true" : "false", src->meta.pos == sn->spos0 ? "true" : "false", same ? "true" : "false");
}

static void ev_dst(const snap_t* sn, const uint8_t* ptr, size_t ri, size_t wi, size_t len, bool closed, uint64_t pos, size_t elem) {
  if (!sn->has_dst) return;
  bool same = ptr == sn->dptr0 && len == sn->dlen0 && wi >= sn->dwi0 && wi <= len && fnv(ptr, sn->dwi0 * elem) == sn->dhash0;
  fprintf(g_ev, ",\"dri0\":%zu,\"dwi0\":%zu,\"dlen\":%zu,\"dri1\":%zu,\"dwi1\":%zu,\"dcl_same\":%s,\"dpos_same\":%s,\"dsame\":%s",
          sn->dri0, sn->dwi0, sn->dlen0, ri, wi, closed == sn->dcl0 ? "true" : "false", pos == sn->dpos0 ? "true" : "false",
          same ? "true" : "false");
}

// ------------------------------------------------------------------- steps

static void do_init(run_t* r, const step_t* s) {
  if (!strcmp(s->f, "zero")) memset(r->obj, 0, r->sz);
  else if (!strcmp(s->f, "garbage")) memset(r->obj, 0xA5, r->sz);
  size_t size = r->sz;
  uint64_t ver = WUFFS_VERSION;
  if (!strcmp(s->a, "badsize") || !strcmp(s->a, "badboth")) size = r->sz - 1;
  if (!strcmp(s->a, "badver") || !strcmp(s->a, "badboth")) ver = WUFFS_VERSION + (1ULL << 32);
  uint32_t opts = WUFFS_INITIALIZE__DEFAULT_OPTIONS;
  if (!strcmp(s->m, "zeroed")) opts = WUFFS_INITIALIZE__ALREADY_ZEROED;
  else if (!strcmp(s->m, "leave")) opts = WUFFS_INITIALIZE__LEAVE_INTERNAL_BUFFERS_UNINITIALIZED;
  wuffs_base__status st = r->o->init(r->obj, size, ver, opts);
  if (!st.repr) stream_reset(r);
  ev_head(s, false);
  ev_status(st, true);
  fprintf(g_ev, "}\n");
}

// One call of a public coroutine (self may be NULL for the nullrecv action).
static void do_coro(run_t* r, const step_t* s, void* self, const char* m, const char* a, const char* f, const char* room) {
  const obj_t* o = r->o;
  bool iface = r->j->via_iface && o->kind != K_TWOCORO;
  void* up = (self && iface) ? o->upcast(self) : NULL;
  bool nullsrc = !strcmp(a, "nullsrc"), nulldst = !strcmp(a, "nulldst");
  bool reads = strcmp(m, "bar") != 0;
  bool noroom = !strcmp(room, "none");

  // the source window: an exact-size copy, so that a read past wi is a heap overflow for ASan
  wuffs_base__io_buffer src;
  memset(&src, 0, sizeof src);
  uint8_t* sbuf = NULL;
  if (reads) {
    if (self) apply_feed(r, f);
    sbuf = (uint8_t*)malloc(r->supplied ? r->supplied : 1);
    if (r->supplied) memcpy(sbuf, r->data, r->supplied);
    src.data.ptr = sbuf;
    src.data.len = r->supplied;
    src.meta.wi = r->supplied;
    src.meta.ri = r->cursor <= r->supplied ? r->cursor : r->supplied;
    src.meta.pos = 0;
    src.meta.closed = r->closed;
  }
  wuffs_base__io_buffer* psrc = (reads && !nullsrc) ? &src : NULL;

  snap_t sn;
  memset(&sn, 0, sizeof sn);
  if (psrc) snap_src(&sn, psrc);
  wuffs_base__status st = wuffs_base__make_status(NULL);
  wuffs_base__slice_u8 wbs = wuffs_base__make_slice_u8(r->wb, r->cal->wb_len);

  if (!strcmp(m, "transform_io") || !strcmp(m, "bar") || !strcmp(m, "tell_me_more")) {
    // byte destination
    bool is_tmm = !strcmp(m, "tell_me_more");
    wuffs_base__io_buffer dst;
    memset(&dst, 0, sizeof dst);
    uint8_t* tmmbuf = NULL;
    if (is_tmm) {
      tmmbuf = (uint8_t*)malloc(4096);
      memset(tmmbuf, 0xA5, 4096);
      dst.data.ptr = tmmbuf;
      dst.data.len = noroom ? 0 : 4096;
    } else {
      dst.data.ptr = r->dbuf;
      dst.data.len = noroom ? r->dwi : DST_CAP;
      dst.meta.wi = r->dwi;
      if (noroom) POISON(r->dbuf + r->dwi, DST_CAP - r->dwi);
    }
    wuffs_base__io_buffer* pdst = nulldst ? NULL : &dst;
    if (pdst) snap_dst(&sn, dst.data.ptr, dst.meta.ri, dst.meta.wi, dst.data.len, dst.meta.closed, dst.meta.pos, 1);
    wuffs_base__more_information mi;
    memset(&mi, 0, sizeof mi);
    if (!strcmp(m, "transform_io")) {
#ifndef PROTO_TWOCORO
      st = iface ? wuffs_base__io_transformer__transform_io((wuffs_base__io_transformer*)up, pdst, psrc, wbs)
                 : o->transform_io(self, pdst, psrc, wbs);
#endif
    } else if (!strcmp(m, "bar")) {
      st = o->bar(self, pdst);
    } else {
#ifndef PROTO_TWOCORO
      st = iface ? wuffs_base__image_decoder__tell_me_more((wuffs_base__image_decoder*)up, pdst, &mi, psrc)
                 : o->tmm(self, pdst, &mi, psrc);
#endif
    }
    if (!is_tmm) UNPOISON(r->dbuf, DST_CAP);
    ev_head(s, iface);
    if (psrc) ev_src(&sn, psrc);
    if (pdst) ev_dst(&sn, dst.data.ptr, dst.meta.ri, dst.meta.wi, dst.data.len, dst.meta.closed, dst.meta.pos, 1);
    if (pdst && !is_tmm && dst.meta.wi <= DST_CAP && dst.meta.wi >= r->dwi) r->dwi = dst.meta.wi;
    if (is_tmm && st.repr && st.repr[0] == '$' && psrc) {
      // the caller's part of the metadata protocol: skip the raw bytes / seek where told
      if (mi.flavor == WUFFS_BASE__MORE_INFORMATION__FLAVOR__METADATA_RAW_PASSTHROUGH) {
        uint64_t z = wuffs_base__more_information__metadata_raw_passthrough__range(&mi).max_excl;
        if (z <= r->n && z >= src.meta.ri) {
          src.meta.ri = (size_t)z;
          if (r->supplied < z) r->supplied = (size_t)z;
        }
        fprintf(g_ev, ",\"minfo\":\"passthrough\"");
      } else if (mi.flavor == WUFFS_BASE__MORE_INFORMATION__FLAVOR__IO_SEEK) {
        uint64_t x = wuffs_base__more_information__io_seek__position(&mi);
        if (x <= r->n) {
          src.meta.ri = (size_t)x;
          if (r->supplied < x) r->supplied = (size_t)x;
        }
        fprintf(g_ev, ",\"minfo\":\"seek\"");
      }
    }
    free(tmmbuf);
  } else if (!strcmp(m, "decode_tokens")) {
    wuffs_base__token_buffer tb;
    memset(&tb, 0, sizeof tb);
    tb.data.ptr = r->tbuf;
    tb.data.len = noroom ? r->twi : TOK_CAP;
    tb.meta.wi = r->twi;
    wuffs_base__token_buffer* ptb = nulldst ? NULL : &tb;
    if (ptb) snap_dst(&sn, (const uint8_t*)tb.data.ptr, tb.meta.ri, tb.meta.wi, tb.data.len, tb.meta.closed, tb.meta.pos, sizeof(wuffs_base__token));
#ifndef PROTO_TWOCORO
    st = iface ? wuffs_base__token_decoder__decode_tokens((wuffs_base__token_decoder*)up, ptb, psrc, wbs)
               : o->decode_tokens(self, ptb, psrc, wbs);
#endif
    ev_head(s, iface);
    if (psrc) ev_src(&sn, psrc);
    if (ptb) ev_dst(&sn, (const uint8_t*)tb.data.ptr, tb.meta.ri, tb.meta.wi, tb.data.len, tb.meta.closed, tb.meta.pos, sizeof(wuffs_base__token));
    if (ptb && tb.meta.wi <= TOK_CAP && tb.meta.wi >= r->twi) r->twi = tb.meta.wi;
  } else if (!strcmp(m, "foo")) {
    st = o->foo(self, psrc);
    ev_head(s, iface);
    if (psrc) ev_src(&sn, psrc);
  } else {
#ifndef PROTO_TWOCORO
    wuffs_base__image_decoder* idec = (wuffs_base__image_decoder*)up;
    if (!strcmp(m, "decode_image_config")) {
      wuffs_base__image_config ic;
      memset(&ic, 0, sizeof ic);
      st = iface ? wuffs_base__image_decoder__decode_image_config(idec, &ic, psrc) : o->dic(self, &ic, psrc);
    } else if (!strcmp(m, "decode_frame_config")) {
      wuffs_base__frame_config fc;
      memset(&fc, 0, sizeof fc);
      st = iface ? wuffs_base__image_decoder__decode_frame_config(idec, &fc, psrc) : o->dfc(self, &fc, psrc);
    } else if (!strcmp(m, "decode_frame")) {
      wuffs_base__pixel_buffer pb;
      memset(&pb, 0, sizeof pb);
      wuffs_base__pixel_config pc = r->cal->ic.pixcfg;
      if (!r->cal->ok) wuffs_base__pixel_config__set(&pc, WUFFS_BASE__PIXEL_FORMAT__BGRA_NONPREMUL, 0, 64, 64);
      wuffs_base__status pst = wuffs_base__pixel_buffer__set_from_slice(&pb, &pc, wuffs_base__make_slice_u8(r->pix, r->cal->pix_len));
      (void)pst;
      wuffs_base__pixel_buffer* ppb = nulldst ? NULL : &pb;
      st = iface ? wuffs_base__image_decoder__decode_frame(idec, ppb, psrc, WUFFS_BASE__PIXEL_BLEND__SRC, wbs, NULL)
                 : o->df(self, ppb, psrc, WUFFS_BASE__PIXEL_BLEND__SRC, wbs, NULL);
    }
#endif
    ev_head(s, iface);
    if (psrc) ev_src(&sn, psrc);
  }
  ev_status(st, true);
  if (psrc && self) {
    // what the callee consumed (only trusted while the indexes are in order; TLC judges the event)
    if (src.meta.ri <= src.meta.wi && src.meta.wi <= src.data.len && src.meta.ri >= r->cursor) r->cursor = src.meta.ri;
  }
  ev_objchg();
  fprintf(g_ev, ",\"cursor\":%zu,\"supplied\":%zu,\"n\":%zu}\n", r->cursor, r->supplied, r->n);
  free(sbuf);
}

static void do_impure(run_t* r, const step_t* s, void* self, const char* m, const char* a) {
  const obj_t* o = r->o;
  bool iface = r->j->via_iface && o->kind != K_TWOCORO;
  void* up = (self && iface) ? o->upcast(self) : NULL;
  (void)up;
  bool bad = !strcmp(a, "bad");
  wuffs_base__status st = wuffs_base__make_status(NULL);
  bool has_status = true;
  bool ssame = true;
  if (!strcmp(m, "set_quirk")) {
    uint32_t key = bad ? 0 : 1;
    uint64_t val = bad ? 0 : 1;
#ifndef PROTO_TWOCORO
    if (!iface) st = o->set_quirk(self, key, val);
    else if (o->kind == K_XFORM) st = wuffs_base__io_transformer__set_quirk((wuffs_base__io_transformer*)up, key, val);
    else if (o->kind == K_IMAGE) st = wuffs_base__image_decoder__set_quirk((wuffs_base__image_decoder*)up, key, val);
    else if (o->kind == K_TOKEN) st = wuffs_base__token_decoder__set_quirk((wuffs_base__token_decoder*)up, key, val);
    else if (o->hash_bits == 32) st = wuffs_base__hasher_u32__set_quirk((wuffs_base__hasher_u32*)up, key, val);
    else st = wuffs_base__hasher_bitvec256__set_quirk((wuffs_base__hasher_bitvec256*)up, key, val);
#else
    (void)key;
    (void)val;
#endif
  } else if (!strcmp(m, "restart_frame")) {
    uint64_t idx = bad ? 7 : 0;
    uint64_t pos = bad ? 0 : r->cal->p0;
#ifndef PROTO_TWOCORO
    st = iface ? wuffs_base__image_decoder__restart_frame((wuffs_base__image_decoder*)up, idx, pos) : o->restart_frame(self, idx, pos);
#else
    (void)idx;
#endif
    if (!st.repr && self && pos <= r->n) {
      r->cursor = (size_t)pos;  // the caller seeks the source to the frame
      if (r->supplied < r->cursor) r->supplied = r->cursor;
    }
  } else if (!strcmp(m, "set_mode")) {
    st = o->set_mode(self, bad ? 9 : 2);
  } else if (!strcmp(m, "set_level")) {
    has_status = false;
    o->set_level(self, bad ? 10 : 5);
  } else if (!strcmp(m, "set_report_metadata")) {
    has_status = false;
#ifndef PROTO_TWOCORO
    const uint32_t fourccs[] = {0x49434350 /*ICCP*/, 0x584D5020 /*XMP */, 0x45584946 /*EXIF*/, 0x4B565020 /*KVP */, 0x47414D41 /*GAMA*/};
    for (size_t i = 0; i < sizeof fourccs / sizeof fourccs[0]; i++) {
      if (iface) wuffs_base__image_decoder__set_report_metadata((wuffs_base__image_decoder*)up, fourccs[i], true);
      else o->set_report_metadata(self, fourccs[i], true);
    }
#endif
  } else if (!strcmp(m, "update")) {
    has_status = false;
    size_t k = r->valid->n;
    uint8_t* piece = (uint8_t*)malloc(k ? k : 1);
    if (k) memcpy(piece, r->valid->data, k);
    uint64_t h0 = fnv(piece, k);
#ifndef PROTO_TWOCORO
    wuffs_base__slice_u8 x = wuffs_base__make_slice_u8(piece, k);
    if (!iface) o->update(self, x);
    else if (o->hash_bits == 32) wuffs_base__hasher_u32__update((wuffs_base__hasher_u32*)up, x);
    else wuffs_base__hasher_bitvec256__update((wuffs_base__hasher_bitvec256*)up, x);
#endif
    ssame = fnv(piece, k) == h0;
    free(piece);
  }
  ev_head(s, iface);
  ev_status(st, has_status);
  ev_objchg();
  fprintf(g_ev, ",\"ssame\":%s}\n", ssame ? "true" : "false");
}

static void do_pure(run_t* r, const step_t* s) {
  const obj_t* o = r->o;
  bool iface = r->j->via_iface && o->kind != K_TWOCORO;
  void* up = iface ? o->upcast(r->obj) : NULL;
  (void)up;
  uint64_t h0 = obj_hash(r->obj, r->sz);
  uint64_t ret = 0, ret2 = 0;
  if (!strcmp(s->m, "workbuf_len")) {
    wuffs_base__range_ii_u64 w = {0};
#ifndef PROTO_TWOCORO
    if (!iface) w = o->workbuf_len(r->obj);
    else if (o->kind == K_XFORM) w = wuffs_base__io_transformer__workbuf_len((const wuffs_base__io_transformer*)up);
    else if (o->kind == K_IMAGE) w = wuffs_base__image_decoder__workbuf_len((const wuffs_base__image_decoder*)up);
    else w = wuffs_base__token_decoder__workbuf_len((const wuffs_base__token_decoder*)up);
#endif
    ret = w.min_incl;
    ret2 = w.max_incl;
  } else if (!strcmp(s->m, "num_decoded_frames")) {
#ifndef PROTO_TWOCORO
    ret = iface ? wuffs_base__image_decoder__num_decoded_frames((const wuffs_base__image_decoder*)up) : o->num_decoded_frames(r->obj);
#endif
  } else if (!strcmp(s->m, "checksum")) {
#ifndef PROTO_TWOCORO
    if (!iface) ret = o->checksum(r->obj);
    else if (o->hash_bits == 32) ret = wuffs_base__hasher_u32__checksum_u32((const wuffs_base__hasher_u32*)up);
    else ret = wuffs_base__hasher_bitvec256__checksum_bitvec256((const wuffs_base__hasher_bitvec256*)up).elements_u64[0];
#endif
  } else if (!strcmp(s->m, "get_sum")) {
    ret = o->get_sum(r->obj);
  }
  bool objchg = obj_hash(r->obj, r->sz) != h0;
  ev_head(s, iface);
  ev_status(wuffs_base__make_status(NULL), false);
  fprintf(g_ev, ",\"objchg\":%s,\"ret\":\"%llu,%llu\"}\n", objchg ? "true" : "false", (unsigned long long)ret, (unsigned long long)ret2);
}

static void do_nullrecv(run_t* r, const step_t* s) {
  g_chk_obj = r->obj;
  g_chk_sz = r->sz;
  g_chk_h0 = obj_hash(r->obj, r->sz);
  if (!strcmp(s->m, "initialize")) {
    wuffs_base__status st = r->o->init(NULL, r->sz, WUFFS_VERSION, 0);
    ev_head(s, false);
    ev_status(st, true);
    ev_objchg();
    fprintf(g_ev, "}\n");
  } else if (!strcmp(s->m, "set_quirk") || !strcmp(s->m, "restart_frame") || !strcmp(s->m, "set_mode")) {
    do_impure(r, s, NULL, s->m, "ok");
  } else {
    do_coro(r, s, NULL, s->m, "ok", "none", "ample");
  }
  g_chk_obj = NULL;
}

// --------------------------------------------------------------------- main

static void run_job(const job_t* j) {
  g_job_id = j->id;
  g_step = 0;
  const obj_t* o = find_obj(j->dec);
  const cfile_t* valid = get_file(j->valid);
  const cfile_t* corrupt = get_file(j->corrupt);
  if (!o || !valid || !corrupt) {
    fprintf(g_ev, "{\"j\":%ld,\"k\":\"skip\",\"why\":\"%s\"}\n", j->id, !o ? "unknown object" : "cannot read input");
    return;
  }
  const calib_t* cal = calibrate(o, j, valid);
  if (!cal) {
    fprintf(g_ev, "{\"j\":%ld,\"k\":\"skip\",\"why\":\"calibration table full\"}\n", j->id);
    return;
  }
  run_t r;
  memset(&r, 0, sizeof r);
  r.o = o;
  r.j = j;
  r.cal = cal;
  r.valid = valid;
  r.corrupt = corrupt;
  r.sz = o->size();
  // one exact-size allocation per object type and process (a fresh 1 MB malloc per job is what costs under ASan)
  static struct { const obj_t* o; uint8_t* mem; } s_objs[16];
  for (int i = 0; i < 16 && !r.obj; i++) {
    if (s_objs[i].o == o) {
      r.obj = s_objs[i].mem;
    } else if (!s_objs[i].o) {
      s_objs[i].o = o;
      s_objs[i].mem = (uint8_t*)malloc(r.sz);
      r.obj = s_objs[i].mem;
    }
  }
  memset(r.obj, j->mem_garbage ? 0xA5 : 0, r.sz);
  // the caller's buffers live as long as the process; every job starts with them filled with 0xA5
  static uint8_t* s_dbuf = NULL;
  static wuffs_base__token* s_tbuf = NULL;
  static uint8_t* s_wb = NULL;
  static size_t s_wb_cap = 0;
  static uint8_t* s_pix = NULL;
  static size_t s_pix_cap = 0;
  if (!s_dbuf) s_dbuf = (uint8_t*)malloc(DST_CAP);
  if (!s_tbuf) s_tbuf = (wuffs_base__token*)malloc(TOK_CAP * sizeof(wuffs_base__token));
  if (s_wb_cap < cal->wb_len + 1) {
    free(s_wb);
    s_wb_cap = cal->wb_len + 1;
    s_wb = (uint8_t*)malloc(s_wb_cap);
  }
  if (s_pix_cap < cal->pix_len) {
    free(s_pix);
    s_pix_cap = cal->pix_len;
    s_pix = (uint8_t*)malloc(s_pix_cap);
  }
  r.dbuf = s_dbuf;
  memset(r.dbuf, 0xA5, DST_CAP);
  r.tbuf = s_tbuf;
  memset(r.tbuf, 0xA5, TOK_CAP * sizeof(wuffs_base__token));
  r.wb = s_wb;
  memset(r.wb, 0xA5, cal->wb_len + 1);
  r.pix = s_pix;
  memset(r.pix, 0xA5, cal->pix_len);
  stream_reset(&r);
  arm_budget(j->budget_ms);
  wuffs_base__status ist = wuffs_base__make_status(NULL);
  if (j->start) ist = o->init(r.obj, r.sz, WUFFS_VERSION, WUFFS_INITIALIZE__DEFAULT_OPTIONS);
  fprintf(g_ev, "{\"j\":%ld,\"k\":\"begin\",\"dec\":\"%s\",\"kind\":\"%s\",\"nf\":%d,\"hm\":%s,\"mem\":\"%s\",\"start\":%s,\"calib\":%s,\"ist\":",
          j->id, o->name, g_kind_names[o->kind], j->nf, j->hm ? "true" : "false", j->mem_garbage ? "garbage" : "zero",
          j->start ? "true" : "false", cal->ok ? "true" : "false");
  json_str(g_ev, ist.repr);
  fprintf(g_ev, "}\n");
  for (int i = 0; i < j->nsteps; i++) {
    const step_t* s = &j->steps[i];
    g_step = i + 1;
    if (!strcmp(s->op, "init")) do_init(&r, s);
    else if (!strcmp(s->op, "coro")) do_coro(&r, s, r.obj, s->m, s->a, s->f, s->r);
    else if (!strcmp(s->op, "impure")) do_impure(&r, s, r.obj, s->m, s->a);
    else if (!strcmp(s->op, "pure")) do_pure(&r, s);
    else if (!strcmp(s->op, "nullrecv")) do_nullrecv(&r, s);
    else fprintf(g_ev, "{\"j\":%ld,\"k\":\"skip\",\"why\":\"unknown op\"}\n", j->id);
  }
  arm_budget(0);
  fprintf(g_ev, "{\"j\":%ld,\"k\":\"end\",\"stop\":\"done\",\"calls\":%d}\n", j->id, j->nsteps);
}

int main(int argc, char** argv) {
  if (argc < 3) {
    fprintf(stderr, "usage: protodrive jobs.txt events.ndjson\n");
    return 2;
  }
  FILE* jf = fopen(argv[1], "r");
  g_ev = fopen(argv[2], "a");
  if (!jf || !g_ev) {
    fprintf(stderr, "cannot open files\n");
    return 2;
  }
  static char evbuf[1 << 16];
  setvbuf(g_ev, evbuf, _IOFBF, sizeof evbuf);
  signal(SIGVTALRM, on_timeout);
  static char line[16384];
  static job_t j;
  while (fgets(line, sizeof line, jf)) {
    if (line[0] == '#' || line[0] == '\n') continue;
    if (!parse_job(line, &j)) continue;
    // announce the job first: if a sanitizer aborts the process the runner knows which job was in flight
    // (the flush is what makes the line survive a crash; it also bounds what a crash can lose to this job)
    fflush(g_ev);
    fprintf(g_ev, "{\"j\":%ld,\"k\":\"start\"}\n", j.id);
    fflush(g_ev);
    run_job(&j);
  }
  fclose(jf);
  fclose(g_ev);
  return 0;
}

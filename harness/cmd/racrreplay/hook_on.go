//go:build racverifhook

package main

// Built against a wuffs tree that has hook H2 (rac.VerifHook exists, build
// tag `verif`): the hook logs one event per completed channel operation of
// the concurrent reader and yields / sleeps as a function of (seed, event).

import "github.com/google/wuffs/lib/rac"

const hookAvailable = true

func installHook(seed uint64, perturb bool, tr *tracer) {
	if !perturb && tr == nil {
		rac.VerifHook = nil
		return
	}
	rac.VerifHook = func(ev string, owner interface{}, a, b int64) {
		if tr != nil {
			tr.log(ev, owner, a, b)
		}
		if perturb {
			h := uint64(len(ev))
			for i := 0; i < len(ev); i++ {
				h = h*131 + uint64(ev[i])
			}
			delay(mix(seed, h, uint64(a), uint64(b)))
		}
	}
}

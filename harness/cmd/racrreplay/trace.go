package main

// Per-goroutine event logs of the concurrent reader (hook H2), written as one
// JSON file per script for spec/Trace_RacConc.tla.  No cross-goroutine order
// is recorded or trusted: the file holds one sequence per goroutine.

import (
	"encoding/json"
	"fmt"
	"os"
	"path/filepath"
	"runtime"
	"strings"
	"sync"
)

type event struct {
	g     uint64
	ev    string
	owner interface{}
	a, b  int64
}

type tracer struct {
	dir  string
	mu   sync.Mutex
	evs  []event
	s    script
	conc int
	seq  int
}

func newTracer(dir string) *tracer {
	os.MkdirAll(dir, 0o755)
	return &tracer{dir: dir}
}

func goid() uint64 {
	var b [64]byte
	n := runtime.Stack(b[:], false)
	// "goroutine 123 [running]:"
	var id uint64
	for _, c := range b[10:n] {
		if c < '0' || c > '9' {
			break
		}
		id = id*10 + uint64(c-'0')
	}
	return id
}

func (t *tracer) begin(s script, conc int) {
	t.mu.Lock()
	t.evs = t.evs[:0]
	t.s, t.conc = s, conc
	t.mu.Unlock()
}

func (t *tracer) log(ev string, owner interface{}, a, b int64) {
	g := goid()
	t.mu.Lock()
	t.evs = append(t.evs, event{g, ev, owner, a, b})
	t.mu.Unlock()
}

type traceFile struct {
	ScriptID int       `json:"script_id"`
	File     string    `json:"file"`
	Conc     int       `json:"conc"`
	Script   [][]int   `json:"script"`
	Client   [][]any   `json:"client"` // [event, a, b, owner]
	Manager  [][]any   `json:"manager"`
	Workers  [][][]any `json:"workers"`
	Problem  string    `json:"problem,omitempty"`
}

// end writes the trace of the script that just ran (only complete runs are
// worth validating) and returns its path.
func (t *tracer) end(complete bool) string {
	t.mu.Lock()
	defer t.mu.Unlock()
	if !complete || len(t.evs) == 0 {
		return ""
	}
	tf := traceFile{ScriptID: t.s.ID, File: t.s.F, Conc: t.conc, Script: t.s.H}
	// goroutine -> role; worker goroutines are numbered in order of first appearance
	widx := map[uint64]int{}
	var mgr, cli uint64
	chanOwner := map[interface{}]int{}
	for _, e := range t.evs {
		switch {
		case strings.HasPrefix(e.ev, "worker."):
			if _, ok := widx[e.g]; !ok {
				widx[e.g] = len(widx) + 1
			}
			if e.owner != nil {
				chanOwner[e.owner] = widx[e.g]
			}
		case strings.HasPrefix(e.ev, "manager."):
			if mgr != 0 && mgr != e.g {
				tf.Problem = "two manager goroutines"
			}
			mgr = e.g
		default:
			if cli != 0 && cli != e.g {
				tf.Problem = "two client goroutines"
			}
			cli = e.g
		}
	}
	tf.Workers = make([][][]any, len(widx))
	for _, e := range t.evs {
		own := 0
		if e.owner != nil {
			if o, ok := chanOwner[e.owner]; ok {
				own = o
			} else {
				own = -1 // a buffer of a worker that never logged an event
			}
		}
		row := []any{e.ev, e.a, e.b, own}
		switch {
		case strings.HasPrefix(e.ev, "worker."):
			i := widx[e.g] - 1
			tf.Workers[i] = append(tf.Workers[i], row)
		case strings.HasPrefix(e.ev, "manager."):
			tf.Manager = append(tf.Manager, row)
		default:
			tf.Client = append(tf.Client, row)
		}
	}
	t.seq++
	p := filepath.Join(t.dir, fmt.Sprintf("trace-%d-%d-%d.json", t.conc, t.s.ID, t.seq))
	b, _ := json.Marshal(tf)
	if err := os.WriteFile(p, b, 0o644); err != nil {
		return ""
	}
	return p
}

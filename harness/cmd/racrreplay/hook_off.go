//go:build !racverifhook

package main

// Built against a wuffs tree WITHOUT hook H2 (findings/hooks/H2-conc-reader.patch):
// no per-goroutine event logs, no perturbation inside the channel protocol.
const hookAvailable = false

func installHook(seed uint64, perturb bool, tr *tracer) {}

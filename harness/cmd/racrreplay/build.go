package main

// A builder of VALID RAC files from an abstract description (C14, the file
// dimension).  rac.Writer only ever emits single-codec files whose index has
// equal-depth leaves, no bias and arity-255 nodes; the format allows much
// more, and a rac.Reader has to equal the in-memory reader on all of it.
//
// Description (JSON, written by checks/C14.py; the same runs are the geometry
// constant of spec/RacFile.tla):
//
//	{"id":"z1", "kind":"built", "seed":7, "page":16,
//	 "runs":[[n, size, expl, codec], ...],   // n chunks of size decompressed bytes, the first
//	                                         // expl of them stored, the rest implicit zeroes;
//	                                         // codec 0 Zeroes, 1 Zlib, 2 LZ4, 3 Zstandard
//	 "tree": NODE}
//
//	NODE = {"e":[EL, ...],       elements, in DSpace order
//	        "pre":true|false,    layout of this sub-tree: the node before (true: Root Node at the
//	                             CFile start) or after (false) everything it refers to; inherited
//	        "bias":true,         a CBiasing child: the sub-tree is laid out like a RAC file of its
//	                             own and all its CPtr values are relative to where it starts (the
//	                             parent gets an extra empty element holding that offset)
//	        "hdr":true,          the sub-tree / file starts with the 4 bytes "r\xC3c\x00"
//	        "long":true}         Long Codec (7 NUL bytes: RAC + Zeroes); needs a "ecodec" element
//	EL   = k                     Leaf Node for chunk k (0-based)
//	     | NODE                  child Branch Node
//	     | "res"                 a shared dictionary; the Zlib leaves after it in this node use it
//	     | "eleaf" | "ebranch"   Leaf / Branch element with an empty DRange (to be skipped)
//	     | "ecodec"              Codec Element (TTag 0xFD, empty DRange)
//
// The builder only lays bytes out; it does not know whether the result is
// valid.  Every file is walked by the independent walker of cmd/racwreplay
// and judged by spec/Trace_RacFormat.tla before it is used (checks/C14.py).
// Nodes are encoded by internal/racfmt (shared with cmd/racireplay).

import (
	"bytes"
	"compress/zlib"
	"encoding/json"
	"fmt"
	"hash/crc32"

	"github.com/google/wuffs/lib/rac"
	"github.com/google/wuffs/lib/raclz4"
	"github.com/google/wuffs/lib/raczstd"

	"verifharness/internal/racfmt"
)

const (
	elLeaf = iota
	elChild
	elRes
	elELeaf
	elEBranch
	elECodec
	elBias
)

type bEl struct {
	kind  int
	k     int // chunk index (elLeaf)
	child *bNode
	res   int   // index of the "res" element this leaf uses, -1 none
	bias  int   // index of the bias element (elChild with a biased child), -1 none
	cabs  int64 // absolute COffset the element's CPtr stands for
	clen  int
	dsize int64
}

type bNode struct {
	E    []json.RawMessage `json:"e"`
	Pre  *bool             `json:"pre"`
	Bias bool              `json:"bias"`
	Hdr  bool              `json:"hdr"`
	Long bool              `json:"long"`

	els     []bEl
	kind    int // codec of the node's own leaves (0..3)
	c64     int // Long Codec: index of the Codec Element
	mix     bool
	coff    int64
	cbias   int64
	cmaxAbs int64
	dsize   int64
	depth   int
}

type bChunk struct {
	lo, hi  int64
	expl    int
	codec   int
	payload []byte
}

type builder struct {
	d      fileDesc
	out    []byte
	data   []byte
	chunks []bChunk
	dicts  int
	nodes  []*bNode
	next   int
}

const fillByte = 0xA7 // padding is "ignored" (rac-spec.md): make it visible if it is not

func (b *builder) align() {
	if p := b.d.Page; p > 1 {
		for len(b.out)%p != 0 {
			b.out = append(b.out, fillByte)
		}
	}
}

func (b *builder) parse(raw json.RawMessage, depth int) (*bNode, error) {
	n := &bNode{depth: depth}
	if err := json.Unmarshal(raw, n); err != nil {
		return nil, fmt.Errorf("bad tree node: %v", err)
	}
	res := -1
	for _, r := range n.E {
		r = bytes.TrimSpace(r)
		switch {
		case len(r) == 0:
			return nil, fmt.Errorf("empty element")
		case r[0] == '{':
			ch, err := b.parse(r, depth+1)
			if err != nil {
				return nil, err
			}
			e := bEl{kind: elChild, child: ch, res: -1, bias: -1}
			if ch.Bias {
				n.els = append(n.els, bEl{kind: elBias, res: -1, bias: -1})
				e.bias = len(n.els) - 1
			}
			n.els = append(n.els, e)
		case r[0] == '"':
			var s string
			json.Unmarshal(r, &s)
			k, ok := map[string]int{"res": elRes, "eleaf": elELeaf, "ebranch": elEBranch, "ecodec": elECodec}[s]
			if !ok {
				return nil, fmt.Errorf("unknown element %q", s)
			}
			n.els = append(n.els, bEl{kind: k, res: -1, bias: -1})
			if k == elRes {
				res = len(n.els) - 1
			}
		default:
			var k int
			if err := json.Unmarshal(r, &k); err != nil || k < 0 || k >= len(b.chunks) {
				return nil, fmt.Errorf("bad chunk index %s", r)
			}
			if k != b.next {
				return nil, fmt.Errorf("chunk %d where chunk %d is due (Leaf Nodes come in DSpace order)", k, b.next)
			}
			b.next++
			e := bEl{kind: elLeaf, k: k, res: -1, bias: -1}
			if b.chunks[k].codec == 1 {
				e.res = res
			}
			n.els = append(n.els, e)
		}
	}
	if len(n.els) == 0 || len(n.els) > 255 {
		return nil, fmt.Errorf("arity %d", len(n.els))
	}
	b.nodes = append(b.nodes, n)
	return n, nil
}

func (b *builder) dictBytes(i int) []byte {
	d := make([]byte, 24)
	for j := range d {
		d[j] = byte(1 + mix(b.d.Seed, uint64(j), 77, uint64(i))%255)
	}
	return d
}

func wrapDict(d []byte) []byte {
	w := make([]byte, len(d)+8)
	w[0], w[1], w[2], w[3] = byte(len(d)), byte(len(d)>>8), byte(len(d)>>16), byte(len(d)>>24)
	copy(w[4:], d)
	c := crc32.ChecksumIEEE(d)
	w[len(w)-4], w[len(w)-3], w[len(w)-2], w[len(w)-1] = byte(c), byte(c>>8), byte(c>>16), byte(c>>24)
	return w
}

func cLenFor(n int, h uint64) int {
	// 0 ("up to COffMax") or the smallest sufficient number of 1024-byte units (+1 sometimes)
	k := (n + 1023) / 1024
	if k == 0 {
		k = 1
	}
	switch h % 3 {
	case 0:
		return 0
	case 1:
		if k+1 <= 255 {
			return k + 1
		}
	}
	if k > 255 {
		return 0
	}
	return k
}

func (b *builder) compress(c *bChunk, dict []byte) error {
	src := b.data[c.lo : c.lo+int64(c.expl)]
	switch c.codec {
	case 0:
		c.payload = nil
	case 1:
		var buf bytes.Buffer
		level := []int{zlib.BestCompression, zlib.NoCompression, zlib.DefaultCompression, zlib.HuffmanOnly}[mix(b.d.Seed, uint64(c.lo), 5, 9)%4]
		zw, err := zlib.NewWriterLevelDict(&buf, level, dict)
		if err != nil {
			return err
		}
		zw.Write(src)
		if err := zw.Close(); err != nil {
			return err
		}
		c.payload = append([]byte(nil), buf.Bytes()...)
	case 2, 3:
		var cw rac.CodecWriter = &raclz4.CodecWriter{}
		want := rac.CodecLZ4
		if c.codec == 3 {
			cw, want = &raczstd.CodecWriter{}, rac.CodecZstandard
		}
		codec, comp, _, _, err := cw.Compress(src, nil, nil)
		if err != nil {
			return err
		}
		if codec != want {
			return fmt.Errorf("codec writer answered codec %x", uint64(codec))
		}
		c.payload = append([]byte(nil), comp...)
		cw.Close()
	default:
		return fmt.Errorf("unknown codec kind %d", c.codec)
	}
	return nil
}

func (b *builder) emit(n *bNode, cbias int64, pre bool) error {
	if n.Pre != nil {
		pre = *n.Pre
	}
	size := racfmt.Size(len(n.els))
	n.cbias = cbias
	n.kind, n.c64 = -1, -1
	if pre {
		b.align()
		n.coff = int64(len(b.out))
		b.out = append(b.out, make([]byte, size)...)
	}
	var dicts = map[int][]byte{}
	for i := range n.els {
		e := &n.els[i]
		e.cabs = cbias
		switch e.kind {
		case elRes:
			d := b.dictBytes(b.dicts)
			b.dicts++
			dicts[i] = d
			w := wrapDict(d)
			b.align()
			e.cabs = int64(len(b.out))
			b.out = append(b.out, w...)
			e.clen = cLenFor(len(w), 2) // a resource's CLen must not cut it, and 0 would run to COffMax: both fine; use the exact one
		case elLeaf:
			c := &b.chunks[e.k]
			if n.kind >= 0 && n.kind != c.codec {
				return fmt.Errorf("a Branch Node has one Codec: chunks of codecs %d and %d are siblings", n.kind, c.codec)
			}
			n.kind = c.codec
			var dict []byte
			if e.res >= 0 {
				dict = dicts[e.res]
			}
			if err := b.compress(c, dict); err != nil {
				return err
			}
			e.dsize = c.hi - c.lo
			if c.codec == 0 {
				// "The CRanges are ignored": point somewhere harmless inside the sub-tree
				e.cabs = cbias + int64(mix(b.d.Seed, uint64(e.k), 3, 1)%2)*(int64(len(b.out))-cbias)
				e.clen = int(mix(b.d.Seed, uint64(e.k), 3, 2) % 3)
			} else {
				b.align()
				e.cabs = int64(len(b.out))
				b.out = append(b.out, c.payload...)
				e.clen = cLenFor(len(c.payload), mix(b.d.Seed, uint64(e.k), 3, 3))
			}
		case elChild:
			ch := e.child
			cb := cbias
			if ch.Bias {
				b.align()
				cb = int64(len(b.out))
				n.els[e.bias].cabs = cb
				n.els[e.bias].clen = int(mix(b.d.Seed, uint64(cb), 3, 4) % 5)
			}
			if ch.Hdr {
				b.out = append(b.out, 0x72, 0xC3, 0x63, 0x00)
			}
			if err := b.emit(ch, cb, pre); err != nil {
				return err
			}
			e.cabs = ch.coff
			e.dsize = ch.dsize
			e.clen = int(mix(b.d.Seed, uint64(ch.coff), 3, 5) % 2 * uint64((size+1023)/1024))
		case elECodec:
			if n.c64 < 0 {
				n.c64 = i
			}
		}
		n.dsize += e.dsize
	}
	if !pre {
		b.align()
		n.coff = int64(len(b.out))
		b.out = append(b.out, make([]byte, size)...)
	}
	for i := range n.els {
		if k := n.els[i].kind; k == elELeaf || k == elEBranch {
			n.els[i].cabs = n.coff // an empty Branch element that names its own node: never to be followed
		}
	}
	n.cmaxAbs = int64(len(b.out))
	if n.Long {
		if n.c64 < 0 || n.c64 >= 64 || (n.kind > 0) {
			return fmt.Errorf("a Long (Zeroes) Codec node needs a Codec Element among its first 64 elements and only Zeroes leaves")
		}
		n.kind = 0
	}
	if n.kind < 0 {
		// no Leaf Node of its own: any Codec will do; take the first child's
		for i := range n.els {
			if n.els[i].kind == elChild {
				n.kind = n.els[i].child.kind
				break
			}
		}
		if n.kind < 0 {
			return fmt.Errorf("a Branch Node without children")
		}
	}
	for i := range n.els {
		if e := &n.els[i]; e.kind == elChild && (e.child.mix || e.child.sig() != n.sig()) {
			n.mix = true
		}
	}
	if n.dsize == 0 {
		return fmt.Errorf("a Branch Node with an empty DRange")
	}
	return nil
}

func (n *bNode) sig() int {
	if n.Long {
		return 0x80 | n.c64
	}
	return n.kind
}

func (b *builder) encode(n *bNode) {
	ar := len(n.els)
	nd := racfmt.Node{Off: n.coff, CMax: n.cmaxAbs - n.cbias, Ar: ar, Ar2: ar, Ver: 1, Cod: n.sig()}
	if n.mix {
		nd.Cod |= 0x40
	}
	d := int64(0)
	for i := range n.els {
		e := &n.els[i]
		d += e.dsize
		nd.DPtr = append(nd.DPtr, d)
		ttag, stag := 0xFF, 0xFF
		switch e.kind {
		case elChild:
			ttag = 0xFE
			if e.bias >= 0 {
				stag = e.bias
			}
		case elEBranch:
			ttag = 0xFE
		case elECodec:
			ttag = 0xFD
		case elLeaf:
			if e.res >= 0 {
				stag = e.res
			}
		}
		cptr := e.cabs - n.cbias
		if e.kind == elECodec {
			cptr = 0 // the 7 bytes of the Codec Element: NULs ("RAC + Zeroes" when the node is Long)
			e.clen = 0
		}
		nd.TTag = append(nd.TTag, ttag)
		nd.STag = append(nd.STag, stag)
		nd.CPtr = append(nd.CPtr, cptr)
		nd.CLen = append(nd.CLen, e.clen)
	}
	copy(b.out[n.coff:], racfmt.EncodeNode(nd))
}

// runsChunks / runsData: the chunks and the decompressed data that d.Runs stand for.
func runsChunks(d fileDesc) ([]bChunk, int64, error) {
	var chunks []bChunk
	pos := int64(0)
	for _, r := range d.Runs {
		n, size, expl, codec := r[0], r[1], r[2], r[3]
		if n < 1 || size < 1 || expl < 0 || expl > size || codec < 0 || codec > 3 || (codec == 0 && expl != 0) {
			return nil, 0, fmt.Errorf("bad run %v", r)
		}
		for i := 0; i < n; i++ {
			chunks = append(chunks, bChunk{lo: pos, hi: pos + int64(size), expl: expl, codec: codec})
			pos += int64(size)
		}
	}
	return chunks, pos, nil
}

func dataOf(d fileDesc, chunks []bChunk, size int64) []byte {
	data := make([]byte, size)
	for _, c := range chunks {
		for i := c.lo; i < c.lo+int64(c.expl); i++ {
			data[i] = byte(1 + mix(d.Seed, uint64(i), 7, 3)%255)
		}
	}
	return data
}

func runsData(d fileDesc) []byte {
	chunks, size, _ := runsChunks(d)
	return dataOf(d, chunks, size)
}

// buildFromDescription lays a file out from d.Runs and d.Tree.
func buildFromDescription(d fileDesc) (*builtFile, error) {
	b := &builder{d: d}
	var size int64
	var err error
	if b.chunks, size, err = runsChunks(d); err != nil {
		return nil, err
	}
	b.data = dataOf(d, b.chunks, size)
	root, err := b.parse(d.Tree, 1)
	if err != nil {
		return nil, err
	}
	if b.next != len(b.chunks) {
		return nil, fmt.Errorf("%d chunks described, %d in the tree", len(b.chunks), b.next)
	}
	if root.Hdr {
		b.out = append(b.out, 0x72, 0xC3, 0x63, 0x00)
	}
	if err := b.emit(root, 0, false); err != nil {
		return nil, err
	}
	root.cmaxAbs = int64(len(b.out)) // "its COffMax must equal the CFileSize"
	for _, n := range b.nodes {
		b.encode(n)
	}
	return &builtFile{desc: d, data: b.data, encoded: b.out}, nil
}

// buildWithChunkWriter: the repository's own index builder (arity 255 nodes,
// as many levels as it takes) for the genuinely large case.
func buildWithChunkWriter(d fileDesc) (*builtFile, error) {
	b := &builder{d: d}
	var size int64
	var err error
	if b.chunks, size, err = runsChunks(d); err != nil {
		return nil, err
	}
	b.data = dataOf(d, b.chunks, size)
	buf := &bytes.Buffer{}
	w := &rac.ChunkWriter{Writer: buf, CPageSize: uint64(d.Page)}
	if d.IndexStart {
		w.IndexLocation = rac.IndexLocationAtStart
		w.TempFile = &bytes.Buffer{}
	}
	var zbuf bytes.Buffer
	zw, _ := zlib.NewWriterLevel(&zbuf, zlib.BestSpeed)
	for k := range b.chunks {
		c := &b.chunks[k]
		codec := rac.CodecZlib
		switch c.codec {
		case 0:
			codec = rac.CodecZeroes
		case 1:
			zbuf.Reset()
			zw.Reset(&zbuf)
			zw.Write(b.data[c.lo : c.lo+int64(c.expl)])
			zw.Close()
			c.payload = zbuf.Bytes()
		default:
			return nil, fmt.Errorf("chunkwriter files are zlib or zeroes")
		}
		if err := w.AddChunk(uint64(c.hi-c.lo), codec, c.payload, 0, 0); err != nil {
			return nil, fmt.Errorf("ChunkWriter.AddChunk: %v", err)
		}
	}
	if err := w.Close(); err != nil {
		return nil, fmt.Errorf("ChunkWriter.Close: %v", err)
	}
	return &builtFile{desc: d, data: b.data, encoded: buf.Bytes()}, nil
}

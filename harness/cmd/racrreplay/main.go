// racrreplay steps the real rac.Reader (from the wuffs working tree the harness
// module points at) through call sequences exported by TLC from
// spec/RacReader.tla and spec/RacConc.tla (C14) and compares every reply with
// the specification's expectation that travels with the call.
//
// usage: racrreplay -job job.json -out result.json
//
// job.json:
//
//	{"seed":1, "budget_ms":1500, "grace_ms":1000, "perturb":1, "par":8,
//	 "trace_dir":"",                       // with the H2 hook: per-script event logs
//	 "files":[{"id":"A","size":11,"dchunk":4,"zmode":1,"index_start":false,"seed":3}],
//	 "scripts_path":"scripts.ndjson",      // one {"id":7,"f":"A","h":[[op,a,b,kind,n,at,eof,cur],...]} per line
//	 "conc":[0]}                           // Concurrency values every script is run with
//
// Call encoding (see RacReader.tla): op 0 Read(len a), 1 Seek(a, whence b),
// 2 SeekRange(a, b), 3 Close; kind 0 unconstrained, 1 error expected, 2
// success expected with n/at/eof as the expected reply.
//
// This program only drives, records and compares with the transported
// expectation; what is expected is decided by the TLA+ modules.
//
// For Concurrency > 0: one script at a time, a per-call watchdog (a hang is
// re-run once with 4x the budget before it is reported), goroutine dump
// classification of the blocked call site, runtime.NumGoroutine back to the
// baseline after Close within a grace period, lock-step comparison with a
// Concurrency-0 reader, seeded schedule perturbation (delays inside the
// shared io.ReaderAt, between client calls and - when the build has it - in
// the H2 hook).
package main

import (
	"bufio"
	"bytes"
	"encoding/json"
	"flag"
	"fmt"
	"io"
	"os"
	"path/filepath"
	"regexp"
	"runtime"
	"runtime/debug"
	"strings"
	"sync"
	"sync/atomic"
	"time"

	"github.com/google/wuffs/lib/rac"
	"github.com/google/wuffs/lib/raclz4"
	"github.com/google/wuffs/lib/raczlib"
	"github.com/google/wuffs/lib/raczstd"
)

type fileDesc struct {
	ID         string `json:"id"`
	Size       int    `json:"size"`
	DChunk     int    `json:"dchunk"`
	ZMode      int    `json:"zmode"` // 0 no zeroes, 1 zero tails in some chunks, 2 also an all-zero chunk
	IndexStart bool   `json:"index_start"`
	Seed       uint64 `json:"seed"`
	// Kind "" : written by rac.Writer + raczlib (Size, DChunk, ZMode);
	// "built" : laid out by build.go from Runs and Tree;
	// "chunkwriter" : Runs through rac.ChunkWriter.
	Kind string          `json:"kind,omitempty"`
	Runs [][4]int        `json:"runs,omitempty"` // [n, size, explicit, codec]
	Tree json.RawMessage `json:"tree,omitempty"`
	Page int             `json:"page,omitempty"`
	// EncodedPath: take the file's bytes from there instead of building them again.
	EncodedPath string `json:"encoded_path,omitempty"`
}

type job struct {
	Seed        uint64     `json:"seed"`
	BudgetMs    int        `json:"budget_ms"`
	GraceMs     int        `json:"grace_ms"`
	Perturb     int        `json:"perturb"`
	Par         int        `json:"par"`
	TraceDir    string     `json:"trace_dir"`
	DumpDir     string     `json:"dump_dir"` // write every file's bytes to <dump_dir>/<id>.rac
	SeqBudgetMs int        `json:"seq_budget_ms"`
	Files       []fileDesc `json:"files"`
	ScriptsPath string     `json:"scripts_path"`
	Conc        []int      `json:"conc"`
}

type script struct {
	ID int     `json:"id"`
	F  string  `json:"f"`
	H  [][]int `json:"h"`
}

type reply struct {
	N    int    `json:"n"`
	Err  string `json:"err"` // "", "EOF", or "E:" + message
	Pos  int64  `json:"pos"`
	Data int    `json:"data"` // -1 = bytes equal the decompressed data at the expected offset, else first differing index
}

type failure struct {
	Kind     string   `json:"kind"` // mismatch | oracle | hang | panic | leak
	File     string   `json:"file"`
	Conc     int      `json:"conc"`
	ScriptID int      `json:"script_id"`
	Call     int      `json:"call"` // index of the failing call (len(script) = the implicit final Close)
	Script   [][]int  `json:"script"`
	Replies  []reply  `json:"replies"`
	Oracle   []reply  `json:"oracle,omitempty"`
	What     string   `json:"what"`
	Site     string   `json:"site,omitempty"`  // hang: innermost rac frame of the client goroutine + wait reason
	Sites    []string `json:"sites,omitempty"` // hang/leak: the same for the other rac goroutines
	Stack    string   `json:"stack,omitempty"`
}

type builtFile struct {
	desc    fileDesc
	data    []byte
	encoded []byte
	chunks  [][2]int64
	codecs  []int      // per chunk, as rac.ChunkReader reports it: 0 Zeroes (Short or Long), 1 Zlib, 2 LZ4, 3 Zstandard, -1 other
	crErr   string     // rac.ChunkReader's error while listing the chunks ("" = listed to io.EOF)
	cranges [][6]int64 // per chunk (first 2000): CPrimary, CSecondary, CTertiary as rac.ChunkReader reports them
}

type result struct {
	Hook            bool                `json:"hook"`
	Files           map[string]fileInfo `json:"files"`
	ScriptsRun      int64               `json:"scripts_run"`
	CallsRun        int64               `json:"calls_run"`
	CallsChecked    int64               `json:"calls_checked"`
	BytesChecked    int64               `json:"bytes_checked"`
	GoroutineChecks int64               `json:"goroutine_checks"`
	HangsUnconfirm  int64               `json:"hangs_unconfirmed"`
	Failures        []failure           `json:"failures"`
	Traces          []string            `json:"traces"`
	CurStates       map[string]int64    `json:"cursor_states"` // calls made per (op, cursor state) label
	ByConc          map[string]int64    `json:"by_conc"`
	Aborted         bool                `json:"aborted"` // sequential replay stopped at a call that does not return
}

type fileInfo struct {
	Chunks   [][2]int64 `json:"chunks"`   // what rac.ChunkReader lists
	Codecs   []int      `json:"codecs"`   // per listed chunk
	CRanges  [][6]int64 `json:"cranges"`  // per listed chunk (first 2000): CPrimary, CSecondary, CTertiary
	CRErr    string     `json:"cr_err"`   // ChunkReader error while listing, "" if none
	Explicit []int      `json:"explicit"` // per listed chunk: bytes of the decompressed data before its trailing zeroes
	CSize    int        `json:"csize"`
	DSize    int        `json:"dsize"`
	Path     string     `json:"path,omitempty"`
}

func mix(a, b, c, d uint64) uint64 {
	h := a*0x9E3779B97F4A7C15 ^ b
	h ^= h >> 29
	h *= 0xBF58476D1CE4E5B9
	h ^= c + 0x94D049BB133111EB
	h ^= h >> 32
	h *= 0x9E3779B97F4A7C15
	h ^= d
	h ^= h >> 27
	h *= 0x94D049BB133111EB
	h ^= h >> 31
	return h
}

func buildFile(d fileDesc) (*builtFile, error) {
	var bf *builtFile
	var err error
	if d.EncodedPath != "" {
		// the bytes an earlier run of this program built from the same description (dump_dir)
		enc, err := os.ReadFile(d.EncodedPath)
		if err != nil {
			return nil, err
		}
		bf = &builtFile{desc: d, encoded: enc}
		if d.Kind == "" {
			bf.data = writerData(d)
		} else {
			bf.data = runsData(d)
		}
		return listChunks(bf), nil
	}
	switch d.Kind {
	case "built":
		bf, err = buildFromDescription(d)
	case "chunkwriter":
		bf, err = buildWithChunkWriter(d)
	case "":
		bf, err = buildWithWriter(d)
	default:
		err = fmt.Errorf("unknown file kind %q", d.Kind)
	}
	if err != nil {
		return nil, err
	}
	return listChunks(bf), nil
}

// listChunks records what rac.ChunkReader makes of the file.  An error here is
// recorded, not fatal: whether the file is valid is decided independently
// (walker + TLC).
func listChunks(bf *builtFile) *builtFile {
	d := bf.desc
	cr := &rac.ChunkReader{ReadSeeker: bytes.NewReader(bf.encoded), CompressedSize: int64(len(bf.encoded))}
	bf.chunks, bf.codecs, bf.cranges = [][2]int64{}, []int{}, [][6]int64{}
	func() {
		defer func() {
			if e := recover(); e != nil {
				bf.crErr = fmt.Sprintf("panic: %v", e)
			}
		}()
		// the number of chunks the description stands for bounds the listing
		want := 0
		if d.Kind == "" && d.DChunk > 0 {
			want = (d.Size + d.DChunk - 1) / d.DChunk
		}
		for _, r := range d.Runs {
			want += r[0]
		}
		for {
			if len(bf.chunks) > want+8 {
				bf.crErr = fmt.Sprintf("NextChunk keeps listing chunks: %d so far, the file has %d (listing stopped)", len(bf.chunks), want)
				break
			}
			c, err := cr.NextChunk()
			if err == io.EOF {
				break
			}
			if err != nil {
				bf.crErr = err.Error()
				break
			}
			bf.chunks = append(bf.chunks, [2]int64{c.DRange[0], c.DRange[1]})
			if len(bf.cranges) < 2000 {
				bf.cranges = append(bf.cranges, [6]int64{c.CPrimary[0], c.CPrimary[1], c.CSecondary[0], c.CSecondary[1], c.CTertiary[0], c.CTertiary[1]})
			}
			k := -1
			switch c.Codec {
			case rac.CodecZeroes, rac.Codec(1 << 63):
				k = 0
			case rac.CodecZlib:
				k = 1
			case rac.CodecLZ4:
				k = 2
			case rac.CodecZstandard:
				k = 3
			}
			bf.codecs = append(bf.codecs, k)
		}
	}()
	return bf
}

// writerData is the decompressed data of a rac.Writer file description.
func writerData(d fileDesc) []byte {
	data := make([]byte, d.Size)
	for i := range data {
		data[i] = byte(1 + mix(d.Seed, uint64(i), 7, 3)%255)
	}
	if d.ZMode > 0 && d.DChunk > 0 {
		nch := (d.Size + d.DChunk - 1) / d.DChunk
		for c := 0; c < nch; c++ {
			lo, hi := c*d.DChunk, (c+1)*d.DChunk
			if hi > d.Size {
				hi = d.Size
			}
			switch {
			case d.ZMode >= 2 && c%5 == 3: // all-zero chunk
				for i := lo; i < hi; i++ {
					data[i] = 0
				}
			case c%3 == 1: // second half implicit zeroes
				for i := lo + (hi-lo)/2; i < hi; i++ {
					data[i] = 0
				}
			case c%3 == 2 && hi-lo > 1: // the last byte only
				data[hi-1] = 0
			}
		}
	}
	return data
}

func buildWithWriter(d fileDesc) (*builtFile, error) {
	data := writerData(d)
	buf := &bytes.Buffer{}
	w := &rac.Writer{
		Writer:      buf,
		CodecWriter: &raczlib.CodecWriter{},
		DChunkSize:  uint64(d.DChunk),
	}
	if d.IndexStart {
		w.IndexLocation = rac.IndexLocationAtStart
		w.TempFile = &bytes.Buffer{}
	}
	// several Write calls, so that the writer's buffering is exercised too
	for p := 0; p < len(data); {
		n := 1 + int(mix(d.Seed, uint64(p), 1, 1)%uint64(3*d.DChunk+1))
		if p+n > len(data) {
			n = len(data) - p
		}
		if _, err := w.Write(data[p : p+n]); err != nil {
			return nil, fmt.Errorf("rac.Writer.Write: %v", err)
		}
		p += n
	}
	if err := w.Close(); err != nil {
		return nil, fmt.Errorf("rac.Writer.Close: %v", err)
	}
	return &builtFile{desc: d, data: data, encoded: buf.Bytes()}, nil
}

// perturbSrc is the RAC file as an io.ReadSeeker + io.ReaderAt whose ReadAt
// yields / sleeps in a way determined by (seed, offset, length): every
// goroutine of the concurrent reader passes through it for every node and
// chunk, so different seeds give different real schedules.
type perturbSrc struct {
	*bytes.Reader
	seed uint64
	on   bool
}

func (p *perturbSrc) ReadAt(b []byte, off int64) (int, error) {
	if p.on {
		delay(mix(p.seed, uint64(off), uint64(len(b)), 11))
	}
	return p.Reader.ReadAt(b, off)
}

func delay(h uint64) {
	switch h % 8 {
	case 0, 1:
		runtime.Gosched()
	case 2:
		time.Sleep(time.Duration((h>>8)%150) * time.Microsecond)
	case 3:
		for i := uint64(0); i < (h>>8)%4; i++ {
			runtime.Gosched()
		}
	}
}

func errClass(err error) string {
	if err == nil {
		return ""
	}
	if err == io.EOF {
		return "EOF"
	}
	return "E:" + err.Error()
}

func newReader(bf *builtFile, conc int, seed uint64, perturb bool) *rac.Reader {
	return &rac.Reader{
		ReadSeeker:     &perturbSrc{Reader: bytes.NewReader(bf.encoded), seed: seed, on: perturb && conc > 0},
		CompressedSize: int64(len(bf.encoded)),
		CodecReaders:   []rac.CodecReader{&raczlib.CodecReader{}, &raclz4.CodecReader{}, &raczstd.CodecReader{}},
		Concurrency:    conc,
	}
}

// doCall makes one call and records the reply.
func doCall(r *rac.Reader, bf *builtFile, c []int, buf *[]byte) reply {
	switch c[0] {
	case 0:
		n := c[1]
		if cap(*buf) < n {
			*buf = make([]byte, n)
		}
		p := (*buf)[:n]
		for i := range p {
			p[i] = 0xA5
		}
		got, err := r.Read(p)
		rp := reply{N: got, Err: errClass(err), Data: -1}
		at := c[5]
		if c[3] == 2 && got >= 0 && got <= n {
			for i := 0; i < got; i++ {
				if at+i >= len(bf.data) || p[i] != bf.data[at+i] {
					rp.Data = i
					break
				}
			}
			// bytes beyond the returned count must not have been touched beyond what
			// io.Reader allows (scratch use is allowed), so they are not checked.
		}
		return rp
	case 1:
		pos, err := r.Seek(int64(c[1]), c[2])
		return reply{Pos: pos, Err: errClass(err), Data: -1}
	case 2:
		err := r.SeekRange(int64(c[1]), int64(c[2]))
		return reply{Err: errClass(err), Data: -1}
	default:
		err := r.Close()
		return reply{Err: errClass(err), Data: -1}
	}
}

// check compares a reply with the expectation transported in the call.
func check(c []int, rp reply) string {
	switch c[3] {
	case 0:
		return ""
	case 1:
		if rp.Err == "" {
			return "an error was expected, got success"
		}
		return ""
	}
	switch c[0] {
	case 0:
		if strings.HasPrefix(rp.Err, "E:") {
			return fmt.Sprintf("Read returned error %q, expected %d bytes", rp.Err[2:], c[4])
		}
		if rp.N != c[4] {
			return fmt.Sprintf("Read returned n=%d, the in-memory reader returns %d", rp.N, c[4])
		}
		if rp.Data >= 0 {
			return fmt.Sprintf("Read returned a wrong byte at index %d (decompressed offset %d)", rp.Data, c[5]+rp.Data)
		}
		switch c[6] {
		case 0:
			if rp.Err != "" {
				return "Read returned io.EOF before the end (limit/size not reached)"
			}
		case 2:
			if rp.Err != "EOF" {
				return "Read returned (0, nil) at the end for a non-empty buffer, expected io.EOF"
			}
		}
	case 1:
		if rp.Err != "" {
			return fmt.Sprintf("Seek returned error %q, expected position %d", strings.TrimPrefix(rp.Err, "E:"), c[5])
		}
		if rp.Pos != int64(c[5]) {
			return fmt.Sprintf("Seek returned position %d, expected %d", rp.Pos, c[5])
		}
	case 2:
		if rp.Err != "" {
			return fmt.Sprintf("SeekRange returned error %q, expected success", strings.TrimPrefix(rp.Err, "E:"))
		}
	case 3:
		if rp.Err != "" {
			return fmt.Sprintf("Close returned error %q on a reader that had not failed", strings.TrimPrefix(rp.Err, "E:"))
		}
	}
	return ""
}

// withImplicitClose appends a final Close when the script has none.
func withImplicitClose(h [][]int) [][]int {
	kind := 2
	for _, c := range h {
		if c[0] == 3 {
			return h
		}
		if c[3] != 2 {
			kind = 0
		}
	}
	out := append([][]int{}, h...)
	return append(out, []int{3, 0, 0, kind, 0, 0, 0, 0})
}

var opNames = []string{"read", "seek", "seekrange", "close"}

// ---------------------------------------------------------------- sequential

func runSequential(bf *builtFile, s script, res *result, mu *sync.Mutex, cs map[string]int64) {
	h := withImplicitClose(s.H)
	r := newReader(bf, 0, 0, false)
	var buf []byte
	var replies []reply
	var calls, checked, nbytes int64
	fail := func(i int, kind, what, stack string) {
		mu.Lock()
		res.Failures = append(res.Failures, failure{Kind: kind, File: s.F, Conc: 0, ScriptID: s.ID, Call: i, Script: s.H, Replies: replies, What: what, Stack: stack})
		mu.Unlock()
	}
	func() {
		i := 0
		defer func() {
			if e := recover(); e != nil {
				fail(i, "panic", fmt.Sprintf("panic in call %d: %v", i, e), string(debug.Stack()))
			}
		}()
		for ; i < len(h); i++ {
			c := h[i]
			rp := doCall(r, bf, c, &buf)
			replies = append(replies, rp)
			calls++
			if c[3] != 0 {
				checked++
				if c[0] == 0 {
					nbytes += int64(rp.N)
				}
			}
			cs[fmt.Sprintf("%s@%c", opNames[c[0]], "ABC"[c[7]])]++
			if what := check(c, rp); what != "" {
				fail(i, "mismatch", what, "")
				break
			}
		}
	}()
	r.Close()
	atomic.AddInt64(&res.ScriptsRun, 1)
	atomic.AddInt64(&res.CallsRun, calls)
	atomic.AddInt64(&res.CallsChecked, checked)
	atomic.AddInt64(&res.BytesChecked, nbytes)
}

// ---------------------------------------------------------------- concurrent

var (
	reGoroutine = regexp.MustCompile(`(?m)^goroutine (\d+) \[([^\]]*)\]:`)
	reRacFrame  = regexp.MustCompile(`github\.com/google/wuffs/lib/rac\.([A-Za-z0-9_().*]+)\(`)
)

// racSites summarises a goroutine dump: for every goroutine that has a frame
// in lib/rac (and was not left behind by an earlier, hung script),
// "<innermost rac function>/<wait reason>"; the goroutine with id clientID is
// the client ("" + its wait reason when it is outside lib/rac).
func racSites(dump string, clientID uint64) (client string, others []string) {
	cid := fmt.Sprint(clientID)
	for _, b := range strings.Split(dump, "\n\n") {
		m := reGoroutine.FindStringSubmatch(b)
		if m == nil {
			continue
		}
		reason := m[2]
		if i := strings.Index(reason, ","); i >= 0 {
			reason = reason[:i] // drop "N minutes"
		}
		f := reRacFrame.FindStringSubmatch(b)
		if m[1] == cid {
			if f == nil {
				client = "(outside lib/rac)/" + reason
			} else {
				client = strings.NewReplacer("(*", "", ")", "").Replace(f[1]) + "/" + reason
			}
			continue
		}
		if f == nil || staleIDs[m[1]] {
			continue
		}
		others = append(others, strings.NewReplacer("(*", "", ")", "").Replace(f[1])+"/"+reason)
	}
	return
}

// staleIDs are goroutines left behind by scripts that hung earlier in this
// process; they are blocked for ever and are not leaks of later scripts.
var staleIDs = map[string]bool{}

// racGoroutines lists "id site" of the goroutines that have a lib/rac frame.
func racGoroutines(dump string) map[string]string {
	out := map[string]string{}
	for _, b := range strings.Split(dump, "\n\n") {
		m := reGoroutine.FindStringSubmatch(b)
		if m == nil {
			continue
		}
		f := reRacFrame.FindStringSubmatch(b)
		if f == nil {
			continue
		}
		reason := m[2]
		if i := strings.Index(reason, ","); i >= 0 {
			reason = reason[:i]
		}
		out[m[1]] = strings.NewReplacer("(*", "", ")", "").Replace(f[1]) + "/" + reason
	}
	return out
}

// allBlocked: the client is inside lib/rac and it and every other lib/rac
// goroutine wait on a channel operation (nobody is left to wake anybody).
func allBlocked(client string, others []string) bool {
	blocked := func(site string) bool {
		i := strings.LastIndex(site, "/")
		if i < 0 {
			return false
		}
		r := site[i+1:]
		return strings.HasPrefix(r, "chan send") || strings.HasPrefix(r, "chan receive") || strings.HasPrefix(r, "select")
	}
	if !blocked(client) || strings.HasPrefix(client, "(outside") {
		return false
	}
	for _, o := range others {
		if !blocked(o) {
			return false
		}
	}
	return true
}

func allStacks() string {
	buf := make([]byte, 1<<20)
	for {
		n := runtime.Stack(buf, true)
		if n < len(buf) {
			return string(buf[:n])
		}
		buf = make([]byte, 2*len(buf))
	}
}

type callDone struct {
	i     int
	rp    reply
	panic string
	stack string
}

// clientGoroutine runs the calls of one script, in lock-step with the
// controller (ctl: 0 = make the next call, 1 = give up: Close and exit); its
// frame name is the marker that identifies the client in goroutine dumps.
func clientGoroutine(r *rac.Reader, bf *builtFile, h [][]int, seed uint64, perturb bool, ch chan<- callDone, ctl <-chan int, tr *tracer, idc chan<- uint64) {
	idc <- goid()
	var buf []byte
	for i, c := range h {
		if cmd := <-ctl; cmd != 0 {
			r.Close()
			ch <- callDone{i: -1}
			return
		}
		if perturb {
			delay(mix(seed, uint64(i), uint64(c[0]), 5))
		}
		d := callDone{i: i}
		func() {
			defer func() {
				if e := recover(); e != nil {
					d.panic = fmt.Sprint(e)
					d.stack = string(debug.Stack())
				}
			}()
			if tr != nil {
				// Seek is logged with the absolute target the specification computed
				a := int64(c[1])
				if c[0] == 1 {
					a = int64(c[5])
				}
				tr.log("call."+opNames[c[0]], nil, a, int64(c[2]))
			}
			d.rp = doCall(r, bf, c, &buf)
			if tr != nil {
				e := int64(0)
				if d.rp.Err == "EOF" {
					e = 1
				}
				tr.log("ret."+opNames[c[0]], nil, int64(d.rp.N), e)
			}
		}()
		ch <- d
		if d.panic != "" {
			return
		}
	}
}

type concOutcome struct {
	fail    *failure
	hang    bool
	calls   int64
	checked int64
	nbytes  int64
	leakchk int64
}

// runConcurrentOnce runs one script on a reader with Concurrency = conc under
// a per-call watchdog.
func runConcurrentOnce(bf *builtFile, s script, conc int, seed uint64, perturb bool, budget, grace time.Duration, tr *tracer) concOutcome {
	h := withImplicitClose(s.H)
	var out concOutcome
	mk := func(kind string, i int, what string) *failure {
		return &failure{Kind: kind, File: s.F, Conc: conc, ScriptID: s.ID, Call: i, Script: s.H, What: what}
	}

	// the sequential oracle, in lock-step
	or := newReader(bf, 0, 0, false)
	defer or.Close()
	var obuf []byte

	runtime.Gosched()
	baseline := runtime.NumGoroutine()
	r := newReader(bf, conc, seed, perturb)
	ch := make(chan callDone, len(h)+1)
	ctl := make(chan int, 1)
	if tr != nil {
		tr.begin(s, conc)
	}
	idc := make(chan uint64, 1)
	go clientGoroutine(r, bf, h, seed, perturb, ch, ctl, tr, idc)
	clientID := <-idc

	var replies, oracle []reply
	timer := time.NewTimer(budget)
	defer timer.Stop()
	closedOK := false
	for i := 0; i < len(h); i++ {
		if !timer.Stop() {
			select {
			case <-timer.C:
			default:
			}
		}
		timer.Reset(budget)
		ctl <- 0
		var d callDone
		started := time.Now()
	wait:
		for {
			select {
			case d = <-ch:
				break wait
			case <-timer.C:
				// A hang is a call that has not returned AND whose goroutines can make no
				// progress: the client and every other goroutine inside lib/rac are blocked
				// on channel operations.  A slow call (big reads under -race on a loaded
				// machine) shows running / runnable / sleeping goroutines and gets more time.
				dump := allStacks()
				site, others := racSites(dump, clientID)
				if !allBlocked(site, others) && time.Since(started) < 40*budget {
					timer.Reset(budget / 2)
					continue
				}
				f := mk("hang", i, fmt.Sprintf("%s (call %d) did not return within %v", opNames[h[i][0]], i, time.Since(started).Round(time.Millisecond)))
				if !allBlocked(site, others) {
					f.What += " (goroutines still running)"
				}
				f.Site, f.Sites = site, others
				f.Stack = trimDump(dump)
				f.Replies, f.Oracle = replies, oracle
				out.fail, out.hang = f, true
				for id := range racGoroutines(dump) {
					staleIDs[id] = true
				}
				return out
			}
		}
		out.calls++
		c := h[i]
		replies = append(replies, d.rp)
		if d.panic != "" {
			f := mk("panic", i, "panic in "+opNames[c[0]]+": "+d.panic)
			f.Stack, f.Replies = d.stack, replies
			out.fail = f
			return out
		}
		orp := doCall(or, bf, c, &obuf)
		oracle = append(oracle, orp)
		if c[0] == 3 {
			closedOK = true
		}
		if c[3] != 0 {
			out.checked++
			if c[0] == 0 {
				out.nbytes += int64(d.rp.N)
			}
			if what := check(c, d.rp); what != "" {
				f := mk("mismatch", i, what)
				f.Replies, f.Oracle = replies, oracle
				out.fail = f
				break
			}
			// "the same results" as the single-goroutine reader: count, position,
			// bytes; the two EOF conventions are interchangeable here too.
			if orp.N != d.rp.N || orp.Pos != d.rp.Pos || (orp.Err == "" || orp.Err == "EOF") != (d.rp.Err == "" || d.rp.Err == "EOF") {
				if check(c, orp) == "" { // the oracle itself agrees with the specification
					f := mk("oracle", i, fmt.Sprintf("Concurrency=%d answered %+v, Concurrency=0 answered %+v", conc, d.rp, orp))
					f.Replies, f.Oracle = replies, oracle
					out.fail = f
					break
				}
			}
		}
	}
	if !closedOK {
		// the script was cut short by a failure: let the client goroutine release the
		// reader's goroutines, under the watchdog
		ctl <- 1
		select {
		case <-ch:
		case <-time.After(4 * budget):
			for id := range racGoroutines(allStacks()) {
				staleIDs[id] = true
			}
		}
		return out
	}
	// leaks no goroutine after Close
	out.leakchk = 1
	deadline := time.Now().Add(grace)
	hard := time.Now().Add(10 * grace)
	for runtime.NumGoroutine() > baseline {
		if time.Now().After(deadline) {
			dump := allStacks()
			var left []string
			running := false
			for id, site := range racGoroutines(dump) {
				if staleIDs[id] {
					continue
				}
				left = append(left, site)
				if !allBlocked("x/select", []string{site}) {
					running = true // on its way out, not yet scheduled
				}
			}
			if len(left) == 0 {
				break // the surplus is not a lib/rac goroutine
			}
			if running && time.Now().Before(hard) {
				deadline = time.Now().Add(grace / 4)
				continue
			}
			if out.fail == nil {
				f := mk("leak", len(h)-1, fmt.Sprintf("%d goroutines before the Reader existed, %d alive %v after Close returned; lib/rac goroutines left: %v", baseline, runtime.NumGoroutine(), grace, left))
				f.Sites, f.Stack, f.Replies = left, trimDump(dump), replies
				out.fail = f
			}
			for id := range racGoroutines(dump) {
				staleIDs[id] = true
			}
			break
		}
		time.Sleep(200 * time.Microsecond)
	}
	return out
}

func trimDump(d string) string {
	var keep []string
	for _, b := range strings.Split(d, "\n\n") {
		if strings.Contains(b, "wuffs/lib/rac") {
			if len(b) > 1500 {
				b = b[:1500]
			}
			keep = append(keep, b)
		}
	}
	s := strings.Join(keep, "\n\n")
	if len(s) > 12000 {
		s = s[:12000]
	}
	return s
}

func main() {
	jobPath := flag.String("job", "", "job file")
	outPath := flag.String("out", "", "result file")
	flag.Parse()
	jb, err := os.ReadFile(*jobPath)
	if err != nil {
		fmt.Fprintln(os.Stderr, "racrreplay:", err)
		os.Exit(3)
	}
	var j job
	if err := json.Unmarshal(jb, &j); err != nil {
		fmt.Fprintln(os.Stderr, "racrreplay: bad job:", err)
		os.Exit(3)
	}
	if j.BudgetMs == 0 {
		j.BudgetMs = 1500
	}
	if j.GraceMs == 0 {
		j.GraceMs = 1000
	}
	if j.Par <= 0 {
		j.Par = runtime.GOMAXPROCS(0)
	}
	res := &result{Hook: hookAvailable, Files: map[string]fileInfo{}, CurStates: map[string]int64{}, ByConc: map[string]int64{}, Failures: []failure{}, Traces: []string{}}
	files := map[string]*builtFile{}
	for _, d := range j.Files {
		bf, err := buildFile(d)
		if err != nil {
			fmt.Fprintf(os.Stderr, "racrreplay: building file %s: %v\n", d.ID, err)
			os.Exit(3)
		}
		files[d.ID] = bf
		fi := fileInfo{Chunks: bf.chunks, Codecs: bf.codecs, CRanges: bf.cranges, CRErr: bf.crErr, CSize: len(bf.encoded), DSize: len(bf.data), Explicit: []int{}}
		for _, c := range bf.chunks {
			e := -1 // a range outside the data: the list is wrong anyway
			if c[0] >= 0 && c[0] <= c[1] && c[1] <= int64(len(bf.data)) {
				e = int(c[1] - c[0])
				for e > 0 && bf.data[int(c[0])+e-1] == 0 {
					e--
				}
			}
			fi.Explicit = append(fi.Explicit, e)
		}
		if j.DumpDir != "" {
			fi.Path = filepath.Join(j.DumpDir, d.ID+".rac")
			if err := os.WriteFile(fi.Path, bf.encoded, 0o644); err != nil {
				fmt.Fprintln(os.Stderr, "racrreplay:", err)
				os.Exit(3)
			}
		}
		res.Files[d.ID] = fi
	}
	var scripts []script
	if j.ScriptsPath != "" {
		f, err := os.Open(j.ScriptsPath)
		if err != nil {
			fmt.Fprintln(os.Stderr, "racrreplay:", err)
			os.Exit(3)
		}
		sc := bufio.NewScanner(f)
		sc.Buffer(make([]byte, 1<<20), 1<<26)
		for sc.Scan() {
			if len(bytes.TrimSpace(sc.Bytes())) == 0 {
				continue
			}
			var s script
			if err := json.Unmarshal(sc.Bytes(), &s); err != nil {
				fmt.Fprintln(os.Stderr, "racrreplay: bad script line:", err)
				os.Exit(3)
			}
			if files[s.F] == nil {
				fmt.Fprintln(os.Stderr, "racrreplay: script for unknown file", s.F)
				os.Exit(3)
			}
			scripts = append(scripts, s)
		}
		f.Close()
	}

	var mu sync.Mutex
	for _, conc := range j.Conc {
		if conc <= 0 {
			// independent scripts, independent readers: run them in parallel.  A script
			// that is still inside lib/rac after SeqBudgetMs (default 120 s; the scripts take
			// milliseconds) is a call that does not return: it is reported, and since a
			// spinning goroutine cannot be stopped the run ends there ("aborted").
			var wg sync.WaitGroup
			next := int64(-1)
			started := make([]int64, j.Par) // per worker: UnixNano when its current script began, 0 = idle
			current := make([]int64, j.Par)
			for w := 0; w < j.Par; w++ {
				wg.Add(1)
				go func(w int) {
					defer wg.Done()
					cs := map[string]int64{}
					for {
						k := atomic.AddInt64(&next, 1)
						if k >= int64(len(scripts)) {
							break
						}
						atomic.StoreInt64(&current[w], k)
						atomic.StoreInt64(&started[w], time.Now().UnixNano())
						runSequential(files[scripts[k].F], scripts[k], res, &mu, cs)
						atomic.StoreInt64(&started[w], 0)
					}
					mu.Lock()
					for k, v := range cs {
						res.CurStates[k] += v
					}
					mu.Unlock()
				}(w)
			}
			done := make(chan struct{})
			go func() { wg.Wait(); close(done) }()
			budget := time.Duration(j.SeqBudgetMs) * time.Millisecond
			if budget <= 0 {
				budget = 120 * time.Second
			}
		watch:
			for {
				select {
				case <-done:
					break watch
				case <-time.After(500 * time.Millisecond):
				}
				for w := range started {
					t0 := atomic.LoadInt64(&started[w])
					if t0 == 0 || time.Since(time.Unix(0, t0)) < budget {
						continue
					}
					s := scripts[atomic.LoadInt64(&current[w])]
					dump := allStacks()
					if !strings.Contains(dump, "wuffs/lib/rac") {
						continue // not inside the library (the harness's own comparison of a large read)
					}
					mu.Lock()
					res.Failures = append(res.Failures, failure{Kind: "hang", File: s.F, Conc: 0, ScriptID: s.ID, Call: -1, Script: s.H,
						What:  fmt.Sprintf("the script has not finished after %v on the sequential reader: a call into lib/rac does not return", budget),
						Stack: trimDump(dump)})
					snap := result{Hook: res.Hook, Files: res.Files, ScriptsRun: atomic.LoadInt64(&res.ScriptsRun), CallsRun: atomic.LoadInt64(&res.CallsRun),
						CallsChecked: atomic.LoadInt64(&res.CallsChecked), BytesChecked: atomic.LoadInt64(&res.BytesChecked), Failures: res.Failures,
						Traces: res.Traces, CurStates: res.CurStates, ByConc: res.ByConc, Aborted: true}
					ob, _ := json.Marshal(snap)
					mu.Unlock()
					if *outPath == "" {
						os.Stdout.Write(ob)
					} else {
						os.WriteFile(*outPath, ob, 0o644)
					}
					os.Exit(0)
				}
			}
			res.ByConc["0"] += int64(len(scripts))
			continue
		}
		var tr *tracer
		if j.TraceDir != "" && hookAvailable {
			tr = newTracer(j.TraceDir)
		}
		installHook(j.Seed, j.Perturb > 0, tr)
		budget := time.Duration(j.BudgetMs) * time.Millisecond
		grace := time.Duration(j.GraceMs) * time.Millisecond
		for _, s := range scripts {
			fmt.Fprintf(os.Stderr, "S %d %d\n", s.ID, conc)
			seed := mix(j.Seed, uint64(s.ID), uint64(conc), 1)
			o := runConcurrentOnce(files[s.F], s, conc, seed, j.Perturb > 0, budget, grace, tr)
			if tr != nil {
				if p := tr.end(o.fail == nil); p != "" {
					res.Traces = append(res.Traces, p)
				}
			}
			if o.hang {
				// confirm with a second run and 4x the budget
				o2 := runConcurrentOnce(files[s.F], s, conc, seed, j.Perturb > 0, 4*budget, grace, nil)
				if o2.hang {
					o2.fail.What += fmt.Sprintf(" (first run: no return within %v at call %d, site %s)", budget, o.fail.Call, o.fail.Site)
					o = o2
				} else {
					res.HangsUnconfirm++
					if o2.fail != nil {
						o = o2
					} else {
						o.fail, o.hang = nil, false
						o.calls, o.checked, o.nbytes, o.leakchk = o2.calls, o2.checked, o2.nbytes, o2.leakchk
					}
				}
			}
			res.ScriptsRun++
			res.CallsRun += o.calls
			res.CallsChecked += o.checked
			res.BytesChecked += o.nbytes
			res.GoroutineChecks += o.leakchk
			res.ByConc[fmt.Sprint(conc)]++
			if o.fail != nil {
				res.Failures = append(res.Failures, *o.fail)
			}
		}
	}
	ob, _ := json.Marshal(res)
	if *outPath == "" {
		os.Stdout.Write(ob)
	} else if err := os.WriteFile(*outPath, ob, 0o644); err != nil {
		fmt.Fprintln(os.Stderr, "racrreplay:", err)
		os.Exit(3)
	}
}

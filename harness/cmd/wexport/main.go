// wexport parses and checks one Wuffs package with /repo's working-tree
// lang/token, lang/parse and lang/check (built with -tags verif so that the
// H1 observer is available) and writes a MECHANICAL, flattened JSON image of
// the checked AST: every node with its kind, flags, the three ids as strings,
// children by index, and for expressions the checker's claims (MBounds,
// ConstValue, MType).  For every statement the fact list the bounds checker
// held just before it (H1) is attached.  Nothing is lowered or simplified
// here: the semantics lives in spec/WuffsCore.tla.
//
// usage: wexport -pkg demo -out prog.json file.wuffs...
//
//	exit 0: accepted (JSON written); exit 3: rejected by the compiler
//	(JSON {"accepted":false,"error":...} written); other: tooling failure.
package main

import (
	"encoding/json"
	"flag"
	"fmt"
	"math/big"
	"os"
	"strconv"
	"strings"

	"github.com/google/wuffs/lang/check"
	"github.com/google/wuffs/lang/parse"

	a "github.com/google/wuffs/lang/ast"
	t "github.com/google/wuffs/lang/token"
)

const lim = 1 << 30

type jnode struct {
	K   string `json:"k"`   // kind
	F   int    `json:"f"`   // flags
	A   string `json:"a"`   // id0 (operators in ambiguous form, e.g. "+")
	Ar  string `json:"ar"`  // "u" unary, "b" binary, "a" associative, "" otherwise
	B   string `json:"b"`   // id1
	C   string `json:"c"`   // id2
	L   int    `json:"l"`   // lhs node (0 = nil)
	M   int    `json:"m"`   // mhs
	R   int    `json:"r"`   // rhs
	X   []int  `json:"x"`   // list0
	Y   []int  `json:"y"`   // list1
	Z   []int  `json:"z"`   // list2
	Hcv int    `json:"hcv"` // 0 no const value, 1 cv holds it, 2 too big for the model
	Cv  int64  `json:"cv"`
	Hlo int    `json:"hlo"` // 0 unbounded/absent, 1 lo holds it, 2 magnitude >= 2^30
	Lo  int64  `json:"lo"`
	Hhi int    `json:"hhi"`
	Hi  int64  `json:"hi"`
	Ty  int    `json:"ty"` // MType node (0 = nil)
	Ln  int    `json:"ln"`
	Jt  int    `json:"jt"` // jump target (loop node) for KJump
	Fx  []int  `json:"fx"` // statements: fact expressions held before the statement (H1)
	Hf  int    `json:"hf"` // 1 if the H1 observer saw this statement
	Eff string `json:"eff"`
	// -wide only: exact decimal values of cv / lo / hi whatever their magnitude (for the Apalache full-width encoding)
	Scv string `json:"scv,omitempty"`
	Slo string `json:"slo,omitempty"`
	Shi string `json:"shi,omitempty"`
}

var wide bool

func dec(v *big.Int) string {
	if v == nil || !wide {
		return ""
	}
	return v.String()
}

type exporter struct {
	tm    *t.Map
	nodes []*jnode
	ids   map[*a.Node]int
	facts map[*a.Node][]int // statement -> serialized fact roots (captured at observation time)
	seen  map[*a.Node]bool
}

func small(v *big.Int) (int, int64) {
	if v == nil {
		return 0, 0
	}
	if v.IsInt64() {
		x := v.Int64()
		if x < lim && x > -lim {
			return 1, x
		}
	}
	return 2, 0
}

func (e *exporter) str(id t.ID) string {
	if id == 0 {
		return ""
	}
	if amb := id.AmbiguousForm(); amb != 0 {
		id = amb
	}
	s := id.Str(e.tm)
	// built-in pseudo names such as «Ideal» are written as plain ASCII ("ideal")
	if strings.HasPrefix(s, "«") && strings.HasSuffix(s, "»") {
		s = strings.ToLower(strings.TrimSuffix(strings.TrimPrefix(s, "«"), "»"))
	}
	return s
}

func arity(id t.ID) string {
	switch {
	case id.IsXUnaryOp():
		return "u"
	case id.IsXBinaryOp():
		return "b"
	case id.IsXAssociativeOp():
		return "a"
	}
	return ""
}

func kindStr(k a.Kind) string { return strings.TrimPrefix(k.String(), "K") }

// add serializes n; with share=true an already serialized node is reused (AST
// after checking); with share=false a fresh deep copy is made (facts, whose
// nodes are serialized at observation time).
func (e *exporter) add(n *a.Node, share bool) int {
	if n == nil {
		return 0
	}
	if share {
		if id, ok := e.ids[n]; ok {
			return id
		}
	}
	j := &jnode{K: kindStr(n.Kind()), X: []int{}, Y: []int{}, Z: []int{}, Fx: []int{}}
	e.nodes = append(e.nodes, j)
	id := len(e.nodes)
	if share {
		e.ids[n] = id
	}
	raw := n.AsRaw()
	j.F = int(raw.Flags())
	_, line := raw.FilenameLine()
	j.Ln = int(line)
	var id0, id1, id2 t.ID
	switch n.Kind() {
	case a.KArg:
		id2 = n.AsArg().Name()
	case a.KAssert:
		id0, id2 = n.AsAssert().Keyword(), n.AsAssert().Reason()
	case a.KAssign:
		id0 = n.AsAssign().Operator()
	case a.KChoose:
		id2 = n.AsChoose().Name()
	case a.KConst:
		q := n.AsConst().QID()
		id1, id2 = q[0], q[1]
	case a.KExpr:
		x := n.AsExpr()
		id0, id2 = x.Operator(), x.Ident()
		j.Ar = arity(id0)
		j.Hcv, j.Cv = small(x.ConstValue())
		b := x.MBounds()
		j.Hlo, j.Lo = small(b[0])
		j.Hhi, j.Hi = small(b[1])
		j.Scv, j.Slo, j.Shi = dec(x.ConstValue()), dec(b[0]), dec(b[1])
		j.Eff = x.Effect().String()
		if mt := x.MType(); mt != nil {
			j.Ty = e.add(mt.AsNode(), share)
		}
	case a.KField:
		id2 = n.AsField().Name()
	case a.KFunc:
		q := n.AsFunc().QQID()
		id1, id2, id0 = q[0], q[1], q[2]
		j.Eff = n.AsFunc().Effect().String()
	case a.KIOManip:
		id0 = n.AsIOManip().Keyword()
	case a.KIf:
		id1 = n.AsIf().Likelihood()
	case a.KIterate:
		it := n.AsIterate()
		id0, id1, id2 = it.Advance(), it.Label(), it.Length()
		// the three counts of an iterate round are literal tokens (1 ..= 256); their numeric values are written
		// into the otherwise unused claim fields of the node: cv = length, lo = advance, hi = unroll
		if v, err := strconv.Atoi(it.Length().Str(e.tm)); err == nil {
			j.Hcv, j.Cv = 1, int64(v)
		}
		if v, err := strconv.Atoi(it.Advance().Str(e.tm)); err == nil {
			j.Hlo, j.Lo = 1, int64(v)
		}
		if v, err := strconv.Atoi(it.Unroll().Str(e.tm)); err == nil {
			j.Hhi, j.Hi = 1, int64(v)
		}
	case a.KJump:
		id0, id1 = n.AsJump().Keyword(), n.AsJump().Label()
	case a.KRet:
		id0 = n.AsRet().Keyword()
	case a.KStatus:
		q := n.AsStatus().QID()
		id1, id2 = q[0], q[1]
	case a.KStruct:
		q := n.AsStruct().QID()
		id1, id2 = q[0], q[1]
	case a.KTypeExpr:
		x := n.AsTypeExpr()
		id0 = x.Decorator()
		q := x.QID()
		id1, id2 = q[0], q[1]
	case a.KUse:
		id2 = n.AsUse().Path()
	case a.KVar:
		id2 = n.AsVar().Name()
	case a.KWhile:
		id1 = n.AsWhile().Label()
	}
	j.A, j.B, j.C = e.str(id0), e.str(id1), e.str(id2)
	sub := raw.SubNodes()
	j.L = e.add(sub[0], share)
	j.M = e.add(sub[1], share)
	j.R = e.add(sub[2], share)
	lists := raw.SubLists()
	for _, o := range lists[0] {
		j.X = append(j.X, e.add(o, share))
	}
	for _, o := range lists[1] {
		j.Y = append(j.Y, e.add(o, share))
	}
	for _, o := range lists[2] {
		j.Z = append(j.Z, e.add(o, share))
	}
	if n.Kind() == a.KJump {
		if jt := n.AsJump().JumpTarget(); jt != nil {
			j.Jt = e.add(jt.AsNode(), share)
		}
	}
	return id
}

type output struct {
	Accepted bool     `json:"accepted"`
	Error    string   `json:"error"`
	Pkg      string   `json:"pkg"`
	Nodes    []*jnode `json:"nodes"`
	Files    []int    `json:"files"`
	Consts   []int    `json:"consts"`
	Statuses []int    `json:"statuses"`
	Structs  []int    `json:"structs"`
	Funcs    []int    `json:"funcs"`
}

func main() {
	pkg := flag.String("pkg", "demo", "package name")
	out := flag.String("out", "prog.json", "output file")
	flag.BoolVar(&wide, "wide", false, "also write exact decimal strings of constant values and bounds (scv, slo, shi)")
	flag.Parse()
	res := &output{Pkg: *pkg}
	write := func() {
		f, err := os.Create(*out)
		if err != nil {
			fmt.Fprintln(os.Stderr, err)
			os.Exit(2)
		}
		enc := json.NewEncoder(f)
		if err := enc.Encode(res); err != nil {
			fmt.Fprintln(os.Stderr, err)
			os.Exit(2)
		}
		f.Close()
	}
	reject := func(stage string, err error) {
		res.Accepted = false
		res.Error = stage + ": " + err.Error()
		write()
		os.Exit(3)
	}
	tm := &t.Map{}
	files := []*a.File{}
	for _, fn := range flag.Args() {
		src, err := os.ReadFile(fn)
		if err != nil {
			fmt.Fprintln(os.Stderr, err)
			os.Exit(2)
		}
		tokens, _, err := t.Tokenize(tm, fn, src)
		if err != nil {
			reject("tokenize", err)
		}
		f, err := parse.Parse(tm, fn, tokens, nil)
		if err != nil {
			reject("parse", err)
		}
		files = append(files, f)
	}
	e := &exporter{tm: tm, ids: map[*a.Node]int{}, facts: map[*a.Node][]int{}, seen: map[*a.Node]bool{}}
	check.VerifFactObserver = func(fn *a.Func, stmt *a.Node, facts []*a.Expr) {
		// A statement inside a loop body is checked once; if it were observed
		// twice the last observation wins (none is in the current checker).
		roots := make([]int, 0, len(facts))
		for _, f := range facts {
			roots = append(roots, e.add(f.AsNode(), false))
		}
		e.facts[stmt] = roots
		e.seen[stmt] = true
	}
	resolveUse := func(usePath string) ([]byte, error) {
		return nil, fmt.Errorf("wexport: `use %q` is not supported", usePath)
	}
	if _, err := check.Check(tm, files, resolveUse); err != nil {
		reject("check", err)
	}
	res.Accepted = true
	for _, f := range files {
		res.Files = append(res.Files, e.add(f.AsNode(), true))
		for _, d := range f.TopLevelDecls() {
			id := e.add(d, true)
			switch d.Kind() {
			case a.KConst:
				res.Consts = append(res.Consts, id)
			case a.KStatus:
				res.Statuses = append(res.Statuses, id)
			case a.KStruct:
				res.Structs = append(res.Structs, id)
			case a.KFunc:
				res.Funcs = append(res.Funcs, id)
			}
		}
	}
	for stmt, roots := range e.facts {
		if id, ok := e.ids[stmt]; ok {
			e.nodes[id-1].Fx = roots
			e.nodes[id-1].Hf = 1
		}
	}
	res.Nodes = e.nodes
	write()
}

// jpegreplay binds spec/JpegEnc.tla and spec/Trace_Jpeg.tla to the real
// github.com/google/wuffs/lib/lowleveljpeg (C18).  It only DRIVES the code,
// RECORDS what it did and TRANSPORTS that to TLC; the verdict predicates are in
// the TLA+ modules (the per-step comparison of the replay mode is the set
// membership "reply in allowed" that JpegEnc.tla exported).
//
//	jpegreplay replay  -scen scen.json -hist hist.ndjson         (Mode R)
//	jpegreplay content -jobs jobs.json -out traces.json          (Mode V)
//	jpegreplay allocs                                            (observation)
//	jpegreplay dct     -n N -seed S                              (numeric clause)
package main

import (
	"bufio"
	"bytes"
	"encoding/json"
	"errors"
	"flag"
	"fmt"
	"image/jpeg"
	"io"
	"math"
	"math/rand"
	"os"
	"testing"

	"verifharness/internal/jpegwalk"

	"github.com/google/wuffs/lib/lowleveljpeg"
)

func die(f string, a ...interface{}) {
	fmt.Fprintf(os.Stderr, f+"\n", a...)
	os.Exit(2)
}

func main() {
	if len(os.Args) < 2 {
		die("usage: jpegreplay replay|content|allocs|dct ...")
	}
	cmd := os.Args[1]
	os.Args = append(os.Args[:1], os.Args[2:]...)
	switch cmd {
	case "replay":
		cmdReplay()
	case "content":
		cmdContent()
	case "allocs":
		cmdAllocs()
	case "dct":
		cmdDCT()
	case "dctone":
		cmdDCTOne()
	case "sparse":
		cmdSparse()
	default:
		die("unknown subcommand %q", cmd)
	}
}

// ------------------------------------------------------------------ writers

var errInjected = errors.New("jpegreplay: injected writer failure")

// faultWriter accepts bytes (keeping the last few and optionally all of them)
// unless failNext is set, in which case the next Write accepts nothing and
// returns errInjected.
type faultWriter struct {
	failNext bool
	n        int // bytes accepted during the current call
	writes   int
	tail     [2]byte
	keep     bool
	buf      []byte
}

func (w *faultWriter) Write(p []byte) (int, error) {
	w.writes++
	if w.failNext {
		w.failNext = false
		return 0, errInjected
	}
	w.n += len(p)
	if len(p) >= 2 {
		w.tail[0], w.tail[1] = p[len(p)-2], p[len(p)-1]
	} else if len(p) == 1 {
		w.tail[0], w.tail[1] = w.tail[1], p[0]
	}
	if w.keep {
		w.buf = append(w.buf, p...)
	}
	return len(p), nil
}

type nullWriter struct{ n int }

func (w *nullWriter) Write(p []byte) (int, error) { w.n += len(p); return len(p), nil }

// --------------------------------------------------------------- reply names

var replyNames = []string{"nil", "WriterError", "ErrBadArgument", "ErrBadAddNForColorType", "ErrInvalidBlockI16",
	"ErrTooManyAddNCalls", "ErrPreviouslyReturnedError", "ErrNilReceiver"}

func replyIndex(err error) int {
	switch {
	case err == nil:
		return 0
	case errors.Is(err, errInjected):
		return 1
	case errors.Is(err, lowleveljpeg.ErrBadArgument):
		return 2
	case errors.Is(err, lowleveljpeg.ErrBadAddNForColorType):
		return 3
	case errors.Is(err, lowleveljpeg.ErrInvalidBlockI16):
		return 4
	case errors.Is(err, lowleveljpeg.ErrTooManyAddNCalls):
		return 5
	case errors.Is(err, lowleveljpeg.ErrPreviouslyReturnedError):
		return 6
	case errors.Is(err, lowleveljpeg.ErrNilReceiver):
		return 7
	}
	return -1
}

func maskNames(m int) []string {
	r := []string{}
	for i, n := range replyNames {
		if m&(1<<uint(i)) != 0 {
			r = append(r, n)
		}
	}
	return r
}

// ------------------------------------------------------------------- quants

// Tables K.1 and K.2 of T.81 (typed from the standard) and libjpeg's quality
// scaling: what "a nil pointer is equivalent to using DefaultQuality (75),
// matching libjpeg's default" means, computed without the package.
var k1 = [64]int{16, 11, 10, 16, 24, 40, 51, 61, 12, 12, 14, 19, 26, 58, 60, 55, 14, 13, 16, 24, 40, 57, 69, 56,
	14, 17, 22, 29, 51, 87, 80, 62, 18, 22, 37, 56, 68, 109, 103, 77, 24, 35, 55, 64, 81, 104, 113, 92,
	49, 64, 78, 87, 103, 121, 120, 101, 72, 92, 95, 98, 112, 100, 103, 99}
var k2 = [64]int{17, 18, 24, 47, 99, 99, 99, 99, 18, 21, 26, 66, 99, 99, 99, 99, 24, 26, 56, 99, 99, 99, 99, 99,
	47, 66, 99, 99, 99, 99, 99, 99, 99, 99, 99, 99, 99, 99, 99, 99, 99, 99, 99, 99, 99, 99, 99, 99,
	99, 99, 99, 99, 99, 99, 99, 99, 99, 99, 99, 99, 99, 99, 99, 99}

func libjpegQuality(quality int) (q lowleveljpeg.Array2QuantizationFactors) {
	if quality < 1 {
		quality = 1
	}
	if quality > 100 {
		quality = 100
	}
	s := 200 - 2*quality
	if quality < 50 {
		s = 5000 / quality
	}
	for t, tab := range [][64]int{k1, k2} {
		for i, v := range tab {
			x := (v*s + 50) / 100
			if x < 1 {
				x = 1
			}
			if x > 255 {
				x = 255
			}
			q[t][i] = uint8(x)
		}
	}
	return q
}

type quantSpec struct {
	Kind    string `json:"kind"` // nilopts nilq quality ones max even random zero0 zero1 custom
	Quality int    `json:"quality"`
	Seed    int64  `json:"seed"`
}

// makeQuant returns the options to pass and the tables that are thereby
// requested.
func makeQuant(qs quantSpec) (*lowleveljpeg.EncoderOptions, lowleveljpeg.Array2QuantizationFactors) {
	var q lowleveljpeg.Array2QuantizationFactors
	switch qs.Kind {
	case "nilopts":
		return nil, libjpegQuality(75)
	case "nilq":
		return &lowleveljpeg.EncoderOptions{}, libjpegQuality(75)
	case "quality":
		// the package's own table generator: the tables it yields are passed
		// explicitly, so they are "the requested tables" whatever they are
		q.SetToStandardValues(qs.Quality)
	case "ones":
		for t := range q {
			for i := range q[t] {
				q[t][i] = 1
			}
		}
	case "max":
		for t := range q {
			for i := range q[t] {
				q[t][i] = 255
			}
		}
	case "even": // even factors: exact ties are frequent
		r := rand.New(rand.NewSource(qs.Seed))
		for t := range q {
			for i := range q[t] {
				q[t][i] = uint8(2 * (1 + r.Intn(8)))
			}
		}
	case "random", "custom":
		r := rand.New(rand.NewSource(qs.Seed))
		for t := range q {
			for i := range q[t] {
				switch r.Intn(4) {
				case 0:
					q[t][i] = uint8(1 + r.Intn(4))
				case 1:
					q[t][i] = uint8(1 + r.Intn(255))
				default:
					q[t][i] = uint8(1 + r.Intn(40))
				}
			}
		}
	case "zero0", "zero1":
		q = libjpegQuality(50)
		t := 0
		if qs.Kind == "zero1" {
			t = 1
		}
		q[t][int(qs.Seed%64+64)%64] = 0
	default:
		die("bad quant kind %q", qs.Kind)
	}
	return &lowleveljpeg.EncoderOptions{QuantizationFactors: &q}, q
}

// ------------------------------------------------------------ calling AddN

// callAdd calls Add<n> with the first n of blocks (or a nil pointer).
func callAdd(e *lowleveljpeg.Encoder, w io.Writer, n int, blocks *[6]lowleveljpeg.BlockI16, nilArg bool) (err error, panicked string) {
	defer func() {
		if r := recover(); r != nil {
			panicked = fmt.Sprint(r)
		}
	}()
	switch n {
	case 1:
		if nilArg {
			return e.Add1(w, nil), ""
		}
		a := (*lowleveljpeg.Array1BlockI16)(blocks[:1])
		return e.Add1(w, a), ""
	case 3:
		if nilArg {
			return e.Add3(w, nil), ""
		}
		a := (*lowleveljpeg.Array3BlockI16)(blocks[:3])
		return e.Add3(w, a), ""
	case 6:
		if nilArg {
			return e.Add6(w, nil), ""
		}
		a := (*lowleveljpeg.Array6BlockI16)(blocks[:6])
		return e.Add6(w, a), ""
	}
	die("bad n %d", n)
	return nil, ""
}

func callReset(e *lowleveljpeg.Encoder, w io.Writer, ct, width, height int, o *lowleveljpeg.EncoderOptions) (err error, panicked string) {
	defer func() {
		if r := recover(); r != nil {
			panicked = fmt.Sprint(r)
		}
	}()
	return e.Reset(w, lowleveljpeg.ColorType(ct), width, height, o), ""
}

// ------------------------------------------------------------------- replay

type resetArg struct {
	CT    int    `json:"ct"`
	W     int    `json:"w"`
	H     int    `json:"h"`
	Quant string `json:"quant"`
	WF    bool   `json:"wf"`
}
type addArg struct {
	N   int    `json:"n"`
	Blk string `json:"blk"`
	WF  bool   `json:"wf"`
}
type scenario struct {
	Resets  []resetArg `json:"resets"`
	Adds    []addArg   `json:"adds"`
	Bulk    bool       `json:"bulk"`
	NilRecv []int      `json:"nilrecv"`
}

type mismatch struct {
	Scenario int         `json:"scenario"`
	History  [][6]int    `json:"history"`
	Step     int         `json:"step"` // 1-based
	Call     interface{} `json:"call"`
	Allowed  []string    `json:"allowed"`
	Got      string      `json:"got"`
	What     string      `json:"what"`
	Key      string      `json:"key"`
}

func fillBlocks(b *[6]lowleveljpeg.BlockI16, r *rand.Rand, kind string) {
	for i := range b {
		for k := range b[i] {
			b[i][k] = 0
			if r.Intn(4) == 0 {
				b[i][k] = int16(r.Intn(2047) - 1023)
			}
		}
	}
	if kind == "invalid" {
		// one element just outside the documented range, in a random block
		i := r.Intn(6)
		switch r.Intn(4) {
		case 0:
			b[i][0] = 1024
		case 1:
			b[i][0] = -1025
		case 2:
			b[i][1+r.Intn(63)] = 1024
		default:
			b[i][1+r.Intn(63)] = -1024
		}
	}
}

func cmdReplay() {
	scenPath := flag.String("scen", "scen.json", "")
	histPath := flag.String("hist", "hist.ndjson", "")
	seed := flag.Int64("seed", 1, "")
	maxMis := flag.Int("maxmis", 25, "")
	flag.Parse()
	var scen []scenario
	sb, err := os.ReadFile(*scenPath)
	if err != nil {
		die("%v", err)
	}
	if err := json.Unmarshal(sb, &scen); err != nil {
		die("scen: %v", err)
	}
	f, err := os.Open(*histPath)
	if err != nil {
		die("%v", err)
	}
	defer f.Close()
	rd := bufio.NewReaderSize(f, 1<<20)
	r := rand.New(rand.NewSource(*seed))
	var mis []mismatch
	nHist, nSteps, nCalls, nMis := 0, 0, 0, 0
	replyCount := map[string]int{}
	var blocks [6]lowleveljpeg.BlockI16
	methods := []string{"Reset", "Add1", "Add3", "Add6"}
	enc := &lowleveljpeg.Encoder{}
	w := &faultWriter{}
	for {
		line, err := rd.ReadBytes('\n')
		if len(bytes.TrimSpace(line)) > 0 {
			var rec []json.RawMessage
			if e := json.Unmarshal(line, &rec); e != nil || len(rec) != 2 {
				die("bad history line: %s", line)
			}
			var sc int
			var steps [][6]int
			if json.Unmarshal(rec[0], &sc) != nil || json.Unmarshal(rec[1], &steps) != nil {
				die("bad history line: %s", line)
			}
			S := scen[sc-1]
			nHist++
			*enc = lowleveljpeg.Encoder{} // the zero Encoder
			*w = faultWriter{}
			for si, st := range steps {
				kind, idx, mask, bcode, eoiNow, count := st[0], st[1], st[2], st[3], st[4], st[5]
				nSteps++
				var call interface{}
				got, what := "", ""
				check := func(e error, panicked string) bool {
					nCalls++
					if panicked != "" {
						got, what = "panic: "+panicked, "panic"
						return false
					}
					ri := replyIndex(e)
					if ri < 0 {
						got, what = "other error: "+e.Error(), "reply"
						return false
					}
					got = replyNames[ri]
					replyCount[got]++
					if mask&(1<<uint(ri)) == 0 {
						what = "reply"
						return false
					}
					if (bcode == 0 && w.n != 0) || (bcode == 1 && w.n == 0) {
						what = fmt.Sprintf("bytes accepted by the writer during the call = %d, expectation class %d (0 none, 1 some)", w.n, bcode)
						return false
					}
					hasEoi := w.n >= 2 && w.tail == [2]byte{0xFF, 0xD9}
					if hasEoi != (eoiNow == 1) {
						what = fmt.Sprintf("EOI written by this call = %v, expected %v", hasEoi, eoiNow == 1)
						return false
					}
					return true
				}
				ok := true
				switch kind {
				case 1:
					a := S.Resets[idx-1]
					call = map[string]interface{}{"op": "Reset", "args": a}
					o, _ := makeQuant(quantSpec{Kind: a.Quant, Seed: int64(nHist)})
					w.n, w.failNext = 0, a.WF
					e, p := callReset(enc, w, a.CT, a.W, a.H, o)
					w.failNext = false
					ok = check(e, p)
				case 2:
					a := S.Adds[idx-1]
					call = map[string]interface{}{"op": fmt.Sprintf("Add%d", a.N), "args": a}
					fillBlocks(&blocks, r, a.Blk)
					if a.Blk == "invalid" {
						// keep the invalid element among the first n blocks
						for {
							bad := false
							for i := 0; i < a.N; i++ {
								if !blocks[i].IsValid() {
									bad = true
								}
							}
							if bad {
								break
							}
							fillBlocks(&blocks, r, a.Blk)
						}
					}
					w.n, w.failNext = 0, a.WF
					e, p := callAdd(enc, w, a.N, &blocks, a.Blk == "nil")
					w.failNext = false
					ok = check(e, p)
				case 3:
					call = map[string]interface{}{"op": fmt.Sprintf("%d x Add%d (valid blocks)", count, idx)}
					for c := 0; c < count && ok; c++ {
						if c < 64 || c%257 == 0 {
							fillBlocks(&blocks, r, "valid")
						}
						w.n = 0
						e, p := callAdd(enc, w, idx, &blocks, false)
						ok = check(e, p)
						if !ok {
							call = map[string]interface{}{"op": fmt.Sprintf("call %d of %d x Add%d (valid blocks)", c+1, count, idx)}
						}
					}
				case 4:
					call = map[string]interface{}{"op": "(*Encoder)(nil)." + methods[idx-1]}
					w.n = 0
					var ne *lowleveljpeg.Encoder
					if idx == 1 {
						e, p := callReset(ne, w, 1, 8, 8, nil)
						ok = check(e, p)
					} else {
						fillBlocks(&blocks, r, "valid")
						e, p := callAdd(ne, w, []int{0, 1, 3, 6}[idx-1], &blocks, false)
						ok = check(e, p)
					}
				default:
					die("bad step kind %d", kind)
				}
				if !ok {
					nMis++
					if len(mis) < *maxMis {
						mis = append(mis, mismatch{Scenario: sc, History: steps[:si+1], Step: si + 1, Call: call,
							Allowed: maskNames(mask), Got: got, What: what})
					}
					break
				}
			}
		}
		if err != nil {
			break
		}
	}
	out := map[string]interface{}{"histories": nHist, "steps": nSteps, "calls": nCalls, "mismatch_count": nMis,
		"mismatches": mis, "replies": replyCount}
	json.NewEncoder(os.Stdout).Encode(out)
}

// ------------------------------------------------------------------ content

// zigzagNat[k] = natural index of the k-th coefficient in coding order,
// generated by walking the anti-diagonals (T.81 Figure A.6); used only to
// pair input and decoded coefficients for the "tri" summary and to place
// coefficients at chosen coding positions in the generators.  Trace_Jpeg.tla
// has its own copy of the table.
var zigzagNat = func() (z [64]int) {
	k := 0
	for d := 0; d <= 14; d++ {
		for j := 0; j <= d; j++ {
			r, c := d-j, j // even diagonals go up (row decreasing)
			if d%2 == 1 {
				r, c = j, d-j
			}
			if r < 8 && c < 8 {
				z[k] = 8*r + c
				k++
			}
		}
	}
	return z
}()

type blockGen struct {
	Gen  string `json:"gen"`
	Seed int64  `json:"seed"`
}

type job struct {
	ID     string    `json:"id"`
	CT     int       `json:"ct"`
	W      int       `json:"w"`
	H      int       `json:"h"`
	Quant  quantSpec `json:"quant"`
	Blocks blockGen  `json:"blocks"`
	Mode   string    `json:"mode"`  // "blk" (one event per block) or "tri" (deduplicated triples)
	Dirty  bool      `json:"dirty"` // use an Encoder that has been used (and left mid-file) before
	Stdlib string    `json:"stdlib"`
}

var boundary = func() []int16 {
	v := []int16{0}
	for k := uint(0); k <= 10; k++ {
		p := int16(1) << k
		for _, x := range []int16{p - 1, p, p + 1} {
			if x >= 1 && x <= 1023 {
				v = append(v, x, -x)
			}
		}
	}
	v = append(v, 1022, -1022, 1023, -1023)
	return v
}()

func units(ct, w, h int) int {
	if ct == 6 {
		return ((w + 15) / 16) * ((h + 15) / 16)
	}
	return ((w + 7) / 8) * ((h + 7) / 8)
}

// genBlocks produces the input blocks of a whole image (nb = units * ct
// blocks, in AddN order).  quant is what was requested (some generators aim at
// properties of the quotient).
func genBlocks(g blockGen, ct int, nb int, q *lowleveljpeg.Array2QuantizationFactors, enc func(blocks []lowleveljpeg.BlockI16) int) []lowleveljpeg.BlockI16 {
	r := rand.New(rand.NewSource(g.Seed))
	bs := make([]lowleveljpeg.BlockI16, nb)
	compOf := func(i int) int { // 0 luma, 1 chroma
		j := i % ct
		if ct == 1 || (ct == 3 && j == 0) || (ct == 6 && j < 4) {
			return 0
		}
		return 1
	}
	switch g.Gen {
	case "zero":
	case "catbound":
		// every boundary value at DC and walking through the AC positions
		n := 0
		for i := range bs {
			for k := 0; k < 64; k++ {
				if k == 0 || r.Intn(3) > 0 || i < 3 {
					bs[i][k] = boundary[n%len(boundary)]
					n++
				}
			}
			if i%5 == 4 {
				bs[i][0] = -1024
			}
		}
	case "dcswing":
		// DC differences at the category boundaries and the extremes (q = 1
		// makes the quantised DC equal the coefficient)
		deltas := []int{2047, -2047, 2046, -2046, 1024, -1024, 1023, -1023, 512, -511, 256, -255, 3, -3, 2, -2, 1, -1, 0}
		prev := map[int]int{}
		for i := range bs {
			c := i % ct
			if ct == 6 && c < 4 {
				c = 0
			}
			d := deltas[(i/ct+c*3+i%7)%len(deltas)]
			v := prev[c] + d
			if v > 1023 || v < -1024 {
				v = prev[c] - d
			}
			if v > 1023 {
				v = 1023
			}
			if v < -1024 {
				v = -1024
			}
			if i < 2*ct { // start with the two extremes: delta -1024 then +2047
				v = []int{-1024, 1023}[(i/ct)%2]
			}
			bs[i][0] = int16(v)
			prev[c] = v
			if r.Intn(2) == 0 {
				bs[i][zigzagNat[1+r.Intn(63)]] = boundary[r.Intn(len(boundary))]
			}
		}
	case "zruns":
		// zero runs of 0,1,14,15,16,17,30,31,32,33,46,47,48,49,61,62 before a
		// nonzero coefficient, the all-zero AC block (EOB only), a nonzero last
		// coefficient (no EOB), several runs in one block
		runs := []int{15, 16, 17, 62, 61, 0, 1, 14, 30, 31, 32, 33, 46, 47, 48, 49, 63}
		for i := range bs {
			run := runs[i%len(runs)]
			val := func() int16 {
				v := boundary[1+r.Intn(len(boundary)-1)]
				return v
			}
			if run < 63 {
				bs[i][zigzagNat[1+run]] = val()
			}
			switch (i / len(runs)) % 4 {
			case 1: // a second run of 15/16/17 after the first coefficient
				k := 1 + run + 1 + []int{15, 16, 17}[i%3]
				if k <= 63 {
					bs[i][zigzagNat[k]] = val()
				}
			case 2: // last coefficient non-zero: the block ends without EOB
				bs[i][zigzagNat[63]] = val()
			case 3: // values that quantise to zero in between (need q > 1 to matter)
				for k := 1; k < 1+run && k < 64; k++ {
					if r.Intn(3) == 0 {
						bs[i][zigzagNat[k]] = int16(r.Intn(3) - 1)
					}
				}
			}
			bs[i][0] = boundary[r.Intn(len(boundary))]
		}
	case "extreme":
		// all-extreme blocks: maximal code lengths; the patterns +1023
		// (appended bits all ones: 0xFF bytes to stuff), -1023, alternating, random
		for i := range bs {
			for k := 0; k < 64; k++ {
				var v int16
				switch (i / ct) % 4 {
				case 0:
					v = 1023
				case 1:
					v = -1023
				case 2:
					v = []int16{1023, -1023}[k%2]
				default:
					v = []int16{1023, -1023}[r.Intn(2)]
				}
				bs[i][k] = v
			}
			if (i/ct)%2 == 1 {
				bs[i][0] = -1024
			}
		}
	case "longest":
		// adversarial: hill-climb one MCU towards the largest number of bytes
		// that a single AddN writes (the fixed internal buffer's worst case),
		// using the real encoder as the objective; then alternate it with its
		// DC-opposite so that the DC differences stay extreme
		var cur [6]lowleveljpeg.BlockI16
		for i := 0; i < ct; i++ {
			for k := range cur[i] {
				cur[i][k] = []int16{1023, -1023}[r.Intn(2)]
			}
			cur[i][0] = 1023
		}
		best := enc(cur[:ct])
		cands := []int16{1023, -1023, 1022, -1022, 511, -511, 512, -512, 767, -767, 1021, -1021, 895, -895, 959, -959, 991, -991, 1007, -1007, 1015, -1015, 1019, -1019}
		iters := 1500 * ct
		for it := 0; it < iters; it++ {
			i, k := r.Intn(ct), r.Intn(64)
			old := cur[i][k]
			cur[i][k] = cands[r.Intn(len(cands))]
			if n := enc(cur[:ct]); n >= best {
				best = n
			} else {
				cur[i][k] = old
			}
		}
		for i := range bs {
			bs[i] = cur[i%ct]
			if (i/ct)%2 == 1 {
				bs[i][0] = -1024
			}
		}
	case "ties":
		// coefficients that are odd multiples of q/2 for even q: exact ties
		for i := range bs {
			t := compOf(i)
			for k := 0; k < 64; k++ {
				qq := int(q[t][k])
				if r.Intn(3) == 0 {
					continue
				}
				m := 2*r.Intn(1+1023/qq) + 1 // odd
				v := m * qq / 2
				if qq%2 == 1 {
					v = r.Intn(2047) - 1023
				}
				if r.Intn(2) == 0 {
					v = -v
				}
				if v > 1023 || v < -1023 {
					v = (qq / 2) * (1 - 2*r.Intn(2))
				}
				bs[i][k] = int16(v)
			}
		}
	case "random":
		for i := range bs {
			for k := 0; k < 64; k++ {
				bs[i][k] = int16(r.Intn(2047) - 1023)
			}
			if r.Intn(8) == 0 {
				bs[i][0] = -1024
			}
		}
	case "sparse":
		for i := range bs {
			dens := []int{2, 5, 12, 40}[r.Intn(4)]
			for k := 0; k < 64; k++ {
				if r.Intn(dens) == 0 {
					mag := 1 << uint(r.Intn(11))
					bs[i][k] = int16(r.Intn(2*mag) - mag)
					if bs[i][k] > 1023 {
						bs[i][k] = 1023
					}
					if bs[i][k] < -1023 {
						bs[i][k] = -1023
					}
				}
			}
			bs[i][0] = int16(r.Intn(2048) - 1024)
		}
	case "dct":
		// realistic: forward DCT of random smooth/noisy pixel blocks
		for i := range bs {
			var p lowleveljpeg.BlockU8
			base, amp := r.Intn(256), r.Intn(128)
			for k := range p {
				v := base + (k%8)*r.Intn(5) + (k/8)*r.Intn(5) + r.Intn(1+amp) - amp/2
				if v < 0 {
					v = 0
				}
				if v > 255 {
					v = 255
				}
				p[k] = uint8(v)
			}
			bs[i].ForwardDCTFrom(&p)
		}
	default:
		die("bad block generator %q", g.Gen)
	}
	return bs
}

type jobStat struct {
	ID          string `json:"id"`
	Blocks      int    `json:"blocks"`
	Bytes       int    `json:"bytes"`
	MaxAddBytes int    `json:"max_add_bytes"`
	Stuffed     int    `json:"stuffed_ff"`
	ZRL         int    `json:"zrl"`
	NoEOB       int    `json:"blocks_without_eob"`
	Ties        int    `json:"ties"`
	TiesAway    int    `json:"ties_rounded_away"`
	Triples     int    `json:"triples"`
	MaxCat      int    `json:"max_abs_decoded"`
	MaxDCDelta  int    `json:"max_abs_dc_delta"`
	CallError   string `json:"call_error,omitempty"`
}

func abs(x int) int {
	if x < 0 {
		return -x
	}
	return x
}

func runJob(j job) (trace map[string]interface{}, st jobStat) {
	st.ID = j.ID
	opts, reqQ := makeQuant(j.Quant)
	nu := units(j.CT, j.W, j.H)
	enc := &lowleveljpeg.Encoder{}
	if j.Dirty {
		// a previous, abandoned file: leaves bits in the accumulator, non-zero
		// DC predictors, other tables, another colour type
		r := rand.New(rand.NewSource(j.Blocks.Seed + 77))
		var jb [6]lowleveljpeg.BlockI16
		pct := []int{1, 3, 6}[r.Intn(3)]
		po, _ := makeQuant(quantSpec{Kind: "random", Seed: j.Blocks.Seed + 5})
		nw := &nullWriter{}
		callReset(enc, nw, pct, 100, 100, po)
		for c := 0; c < 1+r.Intn(3); c++ {
			fillBlocks(&jb, r, "valid")
			callAdd(enc, nw, pct, &jb, false)
		}
		if r.Intn(2) == 0 {
			fillBlocks(&jb, r, "invalid")
			callAdd(enc, nw, pct, &jb, false) // leaves the sticky error set
		}
	}
	// objective for the "longest" generator: bytes written by one AddN after a
	// Reset and one opposite-DC MCU, on a scratch Encoder
	objective := func(blocks []lowleveljpeg.BlockI16) int {
		e2 := &lowleveljpeg.Encoder{}
		nw := &nullWriter{}
		callReset(e2, nw, j.CT, 64, 64, opts)
		var a, b [6]lowleveljpeg.BlockI16
		copy(b[:], blocks)
		copy(a[:], blocks)
		for i := range a {
			a[i][0] = -1024
		}
		callAdd(e2, nw, j.CT, &a, false)
		nw.n = 0
		if _, p := callAdd(e2, nw, j.CT, &b, false); p != "" {
			return 1 << 30 // a panic is the best possible find: keep it
		}
		return nw.n
	}
	bs := genBlocks(j.Blocks, j.CT, nu*j.CT, &reqQ, objective)
	w := &faultWriter{keep: true}
	qnat := [][]int{make([]int, 64), make([]int, 64)}
	for t := 0; t < 2; t++ {
		for i := 0; i < 64; i++ {
			qnat[t][i] = int(reqQ[t][i])
		}
	}
	trace = map[string]interface{}{
		"req": map[string]interface{}{"ct": j.CT, "w": j.W, "h": j.H, "q": qnat},
		"job": j.ID,
	}
	evs := []jpegwalk.Event{}
	e, p := callReset(enc, w, j.CT, j.W, j.H, opts)
	if p != "" || e != nil {
		st.CallError = fmt.Sprintf("Reset: err=%v panic=%q", e, p)
	}
	var mb [6]lowleveljpeg.BlockI16
	for u := 0; u < nu && st.CallError == ""; u++ {
		copy(mb[:], bs[u*j.CT:(u+1)*j.CT])
		w.n = 0
		e, p := callAdd(enc, w, j.CT, &mb, false)
		if p != "" || e != nil {
			st.CallError = fmt.Sprintf("Add%d call %d of %d: err=%v panic=%q", j.CT, u+1, nu, e, p)
		}
		if w.n > st.MaxAddBytes {
			st.MaxAddBytes = w.n
		}
	}
	st.Bytes = len(w.buf)
	if st.CallError != "" {
		// a valid call was refused or panicked: the trace says so (rejected by the spec)
		evs = append(evs, jpegwalk.Event{"k": "error", "at": 0, "msg": "encoder: " + st.CallError})
		trace["ev"] = evs
		return trace, st
	}
	wev := jpegwalk.Walk(w.buf)
	// attach the inputs / summarise
	bi := 0
	triples := map[[3]int]bool{}
	var triList [][3]int
	triN := 0
	prevDC := map[int]int{}
	flushTri := func() {
		if triN > 0 || len(triList) > 0 {
			evs = append(evs, jpegwalk.Event{"k": "tri", "n": triN, "triples": triList})
		}
		triN, triList = 0, nil
	}
	for _, ev := range wev {
		if ev["k"] != "blk" {
			if j.Mode == "tri" {
				flushTri()
			}
			if ev["k"] == "ECSEND" {
				st.Stuffed = ev["stuffed"].(int)
			}
			evs = append(evs, ev)
			continue
		}
		zz := ev["zz"].([]int)
		comp := ev["comp"].(int)
		st.ZRL += ev["zrl"].(int)
		if ev["eob"].(int) == 0 {
			st.NoEOB++
		}
		var in *lowleveljpeg.BlockI16
		if bi < len(bs) {
			in = &bs[bi]
		} else {
			in = &lowleveljpeg.BlockI16{} // more blocks than were passed in: the spec rejects by count
		}
		bi++
		st.Blocks++
		t := 0
		if comp > 0 {
			t = 1
		}
		if d := abs(zz[0] - prevDC[comp]); d > st.MaxDCDelta {
			st.MaxDCDelta = d
		}
		prevDC[comp] = zz[0]
		for k := 0; k < 64; k++ {
			n := zigzagNat[k]
			c, qq, d := int(in[n]), int(reqQ[t][n]), zz[k]
			if abs(d) > st.MaxCat {
				st.MaxCat = abs(d)
			}
			if (2*abs(c))%(2*qq) == qq {
				st.Ties++
				if abs(d)*qq > abs(c) {
					st.TiesAway++
				}
			}
			if j.Mode == "tri" {
				key := [3]int{c, qq, d}
				if !triples[key] {
					triples[key] = true
					triList = append(triList, key)
				}
			}
		}
		if j.Mode == "tri" {
			triN++
			if len(triList) >= 20000 {
				flushTri()
			}
		} else {
			inl := make([]int, 64)
			for k := range inl {
				inl[k] = int(in[k])
			}
			evs = append(evs, jpegwalk.Event{"k": "blk", "mcu": ev["mcu"], "comp": comp, "zz": zz, "in": inl})
		}
	}
	st.Triples = len(triples)
	// what the standard library's decoder says
	switch j.Stdlib {
	case "config":
		cfg, err := jpeg.DecodeConfig(bytes.NewReader(w.buf))
		ev := jpegwalk.Event{"k": "stdlib", "ok": err == nil, "w": cfg.Width, "h": cfg.Height, "how": "DecodeConfig"}
		if err != nil {
			ev["err"] = err.Error()
		}
		evs = append(evs, ev)
	default:
		m, err := jpeg.Decode(bytes.NewReader(w.buf))
		ev := jpegwalk.Event{"k": "stdlib", "ok": err == nil, "w": 0, "h": 0, "how": "Decode"}
		if err != nil {
			ev["err"] = err.Error()
		} else {
			ev["w"], ev["h"] = m.Bounds().Dx(), m.Bounds().Dy()
		}
		evs = append(evs, ev)
	}
	trace["ev"] = evs
	return trace, st
}

func cmdContent() {
	jobsPath := flag.String("jobs", "jobs.json", "")
	outPath := flag.String("out", "traces.json", "")
	dump := flag.String("dumpdir", "", "write each produced file as <dir>/<id>.jpg")
	flag.Parse()
	var jobs []job
	jb, err := os.ReadFile(*jobsPath)
	if err != nil {
		die("%v", err)
	}
	if err := json.Unmarshal(jb, &jobs); err != nil {
		die("jobs: %v", err)
	}
	_ = dump
	traces := []interface{}{}
	stats := []jobStat{}
	for _, j := range jobs {
		tr, st := runJob(j)
		traces = append(traces, tr)
		stats = append(stats, st)
	}
	f, err := os.Create(*outPath)
	if err != nil {
		die("%v", err)
	}
	bw := bufio.NewWriter(f)
	if err := json.NewEncoder(bw).Encode(traces); err != nil {
		die("%v", err)
	}
	bw.Flush()
	f.Close()
	json.NewEncoder(os.Stdout).Encode(map[string]interface{}{"jobs": len(jobs), "stats": stats})
}

// ------------------------------------------------------------------- allocs

func cmdAllocs() {
	flag.Parse()
	r := rand.New(rand.NewSource(1))
	res := map[string]float64{}
	w := &nullWriter{}
	for _, ct := range []int{1, 3, 6} {
		enc := &lowleveljpeg.Encoder{}
		var b [6]lowleveljpeg.BlockI16
		fillBlocks(&b, r, "valid")
		a1 := (*lowleveljpeg.Array1BlockI16)(b[:1])
		a3 := (*lowleveljpeg.Array3BlockI16)(b[:3])
		a6 := (*lowleveljpeg.Array6BlockI16)(b[:6])
		q := libjpegQuality(90)
		opts := &lowleveljpeg.EncoderOptions{QuantizationFactors: &q}
		if err := enc.Reset(w, lowleveljpeg.ColorType(ct), 65535, 65535, nil); err != nil {
			die("allocs: Reset: %v", err)
		}
		var failed error
		res[fmt.Sprintf("Add%d", ct)] = testing.AllocsPerRun(2000, func() {
			var err error
			switch ct {
			case 1:
				err = enc.Add1(w, a1)
			case 3:
				err = enc.Add3(w, a3)
			default:
				err = enc.Add6(w, a6)
			}
			if err != nil {
				failed = err
			}
		})
		if failed != nil {
			die("allocs: Add%d: %v", ct, failed)
		}
		res[fmt.Sprintf("Reset(ct=%d,nil)", ct)] = testing.AllocsPerRun(500, func() {
			enc.Reset(w, lowleveljpeg.ColorType(ct), 640, 480, nil)
		})
		res[fmt.Sprintf("Reset(ct=%d,custom)", ct)] = testing.AllocsPerRun(500, func() {
			enc.Reset(w, lowleveljpeg.ColorType(ct), 640, 480, opts)
		})
		// a whole small file including the final AddN (EOI path)
		res[fmt.Sprintf("file(ct=%d,8x8)", ct)] = testing.AllocsPerRun(500, func() {
			enc.Reset(w, lowleveljpeg.ColorType(ct), 8, 8, nil)
			switch ct {
			case 1:
				enc.Add1(w, a1)
			case 3:
				enc.Add3(w, a3)
			default:
				enc.Add6(w, a6)
			}
		})
	}
	json.NewEncoder(os.Stdout).Encode(res)
}

// ---------------------------------------------------------------------- dct

type dctFail struct {
	What   string  `json:"what"`
	Gen    string  `json:"gen"`
	Pixels []int   `json:"pixels"`
	Coefs  []int   `json:"coefs"`
	Back   []int   `json:"back"`
	At     int     `json:"at"`
	Diff   int     `json:"diff"`
	Key    string  `json:"key"`
	Class  string  `json:"class"`
	Extra  float64 `json:"-"`
}

// cmdDCTOne: one pixel block given as a JSON array of 64 integers; prints the
// forward DCT, the inverse of that and the largest pixel difference.
func cmdDCTOne() {
	flag.Parse()
	var px []int
	if err := json.Unmarshal([]byte(flag.Arg(0)), &px); err != nil || len(px) != 64 {
		die("dctone: want a JSON array of 64 pixel values")
	}
	var p, back lowleveljpeg.BlockU8
	for i, v := range px {
		p[i] = uint8(v)
	}
	var c lowleveljpeg.BlockI16
	c.ForwardDCTFrom(&p)
	back.InverseDCTFrom(&c)
	co, bk := make([]int, 64), make([]int, 64)
	worst, at := 0, -1
	for i := 0; i < 64; i++ {
		co[i], bk[i] = int(c[i]), int(back[i])
		if d := abs(int(back[i]) - int(p[i])); d > worst {
			worst, at = d, i
		}
	}
	ef, ei := dctFaithfulness(&p, &c, &back)
	cls := "impl-only"
	if ef <= 0.5+dctSlack && ei <= 0.5+dctSlack {
		cls = "inherent"
	}
	json.NewEncoder(os.Stdout).Encode(map[string]interface{}{"pixels": px, "forward": co, "valid": c.IsValid(), "back": bk,
		"max_diff": worst, "at": at, "class": cls, "forward_error": ef, "inverse_error": ei})
}

func cmdDCT() {
	n := flag.Int("n", 100000, "random blocks per generator")
	seed := flag.Int64("seed", 1, "")
	flag.Parse()
	r := rand.New(rand.NewSource(*seed))
	total, invalid, off := 0, 0, 0
	maxDiff := 0
	maxAbsDC, maxAbsAC := 0, 0
	diffHist := map[int]int{}
	fails := []dctFail{}
	seenDiff2 := map[string]bool{}
	maxEF, maxEI := 0.0, 0.0
	const faithEvery = 4
	offByClass := map[string]int{"inherent": 0, "impl-only": 0}
	byGen := map[string]int{}
	check := func(gen string, p *lowleveljpeg.BlockU8) {
		total++
		byGen[gen]++
		var c lowleveljpeg.BlockI16
		c.ForwardDCTFrom(p)
		var back lowleveljpeg.BlockU8
		back.InverseDCTFrom(&c)
		if a := abs(int(c[0])); a > maxAbsDC {
			maxAbsDC = a
		}
		for _, v := range c[1:] {
			if a := abs(int(v)); a > maxAbsAC {
				maxAbsAC = a
			}
		}
		mk := func(what string, at, diff int) dctFail {
			f := dctFail{What: what, Gen: gen, At: at, Diff: diff}
			for i := 0; i < 64; i++ {
				f.Pixels = append(f.Pixels, int(p[i]))
				f.Coefs = append(f.Coefs, int(c[i]))
				f.Back = append(f.Back, int(back[i]))
			}
			return f
		}
		if !c.IsValid() {
			invalid++
			if invalid <= 3 {
				fails = append(fails, mk("forward DCT is not a valid block", -1, 0))
			}
		}
		if total%faithEvery == 0 {
			ef, ei := dctFaithfulness(p, &c, &back)
			if ef > maxEF {
				maxEF = ef
			}
			if ei > maxEI {
				maxEI = ei
			}
		}
		worst, at := 0, -1
		for i := 0; i < 64; i++ {
			d := abs(int(back[i]) - int(p[i]))
			if d > worst {
				worst, at = d, i
			}
		}
		diffHist[worst]++
		if worst > maxDiff {
			maxDiff = worst
		}
		if worst > 1 {
			off++
			// Classify by the exact real-valued DCT-II: ef = how far the forward coefficients are from the exact
			// ones, ei = how far the returned pixels are from the exact inverse of those (integer) coefficients.
			// An implementation that rounds to nearest has ef, ei <= 0.5 (+ fixed-point slack).  If it does and
			// the round trip is still off by two, no integer-coefficient DCT pair could do better on this block
			// up to rounding ties (the known finding, "inherent"); otherwise the implementation's arithmetic is
			// responsible ("impl-only").
			ef, ei := dctFaithfulness(p, &c, &back)
			cls := "impl-only"
			if ef <= 0.5+dctSlack && ei <= 0.5+dctSlack {
				cls = "inherent"
			}
			offByClass[cls]++
			k := fmt.Sprintf("%d:%s", worst, cls)
			if !seenDiff2[k] {
				seenDiff2[k] = true
				f := mk("inverse DCT of the forward DCT differs by more than one", at, worst)
				f.Class = cls
				fails = append(fails, f)
			}
		}
	}
	var p lowleveljpeg.BlockU8
	// flat blocks: every grey level
	for v := 0; v < 256; v++ {
		for i := range p {
			p[i] = uint8(v)
		}
		check("flat", &p)
	}
	// checkerboards and stripes of every period between two levels
	levels := [][2]int{{0, 255}, {255, 0}, {0, 1}, {127, 128}, {254, 255}, {0, 128}, {64, 192}}
	for _, lv := range levels {
		for px := 1; px <= 8; px++ {
			for py := 1; py <= 8; py++ {
				for i := range p {
					x, y := i%8, i/8
					p[i] = uint8(lv[((x/px)+(y/py))%2])
				}
				check("checker", &p)
			}
		}
	}
	// extremes: for every basis function (u, v) the sign pattern that maximises
	// |coefficient|, and its negative; two-basis combinations
	cosv := func(x, u int) int { // sign of cos((2x+1)u pi/16)
		k := ((2*x + 1) * u) % 32
		switch {
		case k < 8 || k > 24:
			return 1
		case k == 8 || k == 24:
			return 0
		}
		return -1
	}
	for u := 0; u < 8; u++ {
		for v := 0; v < 8; v++ {
			for _, neg := range []int{1, -1} {
				for i := range p {
					s := cosv(i%8, u) * cosv(i/8, v) * neg
					if s > 0 {
						p[i] = 255
					} else {
						p[i] = 0
					}
				}
				check("extreme-basis", &p)
				for i := range p {
					s := cosv(i%8, u) * cosv(i/8, v) * neg
					if s > 0 {
						p[i] = 255
					} else if s < 0 {
						p[i] = 0
					} else {
						p[i] = 128
					}
				}
				check("extreme-basis", &p)
			}
		}
	}
	// seeded random: uniform, two-level, near-extreme, smooth gradients + noise
	for it := 0; it < *n; it++ {
		for i := range p {
			p[i] = uint8(r.Intn(256))
		}
		check("random-uniform", &p)
		lo, hi := r.Intn(256), r.Intn(256)
		for i := range p {
			if r.Intn(2) == 0 {
				p[i] = uint8(lo)
			} else {
				p[i] = uint8(hi)
			}
		}
		check("random-two-level", &p)
		for i := range p {
			if r.Intn(2) == 0 {
				p[i] = uint8(r.Intn(4))
			} else {
				p[i] = uint8(252 + r.Intn(4))
			}
		}
		check("random-near-extreme", &p)
		base, gx, gy, amp := r.Intn(256), r.Intn(33)-16, r.Intn(33)-16, r.Intn(24)
		for i := range p {
			v := base + gx*(i%8) + gy*(i/8) + r.Intn(1+amp) - amp/2
			if v < 0 {
				v = 0
			}
			if v > 255 {
				v = 255
			}
			p[i] = uint8(v)
		}
		check("random-smooth", &p)
	}
	json.NewEncoder(os.Stdout).Encode(map[string]interface{}{
		"blocks": total, "by_gen": byGen, "invalid_forward": invalid, "roundtrip_off_by_more_than_one": off,
		"max_pixel_diff": maxDiff, "max_abs_dc": maxAbsDC, "max_abs_ac": maxAbsAC, "worst_diff_histogram": diffHist, "off_by_class": offByClass,
		"max_forward_error": maxEF, "max_inverse_error": maxEI, "slack": dctSlack, "failures": fails})
}

// dctSlack is the tolerance, beyond the 0.5 of round-to-nearest, granted to the implementation's fixed-point
// arithmetic when a failing block is classified (measured on the unchanged tree: see the evidence).
const dctSlack = 0.02

var dctCos = func() (cm [8][8]float64) {
	for u := 0; u < 8; u++ {
		a := math.Sqrt(2.0 / 8.0)
		if u == 0 {
			a = math.Sqrt(1.0 / 8.0)
		}
		for x := 0; x < 8; x++ {
			cm[u][x] = a * math.Cos(float64((2*x+1)*u)*math.Pi/16)
		}
	}
	return
}()

// dctFaithfulness returns (ef, ei): the largest distance of a coefficient in c from the exact DCT-II of p, and the
// largest distance of a pixel in back from the exact inverse DCT of c (clamped to 0..255).
func dctFaithfulness(p *lowleveljpeg.BlockU8, c *lowleveljpeg.BlockI16, back *lowleveljpeg.BlockU8) (float64, float64) {
	cm := &dctCos
	var in, tmp [8][8]float64
	for i := 0; i < 64; i++ {
		in[i/8][i%8] = float64(p[i]) - 128
	}
	// the block is stored row-major, index 8*y + x; coefficient (v, u) = sum_y sum_x C[v][y] C[u][x] in[y][x]
	for v := 0; v < 8; v++ {
		for x := 0; x < 8; x++ {
			s := 0.0
			for y := 0; y < 8; y++ {
				s += cm[v][y] * in[y][x]
			}
			tmp[v][x] = s
		}
	}
	ef := 0.0
	for v := 0; v < 8; v++ {
		for u := 0; u < 8; u++ {
			s := 0.0
			for x := 0; x < 8; x++ {
				s += tmp[v][x] * cm[u][x]
			}
			if d := math.Abs(s - float64(c[8*v+u])); d > ef {
				ef = d
			}
		}
	}
	for y := 0; y < 8; y++ {
		for u := 0; u < 8; u++ {
			s := 0.0
			for v := 0; v < 8; v++ {
				s += cm[v][y] * float64(c[8*v+u])
			}
			tmp[y][u] = s
		}
	}
	ei := 0.0
	for y := 0; y < 8; y++ {
		for x := 0; x < 8; x++ {
			s := 128.0
			for u := 0; u < 8; u++ {
				s += tmp[y][u] * cm[u][x]
			}
			if s < 0 {
				s = 0
			}
			if s > 255 {
				s = 255
			}
			if d := math.Abs(s - float64(back[8*y+x])); d > ei {
				ei = d
			}
		}
	}
	return ef, ei
}

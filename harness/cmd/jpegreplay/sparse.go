package main

// sparse <dir>: baseline JPEGs, written with /repo's lib/lowleveljpeg, whose blocks have ONE non-zero AC coefficient
// each (every one of the 63 AC positions, three magnitudes) or one whole non-zero row / column.  Inverse-DCT
// implementations take shortcuts for blocks whose AC coefficients are all zero outside some rows or columns; these
// images put every such case into a file.  All quantisation factors are 1, so the coefficients in the file are the
// values below (well inside the 10-bit range where the SIMD and the portable IDCT must agree).

import (
	"bytes"
	"flag"
	"fmt"
	"os"
	"path/filepath"

	"github.com/google/wuffs/lib/lowleveljpeg"
)

func cmdSparse() {
	flag.Parse()
	dir := flag.Arg(0)
	if dir == "" {
		die("usage: jpegreplay sparse <dir>")
	}
	if err := os.MkdirAll(dir, 0o755); err != nil {
		die("%v", err)
	}
	var q lowleveljpeg.Array2QuantizationFactors
	for t := range q {
		for i := range q[t] {
			q[t][i] = 1
		}
	}
	opts := &lowleveljpeg.EncoderOptions{QuantizationFactors: &q}
	var blocks []lowleveljpeg.BlockI16
	for _, mag := range []int16{1, -3, 40} {
		for k := 1; k < 64; k++ {
			var b lowleveljpeg.BlockI16
			b[0] = 64
			b[k] = mag
			blocks = append(blocks, b)
		}
	}
	for r := 0; r < 8; r++ { // one whole row, one whole column of small coefficients
		var br, bc lowleveljpeg.BlockI16
		for i := 0; i < 8; i++ {
			br[8*r+i] = int16(3 + i)
			bc[8*i+r] = int16(-2 - i)
		}
		br[0], bc[0] = 100, -100
		blocks = append(blocks, br, bc)
	}
	write := func(name string, ct lowleveljpeg.ColorType, per int) {
		nmcu := (len(blocks) + per - 1) / per
		mw, mh := ct.MCUDimensions()
		buf := &bytes.Buffer{}
		enc := &lowleveljpeg.Encoder{}
		if err := enc.Reset(buf, ct, mw*nmcu, mh, opts); err != nil {
			die("Reset: %v", err)
		}
		for m := 0; m < nmcu; m++ {
			var six [6]lowleveljpeg.BlockI16
			for i := 0; i < per; i++ {
				if j := m*per + i; j < len(blocks) {
					six[i] = blocks[j]
				} else {
					six[i][0] = 64
				}
			}
			var err error
			switch per {
			case 1:
				err = enc.Add1(buf, (*lowleveljpeg.Array1BlockI16)(six[:1]))
			case 3:
				err = enc.Add3(buf, (*lowleveljpeg.Array3BlockI16)(six[:3]))
			default:
				err = enc.Add6(buf, (*lowleveljpeg.Array6BlockI16)(six[:6]))
			}
			if err != nil {
				die("AddN: %v", err)
			}
		}
		if err := os.WriteFile(filepath.Join(dir, name), buf.Bytes(), 0o644); err != nil {
			die("%v", err)
		}
		fmt.Println(filepath.Join(dir, name))
	}
	write("sparse-gray.jpeg", lowleveljpeg.ColorTypeGray, 1)
	write("sparse-444.jpeg", lowleveljpeg.ColorTypeYCbCr444, 3)
	write("sparse-420.jpeg", lowleveljpeg.ColorTypeYCbCr420, 6)
}

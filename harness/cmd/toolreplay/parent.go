package main

import (
	"bufio"
	"bytes"
	"context"
	"encoding/json"
	"flag"
	"fmt"
	"io"
	"os"
	"os/exec"
	"path/filepath"
	"regexp"
	"sort"
	"strconv"
	"strings"
	"sync"
	"sync/atomic"
	"time"
)

type childLine struct {
	B     *int    `json:"b"`
	M     *int    `json:"m"`
	St    string  `json:"st"`
	R     *Result `json:"r"`
	V     *int    `json:"v"`
	E     *Event  `json:"e"`
	OOM   bool    `json:"oom"`
	Leaky bool    `json:"leaky"`
}

type runner struct {
	self     string
	root     string
	wuffsc   string
	workdir  string
	budgetMs int
	workers  int
	batch    int
	maxStack int
	cc       string
	log      func(string, ...interface{})

	stats struct {
		Children, Crashes, Confirms, Unconfirmed, TUs, TUFailed, GccRuns, Skipped int
	}
}

func cmdRun(args []string) error {
	fs := flag.NewFlagSet("run", flag.ExitOnError)
	r := &runner{}
	srcPath := fs.String("sources", "", "sources.ndjson")
	evPath := fs.String("events", "", "out: one trace per source (ndjson)")
	failPath := fs.String("fails", "", "out: details of every non-ordinary outcome (json)")
	statPath := fs.String("stats", "", "out: counters (json)")
	fs.StringVar(&r.root, "root", "", "scratch wuffs root")
	fs.StringVar(&r.wuffsc, "wuffsc", "", "wuffs-c binary")
	fs.StringVar(&r.workdir, "work", "", "scratch dir for batch files")
	fs.IntVar(&r.budgetMs, "budget-ms", 10000, "per-stage watchdog (confirmed with 4x)")
	fs.IntVar(&r.workers, "workers", 16, "workers per child")
	fs.IntVar(&r.batch, "batch", 4000, "sources per child")
	fs.IntVar(&r.maxStack, "maxstack", 0, "debug.SetMaxStack in children (0 = Go default)")
	fs.StringVar(&r.cc, "cc", "gcc", "C compiler")
	maxConfirm := fs.Int("max-confirm-per-key", 6, "individual confirmations per failure key")
	par := fs.Int("par", 8, "individual runs in parallel")
	individual := fs.Bool("individual", false, "no batches: every source alone in its own process")
	quiet := fs.Bool("q", false, "quiet")
	fs.Parse(args)
	r.self, _ = os.Executable()
	r.log = func(f string, a ...interface{}) {
		if !*quiet {
			fmt.Fprintf(os.Stderr, "toolreplay: "+f+"\n", a...)
		}
	}
	srcs, err := readSources(*srcPath)
	if err != nil {
		return err
	}
	byID := map[int]*Source{}
	for _, s := range srcs {
		byID[s.ID] = s
	}
	os.MkdirAll(r.workdir, 0o755)
	os.MkdirAll(filepath.Join(r.root, "gen", "c"), 0o755)

	results := map[int]*Result{}
	var suspects []int // need individual confirmation

	// 1. batches in killable children
	pending := srcs
	hangChecked := false
	earlyConfirmed := map[int]bool{}
	skipped := map[int]bool{}
	if *individual {
		pending = nil
		for _, s := range srcs {
			suspects = append(suspects, s.ID)
		}
	}
	for len(pending) > 0 {
		n := r.batch
		if n > len(pending) {
			n = len(pending)
		}
		batch := pending[:n]
		pending = pending[n:]
		done, inflight, notBegun, err := r.runChild(batch, r.workers, r.budgetMs, false)
		if err != nil {
			return err
		}
		for _, res := range done {
			results[res.ID] = res
			if res.Fail != nil {
				suspects = append(suspects, res.ID)
			}
		}
		if len(inflight) > 0 {
			r.stats.Crashes++
			for _, id := range inflight {
				suspects = append(suspects, id)
			}
		}
		// Circuit breaker: hangs are expensive (a spinning goroutine each, a
		// child restart every 24 of them).  Once 48 sources are suspected of
		// hanging, a few are confirmed alone right away; if a hang is real the
		// remaining sources are not run (they get no trace) - the run has its
		// finding and would otherwise take hours.
		if !hangChecked {
			var hung []int
			for _, id := range suspects {
				if res := results[id]; res == nil || (res.Fail != nil && res.Fail.Outcome == "timeout") {
					hung = append(hung, id)
				}
			}
			if len(hung) >= 48 {
				hangChecked = true
				real := 0
				for _, id := range hung[:4] {
					res := r.confirm(byID[id])
					r.stats.Confirms++
					if res.Fail != nil && res.Fail.Outcome == "timeout" {
						real++
					}
					results[id] = res
					earlyConfirmed[id] = true
				}
				if real > 0 {
					r.log("%d sources hang (confirmed alone: %d of 4); %d sources are not run", len(hung), real, len(pending)+len(notBegun))
					r.stats.Skipped = len(pending) + len(notBegun)
					for _, id := range notBegun {
						skipped[id] = true
					}
					for _, s := range pending {
						skipped[s.ID] = true
					}
					pending = nil
					break
				}
			}
		}
		if len(notBegun) > 0 {
			rest := make([]*Source, 0, len(notBegun)+len(pending))
			for _, id := range notBegun {
				rest = append(rest, byID[id])
			}
			pending = append(rest, pending...)
		}
	}

	// 2. confirm every non-ordinary outcome by an individual run (4x budget,
	//    own process).  Wave 1: every source that was in flight at a crash and
	//    up to max-confirm-per-key sources per failure key.  A key that was
	//    reproduced at least once stands for the rest of its sources (their
	//    batch record is kept); the sources of a key that was NOT reproduced
	//    (watchdogs firing on an overloaded machine) are all re-run alone.
	var mu sync.Mutex
	runAlone := func(ids []int) {
		sem := make(chan struct{}, *par)
		var wg sync.WaitGroup
		for _, id := range ids {
			wg.Add(1)
			sem <- struct{}{}
			go func(id int) {
				defer wg.Done()
				defer func() { <-sem }()
				res := r.confirm(byID[id])
				mu.Lock()
				r.stats.Confirms++
				if old := results[id]; old != nil && old.Fail != nil && res.Fail == nil {
					r.stats.Unconfirmed++
					r.log("source %d: %s in the batch run was not reproduced alone; the individual run counts", id, old.Fail.Key)
				}
				results[id] = res
				mu.Unlock()
			}(id)
		}
		wg.Wait()
	}
	batchKey := map[int]string{}
	perKey := map[string]int{}
	var wave1, rest []int
	var earlyKeys []string
	for _, id := range suspects {
		res := results[id]
		if earlyConfirmed[id] {
			if res.Fail != nil && res.Fail.Outcome != "tooling" {
				perKey[res.Fail.Key]++
				earlyKeys = append(earlyKeys, res.Fail.Key)
			}
			continue
		}
		switch {
		case res == nil || res.Fail == nil:
			batchKey[id] = "in-flight"
			wave1 = append(wave1, id)
		case res.Fail.Outcome == "tooling":
		case perKey[res.Fail.Key] < *maxConfirm:
			batchKey[id] = res.Fail.Key
			perKey[res.Fail.Key]++
			wave1 = append(wave1, id)
		default:
			batchKey[id] = res.Fail.Key
			rest = append(rest, id)
		}
	}
	runAlone(wave1)
	reproduced := map[string]bool{}
	for _, k := range earlyKeys {
		reproduced[k] = true
	}
	for _, id := range wave1 {
		if f := results[id].Fail; f != nil && f.Outcome != "tooling" && f.Key == batchKey[id] {
			reproduced[f.Key] = true
		}
	}
	var wave2 []int
	for _, id := range rest {
		if !reproduced[batchKey[id]] {
			wave2 = append(wave2, id)
		}
	}
	runAlone(wave2)

	// 3. the C compiler on every accepted program
	if err := r.ccompile(srcs, results); err != nil {
		return err
	}

	// 4. write traces + details
	ef, err := os.Create(*evPath)
	if err != nil {
		return err
	}
	ew := bufio.NewWriter(ef)
	type failOut struct {
		ID     int      `json:"id"`
		Origin string   `json:"origin"`
		Fail   *Failure `json:"fail"`
		S      string   `json:"s,omitempty"`
		B      string   `json:"b,omitempty"`
		Sib    []string `json:"sib,omitempty"`
		Events []Event  `json:"ev"`
	}
	var fails []failOut
	tooling := 0
	for _, s := range srcs {
		if skipped[s.ID] {
			continue
		}
		res := results[s.ID]
		if res == nil {
			return fmt.Errorf("no result for source %d", s.ID)
		}
		if res.Fail != nil && res.Fail.Outcome == "tooling" {
			tooling++
			r.log("tooling problem on source %d: %s", s.ID, res.Fail.Msg)
		}
		evs := make([][3]string, len(res.Events))
		for i, e := range res.Events {
			evs[i] = [3]string{e.Stage, e.Outcome, e.Dur}
		}
		line, _ := json.Marshal(map[string]interface{}{"id": s.ID, "o": s.Origin, "ev": evs, "err": res.ErrMsg, "ntok": res.NTokens, "len": len(s.Bytes())})
		ew.Write(line)
		ew.WriteByte('\n')
		if res.Fail != nil && res.Fail.Outcome != "tooling" {
			fails = append(fails, failOut{ID: s.ID, Origin: s.Origin, Fail: res.Fail, S: s.S, B: s.B, Sib: s.Sib, Events: res.Events})
		}
	}
	ew.Flush()
	ef.Close()
	fb, _ := json.Marshal(fails)
	if err := os.WriteFile(*failPath, fb, 0o644); err != nil {
		return err
	}
	sb, _ := json.Marshal(map[string]interface{}{"stats": r.stats, "tooling": tooling, "sources": len(srcs)})
	if *statPath != "" {
		os.WriteFile(*statPath, sb, 0o644)
	}
	fmt.Println(string(sb))
	return nil
}

var batchSeq int64
var statsMu sync.Mutex

// runChild runs one child on a batch.  Returns finished results, ids that
// were in flight when the child died, and ids that never began.
func (r *runner) runChild(batch []*Source, workers, budgetMs int, single bool) (done []*Result, inflight []int, notBegun []int, err error) {
	seq := atomic.AddInt64(&batchSeq, 1)
	in := filepath.Join(r.workdir, fmt.Sprintf("batch-%d-%d.in", os.Getpid(), seq))
	out := filepath.Join(r.workdir, fmt.Sprintf("batch-%d-%d.out", os.Getpid(), seq))
	if err := writeSources(in, batch); err != nil {
		return nil, nil, nil, err
	}
	defer os.Remove(in)
	defer os.Remove(out)
	// hard deadline for the whole child: every source could use its budget in
	// every stage only if things hang, and then the in-child watchdogs fire.
	maxBudget := time.Duration(0)
	c := &config{budget: time.Duration(budgetMs) * time.Millisecond}
	for _, s := range batch {
		if b := c.budgetFor(s.Bytes(), len(s.Sib)); b > maxBudget {
			maxBudget = b
		}
	}
	hard := 8*maxBudget + time.Duration(len(batch)/workers+1)*200*time.Millisecond + 60*time.Second
	ctx, cancel := context.WithTimeout(context.Background(), hard)
	defer cancel()
	args := []string{"child", "-in", in, "-out", out, "-root", r.root, "-wuffsc", r.wuffsc,
		"-budget-ms", strconv.Itoa(budgetMs), "-workers", strconv.Itoa(workers), "-maxstack", strconv.Itoa(r.maxStack)}
	cmd := exec.CommandContext(ctx, r.self, args...)
	var stderr bytes.Buffer
	cmd.Stderr = &stderr
	cmd.Stdout = io.Discard
	runErr := cmd.Run()
	statsMu.Lock()
	r.stats.Children++
	statsMu.Unlock()
	begun := map[int]bool{}
	finished := map[int]bool{}
	stageOf := map[int]string{}
	evsOf := map[int][]Event{}
	f, e := os.Open(out)
	if e == nil {
		br := bufio.NewReaderSize(f, 1<<20)
		for {
			line, e := br.ReadBytes('\n')
			if len(bytes.TrimSpace(line)) > 0 {
				var cl childLine
				if json.Unmarshal(line, &cl) == nil {
					switch {
					case cl.B != nil:
						begun[*cl.B] = true
					case cl.M != nil:
						stageOf[*cl.M] = cl.St
					case cl.V != nil && cl.E != nil:
						evsOf[*cl.V] = append(evsOf[*cl.V], *cl.E)
					case cl.R != nil:
						finished[cl.R.ID] = true
						done = append(done, cl.R)
					}
				}
			}
			if e != nil {
				break
			}
		}
		f.Close()
	}
	if runErr == nil {
		if len(done) != len(batch) {
			return nil, nil, nil, fmt.Errorf("child finished but reported %d of %d results", len(done), len(batch))
		}
		return done, nil, nil, nil
	}
	// The child died (fatal runtime error, memory watchdog, too many leaked
	// goroutines, or our hard deadline).
	for _, s := range batch {
		switch {
		case finished[s.ID]:
		case begun[s.ID]:
			inflight = append(inflight, s.ID)
		default:
			notBegun = append(notBegun, s.ID)
		}
	}
	if single {
		// hand the crash report to the caller through a pseudo result
		se := stderr.String()
		id := batch[0].ID
		if finished[id] {
			return done, nil, nil, nil
		}
		stage := stageOf[id]
		if stage == "" {
			stage = stTokenize
		}
		res := &Result{ID: id}
		var fl *Failure
		if ctx.Err() == context.DeadlineExceeded {
			fl = &Failure{Stage: stage, Outcome: "timeout", Msg: fmt.Sprintf("child killed after %v", hard), Key: "timeout:" + stage + ":killed"}
		} else if fl = classifyCrash(stage, se); fl == nil {
			if ee, ok := runErr.(*exec.ExitError); ok && ee.ExitCode() == 3 {
				fl = &Failure{Stage: stage, Outcome: "oom", Msg: "heap exceeded the harness limit", Key: "oom:" + stage}
			} else {
				fl = &Failure{Stage: stage, Outcome: "tooling", Msg: "child died: " + runErr.Error() + ": " + firstLine(se), Key: "tooling"}
			}
		}
		res.Fail = fl
		res.crashStage = stage
		for _, e := range evsOf[id] {
			if e.Stage != stage {
				res.Events = append(res.Events, e)
			}
		}
		res.Events = append(res.Events, Event{Stage: stage, Outcome: fl.Outcome, Dur: "ge10s"})
		return []*Result{res}, nil, nil, nil
	}
	r.log("child died (%v): %d finished, %d in flight, %d not begun; %s", runErr, len(done), len(inflight), len(notBegun), firstLine(stderr.String()))
	if len(inflight) == 0 && len(notBegun) == len(batch) {
		return nil, nil, nil, fmt.Errorf("child made no progress: %v: %s", runErr, firstLine(stderr.String()))
	}
	return done, inflight, notBegun, nil
}

// confirm re-runs one source alone, in its own process, 4x budget.
func (r *runner) confirm(s *Source) *Result {
	done, _, _, err := r.runChild([]*Source{s}, 1, 4*r.budgetMs, true)
	if err != nil || len(done) != 1 {
		msg := "confirm run failed"
		if err != nil {
			msg += ": " + err.Error()
		}
		return &Result{ID: s.ID, Fail: &Failure{Stage: "?", Outcome: "tooling", Msg: msg, Key: "tooling"}}
	}
	return done[0]
}

func writeSources(path string, srcs []*Source) error {
	f, err := os.Create(path)
	if err != nil {
		return err
	}
	w := bufio.NewWriterSize(f, 1<<20)
	for _, s := range srcs {
		b, _ := json.Marshal(s)
		w.Write(b)
		w.WriteByte('\n')
	}
	if err := w.Flush(); err != nil {
		return err
	}
	return f.Close()
}

// ---------------------------------------------------------------- ccompile

var gccErrRE = regexp.MustCompile(`(?m)^(?:[^\s:]*/)?p(\d+)\.c:(\d+):\d+: (?:fatal )?error: (.*)$`)

func (r *runner) gcc(tu string, extra ...string) (bool, string) {
	args := append([]string{"-fsyntax-only", "-Werror=implicit-function-declaration"}, extra...)
	args = append(args, tu)
	ctx, cancel := context.WithTimeout(context.Background(), 600*time.Second)
	defer cancel()
	cmd := exec.CommandContext(ctx, r.cc, args...)
	cmd.Dir = filepath.Join(r.root, "gen", "c")
	var se bytes.Buffer
	cmd.Stderr = &se
	cmd.Env = append(os.Environ(), "LC_ALL=C")
	err := cmd.Run()
	statsMu.Lock()
	r.stats.GccRuns++
	statsMu.Unlock()
	return err == nil, se.String()
}

func (r *runner) ccompile(srcs []*Source, results map[int]*Result) error {
	var acc []int
	for _, s := range srcs {
		if res := results[s.ID]; res != nil && res.CFile != "" && res.Fail == nil {
			acc = append(acc, s.ID)
		}
	}
	sort.Ints(acc)
	cdir := filepath.Join(r.root, "gen", "c")
	const K = 48
	type tuJob struct{ ids []int }
	var jobs []tuJob
	for i := 0; i < len(acc); i += K {
		j := i + K
		if j > len(acc) {
			j = len(acc)
		}
		jobs = append(jobs, tuJob{acc[i:j]})
	}
	var mu sync.Mutex
	var firstErr error
	sem := make(chan struct{}, 16)
	var wg sync.WaitGroup
	for ji, job := range jobs {
		wg.Add(1)
		sem <- struct{}{}
		go func(ji int, ids []int) {
			defer wg.Done()
			defer func() { <-sem }()
			t0 := time.Now()
			bad, err := r.compileGroup(cdir, fmt.Sprintf("tu%d", ji), ids)
			d := time.Since(t0)
			mu.Lock()
			defer mu.Unlock()
			if err != nil && firstErr == nil {
				firstErr = err
			}
			r.stats.TUs++
			if len(bad) > 0 {
				r.stats.TUFailed++
			}
			per := d / time.Duration(len(ids))
			for _, id := range ids {
				res := results[id]
				ev := Event{Stage: stCCompile, Outcome: "result", Dur: durClass(per), Ms: float64(per.Microseconds()) / 1000}
				if f, isBad := bad[id]; isBad {
					ev.Outcome = "rejected"
					res.Fail = f
				}
				res.Events = append(res.Events, ev)
			}
		}(ji, job.ids)
	}
	wg.Wait()
	return firstErr
}

// compileGroup compiles the C of several accepted programs as one translation
// unit (each has its own package prefix).  Programs that gcc names in an error
// are re-compiled ALONE with the documented flags to confirm; the others are
// re-compiled together until the unit is clean.
func (r *runner) compileGroup(cdir, name string, ids []int) (map[int]*Failure, error) {
	bad := map[int]*Failure{}
	cur := append([]int(nil), ids...)
	for round := 0; len(cur) > 0; round++ {
		tu := filepath.Join(cdir, fmt.Sprintf("%s-%d.c", name, round))
		var b strings.Builder
		// Every generated file enables only its own module unless the
		// modules are listed explicitly: list base, every std package (they
		// are compiled only when a program includes them) and the programs.
		b.WriteString("#define WUFFS_IMPLEMENTATION\n#define WUFFS_CONFIG__MODULES\n#define WUFFS_CONFIG__MODULE__BASE\n")
		stds, _ := filepath.Glob(filepath.Join(cdir, "wuffs-std-*.c"))
		for _, sp := range stds {
			name := strings.TrimSuffix(strings.TrimPrefix(filepath.Base(sp), "wuffs-std-"), ".c")
			fmt.Fprintf(&b, "#define WUFFS_CONFIG__MODULE__%s\n", strings.ToUpper(name))
		}
		for _, id := range cur {
			fmt.Fprintf(&b, "#define WUFFS_CONFIG__MODULE__P%d\n", id)
		}
		b.WriteString("#include \"./wuffs-base.c\"\n")
		for _, id := range cur {
			fmt.Fprintf(&b, "#include \"./p%d.c\"\n", id)
		}
		if err := os.WriteFile(tu, []byte(b.String()), 0o644); err != nil {
			return nil, err
		}
		ok, se := r.gcc(tu)
		os.Remove(tu)
		if ok {
			return bad, nil
		}
		named := map[int]bool{}
		for _, m := range gccErrRE.FindAllStringSubmatch(se, -1) {
			id, _ := strconv.Atoi(m[1])
			named[id] = true
		}
		if len(named) == 0 {
			if len(cur) == 1 {
				named[cur[0]] = true
			} else {
				// errors attributed to no program: split
				h := len(cur) / 2
				b1, err := r.compileGroup(cdir, name+"a", cur[:h])
				if err != nil {
					return nil, err
				}
				b2, err := r.compileGroup(cdir, name+"b", cur[h:])
				if err != nil {
					return nil, err
				}
				for k, v := range b1 {
					bad[k] = v
				}
				for k, v := range b2 {
					bad[k] = v
				}
				return bad, nil
			}
		}
		var rest []int
		for _, id := range cur {
			if !named[id] {
				rest = append(rest, id)
				continue
			}
			// confirm alone, with the flags of the documentation
			single := filepath.Join(cdir, fmt.Sprintf("p%d.c", id))
			src, _ := os.ReadFile(single)
			flags := []string{"-DWUFFS_IMPLEMENTATION"}
			if !bytes.Contains(src, []byte("#include \"./wuffs-std-")) {
				flags = append(flags, "-DWUFFS_CONFIG__MODULES", "-DWUFFS_CONFIG__MODULE__BASE", fmt.Sprintf("-DWUFFS_CONFIG__MODULE__P%d", id))
			}
			ok1, se1 := r.gcc(single, flags...)
			if ok1 {
				// rejected only in company: not a finding about this program
				rest = append(rest, id)
				if len(named) == len(cur) || len(cur) == 1 {
					return nil, fmt.Errorf("gcc rejects p%d.c inside a unit but accepts it alone: %s", id, firstLine(se))
				}
				continue
			}
			m := gccErrRE.FindStringSubmatch(se1)
			msg, lineText := firstLine(se1), ""
			if m != nil {
				msg = m[3]
				ln, _ := strconv.Atoi(m[2])
				lines := bytes.Split(src, []byte("\n"))
				if ln >= 1 && ln <= len(lines) {
					lineText = strings.TrimSpace(string(lines[ln-1]))
				}
			}
			bad[id] = &Failure{Stage: stCCompile, Outcome: "rejected", Msg: msg + " | " + lineText,
				Stack: trimStack(se1), Key: "ccompile:" + gccMsgClass(msg) + ":" + baseIdent(lineText)}
		}
		if len(rest) == len(cur) {
			return nil, fmt.Errorf("gcc rejects a unit but every named program compiles alone: %s", firstLine(se))
		}
		cur = rest
	}
	return bad, nil
}

var baseIdentRE = regexp.MustCompile(`(?i)wuffs_(?:base|private_impl)__[a-z0-9_]+`)
var digitsRE = regexp.MustCompile(`[0-9]+`)

// baseIdent: the first identifier of the base library on the rejected C line,
// digits abstracted (u8 / u16 / ... are one defect).
func baseIdent(line string) string {
	m := baseIdentRE.FindString(line)
	if m == "" {
		// else the field of the receiver struct it touches; generated
		// fields carry a one-letter prefix (p_, f_, s_, c_) + a source name
		if f := implFieldRE.FindStringSubmatch(line); f != nil {
			if len(f[1]) > 2 && f[1][1] == '_' {
				return f[1][:2]
			}
			return f[1]
		}
		return "none"
	}
	return digitsRE.ReplaceAllString(m, "N")
}

var implFieldRE = regexp.MustCompile(`private_(?:impl|data)\.(\w+)`)
var suggestionRE = regexp.MustCompile(`; did you mean .*$`)

var quotedRE = regexp.MustCompile("['‘’`][^'‘’`]*['‘’`]")

func gccMsgClass(msg string) string {
	msg = suggestionRE.ReplaceAllString(msg, "")
	return msgClass(quotedRE.ReplaceAllString(msg, "Q"))
}

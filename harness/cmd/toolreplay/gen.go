package main

import (
	"bufio"
	"bytes"
	"encoding/json"
	"flag"
	"fmt"
	"go/scanner"
	gotoken "go/token"
	"io"
	"math/rand"
	"os"
	"path/filepath"
	"regexp"
	"sort"
	"strconv"
	"strings"
)

// tokLine is one TLC-exported token sequence of spec/WuffsSyntax.tla.
type tokLine struct {
	O string   `json:"o"`
	C string   `json:"c"` // context id (key of the contexts file); the source is prefix + T + suffix
	T []string `json:"t"`
}

type tokContext struct {
	Prefix []string `json:"prefix"`
	Suffix []string `json:"suffix"`
}

type nestKind struct {
	Open  []string `json:"open"`
	Close []string `json:"close"`
}

// renderTokens turns a token sequence into source text.  Layout "lines": the
// token ";" is a line break (Wuffs inserts the semicolon itself after an
// identifier, literal, keyword or closing bracket), and a line break follows
// "{", "{{" and ","; layout "flat": one line, ";" spelled out.  Pseudo-tokens
// "@open:<kind>:<n>" / "@close:<kind>:<n>" stand for n repetitions of the
// spec's NestOpen[kind] / NestClose[kind].
func renderTokens(toks []string, layout string, nest map[string]nestKind) ([]byte, error) {
	var b bytes.Buffer
	bol := true
	put := func(tk string) {
		if layout == "lines" && tk == ";" {
			b.WriteByte('\n')
			bol = true
			return
		}
		if !bol {
			b.WriteByte(' ')
		}
		b.WriteString(tk)
		bol = false
		if layout == "lines" && (tk == "{" || tk == "{{" || tk == ",") {
			b.WriteByte('\n')
			bol = true
		}
	}
	for _, tk := range toks {
		if strings.HasPrefix(tk, "@open:") || strings.HasPrefix(tk, "@close:") {
			parts := strings.Split(tk, ":")
			if len(parts) != 3 {
				return nil, fmt.Errorf("bad pseudo-token %q", tk)
			}
			nk, ok := nest[parts[1]]
			if !ok {
				return nil, fmt.Errorf("unknown nest kind in %q", tk)
			}
			n, err := strconv.Atoi(parts[2])
			if err != nil {
				return nil, err
			}
			seq := nk.Open
			if parts[0] == "@close" {
				seq = nk.Close
			}
			for i := 0; i < n; i++ {
				for _, x := range seq {
					put(x)
				}
			}
			continue
		}
		put(tk)
	}
	if !bol {
		b.WriteByte('\n')
	}
	return b.Bytes(), nil
}

var lexemeRE = regexp.MustCompile(`"[^"\n]*"|'[^'\n]*'(?:be|le)?|//[^\n]*|[A-Za-z_][A-Za-z0-9_]*|[0-9][0-9A-Za-z_]*|~(?:mod|sat)[-+*<]+=?|\.\.=?|[<>=!&|^+\-*/%]+|\{\{|\}\}|\s+|.`)

func lexemes(b []byte) [][]byte { return lexemeRE.FindAll(b, -1) }

func isSpace(l []byte) bool { return len(bytes.TrimSpace(l)) == 0 }

type corpusFile struct {
	path string // display name
	data []byte
	sib  []string // absolute paths of the other files of the package
}

func loadCorpus(repo string) ([]corpusFile, error) {
	var out []corpusFile
	dirs, _ := filepath.Glob(filepath.Join(repo, "std", "*"))
	sort.Strings(dirs)
	for _, d := range dirs {
		files, _ := filepath.Glob(filepath.Join(d, "*.wuffs"))
		sort.Strings(files)
		for _, f := range files {
			b, err := os.ReadFile(f)
			if err != nil {
				return nil, err
			}
			var sib []string
			for _, g := range files {
				if g != f {
					sib = append(sib, g)
				}
			}
			rel, _ := filepath.Rel(repo, f)
			out = append(out, corpusFile{path: rel, data: b, sib: sib})
		}
	}
	// the programs in lang/check's tests: every raw string literal
	tests, _ := filepath.Glob(filepath.Join(repo, "lang", "check", "*_test.go"))
	sort.Strings(tests)
	for _, tf := range tests {
		src, err := os.ReadFile(tf)
		if err != nil {
			return nil, err
		}
		fset := gotoken.NewFileSet()
		file := fset.AddFile(tf, fset.Base(), len(src))
		var s scanner.Scanner
		s.Init(file, src, nil, 0)
		n := 0
		for {
			_, tok, lit := s.Scan()
			if tok == gotoken.EOF {
				break
			}
			if tok == gotoken.STRING && strings.HasPrefix(lit, "`") && strings.Contains(lit, "func") {
				n++
				body := strings.TrimSpace(lit[1:len(lit)-1]) + "\n"
				rel, _ := filepath.Rel(repo, tf)
				out = append(out, corpusFile{path: fmt.Sprintf("%s#%d", rel, n), data: []byte(body)})
			}
		}
		// TestConstValues builds programs around one-line statements
		if bytes.Contains(src, []byte("TestConstValues")) {
			re := regexp.MustCompile(`"([ib] = [^"]+)":`)
			for _, m := range re.FindAllSubmatch(src, -1) {
				st := string(m[1])
				p := "pri func foo() {\n"
				if st[0] == 'b' {
					p += "var b : base.bool\n"
				} else {
					p += "var i : base.i32\n"
				}
				p += st + "\n}\n"
				rel, _ := filepath.Rel(repo, tf)
				out = append(out, corpusFile{path: rel + "#const:" + st, data: []byte(p)})
			}
		}
	}
	return out, nil
}

var interesting = []byte{0, 1, 9, 10, 13, ' ', '"', '\'', '\\', '/', '(', ')', '[', ']', '{', '}', ';', ':', ',', '.', '!', '?', '=', '~', '-', '+', '0', '9', '_', 'a', 'Z', 0x7f, 0x80, 0xc3, 0xff}

func mutateBytes(r *rand.Rand, b []byte) []byte {
	out := append([]byte(nil), b...)
	n := 1 + r.Intn(3)
	for k := 0; k < n; k++ {
		if len(out) == 0 {
			out = append(out, interesting[r.Intn(len(interesting))])
			continue
		}
		i := r.Intn(len(out))
		switch r.Intn(8) {
		case 0:
			out[i] ^= 1 << uint(r.Intn(8))
		case 1:
			out[i] = interesting[r.Intn(len(interesting))]
		case 2:
			out[i] = byte(r.Intn(256))
		case 3:
			out = append(out[:i], append([]byte{interesting[r.Intn(len(interesting))]}, out[i:]...)...)
		case 4:
			out = append(out[:i], out[i+1:]...)
		case 5: // truncate
			out = out[:i]
		case 6: // duplicate a chunk
			j := i + r.Intn(40)
			if j > len(out) {
				j = len(out)
			}
			chunk := append([]byte(nil), out[i:j]...)
			out = append(out[:j], append(chunk, out[j:]...)...)
		case 7: // delete a chunk
			j := i + r.Intn(40)
			if j > len(out) {
				j = len(out)
			}
			out = append(out[:i], out[j:]...)
		}
	}
	return out
}

func mutateLines(r *rand.Rand, b []byte) []byte {
	lines := bytes.SplitAfter(b, []byte("\n"))
	if len(lines) < 2 {
		return mutateBytes(r, b)
	}
	n := 1 + r.Intn(2)
	for k := 0; k < n && len(lines) > 1; k++ {
		i := r.Intn(len(lines))
		switch r.Intn(5) {
		case 0: // delete
			lines = append(lines[:i], lines[i+1:]...)
		case 1: // duplicate
			lines = append(lines[:i+1], append([][]byte{lines[i]}, lines[i+1:]...)...)
		case 2: // swap with the next
			if i+1 < len(lines) {
				lines[i], lines[i+1] = lines[i+1], lines[i]
			}
		case 3: // move elsewhere
			l := lines[i]
			lines = append(lines[:i], lines[i+1:]...)
			j := r.Intn(len(lines) + 1)
			lines = append(lines[:j], append([][]byte{l}, lines[j:]...)...)
		case 4: // join with the next (drop the line break)
			lines[i] = bytes.TrimRight(lines[i], "\n")
		}
	}
	return bytes.Join(lines, nil)
}

func mutateTokens(r *rand.Rand, b []byte, dict [][]byte) []byte {
	lx := lexemes(b)
	var idx []int
	for i, l := range lx {
		if !isSpace(l) {
			idx = append(idx, i)
		}
	}
	if len(idx) < 2 {
		return mutateBytes(r, b)
	}
	n := 1 + r.Intn(2)
	for k := 0; k < n; k++ {
		i := idx[r.Intn(len(idx))]
		switch r.Intn(6) {
		case 0: // drop
			lx[i] = nil
		case 1: // duplicate
			lx[i] = append(append(append([]byte(nil), lx[i]...), ' '), lx[i]...)
		case 2: // swap with another token nearby
			j := idx[r.Intn(len(idx))]
			lx[i], lx[j] = lx[j], lx[i]
		case 3, 4: // replace by a token of the dictionary
			lx[i] = dict[r.Intn(len(dict))]
		case 5: // insert a token of the dictionary before
			lx[i] = append(append(append([]byte(nil), dict[r.Intn(len(dict))]...), ' '), lx[i]...)
		}
	}
	return bytes.Join(lx, nil)
}

// mutateRegion: tree-level: delete / duplicate / transplant a bracket-balanced region.
func mutateRegion(r *rand.Rand, b []byte) []byte {
	lx := lexemes(b)
	type reg struct{ i, j int }
	var regs []reg
	var stack []int
	for i, l := range lx {
		if len(l) == 0 {
			continue
		}
		switch string(l) {
		case "(", "[", "{", "{{":
			stack = append(stack, i)
		case ")", "]", "}", "}}":
			if len(stack) > 0 {
				o := stack[len(stack)-1]
				stack = stack[:len(stack)-1]
				if i-o < 400 {
					regs = append(regs, reg{o, i})
				}
			}
		}
	}
	if len(regs) == 0 {
		return mutateLines(r, b)
	}
	a := regs[r.Intn(len(regs))]
	join := func(parts ...[][]byte) []byte {
		var out []byte
		for _, p := range parts {
			out = append(out, bytes.Join(p, nil)...)
		}
		return out
	}
	switch r.Intn(5) {
	case 0: // delete the region (brackets included)
		return join(lx[:a.i], lx[a.j+1:])
	case 1: // empty it
		return join(lx[:a.i+1], lx[a.j:])
	case 2: // duplicate it
		return join(lx[:a.j+1], lx[a.i:a.j+1], lx[a.j+1:])
	case 3: // replace it by another region
		c := regs[r.Intn(len(regs))]
		return join(lx[:a.i], lx[c.i:c.j+1], lx[a.j+1:])
	default: // wrap its content in itself once more: ( ( ... ) )
		return join(lx[:a.i+1], lx[a.i:a.j+1], lx[a.j:])
	}
}

func randomSource(r *rand.Rand, dict [][]byte) []byte {
	n := r.Intn(120)
	switch r.Intn(4) {
	case 0: // any bytes
		b := make([]byte, n)
		r.Read(b)
		return b
	case 1: // printable ASCII + newlines
		b := make([]byte, n)
		for i := range b {
			if r.Intn(12) == 0 {
				b[i] = '\n'
			} else {
				b[i] = byte(0x20 + r.Intn(0x5f))
			}
		}
		return b
	case 2: // Wuffs' own characters
		const cs = "(){}[]<>=!?.,:;+-*/%&|^~\"'\\ \n\tabcmodsat01_xX"
		b := make([]byte, n)
		for i := range b {
			b[i] = cs[r.Intn(len(cs))]
		}
		return b
	}
	// random tokens of the dictionary
	var b bytes.Buffer
	k := r.Intn(40)
	for i := 0; i < k; i++ {
		b.Write(dict[r.Intn(len(dict))])
		if r.Intn(6) == 0 {
			b.WriteByte('\n')
		} else {
			b.WriteByte(' ')
		}
	}
	return b.Bytes()
}

func cmdGen(args []string) error {
	fs := flag.NewFlagSet("gen", flag.ExitOnError)
	seed := fs.Int64("seed", 1, "seed")
	repo := fs.String("repo", "/repo", "repository (corpus of .wuffs files)")
	tokPath := fs.String("tokens", "", "TLC-exported token sequences (ndjson of {o,t})")
	nestPath := fs.String("nest", "", "NestOpen/NestClose of the spec (json)")
	ctxPath := fs.String("contexts", "", "context prefixes/suffixes of the spec (json: id -> {prefix, suffix})")
	out := fs.String("out", "", "sources.ndjson")
	nRandom := fs.Int("random", 2000, "random byte strings")
	nMutSmall := fs.Int("mut-small", 4000, "mutations of the small corpus programs (lang/check tests, std files < 4 KiB)")
	nMutStd := fs.Int("mut-std", 1500, "mutations of std files presented alone")
	nMutPkg := fs.Int("mut-pkg", 300, "mutations of std files presented with the unmodified rest of their package")
	flatEvery := fs.Int("flat-every", 5, "also render every n-th token sequence on one line")
	maxNest := fs.Int("max-nest-bytes", 64<<20, "skip nest renderings larger than this")
	noCorpus := fs.Bool("no-corpus", false, "model-generated sources only")
	fs.Parse(args)
	r := rand.New(rand.NewSource(*seed))

	nest := map[string]nestKind{}
	if *nestPath != "" {
		b, err := os.ReadFile(*nestPath)
		if err != nil {
			return err
		}
		if err := json.Unmarshal(b, &nest); err != nil {
			return err
		}
	}
	contexts := map[string]tokContext{}
	if *ctxPath != "" {
		b, err := os.ReadFile(*ctxPath)
		if err != nil {
			return err
		}
		if err := json.Unmarshal(b, &contexts); err != nil {
			return err
		}
	}
	of, err := os.Create(*out)
	if err != nil {
		return err
	}
	w := bufio.NewWriterSize(of, 1<<20)
	id := 0
	counts := map[string]int{}
	emit := func(origin string, data []byte, sib []string, name string) {
		id++
		s := &Source{ID: id, Origin: origin, Sib: sib, Name: name}
		s.SetBytes(data)
		b, _ := json.Marshal(s)
		w.Write(b)
		w.WriteByte('\n')
		cls := origin
		if i := strings.IndexAny(cls, ":/"); i >= 0 {
			cls = cls[:i]
		}
		counts[cls]++
	}

	// 1. model-generated token sequences
	if *tokPath != "" {
		f, err := os.Open(*tokPath)
		if err != nil {
			return err
		}
		br := bufio.NewReaderSize(f, 1<<20)
		k := 0
		for {
			line, e := br.ReadBytes('\n')
			if len(bytes.TrimSpace(line)) > 0 {
				var tl tokLine
				if err := json.Unmarshal(line, &tl); err != nil {
					return fmt.Errorf("tokens: %v", err)
				}
				k++
				if tl.C != "" {
					cx, ok := contexts[tl.C]
					if !ok {
						return fmt.Errorf("tokens: unknown context %q", tl.C)
					}
					full := make([]string, 0, len(cx.Prefix)+len(tl.T)+len(cx.Suffix))
					full = append(append(append(full, cx.Prefix...), tl.T...), cx.Suffix...)
					tl.T = full
				}
				big := false
				for _, tk := range tl.T {
					if strings.HasPrefix(tk, "@open:") {
						p := strings.Split(tk, ":")
						n, _ := strconv.Atoi(p[2])
						if n*4 > *maxNest {
							big = true
						}
					}
				}
				if big {
					counts["skipped-too-big"]++
				} else {
					b, err := renderTokens(tl.T, "lines", nest)
					if err != nil {
						return err
					}
					if bytes.Count(b, []byte("\n")) > 1000000 {
						// more lines than the tokenizer's documented limit: one line instead
						b, _ = renderTokens(tl.T, "flat", nest)
						emit("tlc-"+tl.O+":flat", b, nil, "")
						goto next
					}
					emit("tlc-"+tl.O+":lines", b, nil, "")
					if *flatEvery > 0 && k%*flatEvery == 0 && len(b) < 1<<20 {
						b, _ := renderTokens(tl.T, "flat", nest)
						emit("tlc-"+tl.O+":flat", b, nil, "")
					}
				}
			}
		next:
			if e == io.EOF {
				break
			}
			if e != nil {
				return e
			}
		}
		f.Close()
	}

	// 2. byte-level inputs
	if *noCorpus {
		if err := w.Flush(); err != nil {
			return err
		}
		of.Close()
		cb, _ := json.Marshal(map[string]interface{}{"sources": id, "by_origin": counts, "corpus_files": 0, "dictionary": 0})
		fmt.Println(string(cb))
		return nil
	}
	corpus, err := loadCorpus(*repo)
	if err != nil {
		return err
	}
	if len(corpus) == 0 {
		return fmt.Errorf("empty corpus under %s", *repo)
	}
	dictSet := map[string]bool{}
	for _, c := range corpus {
		for _, l := range lexemes(c.data) {
			if !isSpace(l) && !bytes.HasPrefix(l, []byte("//")) && len(l) < 40 {
				dictSet[string(l)] = true
			}
		}
	}
	var dict [][]byte
	for k := range dictSet {
		dict = append(dict, []byte(k))
	}
	sort.Slice(dict, func(i, j int) bool { return bytes.Compare(dict[i], dict[j]) < 0 })

	// every corpus file unmodified, alone (std files alone do not check, but must not crash)
	var small, std []corpusFile
	for _, c := range corpus {
		emit("corpus:"+c.path, c.data, nil, filepath.Base(c.path))
		if len(c.data) < 4096 || c.sib == nil && !strings.HasPrefix(c.path, "std/") {
			small = append(small, c)
		}
		if strings.HasPrefix(c.path, "std/") {
			std = append(std, c)
		}
	}
	for i := 0; i < *nRandom; i++ {
		emit("random", randomSource(r, dict), nil, "")
	}
	// scale family: well-formed programs whose SIZE grows in one dimension (call-graph paths, statements, locals,
	// fields, constants, operands, else-if arms).  Every stage must stay prompt: work that grows with the number
	// of call PATHS instead of the number of functions, or quadratically in a list length, trips the stage budget.
	for _, n := range []int{16, 64, 200} {
		for _, sc := range scalePrograms(n) {
			emit("scale-"+sc.name, []byte(sc.src), nil, "")
		}
	}
	// end-of-input cuts (exhaustive over a fixed lexeme set, no model needed): the source ends, WITHOUT a trailing
	// newline, after every prefix of every lexeme of `enders`, alone and directly after every lexeme of `heads`.
	// Every look-ahead of the tokenizer (suffixes of quoted literals, two-character squiggles, comments, numbers)
	// meets the end of the input at every possible offset.
	{
		heads := []string{"", "'a'", "'ab'", "'ab'le", "\"s\"", "\"#bad\"", "0x1F", "0b10", "1_0", "x", "x.", "..", "~mod", "~sat", "<", ">", "=", "!", "/", "//", "{", "{{", "[", "(", "-", "+", "&", "|", "^", "*", "%", "~"}
		enders := []string{"'a'", "'ab'be", "'ab'le", "'abcd'be", "''", "'\\n'", "\"str\"", "\"\\\"\"", "0x1F", "0b10", "0_", "1_0", "be", "le", "b", "l", "//c", "/*", "..=", "..", ".", "~mod+", "~mod<<=", "~sat-=", "<<=", ">>=", "<>", "<=", ">=", "==", "=?", "}}", "{{", "io_bind", "\x00", "\xff", "\xc3\xa9", "\r\n", "\t", "$", "`", "#", "@", "\\"}
		pre := "pri const K : base.u32 = 5\n"
		seen := map[string]bool{}
		for _, h := range heads {
			for _, e := range enders {
				for k := 1; k <= len(e); k++ {
					for _, sp := range []string{"", " "} {
						src := pre + h + sp + e[:k]
						if seen[src] {
							continue
						}
						seen[src] = true
						emit("eofcut", []byte(src), nil, "")
						if h == "" && sp == "" {
							emit("eofcut", []byte(e[:k]), nil, "") // the whole source is the cut lexeme
						}
					}
				}
			}
		}
	}
	mut := func(c corpusFile) (string, []byte) {
		switch r.Intn(4) {
		case 0:
			return "byte", mutateBytes(r, c.data)
		case 1:
			return "line", mutateLines(r, c.data)
		case 2:
			return "token", mutateTokens(r, c.data, dict)
		}
		return "region", mutateRegion(r, c.data)
	}
	for i := 0; i < *nMutSmall; i++ {
		c := small[r.Intn(len(small))]
		kind, b := mut(c)
		emit("mut-"+kind+":"+c.path, b, nil, filepath.Base(c.path))
	}
	for i := 0; i < *nMutStd; i++ {
		c := std[r.Intn(len(std))]
		kind, b := mut(c)
		emit("mut-"+kind+":"+c.path, b, nil, filepath.Base(c.path))
	}
	for i := 0; i < *nMutPkg; i++ {
		c := std[r.Intn(len(std))]
		kind, b := mut(c)
		emit("pkgmut-"+kind+":"+c.path, b, c.sib, filepath.Base(c.path))
	}
	if err := w.Flush(); err != nil {
		return err
	}
	of.Close()
	cb, _ := json.Marshal(map[string]interface{}{"sources": id, "by_origin": counts, "corpus_files": len(corpus), "dictionary": len(dict)})
	fmt.Println(string(cb))
	return nil
}

type scaleProg struct{ name, src string }

// scalePrograms returns accepted (or cleanly rejected) programs of size n in one dimension each.
func scalePrograms(n int) []scaleProg {
	var out []scaleProg
	hdr := "pub struct foo?(m : base.u32, a : array[8] base.u8)\n\n"
	var b strings.Builder
	// a chain of n methods, each calling the next from TWO call sites (2^n call paths, n functions)
	b.WriteString(hdr)
	for i := 0; i < n; i++ {
		fmt.Fprintf(&b, "pri func foo.c%d!(x: base.u32) base.u32 {\n    var y : base.u32\n", i)
		if i+1 < n {
			fmt.Fprintf(&b, "    y = this.c%d!(x: args.x & 1)\n    if y > 2 {\n        y = this.c%d!(x: 0)\n    }\n", i+1, i+1)
		}
		b.WriteString("    return y & 0xFF\n}\n\n")
	}
	b.WriteString("pub func foo.f!(x: base.u32) base.u32 {\n    var y : base.u32\n    y = this.c0!(x: args.x)\n    return y\n}\n")
	out = append(out, scaleProg{fmt.Sprintf("callpaths-%d", n), b.String()})
	// the same with coroutines (suspension/liveness analysis walks the call sites too)
	b.Reset()
	b.WriteString(hdr)
	for i := 0; i < n; i++ {
		fmt.Fprintf(&b, "pri func foo.d%d?(src: base.io_reader) {\n    var c : base.u8\n    c = args.src.read_u8?()\n", i)
		if i+1 < n {
			fmt.Fprintf(&b, "    this.d%d?(src: args.src)\n    if c > 2 {\n        this.d%d?(src: args.src)\n    }\n", i+1, i+1)
		}
		b.WriteString("}\n\n")
	}
	b.WriteString("pub func foo.f?(src: base.io_reader) {\n    this.d0?(src: args.src)\n}\n")
	out = append(out, scaleProg{fmt.Sprintf("coropaths-%d", n), b.String()})
	// n sequential ifs over n locals (facts accumulate)
	b.Reset()
	b.WriteString(hdr + "pub func foo.f!(x: base.u32) base.u32 {\n")
	for i := 0; i < n; i++ {
		fmt.Fprintf(&b, "    var v%d : base.u32\n", i)
	}
	for i := 0; i < n; i++ {
		fmt.Fprintf(&b, "    if args.x > %d {\n        v%d = args.x & %d\n    }\n", i, i, i|1)
	}
	b.WriteString("    return v0 & 0xFF\n}\n")
	out = append(out, scaleProg{fmt.Sprintf("ifs-%d", n), b.String()})
	// an else-if chain of n arms
	b.Reset()
	b.WriteString(hdr + "pub func foo.f!(x: base.u32) base.u32 {\n    var y : base.u32\n    if args.x == 0 {\n        y = 1\n")
	for i := 1; i < n; i++ {
		fmt.Fprintf(&b, "    } else if args.x == %d {\n        y = %d\n", i, i&7)
	}
	b.WriteString("    }\n    return y\n}\n")
	out = append(out, scaleProg{fmt.Sprintf("elseif-%d", n), b.String()})
	// n fields and n constants, an associative chain of n operands
	b.Reset()
	for i := 0; i < n; i++ {
		fmt.Fprintf(&b, "pri const K%d : base.u32 = %d\n", i, i)
	}
	b.WriteString("\npub struct foo?(\n")
	for i := 0; i < n; i++ {
		fmt.Fprintf(&b, "        f%d : base.u32[..= %d],\n", i, i+1)
	}
	b.WriteString(")\n\npub func foo.f!(x: base.u32) base.u32 {\n    return (args.x & 1)")
	for i := 0; i < n && i < 250; i++ {
		fmt.Fprintf(&b, " |\n            (K%d & 1)", i)
	}
	b.WriteString("\n}\n")
	out = append(out, scaleProg{fmt.Sprintf("decls-%d", n), b.String()})
	// n nested (non-labelled) loops are a nesting, covered by the nest damage; n SEQUENTIAL labelled loops sharing labels
	b.Reset()
	b.WriteString(hdr + "pub func foo.f!(x: base.u32) base.u32 {\n    var i : base.u32\n")
	for i := 0; i < n; i++ {
		fmt.Fprintf(&b, "    while.l%d i < 4 {\n        while i < 3 {\n            i = (i & 3) + 1\n            break.l%d\n        }\n        i = (i & 3) + 1\n    }.l%d\n", i%3, i%3, i%3)
	}
	b.WriteString("    return i\n}\n")
	out = append(out, scaleProg{fmt.Sprintf("loops-%d", n), b.String()})
	return out
}

package main

import (
	"bufio"
	"bytes"
	"context"
	"encoding/base64"
	"encoding/json"
	"errors"
	"flag"
	"fmt"
	"io"
	"os"
	"os/exec"
	"path/filepath"
	"regexp"
	"runtime"
	"runtime/debug"
	"sort"
	"strings"
	"sync"
	"sync/atomic"
	"time"

	"github.com/google/wuffs/lang/check"
	"github.com/google/wuffs/lang/parse"
	"github.com/google/wuffs/lang/render"

	a "github.com/google/wuffs/lang/ast"
	t "github.com/google/wuffs/lang/token"
)

// Source is one input of the toolchain.
type Source struct {
	ID     int      `json:"id"`
	Origin string   `json:"o"`
	S      string   `json:"s,omitempty"`   // text (valid UTF-8)
	B      string   `json:"b,omitempty"`   // base64 (arbitrary bytes)
	Name   string   `json:"n,omitempty"`   // file name presented to the tools
	Sib    []string `json:"sib,omitempty"` // unmodified sibling files of the package (paths)
}

func (s *Source) Bytes() []byte {
	if s.B != "" {
		b, _ := base64.StdEncoding.DecodeString(s.B)
		return b
	}
	return []byte(s.S)
}

func (s *Source) SetBytes(b []byte) {
	ok := true
	for _, c := range b {
		if c >= 0x80 || (c < 0x20 && c != '\n' && c != '\t') {
			ok = false
			break
		}
	}
	if ok {
		s.S, s.B = string(b), ""
		if s.S == "" {
			s.B = ""
		}
	} else {
		s.S, s.B = "", base64.StdEncoding.EncodeToString(b)
	}
}

// Stage names, in the order the harness runs them.  The allowed ordering and
// outcomes are stated in spec/ToolPipeline.tla, not here.
const (
	stTokenize = "tokenize"
	stParse    = "parse"    // parse.Parse(opts=nil), as cmd/wuffs-c does
	stParseFmt = "parsefmt" // parse.Parse(AllowDoubleUnderscoreNames), as cmd/wuffsfmt does
	stRender   = "render"
	stCheck    = "check"
	stGenerate = "generate"
	stCCompile = "ccompile"
)

// Event is one stage execution: outcome in {result, error, panic, timeout,
// stack, oom} and a duration class.
type Event struct {
	Stage   string  `json:"st"`
	Outcome string  `json:"oc"`
	Dur     string  `json:"d"`
	Ms      float64 `json:"ms"`
}

// Failure describes a non-ordinary outcome (or a rejected C file).
type Failure struct {
	Stage   string `json:"stage"`
	Outcome string `json:"outcome"`
	Msg     string `json:"msg"`
	Key     string `json:"key"`
	Stack   string `json:"stack,omitempty"`
}

type Result struct {
	ID       int      `json:"id"`
	Events   []Event  `json:"ev"`
	Fail     *Failure `json:"fail,omitempty"`
	Suspect  bool     `json:"suspect,omitempty"` // a watchdog fired (unconfirmed)
	CFile    string   `json:"cfile,omitempty"`   // generated C, when generate returned a result
	ErrMsg   string   `json:"err,omitempty"`     // first ordinary error message (for the evidence samples)
	NTokens  int      `json:"ntok,omitempty"`
	RenderSz int      `json:"rsz,omitempty"`

	crashStage string // parent only: the stage in flight when a single-source child died
}

func durClass(d time.Duration) string {
	switch {
	case d < 10*time.Millisecond:
		return "lt10ms"
	case d < 100*time.Millisecond:
		return "lt100ms"
	case d < time.Second:
		return "lt1s"
	case d < 10*time.Second:
		return "lt10s"
	}
	return "ge10s"
}

type config struct {
	root     string // scratch wuffs root: wuffs-root-directory.txt, gen/wuffs/std/*.wuffs, gen/c/*.c
	wuffsc   string
	budget   time.Duration
	workers  int
	memLimit uint64
	maxStack int
	single   bool
}

// ---------------------------------------------------------------- stage runner

type stageRet struct {
	err      error
	panicked bool
	val      string
	stack    string
}

var leaked int32 // goroutines abandoned by a watchdog

// runStage runs f in its own goroutine under recover() and a watchdog.
func runStage(name string, budget time.Duration, f func() error) (Event, *Failure, error) {
	done := make(chan stageRet, 1)
	t0 := time.Now()
	go func() {
		defer func() {
			if r := recover(); r != nil {
				done <- stageRet{panicked: true, val: fmt.Sprint(r), stack: string(debug.Stack())}
			}
		}()
		err := f()
		done <- stageRet{err: err}
	}()
	timer := time.NewTimer(budget)
	defer timer.Stop()
	select {
	case r := <-done:
		d := time.Since(t0)
		ev := Event{Stage: name, Dur: durClass(d), Ms: float64(d.Microseconds()) / 1000}
		if r.panicked {
			ev.Outcome = "panic"
			frames := wuffsFrames(r.stack)
			return ev, &Failure{Stage: name, Outcome: "panic", Msg: r.val, Stack: trimStack(r.stack),
				Key: "panic:" + name + ":" + framesKey(frames, 2) + ":" + msgClass(r.val)}, nil
		}
		if r.err != nil {
			ev.Outcome = "error"
			return ev, nil, r.err
		}
		ev.Outcome = "result"
		return ev, nil, nil
	case <-timer.C:
		atomic.AddInt32(&leaked, 1)
		d := time.Since(t0)
		ev := Event{Stage: name, Outcome: "timeout", Dur: durClass(d), Ms: float64(d.Microseconds()) / 1000}
		// Where is it?  All goroutine stacks; the stage goroutine is the one
		// with wuffs frames below runStage.func1.
		buf := make([]byte, 1<<20)
		buf = buf[:runtime.Stack(buf, true)]
		st := pickStageGoroutine(string(buf))
		frames := wuffsFrames(st)
		return ev, &Failure{Stage: name, Outcome: "timeout", Msg: fmt.Sprintf("no return within %v", budget), Stack: trimStack(st),
			Key: "timeout:" + name + ":" + framesKey(frames, 1)}, nil
	}
}

// wuffsFrames returns the function names of the wuffs frames of a Go stack
// trace, top first ("lang/parse.(*parser).parseOperand").
func wuffsFrames(stack string) []string {
	var out []string
	for _, line := range strings.Split(stack, "\n") {
		line = strings.TrimSpace(line)
		if !strings.HasPrefix(line, "github.com/google/wuffs/") {
			continue
		}
		// strip the argument list
		i := strings.LastIndex(line, "(")
		if i > 0 {
			line = line[:i]
		}
		line = strings.TrimPrefix(line, "github.com/google/wuffs/")
		out = append(out, line)
	}
	return out
}

// framesKey joins the first n DISTINCT wuffs frames.
func framesKey(frames []string, n int) string {
	var ks []string
	for _, f := range frames {
		dup := false
		for _, k := range ks {
			if k == f {
				dup = true
			}
		}
		if !dup {
			ks = append(ks, f)
		}
		if len(ks) == n {
			break
		}
	}
	if len(ks) == 0 {
		return "no-wuffs-frame"
	}
	return strings.Join(ks, "^")
}

// cycleKey: the sorted set of distinct wuffs functions among the top frames
// of a stack-overflow trace (the recursion cycle, independent of where in the
// cycle the limit was hit).
func cycleKey(frames []string) string {
	// The functions of the recursion cycle occur again and again among the
	// top frames; the leaf that happened to hit the limit occurs once.
	count := map[string]int{}
	for i, f := range frames {
		if i >= 45 {
			break
		}
		count[f]++
	}
	var ks []string
	for k, n := range count {
		if n >= 3 {
			ks = append(ks, k)
		}
	}
	if len(ks) == 0 {
		for k := range count {
			ks = append(ks, k)
		}
	}
	sort.Strings(ks)
	if len(ks) == 0 {
		return "no-wuffs-frame"
	}
	return strings.Join(ks, "+")
}

var numRE = regexp.MustCompile(`-?\b\d+\b|0x[0-9a-fA-F]+`)

func msgClass(msg string) string {
	m := msg
	if i := strings.Index(m, "\n"); i >= 0 {
		m = m[:i]
	}
	m = numRE.ReplaceAllString(m, "N")
	m = strings.TrimPrefix(m, "runtime error: ")
	var b strings.Builder
	for _, c := range m {
		switch {
		case c >= 'a' && c <= 'z', c >= 'A' && c <= 'Z', c >= '0' && c <= '9':
			b.WriteRune(c)
		default:
			if b.Len() > 0 && !strings.HasSuffix(b.String(), "-") {
				b.WriteByte('-')
			}
		}
		if b.Len() > 60 {
			break
		}
	}
	return strings.Trim(b.String(), "-")
}

func trimStack(s string) string {
	if len(s) > 6000 {
		s = s[:6000] + "\n...[truncated]"
	}
	return s
}

func pickStageGoroutine(all string) string {
	best := ""
	for _, g := range strings.Split(all, "\n\n") {
		if strings.Contains(g, "main.runStage.func1") && strings.Contains(g, "github.com/google/wuffs/") {
			// the most recently created one is the one that just timed out;
			// older leaked ones come later in no guaranteed order, so prefer
			// the goroutine with the highest id.
			if best == "" || goid(g) > goid(best) {
				best = g
			}
		}
	}
	return best
}

func goid(g string) int {
	var id int
	fmt.Sscanf(strings.TrimSpace(g), "goroutine %d", &id)
	return id
}

// ---------------------------------------------------------------- the pipeline

type cappedWriter struct {
	n, max int
}

var errRenderCap = errors.New("toolreplay: render output cap reached")

func (w *cappedWriter) Write(p []byte) (int, error) {
	w.n += len(p)
	if w.n > w.max {
		return 0, errRenderCap
	}
	return len(p), nil
}

var useCache sync.Map

func (c *config) resolveUse(usePath string) ([]byte, error) {
	if v, ok := useCache.Load(usePath); ok {
		return v.([]byte), nil
	}
	b, err := os.ReadFile(filepath.Join(c.root, "gen", "wuffs", filepath.FromSlash(usePath)))
	if err != nil {
		return nil, err
	}
	useCache.Store(usePath, b)
	return b, nil
}

var sibCache sync.Map

func readSib(p string) ([]byte, error) {
	if v, ok := sibCache.Load(p); ok {
		return v.([]byte), nil
	}
	b, err := os.ReadFile(p)
	if err != nil {
		return nil, err
	}
	sibCache.Store(p, b)
	return b, nil
}

// budgetFor scales the per-stage budget with the size of the input: the
// watchdog is meant to catch non-termination, not to grade speed.
func (c *config) budgetFor(src []byte, sib int) time.Duration {
	b := c.budget + time.Duration(len(src)/(64*1024))*c.budget/4 + time.Duration(sib)*c.budget/4
	return b
}

// process runs every stage that the pipeline allows on one source.  `mark`
// is called before each stage (crash attribution).
func (c *config) process(s *Source, mark func(stage string), onEv func(Event)) *Result {
	res := &Result{ID: s.ID}
	add := func(ev Event) {
		res.Events = append(res.Events, ev)
		onEv(ev)
	}
	src := s.Bytes()
	filename := s.Name
	if filename == "" {
		filename = fmt.Sprintf("p%d.wuffs", s.ID)
	}
	budget := c.budgetFor(src, len(s.Sib))
	fail := func(ev Event, f *Failure) *Result {
		add(ev)
		res.Fail = f
		if f.Outcome == "timeout" {
			res.Suspect = true
		}
		return res
	}
	noteErr := func(err error) {
		if res.ErrMsg == "" && err != nil {
			m := err.Error()
			if len(m) > 300 {
				m = m[:300]
			}
			res.ErrMsg = m
		}
	}

	// Tokenize.
	tm := &t.Map{}
	var tokens []t.Token
	var comments []string
	mark(stTokenize)
	ev, f, err := runStage(stTokenize, budget, func() (e error) {
		tokens, comments, e = t.Tokenize(tm, filename, src)
		return e
	})
	if f != nil {
		return fail(ev, f)
	}
	add(ev)
	if err != nil {
		noteErr(err)
		return res
	}
	res.NTokens = len(tokens)

	// Parse, the way cmd/wuffs-c (lang/generate) does.
	var file *a.File
	mark(stParse)
	ev, f, err = runStage(stParse, budget, func() (e error) {
		file, e = parse.Parse(tm, filename, tokens, nil)
		return e
	})
	if f != nil {
		return fail(ev, f)
	}
	add(ev)
	parseOK := err == nil
	noteErr(err)

	// Parse, the way cmd/wuffsfmt does, then Render.
	mark(stParseFmt)
	ev, f, err = runStage(stParseFmt, budget, func() (e error) {
		_, e = parse.Parse(tm, filename, tokens, &parse.Options{AllowDoubleUnderscoreNames: true})
		return e
	})
	if f != nil {
		return fail(ev, f)
	}
	add(ev)
	if err == nil {
		w := &cappedWriter{max: 256 << 20}
		mark(stRender)
		ev, f, err = runStage(stRender, budget, func() error {
			return render.Render(w, tm, tokens, comments)
		})
		if f != nil {
			return fail(ev, f)
		}
		add(ev)
		res.RenderSz = w.n
		noteErr(err)
	} else {
		noteErr(err)
	}
	if !parseOK {
		return res
	}

	// Check (with the unmodified sibling files of the package, if any).
	files := []*a.File{file}
	sibNames := []string{}
	for _, p := range s.Sib {
		b, e := readSib(p)
		if e != nil {
			res.Fail = &Failure{Stage: stCheck, Outcome: "tooling", Msg: e.Error(), Key: "tooling"}
			return res
		}
		toks, _, e := t.Tokenize(tm, filepath.Base(p), b)
		if e != nil {
			res.Fail = &Failure{Stage: stCheck, Outcome: "tooling", Msg: "sibling: " + e.Error(), Key: "tooling"}
			return res
		}
		sf, e := parse.Parse(tm, filepath.Base(p), toks, nil)
		if e != nil {
			res.Fail = &Failure{Stage: stCheck, Outcome: "tooling", Msg: "sibling: " + e.Error(), Key: "tooling"}
			return res
		}
		files = append(files, sf)
		sibNames = append(sibNames, p)
	}
	mark(stCheck)
	ev, f, err = runStage(stCheck, budget, func() (e error) {
		_, e = check.Check(tm, files, c.resolveUse)
		return e
	})
	if f != nil {
		return fail(ev, f)
	}
	add(ev)
	if err != nil {
		noteErr(err)
		return res
	}

	// Generate: wuffs-c gen, the real entry point of internal/cgen.
	mark(stGenerate)
	ev, f, cfile, err := c.generate(s, src, filename, sibNames, budget)
	if f != nil {
		return fail(ev, f)
	}
	add(ev)
	if err != nil {
		noteErr(err)
		return res
	}
	res.CFile = cfile
	return res
}

func (c *config) generate(s *Source, src []byte, filename string, sibs []string, budget time.Duration) (Event, *Failure, string, error) {
	dir := filepath.Join(c.root, "src")
	os.MkdirAll(dir, 0o755)
	in := filepath.Join(dir, fmt.Sprintf("p%d.wuffs", s.ID))
	if err := os.WriteFile(in, src, 0o644); err != nil {
		return Event{}, &Failure{Stage: stGenerate, Outcome: "tooling", Msg: err.Error(), Key: "tooling"}, "", nil
	}
	defer os.Remove(in)
	args := []string{"gen", "-package_name", fmt.Sprintf("p%d", s.ID), in}
	args = append(args, sibs...)
	ctx, cancel := context.WithTimeout(context.Background(), budget)
	defer cancel()
	cmd := exec.CommandContext(ctx, c.wuffsc, args...)
	cmd.Dir = c.root
	var stdout, stderr bytes.Buffer
	cmd.Stdout, cmd.Stderr = &stdout, &stderr
	t0 := time.Now()
	err := cmd.Run()
	d := time.Since(t0)
	ev := Event{Stage: stGenerate, Dur: durClass(d), Ms: float64(d.Microseconds()) / 1000}
	se := stderr.String()
	if ctx.Err() == context.DeadlineExceeded {
		ev.Outcome = "timeout"
		return ev, &Failure{Stage: stGenerate, Outcome: "timeout", Msg: fmt.Sprintf("wuffs-c gen: no exit within %v", budget),
			Key: "timeout:generate:wuffs-c"}, "", nil
	}
	if err == nil {
		ev.Outcome = "result"
		out := filepath.Join(c.root, "gen", "c", fmt.Sprintf("p%d.c", s.ID))
		if e := os.WriteFile(out, stdout.Bytes(), 0o644); e != nil {
			return ev, &Failure{Stage: stGenerate, Outcome: "tooling", Msg: e.Error(), Key: "tooling"}, "", nil
		}
		return ev, nil, out, nil
	}
	if f := classifyCrash(stGenerate, se); f != nil {
		ev.Outcome = f.Outcome
		return ev, f, "", nil
	}
	var ee *exec.ExitError
	if errors.As(err, &ee) && ee.ExitCode() == 1 {
		ev.Outcome = "error"
		return ev, nil, "", errors.New(strings.TrimSpace(se))
	}
	ev.Outcome = "panic"
	return ev, &Failure{Stage: stGenerate, Outcome: "panic", Msg: "wuffs-c gen: " + err.Error() + ": " + firstLine(se),
		Key: "panic:generate:exit:" + msgClass(err.Error())}, "", nil
}

func firstLine(s string) string {
	s = strings.TrimSpace(s)
	if i := strings.Index(s, "\n"); i >= 0 {
		s = s[:i]
	}
	if len(s) > 300 {
		s = s[:300]
	}
	return s
}

// classifyCrash recognises a Go runtime crash report on stderr.
func classifyCrash(stage, se string) *Failure {
	switch {
	case strings.Contains(se, "stack overflow") || strings.Contains(se, "goroutine stack exceeds"):
		frames := wuffsFrames(se)
		return &Failure{Stage: stage, Outcome: "stack", Msg: firstLine(se), Stack: trimStack(se),
			Key: "stack:" + stage + ":" + cycleKey(frames)}
	case strings.Contains(se, "fatal error: runtime: out of memory") || strings.Contains(se, "cannot allocate memory"):
		return &Failure{Stage: stage, Outcome: "oom", Msg: firstLine(se), Stack: trimStack(se), Key: "oom:" + stage}
	case strings.Contains(se, "panic: ") && strings.Contains(se, "goroutine "):
		i := strings.Index(se, "panic: ")
		msg := firstLine(se[i+len("panic: "):])
		frames := wuffsFrames(se[i:])
		return &Failure{Stage: stage, Outcome: "panic", Msg: msg, Stack: trimStack(se[i:]),
			Key: "panic:" + stage + ":" + framesKey(frames, 2) + ":" + msgClass(msg)}
	case strings.Contains(se, "fatal error: "):
		i := strings.Index(se, "fatal error: ")
		msg := firstLine(se[i:])
		frames := wuffsFrames(se[i:])
		return &Failure{Stage: stage, Outcome: "panic", Msg: msg, Stack: trimStack(se[i:]),
			Key: "panic:" + stage + ":" + framesKey(frames, 2) + ":" + msgClass(msg)}
	}
	return nil
}

// ---------------------------------------------------------------- child

func cmdChild(args []string) error {
	fs := flag.NewFlagSet("child", flag.ExitOnError)
	in := fs.String("in", "", "batch of sources (ndjson)")
	out := fs.String("out", "", "result lines (ndjson, appended and synced line by line)")
	c := &config{}
	fs.StringVar(&c.root, "root", "", "scratch wuffs root")
	fs.StringVar(&c.wuffsc, "wuffsc", "", "wuffs-c binary")
	budgetMs := fs.Int("budget-ms", 10000, "per-stage watchdog")
	fs.IntVar(&c.workers, "workers", 16, "worker goroutines")
	memMB := fs.Int("mem-mb", 24000, "exit(3) when the heap exceeds this")
	fs.IntVar(&c.maxStack, "maxstack", 0, "debug.SetMaxStack (0 = Go's default, 1e9 bytes)")
	fs.Parse(args)
	c.budget = time.Duration(*budgetMs) * time.Millisecond
	if c.maxStack > 0 {
		debug.SetMaxStack(c.maxStack)
	}
	srcs, err := readSources(*in)
	if err != nil {
		return err
	}
	of, err := os.OpenFile(*out, os.O_CREATE|os.O_WRONLY|os.O_APPEND, 0o644)
	if err != nil {
		return err
	}
	var mu sync.Mutex
	emit := func(v interface{}) {
		b, _ := json.Marshal(v)
		b = append(b, '\n')
		mu.Lock()
		of.Write(b)
		mu.Unlock()
	}
	// memory watchdog
	go func() {
		var ms runtime.MemStats
		for {
			time.Sleep(250 * time.Millisecond)
			runtime.ReadMemStats(&ms)
			if ms.HeapAlloc > uint64(*memMB)<<20 {
				emit(map[string]interface{}{"oom": true, "heap": ms.HeapAlloc})
				os.Exit(3)
			}
			if atomic.LoadInt32(&leaked) > 24 {
				emit(map[string]interface{}{"leaky": true})
				os.Exit(4)
			}
		}
	}()
	ch := make(chan *Source)
	var wg sync.WaitGroup
	for i := 0; i < c.workers; i++ {
		wg.Add(1)
		go func() {
			defer wg.Done()
			for s := range ch {
				id := s.ID
				emit(map[string]interface{}{"b": id})
				r := c.process(s, func(stage string) { emit(map[string]interface{}{"m": id, "st": stage}) },
					func(ev Event) { emit(map[string]interface{}{"v": id, "e": ev}) })
				emit(map[string]interface{}{"r": r})
			}
		}()
	}
	for _, s := range srcs {
		ch <- s
	}
	close(ch)
	wg.Wait()
	of.Close()
	return nil
}

func readSources(path string) ([]*Source, error) {
	f, err := os.Open(path)
	if err != nil {
		return nil, err
	}
	defer f.Close()
	var out []*Source
	r := bufio.NewReaderSize(f, 1<<20)
	for {
		line, err := r.ReadBytes('\n')
		if len(bytes.TrimSpace(line)) > 0 {
			s := &Source{}
			if e := json.Unmarshal(line, s); e != nil {
				return nil, fmt.Errorf("%s: %v", path, e)
			}
			out = append(out, s)
		}
		if err == io.EOF {
			break
		}
		if err != nil {
			return nil, err
		}
	}
	return out, nil
}

func cmdOne(args []string) error {
	fs := flag.NewFlagSet("one", flag.ExitOnError)
	c := &config{workers: 1}
	fs.StringVar(&c.root, "root", "", "scratch wuffs root")
	fs.StringVar(&c.wuffsc, "wuffsc", "", "wuffs-c binary")
	budgetMs := fs.Int("budget-ms", 10000, "per-stage watchdog")
	fs.Parse(args)
	c.budget = time.Duration(*budgetMs) * time.Millisecond
	for i, p := range fs.Args() {
		b, err := os.ReadFile(p)
		if err != nil {
			return err
		}
		s := &Source{ID: 900000 + i, Origin: "file:" + p}
		s.SetBytes(b)
		r := c.process(s, func(string) {}, func(Event) {})
		j, _ := json.MarshalIndent(r, "", " ")
		fmt.Println(string(j))
	}
	return nil
}

// toolreplay drives the Wuffs toolchain (lang/token, lang/parse, lang/check,
// lang/render in-process; internal/cgen through the freshly built wuffs-c
// binary, since an internal package cannot be imported from another module;
// gcc -fsyntax-only on the emitted C) over source texts for property C11 and
// records ONE EVENT PER STAGE PER SOURCE.  It takes no verdict: the recorded
// traces are validated by TLC against spec/ToolPipeline.tla.
//
// Sub-commands
//
//	gen    render TLC-exported token sequences (spec/WuffsSyntax.tla) to
//	       source text and add the byte-level inputs (random bytes; byte-,
//	       line- and token-level mutations of /repo/std/*/*.wuffs and of the
//	       programs in lang/check's tests) from the seed.
//	run    the parent: runs batches of sources in child processes (which it
//	       can kill), attributes crashes and hangs to the source that was in
//	       flight, confirms every non-ordinary outcome by an individual re-run
//	       with a 4x budget, compiles the C of every accepted program, writes
//	       events.ndjson (the traces) and fails.json (witness details).
//	child  one batch, N worker goroutines; each stage runs in its own
//	       goroutine under recover() and a watchdog.
//	one    debug: run the stages on one file and print the events.
package main

import (
	"fmt"
	"os"
)

func main() {
	if len(os.Args) < 2 {
		fmt.Fprintln(os.Stderr, "usage: toolreplay gen|run|child|one ...")
		os.Exit(2)
	}
	var err error
	switch os.Args[1] {
	case "gen":
		err = cmdGen(os.Args[2:])
	case "run":
		err = cmdRun(os.Args[2:])
	case "child":
		err = cmdChild(os.Args[2:])
	case "one":
		err = cmdOne(os.Args[2:])
	default:
		err = fmt.Errorf("bad sub-command %q", os.Args[1])
	}
	if err != nil {
		fmt.Fprintln(os.Stderr, "toolreplay: "+err.Error())
		os.Exit(2)
	}
}

// refenc is the reference-encoder side of property C07's round trips: it
// generates the payload classes, encodes them with Go's independent encoders
// (compress/flate, zlib, gzip, lzw, image/png, image/gif) under the
// configurations that checks/C07.py selected from spec/CodecConfig.tla's
// space, decodes corpus images with Go's independent decoders (interlaced PNG
// and GIF, which Go cannot encode), computes the reference checksums
// (hash/crc32, hash/crc64, hash/adler32, crypto/sha256) of the hasher inputs,
// and writes a manifest (harness/internal/c07) that the runner turns into
// stddrive jobs.  The system tools (bzip2, xz) and the system zlib are run by
// the runner itself on the payload files written here.  No verdict is taken.
//
// usage: refenc -plan plan.json -out dir
//
// plan.json: {"seed":1,"tier":"quick","items":[{"id":"i7","cfg":{"family":"zlib","level":-1,"dict":"preset"},"class":"text"},...],
//
//	"hashlens":[0,1,...],"corpus":["/repo/test/data/hippopotamus.interlaced.png",...]}
package main

import (
	"bytes"
	"compress/flate"
	"compress/gzip"
	"compress/lzw"
	"compress/zlib"
	"crypto/sha256"
	"encoding/json"
	"flag"
	"fmt"
	"hash/adler32"
	"hash/crc32"
	"hash/crc64"
	"image"
	"image/color"
	"image/gif"
	"image/png"
	"io"
	"math/rand"
	"os"
	"path/filepath"
	"strings"

	"verifharness/internal/c07"
)

type planItem struct {
	ID    string                 `json:"id"`
	Cfg   map[string]interface{} `json:"cfg"`
	Class string                 `json:"class"`
}

type plan struct {
	Seed     int64      `json:"seed"`
	Tier     string     `json:"tier"`
	Items    []planItem `json:"items"`
	HashLens []int      `json:"hashlens"`
	Corpus   []string   `json:"corpus"`
}

type output struct {
	c07.Manifest
	Payloads map[string]string `json:"payloads"`
	Dict     string            `json:"dict"`
}

var outDir string

func must(err error) {
	if err != nil {
		fmt.Fprintln(os.Stderr, "refenc:", err)
		os.Exit(2)
	}
}

func write(name string, b []byte) string {
	p, err := c07.WriteFile(outDir, name, b)
	must(err)
	return p
}

func num(m map[string]interface{}, k string) int {
	if v, ok := m[k].(float64); ok {
		return int(v)
	}
	return 0
}
func str(m map[string]interface{}, k string) string {
	s, _ := m[k].(string)
	return s
}
func boolean(m map[string]interface{}, k string) bool {
	b, _ := m[k].(bool)
	return b
}

// ---------------------------------------------------------------- payloads

var words = strings.Fields(`the of and to in that is was he for it with as his on be at by had not are but from or have an they which one you were her all
she there would their we him been has when who will more no if out so said what up its about into than them can only other new some could time these two may
then do first any my now such like our over man me even most made after also did many before must through back years where much your way well down should because
each just those people how too little state good very make world still own see men work long get here between both life being under never day same another know
while last might us great old year off come since against go came right used take three states himself few house use during without again place american around
however home small found thought went say part once general high upon school every don does got united left number course war until always away something fact
compression dictionary huffman window checksum stream decoder encoder buffer coroutine suspension literal distance length symbol block header trailer`)

func textPayload(rng *rand.Rand, n int) []byte {
	var b bytes.Buffer
	for b.Len() < n {
		k := 5 + rng.Intn(12)
		for i := 0; i < k; i++ {
			w := words[rng.Intn(len(words))]
			if i == 0 {
				w = strings.ToUpper(w[:1]) + w[1:]
			}
			b.WriteString(w)
			if i < k-1 {
				if rng.Intn(9) == 0 {
					b.WriteByte(',')
				}
				b.WriteByte(' ')
			}
		}
		b.WriteString(". ")
		if rng.Intn(6) == 0 {
			b.WriteByte('\n')
		}
	}
	return b.Bytes()[:n]
}

func randomBytes(rng *rand.Rand, n int) []byte {
	b := make([]byte, n)
	rng.Read(b)
	return b
}

func repetitive(rng *rand.Rand, n int) []byte {
	var b []byte
	units := [][]byte{{byte(rng.Intn(256))}, []byte("ab"), []byte("abc"), randomBytes(rng, 257), randomBytes(rng, 258), randomBytes(rng, 259), {0}}
	for len(b) < n {
		u := units[rng.Intn(len(units))]
		k := 300 + rng.Intn(3000)
		for i := 0; i < k; i += len(u) {
			b = append(b, u...)
		}
	}
	return b[:n]
}

// windowPayload repeats a 32768-byte random block: matches at the largest DEFLATE distance, then at distance 32767 and 1.
func windowPayload(rng *rand.Rand) []byte {
	r := randomBytes(rng, 32768)
	b := append([]byte{}, r...)
	b = append(b, r...)         // distance 32768
	b = append(b, r[1:3000]...) // distance 32768 + ... still inside the window of the second copy
	b = append(b, b[len(b)-1])  // distance 1
	b = append(b, r[:700]...)
	return b
}

func mixed(rng *rand.Rand, n int) []byte {
	var b []byte
	for len(b) < n {
		switch rng.Intn(4) {
		case 0:
			b = append(b, textPayload(rng, 2000+rng.Intn(9000))...)
		case 1:
			b = append(b, randomBytes(rng, 500+rng.Intn(6000))...)
		case 2:
			b = append(b, repetitive(rng, 1000+rng.Intn(20000))...)
		case 3:
			if len(b) > 40000 { // a far back-reference
				o := rng.Intn(len(b) - 33000)
				b = append(b, b[o:o+3000]...)
			} else {
				b = append(b, make([]byte, 1000+rng.Intn(3000))...)
			}
		}
	}
	return b[:n]
}

func makePayloads(seed int64, tier string) map[string][]byte {
	rng := rand.New(rand.NewSource(seed*7919 + 11))
	big := 70000 + rng.Intn(5000)
	if tier == "thorough" {
		big = 300000 + rng.Intn(50000)
	}
	p := map[string][]byte{
		"empty":      {},
		"one":        {byte(rng.Intn(256))},
		"random":     randomBytes(rng, 3000+rng.Intn(1500)),
		"repetitive": repetitive(rng, 70000+rng.Intn(3000)),
		"text":       textPayload(rng, 18000+rng.Intn(9000)),
		"window":     windowPayload(rng),
		"big":        mixed(rng, big),
	}
	if tier == "thorough" {
		p["huge"] = mixed(rng, 1200000+rng.Intn(100000))
	}
	return p
}

// ------------------------------------------------------------------ images

func sizeOf(s string) (int, int) {
	var w, h int
	fmt.Sscanf(s, "%dx%d", &w, &h)
	return w, h
}

func sample(content string, rng *rand.Rand, x, y, ch, w, h int) uint16 {
	switch content {
	case "flat":
		return uint16(0x4321 * (ch + 1))
	case "noise":
		return uint16(rng.Intn(65536))
	}
	// gradient with a few exact extremes
	v := (x*65535/max(1, w-1) + (ch+1)*y*65535/max(1, h)) & 0xFFFF
	if (x+y)%11 == 0 {
		v = 0xFFFF
	}
	if (x*3+y)%13 == 0 {
		v = 0
	}
	return uint16(v)
}

func makePalette(rng *rand.Rand, n int, transparent bool) color.Palette {
	p := make(color.Palette, n)
	for i := range p {
		p[i] = color.NRGBA{uint8(rng.Intn(256)), uint8(rng.Intn(256)), uint8(rng.Intn(256)), 255}
	}
	if transparent {
		p[rng.Intn(n)] = color.NRGBA{0, 0, 0, 0}
	}
	return p
}

func makeImage(kind, content string, w, h int, rng *rand.Rand) image.Image {
	r := image.Rect(0, 0, w, h)
	switch kind {
	case "gray8":
		m := image.NewGray(r)
		for y := 0; y < h; y++ {
			for x := 0; x < w; x++ {
				m.SetGray(x, y, color.Gray{uint8(sample(content, rng, x, y, 0, w, h) >> 8)})
			}
		}
		return m
	case "gray16":
		m := image.NewGray16(r)
		for y := 0; y < h; y++ {
			for x := 0; x < w; x++ {
				m.SetGray16(x, y, color.Gray16{sample(content, rng, x, y, 0, w, h)})
			}
		}
		return m
	case "rgb8", "rgba8":
		m := image.NewNRGBA(r)
		for y := 0; y < h; y++ {
			for x := 0; x < w; x++ {
				a := uint8(255)
				if kind == "rgba8" {
					a = uint8(sample(content, rng, x, y, 3, w, h) >> 8)
				}
				m.SetNRGBA(x, y, color.NRGBA{uint8(sample(content, rng, x, y, 0, w, h) >> 8), uint8(sample(content, rng, x, y, 1, w, h) >> 8),
					uint8(sample(content, rng, x, y, 2, w, h) >> 8), a})
			}
		}
		if kind == "rgba8" { // make sure the image is not opaque (an opaque NRGBA is written as colour type 2)
			m.SetNRGBA(w-1, h-1, color.NRGBA{9, 99, 199, 77})
		}
		return m
	case "rgb16", "rgba16":
		m := image.NewNRGBA64(r)
		for y := 0; y < h; y++ {
			for x := 0; x < w; x++ {
				a := uint16(0xFFFF)
				if kind == "rgba16" {
					a = sample(content, rng, x, y, 3, w, h)
				}
				m.SetNRGBA64(x, y, color.NRGBA64{sample(content, rng, x, y, 0, w, h), sample(content, rng, x, y, 1, w, h), sample(content, rng, x, y, 2, w, h), a})
			}
		}
		if kind == "rgba16" {
			m.SetNRGBA64(w-1, h-1, color.NRGBA64{0x1234, 0xFEDC, 0x8001, 0x7FFF})
		}
		return m
	}
	// paletted
	n := map[string]int{"pal1": 2, "pal2": 4, "pal4": 16, "pal8": 256, "pal8trns": 200}[kind]
	pal := makePalette(rng, n, false)
	if kind == "pal8trns" {
		for i := 0; i < n; i += 7 {
			c := pal[i].(color.NRGBA)
			c.A = uint8(rng.Intn(256))
			pal[i] = c
		}
		pal[3] = color.NRGBA{10, 20, 30, 0}
	}
	m := image.NewPaletted(r, pal)
	for y := 0; y < h; y++ {
		for x := 0; x < w; x++ {
			m.SetColorIndex(x, y, uint8(int(sample(content, rng, x, y, 0, w, h))*n>>16))
		}
	}
	return m
}

func imgEntry(id string, cv *c07.Canvas, hashes []uint64) *c07.Img {
	return &c07.Img{W: cv.W, H: cv.H, Frames: len(hashes), Expected: write(id+".expected", cv.OutFile()),
		OutHash: fmt.Sprintf("%016x", c07.FramesHash(hashes)), OutTotal: len(cv.Pix)}
}

func sameCanvas(a, b *c07.Canvas) string {
	if a.W != b.W || a.H != b.H {
		return fmt.Sprintf("MISMATCH: Go decodes %dx%d, source is %dx%d", b.W, b.H, a.W, a.H)
	}
	for i := range a.Pix {
		if a.Pix[i] != b.Pix[i] {
			return fmt.Sprintf("MISMATCH: Go's decoder differs from the source image at pixel %d,%d", (i/4)%a.W, (i/4)/a.W)
		}
	}
	return "ok"
}

func encodePNG(it planItem, seed int64) c07.Entry {
	rng := rand.New(rand.NewSource(seed*31 + int64(len(it.ID))*1009 + hashStr(it.ID)))
	w, h := sizeOf(str(it.Cfg, "size"))
	m := makeImage(str(it.Cfg, "kind"), str(it.Cfg, "content"), w, h, rng)
	lvl := map[string]png.CompressionLevel{"default": png.DefaultCompression, "none": png.NoCompression, "speed": png.BestSpeed, "best": png.BestCompression}[str(it.Cfg, "level")]
	var buf bytes.Buffer
	must((&png.Encoder{CompressionLevel: lvl}).Encode(&buf, m))
	cv := c07.NewCanvas(w, h)
	cv.DrawFrame(m)
	ref := "ok"
	if d, err := png.Decode(bytes.NewReader(buf.Bytes())); err != nil {
		ref = "MISMATCH: Go's image/png cannot decode its own output: " + err.Error()
	} else {
		gv := c07.NewCanvas(w, h)
		gv.DrawFrame(d)
		ref = sameCanvas(cv, gv)
	}
	set, _ := json.Marshal(it.Cfg)
	return c07.Entry{ID: it.ID, Family: "png", Class: "image", Dec: "png", File: write(it.ID+".png", buf.Bytes()), OutLen: len(cv.Pix),
		Img: imgEntry(it.ID, cv, []uint64{c07.DriverHash(cv.Pix)}), GoRef: ref, Settings: set}
}

func hashStr(s string) int64 {
	var h int64 = 17
	for _, c := range s {
		h = h*131 + int64(c)
	}
	return h & 0xFFFFFFF
}

func encodeGIF(it planItem, seed int64) c07.Entry {
	rng := rand.New(rand.NewSource(seed*37 + hashStr(it.ID)))
	w, h := sizeOf(str(it.Cfg, "size"))
	ncol := num(it.Cfg, "colors")
	frames := num(it.Cfg, "frames")
	transparent := boolean(it.Cfg, "transparent")
	localpal := boolean(it.Cfg, "localpal")
	global := makePalette(rng, ncol, transparent)
	g := &gif.GIF{Config: image.Config{Width: w, Height: h, ColorModel: global}}
	disp := map[string][]byte{"none": {gif.DisposalNone}, "background": {gif.DisposalBackground}, "previous": {gif.DisposalPrevious},
		"mixed": {gif.DisposalBackground, gif.DisposalPrevious, gif.DisposalNone}}[str(it.Cfg, "disposal")]
	for f := 0; f < frames; f++ {
		r := image.Rect(0, 0, w, h)
		if f > 0 && w > 2 && h > 2 { // later frames cover a part of the canvas
			x0, y0 := rng.Intn(w-1), rng.Intn(h-1)
			r = image.Rect(x0, y0, x0+1+rng.Intn(w-x0-1), y0+1+rng.Intn(h-y0-1))
		}
		pal := global
		if localpal && f%2 == 1 {
			pal = makePalette(rng, ncol, transparent)
		}
		m := image.NewPaletted(r, pal)
		for y := r.Min.Y; y < r.Max.Y; y++ {
			for x := r.Min.X; x < r.Max.X; x++ {
				var v int
				switch (f + x/8 + y/8) % 3 {
				case 0:
					v = rng.Intn(ncol)
				case 1:
					v = (x + y*3 + f) % ncol
				default:
					v = (x / 3) % ncol
				}
				m.SetColorIndex(x, y, uint8(v))
			}
		}
		g.Image = append(g.Image, m)
		g.Delay = append(g.Delay, 3+f)
		g.Disposal = append(g.Disposal, disp[f%len(disp)])
	}
	var buf bytes.Buffer
	must(gif.EncodeAll(&buf, g))
	cv := c07.NewCanvas(w, h)
	var hashes []uint64
	for _, m := range g.Image {
		cv.DrawFrame(m)
		hashes = append(hashes, c07.DriverHash(cv.Pix))
	}
	ref := "ok"
	if d, err := gif.DecodeAll(bytes.NewReader(buf.Bytes())); err != nil {
		ref = "MISMATCH: Go's image/gif cannot decode its own output: " + err.Error()
	} else {
		gv := c07.NewCanvas(d.Config.Width, d.Config.Height)
		for _, m := range d.Image {
			gv.DrawFrame(m)
		}
		ref = sameCanvas(cv, gv)
	}
	set, _ := json.Marshal(it.Cfg)
	return c07.Entry{ID: it.ID, Family: "gif", Class: "image", Dec: "gif", File: write(it.ID+".gif", buf.Bytes()), OutLen: len(cv.Pix),
		Img: imgEntry(it.ID, cv, hashes), GoRef: ref, Settings: set}
}

// corpusImage: the oracle is Go's independent decoder on a file some other encoder produced.
func corpusImage(i int, path string) (c07.Entry, bool) {
	data, err := os.ReadFile(path)
	if err != nil {
		return c07.Entry{}, false
	}
	id := fmt.Sprintf("corpus%03d", i)
	base := filepath.Base(path)
	set, _ := json.Marshal(map[string]string{"file": base})
	switch strings.ToLower(filepath.Ext(path)) {
	case ".png":
		m, err := png.Decode(bytes.NewReader(data))
		if err != nil || !c07.IsExactAlpha(m) {
			return c07.Entry{}, false
		}
		b := m.Bounds()
		cv := c07.NewCanvas(b.Dx(), b.Dy())
		cv.DrawFrame(m)
		return c07.Entry{ID: id, Family: "corpus-png", Class: "image", Dec: "png", File: path, OutLen: len(cv.Pix),
			Img: imgEntry(id, cv, []uint64{c07.DriverHash(cv.Pix)}), GoRef: "n/a", Settings: set, Note: "oracle: image/png.Decode"}, true
	case ".gif":
		g, err := gif.DecodeAll(bytes.NewReader(data))
		if err != nil || len(g.Image) == 0 || len(g.Image) > 60 {
			return c07.Entry{}, false
		}
		cv := c07.NewCanvas(g.Config.Width, g.Config.Height)
		var hashes []uint64
		for _, m := range g.Image {
			cv.DrawFrame(m)
			hashes = append(hashes, c07.DriverHash(cv.Pix))
		}
		return c07.Entry{ID: id, Family: "corpus-gif", Class: "image", Dec: "gif", File: path, OutLen: len(cv.Pix),
			Img: imgEntry(id, cv, hashes), GoRef: "n/a", Settings: set, Note: "oracle: image/gif.DecodeAll"}, true
	}
	return c07.Entry{}, false
}

// ------------------------------------------------------------ byte streams

func encodeStream(it planItem, payloads map[string]string, data map[string][]byte, dict []byte, dictPath string) c07.Entry {
	fam := str(it.Cfg, "family")
	p := data[it.Class]
	set, _ := json.Marshal(it.Cfg)
	e := c07.Entry{ID: it.ID, Family: fam, Class: it.Class, Dec: fam, Oracle: payloads[it.Class], OutLen: len(p), Settings: set}
	var buf bytes.Buffer
	var have []byte
	var err error
	switch fam {
	case "deflate":
		w, werr := flate.NewWriter(&buf, num(it.Cfg, "level"))
		must(werr)
		k := num(it.Cfg, "flush") + 1
		for i := 0; i < k; i++ {
			_, err = w.Write(p[len(p)*i/k : len(p)*(i+1)/k])
			must(err)
			if i < k-1 {
				must(w.Flush())
			}
		}
		must(w.Close())
		have, err = io.ReadAll(flate.NewReader(bytes.NewReader(buf.Bytes())))
		e.File = write(it.ID+".deflate", buf.Bytes())
	case "zlib":
		var w *zlib.Writer
		if str(it.Cfg, "dict") == "preset" {
			w, err = zlib.NewWriterLevelDict(&buf, num(it.Cfg, "level"), dict)
			e.Dict = dictPath
		} else {
			w, err = zlib.NewWriterLevel(&buf, num(it.Cfg, "level"))
		}
		must(err)
		_, err = w.Write(p)
		must(err)
		must(w.Close())
		var zr io.ReadCloser
		if e.Dict != "" {
			zr, err = zlib.NewReaderDict(bytes.NewReader(buf.Bytes()), dict)
		} else {
			zr, err = zlib.NewReader(bytes.NewReader(buf.Bytes()))
		}
		if err == nil {
			have, err = io.ReadAll(zr)
		}
		e.File = write(it.ID+".zlib", buf.Bytes())
	case "gzip":
		hdr, _ := it.Cfg["header"].(map[string]interface{})
		k := num(it.Cfg, "members")
		for i := 0; i < k; i++ {
			part := p[len(p)*i/k : len(p)*(i+1)/k]
			start := buf.Len()
			w, werr := gzip.NewWriterLevel(&buf, num(it.Cfg, "level"))
			must(werr)
			if boolean(hdr, "name") {
				w.Name = fmt.Sprintf("payload-%s-%d.bin", it.Class, i)
			}
			if boolean(hdr, "comment") {
				w.Comment = "C07 member " + strings.Repeat("x", i*40) + " \u00e9\u00e8"
			}
			if boolean(hdr, "extra") {
				w.Extra = append([]byte{'A', 'p', 4, 0, 1, 2, 3, byte(i)}, make([]byte, i*300)...)
			}
			_, err = w.Write(part)
			must(err)
			must(w.Close())
			e.Chain = append(e.Chain, c07.Member{Oracle: write(fmt.Sprintf("%s.m%d.out", it.ID, i), part), OutLen: len(part), EncLen: buf.Len() - start})
		}
		zr, zerr := gzip.NewReader(bytes.NewReader(buf.Bytes()))
		err = zerr
		if err == nil {
			have, err = io.ReadAll(zr)
		}
		e.File = write(it.ID+".gz", buf.Bytes())
	case "lzw":
		lw := num(it.Cfg, "litwidth")
		q := make([]byte, len(p))
		for i, c := range p {
			q[i] = c & byte(1<<uint(lw)-1)
		}
		p = q
		e.Oracle = write(it.ID+".masked", q)
		w := lzw.NewWriter(&buf, lzw.LSB, lw)
		_, err = w.Write(q)
		must(err)
		must(w.Close())
		have, err = io.ReadAll(lzw.NewReader(bytes.NewReader(buf.Bytes()), lzw.LSB, lw))
		e.File = write(it.ID+".lzw", buf.Bytes())
		e.Quirks = fmt.Sprintf("0x4CEE1800:%d", lw+1)
	default:
		must(fmt.Errorf("refenc: family %q is not encoded here", fam))
	}
	if err != nil {
		e.GoRef = "MISMATCH: Go's decoder fails on Go's encoder output: " + err.Error()
	} else if !bytes.Equal(have, p) {
		e.GoRef = "MISMATCH: Go's decoder does not reproduce the payload"
	} else {
		e.GoRef = "ok"
	}
	return e
}

func main() {
	planPath := flag.String("plan", "", "plan.json")
	flag.StringVar(&outDir, "out", "", "output directory")
	flag.Parse()
	if *planPath == "" || outDir == "" {
		fmt.Fprintln(os.Stderr, "usage: refenc -plan plan.json -out dir")
		os.Exit(2)
	}
	must(os.MkdirAll(outDir, 0o755))
	pb, err := os.ReadFile(*planPath)
	must(err)
	var pl plan
	must(json.Unmarshal(pb, &pl))

	data := makePayloads(pl.Seed, pl.Tier)
	out := output{Payloads: map[string]string{}}
	for k, v := range data {
		out.Payloads[k] = write("payload-"+k+".bin", v)
	}
	// preset dictionary: shares vocabulary with the text payload and a piece of the repetitive one
	dict := append([]byte(strings.Join(words[:120], " ")), data["repetitive"][:200]...)
	out.Dict = write("preset.dict", dict)

	for _, it := range pl.Items {
		switch str(it.Cfg, "family") {
		case "png":
			out.Entries = append(out.Entries, encodePNG(it, pl.Seed))
		case "gif":
			out.Entries = append(out.Entries, encodeGIF(it, pl.Seed))
		case "deflate", "zlib", "gzip", "lzw":
			out.Entries = append(out.Entries, encodeStream(it, out.Payloads, data, dict, out.Dict))
		}
	}
	for i, p := range pl.Corpus {
		if e, ok := corpusImage(i, p); ok {
			out.Entries = append(out.Entries, e)
		} else {
			out.Skipped = append(out.Skipped, filepath.Base(p))
		}
	}
	// hasher inputs
	rng := rand.New(rand.NewSource(pl.Seed*104729 + 5))
	tab := crc64.MakeTable(crc64.ECMA)
	for i, n := range pl.HashLens {
		var b []byte
		kind := i % 3
		if n >= 5552 {
			kind = i % 2 // every other long input is the worst case for Adler-32's deferred modulo
		}
		switch kind {
		case 0:
			b = bytes.Repeat([]byte{0xFF}, n)
		case 1:
			b = randomBytes(rng, n)
		default:
			b = textPayload(rng, n)
		}
		id := fmt.Sprintf("hash%03d-%d", i, n)
		sh := sha256.Sum256(b)
		out.Entries = append(out.Entries, c07.Entry{ID: id, Family: "hash", Class: fmt.Sprintf("len%d", n), Dec: "hashers", File: write(id+".bin", b), OutLen: n, GoRef: "n/a",
			Sums: map[string]string{
				"crc32":   fmt.Sprintf("%08x", crc32.ChecksumIEEE(b)),
				"crc64":   fmt.Sprintf("%016x", crc64.Checksum(b, tab)),
				"adler32": fmt.Sprintf("%08x", adler32.Checksum(b)),
				"sha256":  fmt.Sprintf("%x", sh[:]),
			}})
	}
	ob, err := json.Marshal(out)
	must(err)
	must(os.WriteFile(filepath.Join(outDir, "manifest.json"), ob, 0o644))
	fmt.Printf("{\"entries\":%d,\"skipped\":%d}\n", len(out.Entries), len(out.Skipped))
}

// zdictdrive.c - harness/c/stddrive.c plus one job option for property C07:
//
//   dict=/path/to/preset.dictionary     (std/zlib jobs only)
//
// std/zlib's preset-dictionary support is outside the generic io_transformer
// interface: transform_io returns the note "@dictionary required", the caller
// hands the dictionary over with wuffs_zlib__decoder__add_dictionary and calls
// transform_io again (test/c/std/zlib.c, test_wuffs_zlib_decode_sheep).  This
// file wraps the interface call that stddrive.c makes so that exactly this
// sequence happens inside one logged call; everything else (schedules, events,
// oracle comparison) is stddrive.c's, included below unchanged.
//
// Build: gcc -I<dir with wuffs-snapshot.c> -I<harness/c> zdictdrive.c

#define WUFFS_IMPLEMENTATION
#include "wuffs-snapshot.c"

static const uint8_t* g_zdict = NULL;
static size_t g_zdict_n = 0;
static long g_zdict_adds = 0;

static wuffs_base__status zd_transform_io(wuffs_base__io_transformer* t,
                                          wuffs_base__io_buffer* dst,
                                          wuffs_base__io_buffer* src,
                                          wuffs_base__slice_u8 wb) {
  wuffs_base__status st = wuffs_base__io_transformer__transform_io(t, dst, src, wb);
  if (g_zdict && st.repr == wuffs_zlib__note__dictionary_required) {
    // the upcast of a wuffs_zlib__decoder is the same pointer
    wuffs_zlib__decoder__add_dictionary((wuffs_zlib__decoder*)t,
                                        wuffs_base__make_slice_u8((uint8_t*)g_zdict, g_zdict_n));
    g_zdict_adds++;
    st = wuffs_base__io_transformer__transform_io(t, dst, src, wb);
  }
  return st;
}

#define wuffs_base__io_transformer__transform_io zd_transform_io
#define main stddrive_main_unused
#include "stddrive.c"
#undef main
#undef wuffs_base__io_transformer__transform_io

int main(int argc, char** argv) {
  if (argc < 3) {
    fprintf(stderr, "usage: zdictdrive jobs.txt events.ndjson\n");
    return 2;
  }
  FILE* jf = fopen(argv[1], "r");
  g_ev = fopen(argv[2], "a");
  if (!jf || !g_ev) {
    fprintf(stderr, "cannot open files\n");
    return 2;
  }
  signal(SIGVTALRM, on_timeout);
  static char line[8192];
  static char dictpath[1024];
  while (fgets(line, sizeof line, jf)) {
    if (line[0] == '#' || line[0] == '\n') continue;
    // pick dict=... before parse_job cuts the line into tokens
    dictpath[0] = 0;
    const char* p = strstr(line, " dict=");
    if (p) {
      p += 6;
      size_t k = 0;
      while (p[k] && p[k] != ' ' && p[k] != '\t' && p[k] != '\n' && p[k] != '\r' && k + 1 < sizeof dictpath) {
        dictpath[k] = p[k];
        k++;
      }
      dictpath[k] = 0;
    }
    job_t j;
    if (!parse_job(line, &j)) continue;
    fprintf(g_ev, "{\"j\":%ld,\"k\":\"start\"}\n", j.id);
    fflush(g_ev);
    uint8_t* dict = NULL;
    g_zdict = NULL;
    g_zdict_n = 0;
    if (dictpath[0]) {
      size_t n = 0;
      dict = read_file(dictpath, &n);
      if (!dict) {
        fprintf(g_ev, "{\"j\":%ld,\"k\":\"skip\",\"why\":\"cannot read dictionary\"}\n", j.id);
        fflush(g_ev);
        continue;
      }
      g_zdict = dict;
      g_zdict_n = n;
    }
    run_job(&j);
    g_zdict = NULL;
    free(dict);
  }
  fclose(jf);
  fclose(g_ev);
  return 0;
}

package main

// Totality of litonlylzma's Decode (C17, last clause): arbitrary, truncated
// and mutated byte strings.  One row per call; TLC evaluates
// LzmaExpansion!RowOK on every row.  Nothing is judged here.

import (
	"encoding/binary"
	"encoding/json"
	"flag"
	"fmt"
	"math/rand"
	"os"
	"path/filepath"
	"sync"
	"time"
)

var (
	only     = flag.Int("only", -1, "mode total: write the input of this row to -dump and stop")
	budgetMS = flag.Int("budget_ms", 20000, "mode total: watchdog per Decode call")
)

var kinds = []string{"random", "header+random", "truncated", "mutated", "sizebomb", "chunkbomb", "valid"}

type totRow struct {
	fm   string
	kind int
	in   []byte
}

var wd struct {
	sync.Mutex
	start time.Time
	row   int
	fm    string
	in    []byte
}

func watchdog() {
	for {
		time.Sleep(250 * time.Millisecond)
		wd.Lock()
		if wd.in != nil && time.Since(wd.start) > time.Duration(*budgetMS)*time.Millisecond {
			if *hangDir != "" {
				os.WriteFile(filepath.Join(*hangDir, fmt.Sprintf("hang-%s-%d.bin", wd.fm, wd.row)), wd.in, 0o644)
			}
			fmt.Fprintf(os.Stderr, "WATCHDOG row=%d fmt=%s inlen=%d\n", wd.row, wd.fm, len(wd.in))
			os.Exit(7)
		}
		wd.Unlock()
	}
}

func lzmaHeader(size uint64) []byte {
	h := []byte{0x5D, 0, 0x10, 0, 0, 0, 0, 0, 0, 0, 0, 0, 0}
	binary.LittleEndian.PutUint64(h[5:], size)
	return h
}

func mutate(rng *rand.Rand, b []byte) []byte {
	c := append([]byte(nil), b...)
	for k := 1 + rng.Intn(3); k > 0 && len(c) > 0; k-- {
		i := rng.Intn(len(c))
		if rng.Intn(3) == 0 && len(c) > 30 {
			// favour the structured regions: headers, the tail (index/footer)
			if rng.Intn(2) == 0 {
				i = rng.Intn(30)
			} else {
				i = len(c) - 1 - rng.Intn(30)
			}
		}
		switch rng.Intn(7) {
		case 0:
			c[i] ^= 1 << uint(rng.Intn(8))
		case 1:
			c[i] = 0x00
		case 2:
			c[i] = 0xFF
		case 3:
			c[i] = byte(rng.Intn(256))
		case 4:
			c = append(c[:i], c[i+1:]...)
		case 5:
			c = append(c[:i], append([]byte{byte(rng.Intn(256))}, c[i:]...)...)
		case 6:
			c[i]++
		}
	}
	return c
}

func totalityInputs(thorough bool, rng *rand.Rand, emit func(totRow)) {
	scale := 1
	if thorough {
		scale = 8
	}
	fms := []string{"lzma", "xz"}
	xzHdr := mustEnc("xz", nil)[:24]

	// 1. arbitrary bytes
	for i := 0; i < 3000*scale; i++ {
		n := rng.Intn(80)
		if rng.Intn(8) == 0 {
			n = rng.Intn(3000)
		}
		b := make([]byte, n)
		rng.Read(b)
		emit(totRow{fms[i&1], 0, b})
	}
	// 2. a valid header followed by arbitrary bytes
	for i := 0; i < 3000*scale; i++ {
		n := rng.Intn(200)
		t := make([]byte, n)
		rng.Read(t)
		if rng.Intn(3) == 0 {
			for j := range t {
				t[j] &= byte(rng.Intn(256)) & byte(rng.Intn(256)) // sparse bits: long literal runs
			}
		}
		if i&1 == 0 {
			sz := uint64(rng.Intn(5000))
			if rng.Intn(4) == 0 {
				sz = rng.Uint64() >> uint(1+rng.Intn(62))
			}
			emit(totRow{"lzma", 1, append(lzmaHeader(sz), t...)})
		} else {
			b := append([]byte(nil), xzHdr...)
			switch rng.Intn(4) {
			case 0:
				b = append(b, 0xE0, byte(rng.Intn(256)), byte(rng.Intn(256)), byte(rng.Intn(2)), byte(rng.Intn(256)), 0x5D, 0x00)
			case 1:
				b = append(b, 0x01, byte(rng.Intn(2)), byte(rng.Intn(256)))
			}
			emit(totRow{"xz", 1, append(b, t...)})
		}
	}
	// 3./4. truncations and mutations of valid encodings
	type valid struct {
		fm  string
		enc []byte
	}
	valids := []valid{}
	for _, fm := range fms {
		for _, n := range []int{0, 1, 2, 3, 7, 40, 300, 70000} {
			for _, c := range []string{"zero", "ff", "random", "text"} {
				if n == 70000 && !(c == "random" || c == "zero") {
					continue
				}
				valids = append(valids, valid{fm, mustEnc(fm, makePayload(c, n, rng.Int63n(1<<30)))})
			}
		}
	}
	for _, v := range valids {
		emit(totRow{v.fm, 6, v.enc})
		if len(v.enc) <= 2000 {
			for k := 0; k < len(v.enc); k++ {
				emit(totRow{v.fm, 2, v.enc[:k]})
			}
		} else {
			for j := 0; j < 60*scale; j++ {
				k := rng.Intn(len(v.enc))
				if j%3 == 0 {
					k = len(v.enc) - 1 - rng.Intn(60) // index / footer region
				}
				emit(totRow{v.fm, 2, v.enc[:k]})
			}
		}
		m := 150 * scale
		if len(v.enc) > 2000 {
			m = 40 * scale
		}
		for j := 0; j < m; j++ {
			emit(totRow{v.fm, 3, mutate(rng, v.enc)})
		}
	}
	// 5. size bombs: the declared size is huge, the range-coded bytes decode
	// to the most probable symbols for as long as input lasts (this is the
	// worst case of the expansion bound: see LzmaExpansion.tla).
	for _, tail := range []byte{0x00, 0xFF, 0x55} {
		for _, n := range []int{0, 1, 4, 5, 6, 50, 1000, 20000 * scale} {
			for _, sz := range []uint64{1 << 62, 1<<63 - 1, 1 << 40, 100000} {
				b := append(lzmaHeader(sz), 0x00)
				for j := 0; j < n; j++ {
					b = append(b, tail)
				}
				emit(totRow{"lzma", 4, b})
			}
		}
	}
	// 6. XZ chunk bombs: a chain of LZMA chunks that each declare 65536
	// uncompressed bytes and the smallest compressed size.
	for _, tail := range []byte{0x00, 0xFF} {
		for _, n := range []int{1, 3, 40, 300 * scale} {
			b := append([]byte(nil), xzHdr...)
			for j := 0; j < n; j++ {
				b = append(b, 0xE0, 0xFF, 0xFF, 0x00, 0x04+byte(j%3), 0x5D, 0x00, tail, tail, tail, tail)
				for k := 0; k < j%3; k++ {
					b = append(b, tail)
				}
			}
			emit(totRow{"xz", 5, b})
			// the same, but a single chunk header followed by a long tail
			b = append([]byte(nil), xzHdr...)
			b = append(b, 0xE0, 0xFF, 0xFF, 0xFF, 0xFF, 0x5D, 0x00)
			for j := 0; j < n*50; j++ {
				b = append(b, tail)
			}
			emit(totRow{"xz", 5, b})
		}
	}
}

func mustEnc(fm string, x []byte) []byte {
	enc, err, pan := safeEncode(ff(fm), x)
	if err != nil || pan != "" {
		// Encode failing on a valid payload is reported by the trace mode; here
		// the input is merely dropped.
		return []byte{}
	}
	return enc
}

func totality() {
	go watchdog()
	rng := rand.New(rand.NewSource(*seed))
	rows := [][]int{}
	idx := 0
	maxRatioNum, maxRatioDen := 0, 1
	totalityInputs(*tier == "thorough", rng, func(r totRow) {
		idx++
		if *only >= 0 {
			if idx == *only {
				os.WriteFile(*dump, r.in, 0o644)
				fmt.Printf("{\"row\":%d,\"fmt\":%q,\"kind\":%q,\"inlen\":%d}\n", idx, r.fm, kinds[r.kind], len(r.in))
				os.Exit(0)
			}
			return
		}
		wd.Lock()
		wd.start, wd.row, wd.fm, wd.in = time.Now(), idx, r.fm, r.in
		wd.Unlock()
		t := time.Now()
		res := safeDecode(ff(r.fm), r.in)
		ms := int(time.Since(t).Milliseconds())
		wd.Lock()
		wd.in = nil
		wd.Unlock()
		f := 1
		if r.fm == "xz" {
			f = 2
		}
		b2i := func(b bool) int {
			if b {
				return 1
			}
			return 0
		}
		rows = append(rows, []int{f, len(r.in), len(res.out), b2i(res.panic != ""), b2i(res.err != nil), len(res.rem), r.kind, ms})
		if len(r.in) > 0 && len(res.out)*maxRatioDen > maxRatioNum*len(r.in) {
			maxRatioNum, maxRatioDen = len(res.out), len(r.in)
		}
		if res.panic != "" {
			fmt.Fprintf(os.Stderr, "panic in row %d (%s, %s): %s\n", idx, r.fm, kinds[r.kind], res.panic)
		}
	})
	b, _ := json.Marshal(rows)
	if err := os.WriteFile(*outPath, b, 0o644); err != nil {
		fmt.Fprintln(os.Stderr, err)
		os.Exit(3)
	}
	kb, _ := json.Marshal(kinds)
	fmt.Printf("{\"rows\":%d,\"max_ratio_out\":%d,\"max_ratio_in\":%d,\"kinds\":%s}\n", len(rows), maxRatioNum, maxRatioDen, kb)
}

package main

// An independent walker for the .xz container and the .lzma ("LZMA alone")
// header.  It is written from the file-format documents
//   https://tukaani.org/xz/xz-file-format.txt  (sections 2.1, 3.1, 4, 5.3.1)
//   LZMA-SDK DOC/lzma-specification.txt        (the 13-byte header)
//   the LZMA2 chunk header table of LZMA-SDK C/Lzma2Dec.c
// and NOT from lib/litonlylzma: it does not assume one block, one index record,
// a 12-byte block header, CRC-32 as the check, chunk control bytes 0x01/0xE0 or
// absence of stream padding.  It only parses and reports fields; every
// judgement about the fields (which values are legal, what they have to add up
// to) is made by spec/XzLayout.tla and spec/LzmaAlone.tla when TLC validates
// the events.
//
// An event is one JSON object per parsed unit.  Every event carries "off" (the
// file offset of its first byte) and "len" (how many bytes it covers); the
// specification checks that the events tile the file without gap or overlap.

import (
	"bytes"
	"crypto/sha256"
	"encoding/binary"
	"hash/crc32"
	"hash/crc64"
)

type event map[string]interface{}

var xzMagic = []byte{0xFD, '7', 'z', 'X', 'Z', 0x00}

// readUvarint parses the XZ "multibyte integer" (section 1.2): little-endian
// base-128, at most 9 bytes.  n == 0 means malformed/truncated.  Overlong
// encodings (a final 0x00 byte that is not the only byte) are *parsed* and
// reported through the length; the specification compares the length with the
// minimal one.
func readUvarint(b []byte) (v uint64, n int) {
	for i := 0; i < 9 && i < len(b); i++ {
		v |= uint64(b[i]&0x7F) << (7 * uint(i))
		if b[i]&0x80 == 0 {
			return v, i + 1
		}
	}
	return 0, 0
}

func allZero(b []byte) bool {
	for _, c := range b {
		if c != 0 {
			return false
		}
	}
	return true
}

// clampInt keeps numbers inside TLC's 32-bit integers; big is reported apart.
func clampInt(v uint64) (int, bool) {
	if v >= 1<<30 {
		return 0, true
	}
	return int(v), false
}

func crcOK(data []byte, stored []byte) bool {
	return len(stored) == 4 && crc32.ChecksumIEEE(data) == binary.LittleEndian.Uint32(stored)
}

func checkLen(t int) int {
	// xz-file-format.txt 2.1.1.2: size of the Check field by Check ID.
	switch {
	case t == 0:
		return 0
	case t <= 3:
		return 4
	case t <= 6:
		return 8
	case t <= 9:
		return 16
	case t <= 12:
		return 32
	}
	return 64
}

// checkMatches computes the integrity check of `data` for the check types that
// have a definition (0 none, 1 CRC32, 4 CRC64/ECMA, 10 SHA-256).
func checkMatches(t int, data []byte, stored []byte) bool {
	switch t {
	case 0:
		return len(stored) == 0
	case 1:
		return crcOK(data, stored)
	case 4:
		return len(stored) == 8 &&
			crc64.Checksum(data, crc64.MakeTable(crc64.ECMA)) == binary.LittleEndian.Uint64(stored)
	case 10:
		h := sha256.Sum256(data)
		return bytes.Equal(h[:], stored)
	}
	return false
}

func malformed(off int, why string) event {
	return event{"ev": "malformed", "off": off, "len": 0, "why": why}
}

// walkXz parses a complete .xz file.  `payload` is the byte string the file is
// supposed to decode to; it is used only to judge the Check fields (the walker
// does not decode LZMA data: that is what the three decoders are for).
func walkXz(f []byte, payload []byte) []event {
	evs := []event{}
	p := 0
	uoff := 0 // uncompressed offset of the current block inside payload
	for {
		// ---- Stream Header (12 bytes).
		if len(f)-p < 12 {
			return append(evs, malformed(p, "truncated stream header"))
		}
		evs = append(evs, event{"ev": "sheader", "off": p, "len": 12,
			"magic": bytes.Equal(f[p:p+6], xzMagic),
			"flag0": int(f[p+6]), "flag1": int(f[p+7]),
			"crc": crcOK(f[p+6:p+8], f[p+8:p+12])})
		checkType := int(f[p+7] & 0x0F)
		p += 12

		// ---- Blocks.
		for {
			if p >= len(f) {
				return append(evs, malformed(p, "truncated before index"))
			}
			if f[p] == 0x00 {
				break // Index Indicator.
			}
			hs := (int(f[p]) + 1) * 4
			if len(f)-p < hs {
				return append(evs, malformed(p, "truncated block header"))
			}
			h := f[p : p+hs]
			e := event{"ev": "bheader", "off": p, "len": hs, "sizebyte": int(h[0]), "bflags": int(h[1]),
				"hasc": h[1]&0x40 != 0, "csize": 0, "clen": 0, "cbig": false,
				"hasu": h[1]&0x80 != 0, "usize": 0, "ulen": 0, "ubig": false,
				"nfilt": int(h[1]&3) + 1, "otherfids": true, "fid": 0, "fidlen": 0, "psize": 0, "dict": 0, "filtlen": 0,
				"padlen": 0, "padzero": true, "crc": crcOK(h[:hs-4], h[hs-4:])}
			q := 2
			lim := hs - 4
			bad := ""
			declC, declU := uint64(0), uint64(0)
			if h[1]&0x40 != 0 {
				v, n := readUvarint(h[q:lim])
				if n == 0 {
					bad = "bad compressed-size varint"
				}
				declC = v
				e["csize"], e["cbig"] = clampInt(v)
				e["clen"] = n
				q += n
			}
			if bad == "" && h[1]&0x80 != 0 {
				v, n := readUvarint(h[q:lim])
				if n == 0 {
					bad = "bad uncompressed-size varint"
				}
				declU = v
				e["usize"], e["ubig"] = clampInt(v)
				e["ulen"] = n
				q += n
			}
			_, _ = declC, declU
			lastID := uint64(0)
			filt0 := q
			for k := 0; bad == "" && k < int(h[1]&3)+1; k++ {
				id, n := readUvarint(h[q:lim])
				if n == 0 {
					bad = "bad filter id varint"
					break
				}
				q += n
				ps, m := readUvarint(h[q:lim])
				if m == 0 || uint64(lim-q-m) < ps {
					bad = "bad filter properties"
					break
				}
				q += m
				last := k == int(h[1]&3)
				if last {
					lastID = id
					fid, big := clampInt(id)
					if big {
						fid = 1 << 29
					}
					e["fid"] = fid
					e["fidlen"] = n
					e["psize"], _ = clampInt(ps)
					if ps >= 1 {
						e["dict"] = int(h[q])
					}
				} else if id < 0x03 || id > 0x0B {
					// Non-last filters defined by the format: Delta 0x03, BCJ 0x04..0x0B.
					e["otherfids"] = false
				}
				q += int(ps)
			}
			if bad != "" {
				return append(evs, malformed(p, bad))
			}
			e["filtlen"] = q - filt0
			e["padlen"] = lim - q
			e["padzero"] = allZero(h[q:lim])
			evs = append(evs, e)
			p += hs
			if lastID != 0x21 {
				return append(evs, malformed(p, "last filter is not LZMA2; cannot delimit compressed data"))
			}

			// ---- Compressed Data: LZMA2 chunks.
			usum := 0
			for {
				if p >= len(f) {
					return append(evs, malformed(p, "truncated chunk sequence"))
				}
				c := f[p]
				if c == 0x00 {
					evs = append(evs, event{"ev": "cend", "off": p, "len": 1})
					p++
					break
				}
				if c < 0x80 {
					// Uncompressed chunk (0x01, 0x02) or an invalid control byte
					// (0x03..0x7F): both have the 3-byte header shape.
					if len(f)-p < 3 {
						return append(evs, malformed(p, "truncated chunk header"))
					}
					n := int(binary.BigEndian.Uint16(f[p+1:p+3])) + 1
					if len(f)-p-3 < n {
						return append(evs, malformed(p, "truncated uncompressed chunk"))
					}
					evs = append(evs, event{"ev": "chunk", "off": p, "len": 3 + n, "ctrl": int(c), "hdrlen": 3,
						"usize": n, "csize": n, "hasprops": false, "props": 0, "first": 0, "initff": false})
					p += 3 + n
					usum += n
					continue
				}
				hl := 5
				if c >= 0xC0 {
					hl = 6
				}
				if len(f)-p < hl {
					return append(evs, malformed(p, "truncated chunk header"))
				}
				us := (int(c&0x1F) << 16) + int(binary.BigEndian.Uint16(f[p+1:p+3])) + 1
				cs := int(binary.BigEndian.Uint16(f[p+3:p+5])) + 1
				props := 0
				if hl == 6 {
					props = int(f[p+5])
				}
				if len(f)-p-hl < cs {
					return append(evs, malformed(p, "truncated LZMA chunk"))
				}
				evs = append(evs, event{"ev": "chunk", "off": p, "len": hl + cs, "ctrl": int(c), "hdrlen": hl,
					"usize": us, "csize": cs, "hasprops": hl == 6, "props": props, "first": int(f[p+hl]),
					"initff": cs >= 5 && bytes.Equal(f[p+hl+1:p+hl+5], []byte{0xFF, 0xFF, 0xFF, 0xFF})})
				p += hl + cs
				usum += us
			}

			// ---- Block Padding, Check.
			k := 0
			for (p+k)%4 != 0 && p+k < len(f) {
				k++
			}
			if (p+k)%4 != 0 {
				return append(evs, malformed(p, "truncated block padding"))
			}
			evs = append(evs, event{"ev": "bpad", "off": p, "len": k, "zero": allZero(f[p : p+k])})
			p += k
			cl := checkLen(checkType)
			if len(f)-p < cl {
				return append(evs, malformed(p, "truncated check"))
			}
			ok := false
			if uoff+usum <= len(payload) {
				ok = checkMatches(checkType, payload[uoff:uoff+usum], f[p:p+cl])
			}
			evs = append(evs, event{"ev": "check", "off": p, "len": cl, "ok": ok})
			p += cl
			uoff += usum
		}

		// ---- Index.
		istart := p
		nrec, n := readUvarint(f[p+1:])
		if n == 0 {
			return append(evs, malformed(p, "bad record-count varint"))
		}
		nr, big := clampInt(nrec)
		evs = append(evs, event{"ev": "ihead", "off": p, "len": 1 + n, "indicator": int(f[p]), "nrec": nr, "nrecbig": big, "nlen": n})
		p += 1 + n
		for r := uint64(0); r < nrec; r++ {
			if r >= 1<<16 {
				return append(evs, malformed(p, "more index records than this walker reports"))
			}
			a, an := readUvarint(f[p:])
			if an == 0 {
				return append(evs, malformed(p, "bad unpadded-size varint"))
			}
			b, bn := readUvarint(f[p+an:])
			if bn == 0 {
				return append(evs, malformed(p, "bad uncompressed-size varint"))
			}
			ai, abig := clampInt(a)
			bi, bbig := clampInt(b)
			evs = append(evs, event{"ev": "irec", "off": p, "len": an + bn, "unpadded": ai, "unlen": an, "uncomp": bi, "uclen": bn, "big": abig || bbig})
			p += an + bn
		}
		k := 0
		for (p+k-istart)%4 != 0 && p+k < len(f) {
			k++
		}
		if (p+k-istart)%4 != 0 || len(f)-(p+k) < 4 {
			return append(evs, malformed(p, "truncated index"))
		}
		evs = append(evs, event{"ev": "iend", "off": p, "len": k + 4, "padlen": k, "padzero": allZero(f[p : p+k]),
			"crc": crcOK(f[istart:p+k], f[p+k:p+k+4])})
		p += k + 4

		// ---- Stream Footer (12 bytes).
		if len(f)-p < 12 {
			return append(evs, malformed(p, "truncated stream footer"))
		}
		bs, bbig := clampInt(uint64(binary.LittleEndian.Uint32(f[p+4 : p+8])))
		evs = append(evs, event{"ev": "footer", "off": p, "len": 12, "crc": crcOK(f[p+4:p+10], f[p:p+4]),
			"bsize": bs, "bsizebig": bbig, "flag0": int(f[p+8]), "flag1": int(f[p+9]),
			"magic": f[p+10] == 'Y' && f[p+11] == 'Z'})
		p += 12

		// ---- Stream Padding / next stream / end of file.
		k = 0
		for p+k < len(f) && f[p+k] == 0x00 {
			k++
		}
		if k > 0 {
			evs = append(evs, event{"ev": "spad", "off": p, "len": k})
			p += k
		}
		if p == len(f) {
			return evs
		}
		// Anything else has to be another stream; the loop reports what it finds.
	}
}

// walkLzma parses a .lzma file: the 13-byte header, then everything else is the
// range coder's byte stream.
func walkLzma(f []byte) []event {
	if len(f) < 13 {
		return []event{malformed(0, "truncated .lzma header")}
	}
	us := binary.LittleEndian.Uint64(f[5:13])
	known := us != 0xFFFFFFFFFFFFFFFF
	usz, big := 0, false
	if known {
		usz, big = clampInt(us)
	}
	d := binary.LittleEndian.Uint32(f[1:5])
	// The dictionary size is a u32: split in two 16-bit halves for TLC.
	evs := []event{{"ev": "lheader", "off": 0, "len": 13, "props": int(f[0]),
		"dictlo": int(d & 0xFFFF), "dicthi": int(d >> 16), "known": known, "usize": usz, "ubig": big}}
	first := -1
	if len(f) > 13 {
		first = int(f[13])
	}
	return append(evs, event{"ev": "lpayload", "off": 13, "len": len(f) - 13, "first": first,
		"initff": len(f) >= 18 && bytes.Equal(f[14:18], []byte{0xFF, 0xFF, 0xFF, 0xFF})})
}

package main

// lzmareplay -mode rows: exhaustive-by-structure tables for spec/RangeCoder.tla.
//
// Every payload of a small family is encoded with /repo's litonlylzma; one row
// per (format, payload) records the payload, the WHOLE encoded file and what
// three decoders said about it:
//
//	[fmt, z, np, rt, rem, xz, wf, p_1 .. p_np, e_1 .. e_m]
//
//	fmt  1 = FileFormatLZMA, 2 = FileFormatXz
//	z    number of 0x00 bytes that follow the explicit payload prefix
//	np   length of the explicit payload prefix p_1 .. p_np
//	rt   litonlylzma.Decode on the file: 1 returned exactly the payload,
//	     2 error, 3 other bytes, 4 panic, 5 Encode itself failed/panicked
//	rem  length of the remaining-source slice Decode returned
//	xz   `xz -dc` (ONE process for the concatenation of all .xz rows of a
//	     file set): 1 this row's stream decoded to the payload, 0 it did not,
//	     2 not examined (.lzma rows; xz missing; after the 6th failing row)
//	wf   the Wuffs std/lzma resp. std/xz decoder (batch mode of wuffsdec):
//	     1 accepted and wrote the payload, 0 did not, 2 not examined
//	e    the bytes Encode wrote
//
// TLC decodes e with the specification's own range decoder
// (spec/RangeCoderRows.tla).  Nothing is judged here.
//
// Families (-family a,b,...; see familyRows):
//	lzma2   .lzma, every payload of length 0, 1, 2              (65793 rows)
//	xz2     .xz,   every payload of length 0, 1, 2              (65793 rows; stored chunks)
//	xzzN    .xz,   every 2-byte prefix followed by N zeros      (65536 rows; LZMA chunks for N >= 30)
//	lzmazN  .lzma, every 2-byte prefix followed by N zeros      (65536 rows)
// "name/b.b.b" restricts the second byte (quick tier: the boundary set that
// spec/RangeCoderRare.tla derives); -first / -second likewise for all.
// -hexrows adds explicit payloads ("hex[:z]" comma separated) in both formats.

import (
	"bufio"
	"bytes"
	"encoding/binary"
	"encoding/hex"
	"encoding/json"
	"flag"
	"fmt"
	"io"
	"os"
	"os/exec"
	"path/filepath"
	"strconv"
	"strings"
)

var (
	family  = flag.String("family", "lzma2", "")
	second  = flag.String("second", "", "comma separated second bytes (default: all)")
	first   = flag.String("first", "", "comma separated first bytes (default: all)")
	hexRows = flag.String("hexrows", "", "explicit payloads hex[:zeros],...")
	shards  = flag.Int("shards", 1, "number of row files")
	outDir  = flag.String("outdir", "", "")
	onlyRow = flag.String("row", "", "mode rowone: fmt:hex:z")
)

type rowT struct {
	fm     int
	prefix []byte
	z      int
	enc    []byte
	rt     int
	rem    int
	xz     int
	wf     int
}

func (r *rowT) payload() []byte {
	p := make([]byte, len(r.prefix)+r.z)
	copy(p, r.prefix)
	return p
}

func byteList(s string) []int {
	if s == "" {
		l := make([]int, 256)
		for i := range l {
			l[i] = i
		}
		return l
	}
	l := []int{}
	for _, f := range strings.Split(s, ",") {
		v, err := strconv.Atoi(strings.TrimSpace(f))
		if err == nil && v >= 0 && v < 256 {
			l = append(l, v)
		}
	}
	return l
}

func fmName(f int) string {
	if f == 1 {
		return "lzma"
	}
	return "xz"
}

func fillRow(r *rowT) {
	x := r.payload()
	enc, err, pan := safeEncode(ff(fmName(r.fm)), x)
	r.xz, r.wf = 2, 2
	if err != nil || pan != "" {
		r.rt = 5
		return
	}
	r.enc = enc
	d := safeDecode(ff(fmName(r.fm)), enc)
	r.rem = len(d.rem)
	switch {
	case d.panic != "":
		r.rt = 4
	case d.err != nil:
		r.rt = 2
	case !bytes.Equal(d.out, x):
		r.rt = 3
	default:
		r.rt = 1
	}
}

// xzBatch decodes the concatenation of the .xz rows with one xz process (per
// attempt).  Concatenated streams decode to the concatenated payloads; the
// first position at which the output stops or differs names the failing row,
// after which the rest is tried again.
func xzBatch(rows []*rowT) (procs int) {
	if _, e := os.Stat(*xzPath); e != nil {
		return 0
	}
	idx := []int{}
	for i, r := range rows {
		if r.fm == 2 && r.rt != 5 {
			idx = append(idx, i)
		}
	}
	fails := 0
	for len(idx) > 0 && fails < 6 {
		var in bytes.Buffer
		for _, i := range idx {
			in.Write(rows[i].enc)
		}
		out, _, _ := runTool(*xzPath, []string{"-dc", "--format=xz"}, in.Bytes())
		procs++
		off := 0
		bad := -1
		for k, i := range idx {
			p := rows[i].payload()
			if off+len(p) > len(out) || !bytes.Equal(out[off:off+len(p)], p) {
				bad = k
				break
			}
			// A zero-length payload cannot be told from "xz stopped here":
			// it is confirmed only if something later or the end is reached.
			off += len(p)
			rows[i].xz = 1
		}
		if bad < 0 {
			if off != len(out) {
				// extra output after the last stream: blame the last row
				rows[idx[len(idx)-1]].xz = 0
			}
			return procs
		}
		// Zero-length rows just before the failing one were not really
		// confirmed: re-examine them alone with the failing one.
		start := bad
		for start > 0 && len(rows[idx[start-1]].payload()) == 0 {
			start--
		}
		for k := start; k <= bad; k++ {
			i := idx[k]
			o, ok, _ := runTool(*xzPath, []string{"-dc", "--format=xz"}, rows[i].enc)
			procs++
			if ok && bytes.Equal(o, rows[i].payload()) {
				rows[i].xz = 1
			} else {
				rows[i].xz = 0
				fails++
			}
		}
		idx = idx[bad+1:]
	}
	return procs
}

// wuffsBatch runs every row through the Wuffs decoders in one process.
func wuffsBatch(rows []*rowT) error {
	if *wuffs == "" {
		return nil
	}
	var in bytes.Buffer
	n := 0
	for _, r := range rows {
		if r.rt == 5 {
			continue
		}
		in.WriteByte("?lx"[r.fm])
		var l [4]byte
		binary.LittleEndian.PutUint32(l[:], uint32(len(r.enc)))
		in.Write(l[:])
		in.Write(r.enc)
		n++
	}
	cmd := exec.Command(*wuffs, "batch")
	cmd.Stdin = &in
	var out, errb bytes.Buffer
	cmd.Stdout = &out
	cmd.Stderr = &errb
	if err := cmd.Run(); err != nil {
		return fmt.Errorf("wuffsdec batch: %v: %s", err, errb.String())
	}
	rd := bytes.NewReader(out.Bytes())
	for _, r := range rows {
		if r.rt == 5 {
			continue
		}
		var hdr [9]byte
		if _, err := io.ReadFull(rd, hdr[:]); err != nil {
			return fmt.Errorf("wuffsdec batch: short output")
		}
		left := binary.LittleEndian.Uint32(hdr[1:5])
		ol := binary.LittleEndian.Uint32(hdr[5:9])
		o := make([]byte, ol)
		if _, err := io.ReadFull(rd, o); err != nil {
			return fmt.Errorf("wuffsdec batch: short output")
		}
		if hdr[0] == 0 && left == 0 && bytes.Equal(o, r.payload()) {
			r.wf = 1
		} else {
			r.wf = 0
		}
	}
	return nil
}

func writeRows(path string, rows []*rowT) error {
	f, err := os.Create(path)
	if err != nil {
		return err
	}
	w := bufio.NewWriterSize(f, 1<<20)
	w.WriteByte('[')
	for i, r := range rows {
		if i > 0 {
			w.WriteString(",\n")
		}
		fmt.Fprintf(w, "[%d,%d,%d,%d,%d,%d,%d", r.fm, r.z, len(r.prefix), r.rt, r.rem, r.xz, r.wf)
		for _, b := range r.prefix {
			fmt.Fprintf(w, ",%d", b)
		}
		for _, b := range r.enc {
			fmt.Fprintf(w, ",%d", b)
		}
		w.WriteByte(']')
	}
	w.WriteString("]\n")
	if err := w.Flush(); err != nil {
		return err
	}
	return f.Close()
}

// familyRows: "name[/b.b.b]" - the optional list restricts the second byte
// (default -second).  Names: lzma2, xz2 (no padding), xzzN / lzmazN (N zero
// bytes after the two-byte prefix; N defaults to 30, the least padding for
// which litonlylzma stores every prefix in an LZMA chunk rather than in an
// uncompressed one).
func familyRows(fam string) []*rowT {
	rows := []*rowT{}
	firsts, seconds := byteList(*first), byteList(*second)
	if i := strings.IndexByte(fam, '/'); i >= 0 {
		seconds = byteList(strings.ReplaceAll(fam[i+1:], ".", ","))
		fam = fam[:i]
	}
	two := func(fm, z int) {
		for _, a := range firsts {
			for _, b := range seconds {
				rows = append(rows, &rowT{fm: fm, prefix: []byte{byte(a), byte(b)}, z: z})
			}
		}
	}
	short := func(fm int) {
		rows = append(rows, &rowT{fm: fm, prefix: []byte{}})
		for a := 0; a < 256; a++ {
			rows = append(rows, &rowT{fm: fm, prefix: []byte{byte(a)}})
		}
	}
	pad := func(name string) int {
		z := 30
		if len(fam) > len(name) {
			z, _ = strconv.Atoi(fam[len(name):])
		}
		return z
	}
	switch {
	case fam == "lzma2":
		short(1)
		two(1, 0)
	case fam == "xz2":
		short(2)
		two(2, 0)
	case strings.HasPrefix(fam, "xzz"):
		two(2, pad("xzz"))
	case strings.HasPrefix(fam, "lzmaz"):
		two(1, pad("lzmaz"))
	case fam == "none" || fam == "":
	default:
		fmt.Fprintln(os.Stderr, "bad -family "+fam)
		os.Exit(3)
	}
	return rows
}

func parseHexRows(s string) []*rowT {
	rows := []*rowT{}
	for _, f := range strings.Split(s, ",") {
		f = strings.TrimSpace(f)
		if f == "" {
			continue
		}
		z := 0
		if i := strings.IndexByte(f, ':'); i >= 0 {
			z, _ = strconv.Atoi(f[i+1:])
			f = f[:i]
		}
		b, err := hex.DecodeString(f)
		if err != nil {
			fmt.Fprintln(os.Stderr, "bad -hexrows entry "+f)
			os.Exit(3)
		}
		for fm := 1; fm <= 2; fm++ {
			rows = append(rows, &rowT{fm: fm, prefix: b, z: z})
		}
	}
	return rows
}

func rowsMode() {
	rows := []*rowT{}
	for _, fam := range strings.Split(*family, ",") {
		rows = append(rows, familyRows(strings.TrimSpace(fam))...)
	}
	rows = append(rows, parseHexRows(*hexRows)...)
	for _, r := range rows {
		fillRow(r)
	}
	procs := xzBatch(rows)
	if err := wuffsBatch(rows); err != nil {
		fmt.Fprintln(os.Stderr, err)
		os.Exit(3)
	}
	n := *shards
	if n < 1 {
		n = 1
	}
	// Interleave so that the shards cost the same.
	parts := make([][]*rowT, n)
	for i, r := range rows {
		parts[i%n] = append(parts[i%n], r)
	}
	files := []string{}
	for i, p := range parts {
		path := filepath.Join(*outDir, fmt.Sprintf("rows-%d.json", i))
		if err := writeRows(path, p); err != nil {
			fmt.Fprintln(os.Stderr, err)
			os.Exit(3)
		}
		files = append(files, path)
	}
	st := map[string]interface{}{"rows": len(rows), "files": files, "xz_processes": procs}
	cnt := map[string]int{}
	lzchunk := 0
	for _, r := range rows {
		cnt[fmt.Sprintf("%s/z%d/len%d", fmName(r.fm), r.z, len(r.prefix))]++
		if r.fm == 2 && len(r.enc) > 24 && r.enc[24] >= 0x80 {
			lzchunk++
		}
	}
	st["by_family"] = cnt
	st["xz_rows_with_lzma_chunk"] = lzchunk
	b, _ := json.Marshal(st)
	fmt.Println(string(b))
}

// rowOne: one row again, alone, with the per-file decoders (reproduction).
func rowOne() {
	parts := strings.Split(*onlyRow, ":")
	if len(parts) != 3 {
		fmt.Fprintln(os.Stderr, "-row fmt:hex:z")
		os.Exit(3)
	}
	fm := 1
	if parts[0] == "xz" || parts[0] == "2" {
		fm = 2
	}
	b, _ := hex.DecodeString(parts[1])
	z, _ := strconv.Atoi(parts[2])
	r := &rowT{fm: fm, prefix: b, z: z}
	fillRow(r)
	detail := map[string]string{}
	if r.rt != 5 {
		if _, e := os.Stat(*xzPath); e == nil {
			o, ok, se := runTool(*xzPath, []string{"-dc", "--format=" + fmName(fm)}, r.enc)
			if ok && bytes.Equal(o, r.payload()) {
				r.xz = 1
			} else {
				r.xz = 0
				detail["xz"] = se
			}
		}
		if *wuffs != "" {
			o, ok, se := runTool(*wuffs, []string{fmName(fm)}, r.enc)
			if ok && bytes.Equal(o, r.payload()) {
				r.wf = 1
			} else {
				r.wf = 0
				detail["wuffs"] = se
			}
		}
	}
	if err := writeRows(*outPath, []*rowT{r}); err != nil {
		fmt.Fprintln(os.Stderr, err)
		os.Exit(3)
	}
	b2, _ := json.Marshal(map[string]interface{}{"fmt": fmName(fm), "rt": r.rt, "rem": r.rem, "xz": r.xz, "wf": r.wf,
		"encoded_hex": hex.EncodeToString(r.enc), "detail": detail})
	fmt.Println(string(b2))
}

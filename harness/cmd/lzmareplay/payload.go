package main

// Payload classes of C17 (spec/XzLayout.tla, "boundary analysis"): lengths
// around the 64 KiB chunk partition and the 2 MiB LZMA2 chunk limit, contents
// that stress the range coder (all-0x00, all-0xFF, incompressible, text,
// alternating) and "chain" payloads that are steered, with a generator-side
// model of a standard LZMA range encoder, into long runs of pending 0xFF bytes
// that are then resolved without / with a carry.
//
// The model below is used ONLY to choose inputs (DESIGN 2.2: an implementation
// level model may generate scripts; acceptance stays at property level).  What
// the real encoder does with these inputs is judged by TLC on the walker's
// events and by three independent decoders.

import (
	"encoding/hex"
	"math/rand"
	"strconv"
	"strings"
)

var words = strings.Fields(`the of and to in is that it was for on are as with his they at be this from
have or by one had not but what all were when we there can an your which their said if do will each about how
up out them then she many some so these would other into has more her two like him see time could no make than
first been its who now people my made over did down only way find use may water long little very after words
called just where most know get through back much before go good new write our used me man too any day same
right look think also around another came come work three word must because does part even place well such here
take why things help put years different away again off went old number great tell men say small every found
still between name should home big give air line set own under read last never us left end along while might
next sound below saw something thought both few those always looked show large often together asked house`)

func makePayload(class string, n int, seed int64) []byte {
	b := make([]byte, n)
	rng := rand.New(rand.NewSource(seed*1000003 + int64(n)))
	if strings.HasPrefix(class, "hex:") {
		// Explicit bytes (payloads that spec/RangeCoderReach.tla found to
		// reach a rare encoder state), padded with zeros up to n.
		h, err := hex.DecodeString(class[4:])
		if err != nil {
			panic("bad hex payload class " + class)
		}
		copy(b, h)
		return b
	}
	if strings.HasPrefix(class, "rz:") || strings.HasPrefix(class, "trz:") {
		// Boundary-directed class for the compressed-vs-uncompressed chunk
		// choice (XzLayout: an LZMA chunk's packed size has 16 bits, a chunk
		// may always be stored instead): the last chunk of the payload is
		// N pseudo-random bytes followed by zeros.  The random bytes depend
		// on the seed only, so the prefixes nest and the range-coded size
		// grows (almost) monotonically with N.  "trz" puts a full 64 KiB
		// chunk of text in front, making it the second chunk.
		nn, err := strconv.Atoi(class[strings.IndexByte(class, ':')+1:])
		start := 0
		if class[0] == 't' {
			start = 65536
			if n < start {
				start = n
			}
			copy(b[:start], makePayload("text", start, seed))
		}
		if err != nil || nn < 0 || start+nn > n {
			nn = n - start
		}
		rand.New(rand.NewSource(seed)).Read(b[start : start+nn])
		return b
	}
	switch class {
	case "zero":
	case "ff":
		for i := range b {
			b[i] = 0xFF
		}
	case "random":
		rng.Read(b)
	case "alt":
		// 0x00 0xFF 0x00 0xFF ...: every literal context (prev>>5 = 0 or 7)
		// sees only its own extreme byte.
		for i := range b {
			if i&1 == 1 {
				b[i] = 0xFF
			}
		}
	case "text":
		i := 0
		for i < n {
			w := words[rng.Intn(len(words))]
			i += copy(b[i:], w)
			if i < n {
				if rng.Intn(12) == 0 {
					b[i] = '\n'
				} else {
					b[i] = ' '
				}
				i++
			}
		}
	case "ffrandom":
		// runs of 0xFF of random length separated by single random bytes
		for i := 0; i < n; {
			run := 1 + rng.Intn(600)
			for k := 0; k < run && i < n; k++ {
				b[i] = 0xFF
				i++
			}
			if i < n {
				b[i] = byte(rng.Intn(256))
				i++
			}
		}
	case "randtext":
		// 64 KiB of incompressible bytes (a stored chunk), then text (a range-coded chunk)
		k := 65536
		if k > n {
			k = n
		}
		rng.Read(b[:k])
		copy(b[k:], makePayload("text", n-k, seed+1))
	case "chain", "chaincarry":
		st := steer(b, rng, class == "chaincarry")
		lastSteer = st
	default:
		panic("unknown payload class " + class)
	}
	return b
}

// ---------------------------------------------------------------------------
// Generator-side model: the textbook LZMA range encoder (LZMA-SDK LzmaEnc.c
// RangeEnc_ShiftLow / RangeEnc_EncodeBit) for a literal-only stream with
// lc=3, lp=0, pb=2, extended with a "target" T (a number with a terminating
// base-256 expansion that lies inside the current coding interval).  d is the
// offset of T above `low`.  Choosing every literal bit so that T stays inside
// the interval keeps the top byte of `low` at 0xFF at every shift: the encoder
// accumulates one more pending byte each time.

type steerStats struct {
	MaxPending      int  `json:"max_pending"`       // longest cacheSize-1 seen by the model
	MaxCarryPending int  `json:"max_carry_pending"` // longest pending run that was resolved by a carry
	Carries         int  `json:"carries"`
	Retargets       int  `json:"retargets"`
	Carry           bool `json:"carry_variant"`
}

var lastSteer steerStats

type rcModel struct {
	low       uint64
	rng       uint32
	cacheSize int
	probPos   [4]uint16
	probLit   [8][256]uint16
	d         uint64 // target offset above low; valid iff hasT
	hasT      bool
	st        *steerStats
}

func (m *rcModel) shiftLow() {
	if uint32(m.low) < 0xFF000000 || (m.low>>32) != 0 {
		pend := m.cacheSize - 1
		if pend > m.st.MaxPending {
			m.st.MaxPending = pend
		}
		if (m.low >> 32) != 0 {
			m.st.Carries++
			if pend > m.st.MaxCarryPending {
				m.st.MaxCarryPending = pend
			}
		}
		m.cacheSize = 0
	}
	m.cacheSize++
	m.low = (m.low & 0x00FFFFFF) << 8
}

// bit encodes one bit with probability *p.  want < 0: choose the bit that keeps
// the target inside the interval (if there is a target), else `want`.
func (m *rcModel) bit(p *uint16, want int) int {
	bound := (m.rng >> 11) * uint32(*p)
	b := want
	if want < 0 {
		b = 0
		if m.hasT && m.d >= uint64(bound) {
			b = 1
		}
	}
	if b == 0 {
		m.rng = bound
		*p += (2048 - *p) >> 5
		if m.hasT && m.d >= uint64(bound) {
			m.hasT = false // the interval moved below the target
		}
	} else {
		m.low += uint64(bound)
		m.rng -= bound
		*p -= *p >> 5
		if m.hasT {
			if m.d >= uint64(bound) {
				m.d -= uint64(bound)
			} else {
				m.hasT = false // the interval moved above the target: a carry follows
			}
		}
	}
	for m.rng < 1<<24 {
		m.rng <<= 8
		m.d <<= 8
		m.shiftLow()
	}
	return b
}

// retarget picks a target inside [low, low+limit) whose expansion terminates
// at the finest digit that still fits.
func (m *rcModel) retarget(limit uint32) {
	g := uint(0)
	for (uint64(1) << (g + 1)) <= uint64(limit) {
		g++
	}
	if g < 2 {
		m.hasT = false
		return
	}
	g-- // 2^g <= limit/2
	mod := uint64(1) << g
	d := (mod - (m.low & (mod - 1))) & (mod - 1)
	if d == 0 {
		d = mod
	}
	m.d = d
	m.hasT = true
	m.st.Retargets++
}

func steer(out []byte, rng *rand.Rand, carry bool) steerStats {
	st := steerStats{Carry: carry}
	m := &rcModel{rng: 0xFFFFFFFF, cacheSize: 1, st: &st}
	for i := range m.probPos {
		m.probPos[i] = 1024
	}
	for i := range m.probLit {
		for j := range m.probLit[i] {
			m.probLit[i][j] = 1024
		}
	}
	n := len(out)
	// Warm-up with a seeded mixture so that the is-match probabilities adapt
	// (then the literal-only constraint rarely excludes the target).
	warm := n / 4
	if warm > 3000 {
		warm = 3000
	}
	prev := byte(0)
	for i := 0; i < n; i++ {
		last := i == n-1
		pp := &m.probPos[i&3]
		if i >= warm && !last {
			bound := (m.rng >> 11) * uint32(*pp)
			if !m.hasT || m.d >= uint64(bound) {
				m.retarget(bound)
			}
		}
		m.bit(pp, 0)
		lit := &m.probLit[prev>>5]
		idx := 1
		var cur byte
		for k := 7; k >= 0; k-- {
			want := -1
			if i < warm {
				want = 0
				if rng.Intn(40) == 0 {
					want = 1
				}
			} else if last && carry && m.hasT {
				// leave the target below: the first bit that could go either
				// way is forced to 1, resolving the pending run with a carry.
				want = 1
			} else if last && !m.hasT {
				want = 0
			}
			b := m.bit(&lit[idx], want)
			idx = idx<<1 | b
			cur = cur<<1 | byte(b)
		}
		out[i] = cur
		prev = cur
	}
	for i := 0; i < 5; i++ {
		m.shiftLow()
	}
	return st
}

// wuffsdec: decode stdin with the Wuffs std/lzma or std/xz decoder (C generated
// from the working tree by the check, see checks/C17.py) and write the decoded
// bytes to stdout.  usage: wuffsdec lzma|xz < in > out
//
// stderr gets one line "status=<message or ok> left=<unread input bytes>".
// Exit code 0 iff the decoder returned ok.
//        wuffsdec batch < records > results   (many small files in one process,
//        see batch() below)
//
// Compile with  -DWUFFS_SNAPSHOT='"<path>/wuffs-unsupported-snapshot.c"'.

#include <errno.h>
#include <stdio.h>
#include <stdlib.h>
#include <string.h>
#include <unistd.h>

#define WUFFS_IMPLEMENTATION
#define WUFFS_CONFIG__STATIC_FUNCTIONS
#define WUFFS_CONFIG__MODULES
#define WUFFS_CONFIG__MODULE__BASE
#define WUFFS_CONFIG__MODULE__CRC32
#define WUFFS_CONFIG__MODULE__CRC64
#define WUFFS_CONFIG__MODULE__LZMA
#define WUFFS_CONFIG__MODULE__SHA256
#define WUFFS_CONFIG__MODULE__XZ
#include WUFFS_SNAPSHOT

// The destination buffer is deliberately small and odd-sized so that the
// decoders are suspended and resumed many times ("$short write").
#define DST_LEN 40001
#define WORKBUF_LEN (16 * 1024 * 1024)

static uint8_t g_dst[DST_LEN];
static uint8_t g_workbuf[WORKBUF_LEN];

static union {
  wuffs_lzma__decoder lzma;
  wuffs_xz__decoder xz;
} g_dec;

static int write_all(const uint8_t* p, size_t n) {
  while (n > 0) {
    ssize_t k = write(1, p, n);
    if (k < 0) {
      if (errno == EINTR) {
        continue;
      }
      return -1;
    }
    p += k;
    n -= (size_t)k;
  }
  return 0;
}

static void put_u32le(uint8_t* p, uint32_t v) {
  p[0] = (uint8_t)(v >> 0);
  p[1] = (uint8_t)(v >> 8);
  p[2] = (uint8_t)(v >> 16);
  p[3] = (uint8_t)(v >> 24);
}

// Batch mode: stdin is a sequence of records  'l'|'x', u32le n, n bytes; for
// each record stdout gets  u8 status (0 = ok, 1 = not ok), u32le unread input
// bytes, u32le output length, output bytes.  Outputs longer than BATCH_OUT are
// not supported (status 1): the batch is for the many tiny files.
#define BATCH_OUT (1 << 20)
static uint8_t g_bout[BATCH_OUT];

static int batch(const uint8_t* in, size_t len) {
  size_t pos = 0;
  FILE* out = stdout;
  while (pos < len) {
    if (len - pos < 5) {
      return 3;
    }
    int kind = in[pos];
    size_t n = (size_t)in[pos + 1] | ((size_t)in[pos + 2] << 8) | ((size_t)in[pos + 3] << 16) | ((size_t)in[pos + 4] << 24);
    pos += 5;
    if (len - pos < n) {
      return 3;
    }
    wuffs_base__status st;
    wuffs_base__io_transformer* t;
    if (kind == 'l') {
      st = wuffs_lzma__decoder__initialize(&g_dec.lzma, sizeof g_dec.lzma, WUFFS_VERSION,
                                           WUFFS_INITIALIZE__DEFAULT_OPTIONS);
      t = wuffs_lzma__decoder__upcast_as__wuffs_base__io_transformer(&g_dec.lzma);
    } else {
      st = wuffs_xz__decoder__initialize(&g_dec.xz, sizeof g_dec.xz, WUFFS_VERSION,
                                         WUFFS_INITIALIZE__DEFAULT_OPTIONS);
      t = wuffs_xz__decoder__upcast_as__wuffs_base__io_transformer(&g_dec.xz);
    }
    uint8_t hdr[9];
    wuffs_base__io_buffer src = wuffs_base__ptr_u8__reader((uint8_t*)(in + pos), n, true);
    wuffs_base__io_buffer dst = wuffs_base__ptr_u8__writer(g_bout, BATCH_OUT);
    if (wuffs_base__status__is_ok(&st)) {
      st = wuffs_base__io_transformer__transform_io(t, &dst, &src,
                                                    wuffs_base__make_slice_u8(g_workbuf, WORKBUF_LEN));
    }
    hdr[0] = wuffs_base__status__is_ok(&st) ? 0 : 1;
    put_u32le(hdr + 1, (uint32_t)(src.meta.wi - src.meta.ri));
    put_u32le(hdr + 5, (uint32_t)dst.meta.wi);
    if (fwrite(hdr, 1, 9, out) != 9 || fwrite(g_bout, 1, dst.meta.wi, out) != dst.meta.wi) {
      return 3;
    }
    pos += n;
  }
  return fflush(out) ? 3 : 0;
}

int main(int argc, char** argv) {
  if (argc != 2) {
    fprintf(stderr, "usage: wuffsdec lzma|xz|batch\n");
    return 3;
  }
  // Read all of stdin.
  size_t cap = 1 << 20, len = 0;
  uint8_t* in = (uint8_t*)malloc(cap);
  if (!in) {
    return 3;
  }
  while (1) {
    if (len == cap) {
      cap *= 2;
      in = (uint8_t*)realloc(in, cap);
      if (!in) {
        return 3;
      }
    }
    ssize_t k = read(0, in + len, cap - len);
    if (k < 0) {
      if (errno == EINTR) {
        continue;
      }
      return 3;
    }
    if (k == 0) {
      break;
    }
    len += (size_t)k;
  }

  if (!strcmp(argv[1], "batch")) {
    return batch(in, len);
  }

  wuffs_base__status st;
  wuffs_base__io_transformer* t;
  if (!strcmp(argv[1], "lzma")) {
    st = wuffs_lzma__decoder__initialize(&g_dec.lzma, sizeof g_dec.lzma, WUFFS_VERSION,
                                         WUFFS_INITIALIZE__DEFAULT_OPTIONS);
    t = wuffs_lzma__decoder__upcast_as__wuffs_base__io_transformer(&g_dec.lzma);
  } else if (!strcmp(argv[1], "xz")) {
    st = wuffs_xz__decoder__initialize(&g_dec.xz, sizeof g_dec.xz, WUFFS_VERSION,
                                       WUFFS_INITIALIZE__DEFAULT_OPTIONS);
    t = wuffs_xz__decoder__upcast_as__wuffs_base__io_transformer(&g_dec.xz);
  } else {
    return 3;
  }
  if (!wuffs_base__status__is_ok(&st)) {
    fprintf(stderr, "status=%s left=%zu\n", wuffs_base__status__message(&st), len);
    return 3;
  }

  wuffs_base__io_buffer src = wuffs_base__ptr_u8__reader(in, len, true);
  wuffs_base__io_buffer dst = wuffs_base__ptr_u8__writer(g_dst, DST_LEN);
  while (1) {
    st = wuffs_base__io_transformer__transform_io(t, &dst, &src,
                                                  wuffs_base__make_slice_u8(g_workbuf, WORKBUF_LEN));
    if (dst.meta.ri < dst.meta.wi) {
      if (write_all(g_dst + dst.meta.ri, dst.meta.wi - dst.meta.ri)) {
        return 3;
      }
      dst.meta.ri = dst.meta.wi;
      wuffs_base__optional_u63 hrl = wuffs_base__io_transformer__dst_history_retain_length(t);
      wuffs_base__io_buffer__compact_retaining(&dst, wuffs_base__optional_u63__value_or(&hrl, UINT64_MAX));
      if (dst.meta.wi == dst.data.len) {
        fprintf(stderr, "status=driver: history does not fit left=%zu\n", (size_t)(src.meta.wi - src.meta.ri));
        return 3;
      }
    }
    if (st.repr == wuffs_base__suspension__short_write) {
      continue;
    }
    break;  // ok, an error, or "$short read" on a closed source (cannot happen: it is reported as truncated input)
  }
  fprintf(stderr, "status=%s left=%zu\n", st.repr ? st.repr : "ok", (size_t)(src.meta.wi - src.meta.ri));
  return wuffs_base__status__is_ok(&st) ? 0 : 1;
}

// lzmareplay drives github.com/google/wuffs/lib/litonlylzma (from the working
// tree named by the harness module's `replace`) for property C17 and records
// what it did as events that TLC validates against spec/XzLayout.tla and
// spec/LzmaAlone.tla (through spec/trace/Trace_XzLayout.tla).
//
//	lzmareplay -mode traces -tier quick|thorough -seed N -out trace.ndjson
//	           -xz /root/miniconda/bin/xz -wuffs /path/to/wuffsdec [-stats s.json]
//	    payload classes x {lzma, xz}: Encode, walk the output into events, and
//	    record in the final "eof" event of each trace what three decoders said.
//	lzmareplay -mode one -fmt xz -class ff -plen 65537 -pseed 3 ...
//	    the same for one payload (replay of a finding); -dump FILE keeps the
//	    encoded bytes.
//	lzmareplay -mode total -tier .. -seed N -out rows.json
//	    Decode on arbitrary / truncated / mutated bytes: one row per call
//	    [fmt, inlen, outlen, panicked, err, remlen, kind].
//	lzmareplay -mode decodeone -fmt xz -in FILE
//	    one Decode call (watchdog confirmation).
//
// This program judges nothing: it drives, records and transports.
package main

import (
	"bufio"
	"bytes"
	"encoding/json"
	"flag"
	"fmt"
	"math/rand"
	"os"
	"os/exec"
	"strings"
	"time"

	"github.com/google/wuffs/lib/litonlylzma"
)

var (
	mode    = flag.String("mode", "traces", "")
	tier    = flag.String("tier", "quick", "")
	seed    = flag.Int64("seed", 1, "")
	outPath = flag.String("out", "", "")
	xzPath  = flag.String("xz", "/root/miniconda/bin/xz", "")
	wuffs   = flag.String("wuffs", "", "wuffs std/lzma + std/xz driver binary")
	stats   = flag.String("stats", "", "")
	fmtFlag = flag.String("fmt", "xz", "")
	class   = flag.String("class", "zero", "")
	plen    = flag.Int("plen", 0, "")
	pseed   = flag.Int64("pseed", 1, "")
	inPath  = flag.String("in", "", "")
	dump    = flag.String("dump", "", "")
	hangDir = flag.String("hangdir", "", "directory for inputs that trip the watchdog")
)

func ff(name string) litonlylzma.FileFormat {
	if name == "lzma" {
		return litonlylzma.FileFormatLZMA
	}
	return litonlylzma.FileFormatXz
}

type result struct {
	out   []byte
	rem   []byte
	err   error
	panic string
}

// safeDecode calls Decode under recover.
func safeDecode(f litonlylzma.FileFormat, in []byte) (r result) {
	defer func() {
		if p := recover(); p != nil {
			r.panic = fmt.Sprint(p)
		}
	}()
	r.out, r.rem, r.err = f.Decode(nil, in)
	return r
}

func safeEncode(f litonlylzma.FileFormat, in []byte) (out []byte, err error, pan string) {
	defer func() {
		if p := recover(); p != nil {
			pan = fmt.Sprint(p)
		}
	}()
	out, err = f.Encode(nil, in)
	return
}

func runTool(name string, args []string, in []byte) (out []byte, ok bool, stderr string) {
	cmd := exec.Command(name, args...)
	cmd.Stdin = bytes.NewReader(in)
	var o, e bytes.Buffer
	cmd.Stdout = &o
	cmd.Stderr = &e
	done := make(chan error, 1)
	if err := cmd.Start(); err != nil {
		return nil, false, "start: " + err.Error()
	}
	go func() { done <- cmd.Wait() }()
	select {
	case err := <-done:
		return o.Bytes(), err == nil, strings.TrimSpace(e.String())
	case <-time.After(120 * time.Second):
		cmd.Process.Kill()
		return nil, false, "timeout"
	}
}

type traceInfo struct {
	ID     int    `json:"id"`
	Fmt    string `json:"fmt"`
	Class  string `json:"class"`
	Plen   int    `json:"plen"`
	Pseed  int64  `json:"pseed"`
	Flen   int    `json:"flen"`
	Events int    `json:"events"`
	Chunks int    `json:"chunks"`
	Raw    int    `json:"raw_chunks"`
	MaxFF  int    `json:"max_ff_run"`
	Detail string `json:"detail,omitempty"`
}

func maxRun(b []byte, c byte) int {
	best, cur := 0, 0
	for _, x := range b {
		if x == c {
			cur++
			if cur > best {
				best = cur
			}
		} else {
			cur = 0
		}
	}
	return best
}

// oneTrace encodes one payload, walks the output and asks the decoders.
func oneTrace(id int, fm, cls string, n int, ps int64, w *bufio.Writer) traceInfo {
	x := makePayload(cls, n, ps)
	info := traceInfo{ID: id, Fmt: fm, Class: cls, Plen: n, Pseed: ps}
	enc, err, pan := safeEncode(ff(fm), x)
	emit := func(e event) {
		b, _ := json.Marshal(e)
		w.Write(b)
		w.WriteByte('\n')
		info.Events++
	}
	encst := "ok"
	if pan != "" {
		encst = "panic"
		info.Detail = "Encode panicked: " + pan
	} else if err != nil {
		encst = "error"
		info.Detail = "Encode error: " + err.Error()
	}
	info.Flen = len(enc)
	emit(event{"ev": "reset", "id": id, "fmt": fm, "plen": n, "flen": len(enc), "class": cls, "pseed": ps, "encode": encst})
	if encst != "ok" {
		return info
	}
	if *dump != "" {
		os.WriteFile(*dump, enc, 0o644)
	}
	var evs []event
	if fm == "xz" {
		evs = walkXz(enc, x)
	} else {
		evs = walkLzma(enc)
	}
	for _, e := range evs {
		emit(e)
		if e["ev"] == "chunk" {
			info.Chunks++
			if e["ctrl"].(int) < 0x80 {
				info.Raw++
			}
		}
		if e["ev"] == "malformed" {
			info.Detail = "walker: " + e["why"].(string)
		}
	}
	info.MaxFF = maxRun(enc, 0xFF)

	// Terminal conditions.
	rt := "ok"
	r := safeDecode(ff(fm), enc)
	switch {
	case r.panic != "":
		rt = "panic"
		info.Detail += " Decode panicked: " + r.panic
	case r.err != nil:
		rt = "error"
		info.Detail += " Decode error: " + r.err.Error()
	case !bytes.Equal(r.out, x):
		rt = "mismatch"
	}
	xzst := "xz_unavailable"
	if _, e := os.Stat(*xzPath); e == nil {
		o, ok, se := runTool(*xzPath, []string{"-dc", "--format=" + fm}, enc)
		switch {
		case !ok:
			xzst = "rejected"
			info.Detail += " xz: " + se
		case !bytes.Equal(o, x):
			xzst = "mismatch"
		default:
			xzst = "ok"
		}
	}
	wst, wleft := "ok", 0
	{
		o, ok, se := runTool(*wuffs, []string{fm}, enc)
		// the driver prints "status=<msg> left=<n>" on stderr
		fmt.Sscanf(lastField(se, "left="), "%d", &wleft)
		switch {
		case !ok:
			wst = "rejected"
			info.Detail += " wuffs: " + se
		case !bytes.Equal(o, x):
			wst = "mismatch"
		}
	}
	emit(event{"ev": "eof", "off": len(enc), "len": 0, "rt": rt, "rem": len(r.rem), "xz": xzst, "wuffs": wst, "wleft": wleft})
	return info
}

func lastField(s, key string) string {
	i := strings.LastIndex(s, key)
	if i < 0 {
		return ""
	}
	return s[i+len(key):]
}

type tracePlan struct {
	cls string
	n   int
	ps  int64
}

func plans(thorough bool, rng *rand.Rand) []tracePlan {
	// Boundary lengths (XzLayout.tla): the encoder's 64 KiB partition, the raw
	// chunk limit 65536, LZMA chunk limits, the 4-byte paddings.
	lens := []int{0, 1, 2, 3, 4, 5, 65535, 65536, 65537, 2*65536 - 1, 2 * 65536, 2*65536 + 1}
	classes := []string{"zero", "ff", "random", "text", "alt"}
	ps := []tracePlan{}
	for _, n := range lens {
		for _, c := range classes {
			ps = append(ps, tracePlan{c, n, rng.Int63n(1 << 30)})
		}
	}
	if thorough {
		for _, n := range []int{3*65536 + 1, 1<<21 - 1, 1 << 21, 1<<21 + 1, 1<<21 + 65537} {
			for _, c := range classes {
				ps = append(ps, tracePlan{c, n, rng.Int63n(1 << 30)})
			}
		}
	}
	// Seeded lengths: all four residues of the paddings, lengths near the
	// raw-vs-LZMA decision for incompressible data, mixed content.
	nr := 40
	if thorough {
		nr = 400
	}
	for i := 0; i < nr; i++ {
		var n int
		switch rng.Intn(4) {
		case 0:
			n = rng.Intn(64)
		case 1:
			n = rng.Intn(5000)
		case 2:
			n = 65536 - 40 + rng.Intn(80)
		default:
			n = rng.Intn(3 * 65536)
		}
		c := []string{"random", "text", "ffrandom", "alt", "ff", "zero"}[rng.Intn(6)]
		ps = append(ps, tracePlan{c, n, rng.Int63n(1 << 30)})
	}
	// The 16-bit compressed-size field of an LZMA chunk: incompressible
	// payloads whose range-coded size straddles 65536 (found by bisection on
	// the real encoder's .lzma output length; content is regenerated per
	// length, so the sizes are only statistically monotone).
	nb := 1
	if thorough {
		nb = 4
	}
	for i := 0; i < nb; i++ {
		s := rng.Int63n(1 << 30)
		lo, hi := 60000, 65536
		for lo < hi {
			mid := (lo + hi) / 2
			enc, _, _ := safeEncode(ff("lzma"), makePayload("random", mid, s))
			if len(enc)-13 >= 65536 {
				hi = mid
			} else {
				lo = mid + 1
			}
		}
		for n := lo - 6; n <= lo+6; n++ {
			if n > 0 && n <= 65536 {
				ps = append(ps, tracePlan{"random", n, s})
			}
		}
	}
	// Steered pending-byte chains (see payload.go), resolved with and without
	// a carry; also across the 64 KiB partition.
	nc := 6
	if thorough {
		nc = 60
	}
	for i := 0; i < nc; i++ {
		n := 200 + rng.Intn(6000)
		if i%6 == 5 {
			n = 65536 + 3200 + rng.Intn(3000)
		}
		s := rng.Int63n(1 << 30)
		ps = append(ps, tracePlan{"chain", n, s}, tracePlan{"chaincarry", n, s})
	}
	return ps
}

func main() {
	flag.Parse()
	switch *mode {
	case "traces", "one":
		f, err := os.Create(*outPath)
		if err != nil {
			fmt.Fprintln(os.Stderr, err)
			os.Exit(3)
		}
		w := bufio.NewWriterSize(f, 1<<20)
		infos := []traceInfo{}
		model := map[string]int{}
		if *mode == "one" {
			infos = append(infos, oneTrace(1, *fmtFlag, *class, *plen, *pseed, w))
		} else {
			rng := rand.New(rand.NewSource(*seed))
			id := 0
			for _, p := range plans(*tier == "thorough", rng) {
				for _, fm := range []string{"lzma", "xz"} {
					id++
					infos = append(infos, oneTrace(id, fm, p.cls, p.n, p.ps, w))
					if strings.HasPrefix(p.cls, "chain") && fm == "lzma" {
						if lastSteer.MaxPending > model["max_pending"] {
							model["max_pending"] = lastSteer.MaxPending
						}
						if lastSteer.MaxCarryPending > model["max_carry_pending"] {
							model["max_carry_pending"] = lastSteer.MaxCarryPending
						}
						model["carries"] += lastSteer.Carries
					}
				}
			}
		}
		w.Flush()
		f.Close()
		b, _ := json.Marshal(map[string]interface{}{"traces": infos, "steer_model": model})
		if *stats != "" {
			os.WriteFile(*stats, b, 0o644)
		} else {
			os.Stdout.Write(b)
		}
	case "total":
		totality()
	case "decodeone":
		in, err := os.ReadFile(*inPath)
		if err != nil {
			fmt.Fprintln(os.Stderr, err)
			os.Exit(3)
		}
		t := time.Now()
		r := safeDecode(ff(*fmtFlag), in)
		fmt.Printf("{\"inlen\":%d,\"outlen\":%d,\"panicked\":%v,\"err\":%q,\"rem\":%d,\"ms\":%d}\n",
			len(in), len(r.out), r.panic != "", fmt.Sprint(r.err), len(r.rem), time.Since(t).Milliseconds())
		if r.panic != "" {
			fmt.Println("panic:", r.panic)
		}
	default:
		fmt.Fprintln(os.Stderr, "bad -mode")
		os.Exit(3)
	}
}

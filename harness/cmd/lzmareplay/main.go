// lzmareplay drives github.com/google/wuffs/lib/litonlylzma (from the working
// tree named by the harness module's `replace`) for property C17 and records
// what it did as events that TLC validates against spec/XzLayout.tla and
// spec/LzmaAlone.tla (through spec/trace/Trace_XzLayout.tla).
//
//	lzmareplay -mode traces -tier quick|thorough -seed N -out trace.ndjson
//	           -xz /root/miniconda/bin/xz -wuffs /path/to/wuffsdec [-stats s.json]
//	    payload classes x {lzma, xz}: Encode, walk the output into events, and
//	    record in the final "eof" event of each trace what three decoders said.
//	lzmareplay -mode one -fmt xz -class ff -plen 65537 -pseed 3 ...
//	    the same for one payload (replay of a finding); -dump FILE keeps the
//	    encoded bytes.
//	lzmareplay -mode total -tier .. -seed N -out rows.json
//	    Decode on arbitrary / truncated / mutated bytes: one row per call
//	    [fmt, inlen, outlen, panicked, err, remlen, kind].
//	lzmareplay -mode decodeone -fmt xz -in FILE
//	    one Decode call (watchdog confirmation).
//	lzmareplay -mode rows -family lzma2,xzz -shards 6 -outdir DIR -wuffs ...
//	    exhaustive-by-structure tables (payload, encoded file, decoders'
//	    outcomes) for spec/RangeCoderRows.tla; see rows.go.
//	lzmareplay -mode rowone -row xz:02be:256 -out row.json
//	    one such row again, alone.
//
// This program judges nothing: it drives, records and transports.
package main

import (
	"bufio"
	"bytes"
	"encoding/json"
	"flag"
	"fmt"
	"math/rand"
	"os"
	"os/exec"
	"strings"
	"sync"
	"time"

	"github.com/google/wuffs/lib/litonlylzma"
)

var (
	mode    = flag.String("mode", "traces", "")
	tier    = flag.String("tier", "quick", "")
	seed    = flag.Int64("seed", 1, "")
	outPath = flag.String("out", "", "")
	xzPath  = flag.String("xz", "/root/miniconda/bin/xz", "")
	wuffs   = flag.String("wuffs", "", "wuffs std/lzma + std/xz driver binary")
	stats   = flag.String("stats", "", "")
	fmtFlag = flag.String("fmt", "xz", "")
	class   = flag.String("class", "zero", "")
	plen    = flag.Int("plen", 0, "")
	pseed   = flag.Int64("pseed", 1, "")
	inPath  = flag.String("in", "", "")
	dump    = flag.String("dump", "", "")
	hangDir = flag.String("hangdir", "", "directory for inputs that trip the watchdog")
	extra   = flag.String("extra", "", "mode traces: additional payloads class@plen,... (spec-directed payloads, class hex:<bytes>)")
)

func ff(name string) litonlylzma.FileFormat {
	if name == "lzma" {
		return litonlylzma.FileFormatLZMA
	}
	return litonlylzma.FileFormatXz
}

type result struct {
	out   []byte
	rem   []byte
	err   error
	panic string
}

// safeDecode calls Decode under recover.
func safeDecode(f litonlylzma.FileFormat, in []byte) (r result) {
	defer func() {
		if p := recover(); p != nil {
			r.panic = fmt.Sprint(p)
		}
	}()
	r.out, r.rem, r.err = f.Decode(nil, in)
	return r
}

func safeEncode(f litonlylzma.FileFormat, in []byte) (out []byte, err error, pan string) {
	defer func() {
		if p := recover(); p != nil {
			pan = fmt.Sprint(p)
		}
	}()
	out, err = f.Encode(nil, in)
	return
}

func runTool(name string, args []string, in []byte) (out []byte, ok bool, stderr string) {
	cmd := exec.Command(name, args...)
	cmd.Stdin = bytes.NewReader(in)
	var o, e bytes.Buffer
	cmd.Stdout = &o
	cmd.Stderr = &e
	done := make(chan error, 1)
	if err := cmd.Start(); err != nil {
		return nil, false, "start: " + err.Error()
	}
	go func() { done <- cmd.Wait() }()
	select {
	case err := <-done:
		return o.Bytes(), err == nil, strings.TrimSpace(e.String())
	case <-time.After(120 * time.Second):
		cmd.Process.Kill()
		return nil, false, "timeout"
	}
}

type traceInfo struct {
	ID     int    `json:"id"`
	Fmt    string `json:"fmt"`
	Class  string `json:"class"`
	Plen   int    `json:"plen"`
	Pseed  int64  `json:"pseed"`
	Flen   int    `json:"flen"`
	Events int    `json:"events"`
	Chunks int    `json:"chunks"`
	Raw    int    `json:"raw_chunks"`
	MaxFF  int    `json:"max_ff_run"`
	Detail string `json:"detail,omitempty"`
}

func maxRun(b []byte, c byte) int {
	best, cur := 0, 0
	for _, x := range b {
		if x == c {
			cur++
			if cur > best {
				best = cur
			}
		} else {
			cur = 0
		}
	}
	return best
}

// oneTrace encodes one payload, walks the output and asks the decoders.
func oneTrace(id int, fm, cls string, n int, ps int64, x []byte, w *bytes.Buffer) traceInfo {
	info := traceInfo{ID: id, Fmt: fm, Class: cls, Plen: n, Pseed: ps}
	enc, err, pan := safeEncode(ff(fm), x)
	emit := func(e event) {
		b, _ := json.Marshal(e)
		w.Write(b)
		w.WriteByte('\n')
		info.Events++
	}
	encst := "ok"
	if pan != "" {
		encst = "panic"
		info.Detail = "Encode panicked: " + pan
	} else if err != nil {
		encst = "error"
		info.Detail = "Encode error: " + err.Error()
	}
	info.Flen = len(enc)
	emit(event{"ev": "reset", "id": id, "fmt": fm, "plen": n, "flen": len(enc), "class": cls, "pseed": ps, "encode": encst})
	if encst != "ok" {
		return info
	}
	if *dump != "" {
		os.WriteFile(*dump, enc, 0o644)
	}
	var evs []event
	if fm == "xz" {
		evs = walkXz(enc, x)
	} else {
		evs = walkLzma(enc)
	}
	for _, e := range evs {
		emit(e)
		if e["ev"] == "chunk" {
			info.Chunks++
			if e["ctrl"].(int) < 0x80 {
				info.Raw++
			}
		}
		if e["ev"] == "malformed" {
			info.Detail = "walker: " + e["why"].(string)
		}
	}
	info.MaxFF = maxRun(enc, 0xFF)

	// Terminal conditions.
	rt := "ok"
	r := safeDecode(ff(fm), enc)
	switch {
	case r.panic != "":
		rt = "panic"
		info.Detail += " Decode panicked: " + r.panic
	case r.err != nil:
		rt = "error"
		info.Detail += " Decode error: " + r.err.Error()
	case !bytes.Equal(r.out, x):
		rt = "mismatch"
	}
	xzst := "xz_unavailable"
	wst, wleft := "ok", 0
	xzDetail, wDetail := "", ""
	var wg sync.WaitGroup
	if _, e := os.Stat(*xzPath); e == nil {
		wg.Add(1)
		go func() {
			defer wg.Done()
			o, ok, se := runTool(*xzPath, []string{"-dc", "--format=" + fm}, enc)
			switch {
			case !ok:
				xzst = "rejected"
				xzDetail = " xz: " + se
			case !bytes.Equal(o, x):
				xzst = "mismatch"
			default:
				xzst = "ok"
			}
		}()
	}
	wg.Add(1)
	go func() {
		defer wg.Done()
		o, ok, se := runTool(*wuffs, []string{fm}, enc)
		// the driver prints "status=<msg> left=<n>" on stderr
		fmt.Sscanf(lastField(se, "left="), "%d", &wleft)
		switch {
		case !ok:
			wst = "rejected"
			wDetail = " wuffs: " + se
		case !bytes.Equal(o, x):
			wst = "mismatch"
		}
	}()
	wg.Wait()
	info.Detail += xzDetail + wDetail
	emit(event{"ev": "eof", "off": len(enc), "len": 0, "rt": rt, "rem": len(r.rem), "xz": xzst, "wuffs": wst, "wleft": wleft})
	return info
}

func lastField(s, key string) string {
	i := strings.LastIndex(s, key)
	if i < 0 {
		return ""
	}
	return s[i+len(key):]
}

type tracePlan struct {
	cls string
	n   int
	ps  int64
}

func plans(thorough bool, rng *rand.Rand) []tracePlan {
	// Boundary lengths (XzLayout.tla): the encoder's 64 KiB partition, the raw
	// chunk limit 65536, LZMA chunk limits, the 4-byte paddings.
	lens := []int{0, 1, 2, 3, 4, 5, 65535, 65536, 65537, 2*65536 - 1, 2 * 65536, 2*65536 + 1}
	classes := []string{"zero", "ff", "random", "text", "alt"}
	ps := []tracePlan{}
	for _, n := range lens {
		for _, c := range classes {
			ps = append(ps, tracePlan{c, n, rng.Int63n(1 << 30)})
		}
	}
	// The XZ index stores sizes as base-128 integers: lengths around 2^7 and 2^14 (and, for incompressible
	// content, block sizes a few bytes above the payload length).
	for _, n := range []int{126, 127, 128, 129, 16383, 16384, 16385, 16500, 16512} {
		for _, c := range classes {
			ps = append(ps, tracePlan{c, n, rng.Int63n(1 << 30)})
		}
	}
	// A stored chunk directly followed by a range-coded one (and the other way round): 64 KiB of incompressible
	// bytes, then zeros / text.
	for _, n := range []int{65536 + 1, 65536 + 300, 65536 + 5000, 2 * 65536, 2*65536 + 7} {
		ps = append(ps, tracePlan{"rz:65536", n, rng.Int63n(1 << 30)})
		ps = append(ps, tracePlan{"randtext", n, rng.Int63n(1 << 30)})
		ps = append(ps, tracePlan{"trz:65536", n + 65536, rng.Int63n(1 << 30)})
	}
	if thorough {
		for _, n := range []int{3*65536 + 1, 1<<21 - 1, 1 << 21, 1<<21 + 1, 1<<21 + 65537} {
			for _, c := range classes {
				ps = append(ps, tracePlan{c, n, rng.Int63n(1 << 30)})
			}
		}
	}
	// Seeded lengths: all four residues of the paddings, lengths near the
	// raw-vs-LZMA decision for incompressible data, mixed content.
	nr := 40
	if thorough {
		nr = 400
	}
	for i := 0; i < nr; i++ {
		var n int
		switch rng.Intn(4) {
		case 0:
			n = rng.Intn(64)
		case 1:
			n = rng.Intn(5000)
		case 2:
			n = 65536 - 40 + rng.Intn(80)
		default:
			n = rng.Intn(3 * 65536)
		}
		c := []string{"random", "text", "ffrandom", "alt", "ff", "zero"}[rng.Intn(6)]
		ps = append(ps, tracePlan{c, n, rng.Int63n(1 << 30)})
	}
	// The 16-bit compressed-size field of an LZMA chunk: incompressible
	// payloads whose range-coded size straddles 65536 (found by bisection on
	// the real encoder's .lzma output length; content is regenerated per
	// length, so the sizes are only statistically monotone).
	nb := 1
	if thorough {
		nb = 4
	}
	for i := 0; i < nb; i++ {
		s := rng.Int63n(1 << 30)
		lo, hi := 60000, 65536
		for lo < hi {
			mid := (lo + hi) / 2
			enc, _, _ := safeEncode(ff("lzma"), makePayload("random", mid, s))
			if len(enc)-13 >= 65536 {
				hi = mid
			} else {
				lo = mid + 1
			}
		}
		for n := lo - 6; n <= lo+6; n++ {
			if n > 0 && n <= 65536 {
				ps = append(ps, tracePlan{"random", n, s})
			}
		}
	}
	// Steered pending-byte chains (see payload.go), resolved with and without
	// a carry; also across the 64 KiB partition.
	nc := 6
	if thorough {
		nc = 60
	}
	for i := 0; i < nc; i++ {
		n := 200 + rng.Intn(6000)
		if i%6 == 5 {
			n = 65536 + 3200 + rng.Intn(3000)
		}
		s := rng.Int63n(1 << 30)
		ps = append(ps, tracePlan{"chain", n, s}, tracePlan{"chaincarry", n, s})
	}
	ps = append(ps, flipPlans(thorough, rng)...)
	return ps
}

// lastChunkIsLZMA: what the walker sees as the control byte of the last
// LZMA2 chunk of enc.
func lastChunkIsLZMA(enc, payload []byte) (lz bool, found bool) {
	for _, e := range walkXz(enc, payload) {
		if e["ev"] == "chunk" {
			lz, found = e["ctrl"].(int) >= 0x80, true
		}
	}
	return
}

// flipPlans: boundary-directed payloads for the chunk-choice rule.  For a last
// chunk of length L whose first N bytes are pseudo-random and the rest zero,
// bisect on N for the point where the encoder's choice flips from an LZMA
// chunk to an uncompressed one (as seen by the walker), then plan EVERY N
// within the window around it.  Around that point the range-coded form is as
// long as the chunk itself: for L = 65536 it straddles the 16-bit packed-size
// field (XzLayout!ChunkCMax).
func flipPlans(thorough bool, rng *rand.Rand) []tracePlan {
	type cfg struct {
		pre    string // "rz" single chunk, "trz" second chunk after 64 KiB of text
		l      int    // length of the last chunk
		seeds  int
		window int
	}
	cfgs := []cfg{{"rz", 65536, 2, 24}, {"trz", 65536, 1, 24}, {"rz", 4096, 1, 8}}
	if thorough {
		cfgs = []cfg{{"rz", 65536, 2, 24}, {"trz", 65536, 2, 24}, {"rz", 4096, 2, 24}, {"rz", 65535, 2, 24}, {"rz", 300, 2, 24}, {"trz", 20000, 1, 24}}
	}
	ps := []tracePlan{}
	for _, c := range cfgs {
		for k := 0; k < c.seeds; k++ {
			s := rng.Int63n(1 << 30)
			total := c.l
			if c.pre == "trz" {
				total += 65536
			}
			isLZ := func(n int) bool {
				x := makePayload(fmt.Sprintf("%s:%d", c.pre, n), total, s)
				enc, _, _ := safeEncode(ff("xz"), x)
				lz, _ := lastChunkIsLZMA(enc, x)
				return lz
			}
			if !isLZ(0) || isLZ(c.l) {
				continue // no flip for this length (never happens for the lengths above)
			}
			lo, hi := 0, c.l // isLZ(lo), !isLZ(hi)
			for hi-lo > 1 {
				mid := (lo + hi) / 2
				if isLZ(mid) {
					lo = mid
				} else {
					hi = mid
				}
			}
			for n := hi - c.window; n <= hi+c.window; n++ {
				if n >= 0 && n <= c.l {
					ps = append(ps, tracePlan{fmt.Sprintf("%s:%d", c.pre, n), total, s})
				}
			}
		}
	}
	return ps
}

func main() {
	flag.Parse()
	switch *mode {
	case "traces", "one":
		f, err := os.Create(*outPath)
		if err != nil {
			fmt.Fprintln(os.Stderr, err)
			os.Exit(3)
		}
		w := bufio.NewWriterSize(f, 1<<20)
		infos := []traceInfo{}
		model := map[string]int{}
		if *mode == "one" {
			var buf bytes.Buffer
			infos = append(infos, oneTrace(1, *fmtFlag, *class, *plen, *pseed, makePayload(*class, *plen, *pseed), &buf))
			w.Write(buf.Bytes())
		} else {
			rng := rand.New(rand.NewSource(*seed))
			all := plans(*tier == "thorough", rng)
			for _, f := range strings.Split(*extra, ",") {
				if i := strings.LastIndexByte(f, '@'); i > 0 {
					n := 0
					fmt.Sscanf(f[i+1:], "%d", &n)
					all = append(all, tracePlan{f[:i], n, 0})
				}
			}
			// Payloads are generated in order (the steering model keeps its
			// statistics in a global); encoding, walking and the decoder
			// processes of up to `par` traces run concurrently; events are
			// written in trace order.
			type job struct {
				id int
				fm string
				p  tracePlan
				x  []byte
			}
			const par = 6
			jobs := []job{}
			flush := func() {
				bufs := make([]bytes.Buffer, len(jobs))
				res := make([]traceInfo, len(jobs))
				var wg sync.WaitGroup
				for k := range jobs {
					wg.Add(1)
					go func(k int) {
						defer wg.Done()
						j := jobs[k]
						res[k] = oneTrace(j.id, j.fm, j.p.cls, j.p.n, j.p.ps, j.x, &bufs[k])
					}(k)
				}
				wg.Wait()
				for k := range jobs {
					w.Write(bufs[k].Bytes())
					infos = append(infos, res[k])
				}
				jobs = jobs[:0]
			}
			id := 0
			for _, p := range all {
				for _, fm := range []string{"lzma", "xz"} {
					if fm == "lzma" && (strings.HasPrefix(p.cls, "rz:") || strings.HasPrefix(p.cls, "trz:")) {
						continue // the chunk choice exists in the .xz format only
					}
					id++
					x := makePayload(p.cls, p.n, p.ps)
					if strings.HasPrefix(p.cls, "chain") && fm == "lzma" {
						if lastSteer.MaxPending > model["max_pending"] {
							model["max_pending"] = lastSteer.MaxPending
						}
						if lastSteer.MaxCarryPending > model["max_carry_pending"] {
							model["max_carry_pending"] = lastSteer.MaxCarryPending
						}
						model["carries"] += lastSteer.Carries
					}
					jobs = append(jobs, job{id, fm, p, x})
					if len(jobs) == par {
						flush()
					}
				}
			}
			flush()
		}
		w.Flush()
		f.Close()
		b, _ := json.Marshal(map[string]interface{}{"traces": infos, "steer_model": model})
		if *stats != "" {
			os.WriteFile(*stats, b, 0o644)
		} else {
			os.Stdout.Write(b)
		}
	case "total":
		totality()
	case "rows":
		rowsMode()
	case "rowone":
		rowOne()
	case "decodeone":
		in, err := os.ReadFile(*inPath)
		if err != nil {
			fmt.Fprintln(os.Stderr, err)
			os.Exit(3)
		}
		t := time.Now()
		r := safeDecode(ff(*fmtFlag), in)
		fmt.Printf("{\"inlen\":%d,\"outlen\":%d,\"panicked\":%v,\"err\":%q,\"rem\":%d,\"ms\":%d}\n",
			len(in), len(r.out), r.panic != "", fmt.Sprint(r.err), len(r.rem), time.Since(t).Milliseconds())
		if r.panic != "" {
			fmt.Println("panic:", r.panic)
		}
	default:
		fmt.Fprintln(os.Stderr, "bad -mode")
		os.Exit(3)
	}
}

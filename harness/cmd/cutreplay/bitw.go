package main

// A hand-written DEFLATE bit-writer for the block shapes compress/flate never
// emits: stored blocks of length 0 anywhere, fixed-Huffman blocks, final empty
// blocks, dynamic blocks with degenerate one-code trees, with no distance code
// at all, with 15-bit codes.  Nothing here is shared with lib/flatecut.

import (
	"math/rand"
	"sort"
)

type bitWriter struct {
	buf  []byte
	nbit uint // number of bits already used in the last byte (0 = byte aligned)
}

func (w *bitWriter) bit(b uint32) {
	if w.nbit == 0 {
		w.buf = append(w.buf, 0)
	}
	if b&1 != 0 {
		w.buf[len(w.buf)-1] |= 1 << w.nbit
	}
	w.nbit = (w.nbit + 1) & 7
}

// bits writes the low n bits of v, least significant bit first (header fields,
// extra bits).
func (w *bitWriter) bits(v uint32, n uint) {
	for i := uint(0); i < n; i++ {
		w.bit(v >> i)
	}
}

// code writes a Huffman code of n bits, most significant bit first.
func (w *bitWriter) code(c uint32, n uint) {
	for i := int(n) - 1; i >= 0; i-- {
		w.bit(c >> uint(i))
	}
}

func (w *bitWriter) align() { w.nbit = 0 }

func (w *bitWriter) pos() int {
	if w.nbit == 0 {
		return 8 * len(w.buf)
	}
	return 8*(len(w.buf)-1) + int(w.nbit)
}

// canonical assigns canonical Huffman codes (RFC 1951 3.2.2) to lengths.
func canonical(lengths []int) []uint32 {
	var blCount [16]int
	for _, l := range lengths {
		blCount[l]++
	}
	blCount[0] = 0
	var next [16]uint32
	code := uint32(0)
	for b := 1; b <= 15; b++ {
		code = (code + uint32(blCount[b-1])) << 1
		next[b] = code
	}
	codes := make([]uint32, len(lengths))
	for i, l := range lengths {
		if l != 0 {
			codes[i] = next[l]
			next[l]++
		}
	}
	return codes
}

// A token is a literal (dist == 0) or a <length, distance> copy.
type token struct {
	lit    byte
	length int
	dist   int
}

var lenBase = []int{3, 4, 5, 6, 7, 8, 9, 10, 11, 13, 15, 17, 19, 23, 27, 31, 35, 43, 51, 59, 67, 83, 99, 115, 131, 163, 195, 227, 258}
var lenExtra = []uint{0, 0, 0, 0, 0, 0, 0, 0, 1, 1, 1, 1, 2, 2, 2, 2, 3, 3, 3, 3, 4, 4, 4, 4, 5, 5, 5, 5, 0}
var distBase = []int{1, 2, 3, 4, 5, 7, 9, 13, 17, 25, 33, 49, 65, 97, 129, 193, 257, 385, 513, 769, 1025, 1537, 2049, 3073, 4097, 6145, 8193, 12289, 16385, 24577}
var distExtra = []uint{0, 0, 0, 0, 1, 1, 2, 2, 3, 3, 4, 4, 5, 5, 6, 6, 7, 7, 8, 8, 9, 9, 10, 10, 11, 11, 12, 12, 13, 13}

func lenSym(length int) (sym int, extra uint32, n uint) {
	for i := len(lenBase) - 1; i >= 0; i-- {
		if length >= lenBase[i] {
			return 257 + i, uint32(length - lenBase[i]), lenExtra[i]
		}
	}
	panic("bad length")
}

func distSym(dist int) (sym int, extra uint32, n uint) {
	for i := len(distBase) - 1; i >= 0; i-- {
		if dist >= distBase[i] {
			return i, uint32(dist - distBase[i]), distExtra[i]
		}
	}
	panic("bad distance")
}

func fixedLitLengths() []int {
	l := make([]int, 288)
	for i := range l {
		switch {
		case i < 144:
			l[i] = 8
		case i < 256:
			l[i] = 9
		case i < 280:
			l[i] = 7
		default:
			l[i] = 8
		}
	}
	return l
}

func fixedDistLengths() []int {
	l := make([]int, 30)
	for i := range l {
		l[i] = 5
	}
	return l
}

func (w *bitWriter) header(final bool, typ uint32) {
	if final {
		w.bit(1)
	} else {
		w.bit(0)
	}
	w.bits(typ, 2)
}

func (w *bitWriter) stored(data []byte, final bool) {
	w.header(final, 0)
	w.align()
	n := len(data)
	w.buf = append(w.buf, byte(n), byte(n>>8), ^byte(n), ^byte(n>>8))
	w.buf = append(w.buf, data...)
}

func (w *bitWriter) tokens(toks []token, ll []int, lc []uint32, dl []int, dc []uint32) {
	for _, t := range toks {
		if t.dist == 0 {
			w.code(lc[t.lit], uint(ll[t.lit]))
			continue
		}
		s, e, n := lenSym(t.length)
		w.code(lc[s], uint(ll[s]))
		w.bits(e, n)
		s, e, n = distSym(t.dist)
		w.code(dc[s], uint(dl[s]))
		w.bits(e, n)
	}
	w.code(lc[256], uint(ll[256]))
}

func (w *bitWriter) fixed(toks []token, final bool) {
	w.header(final, 1)
	ll, dl := fixedLitLengths(), fixedDistLengths()
	w.tokens(toks, ll, canonical(ll), dl, canonical(dl))
}

// Code-length code used by every dynamic block written here: symbols 0..12 get
// 4 bits, 13..18 get 5 bits (13/16 + 6/32 = 1: a complete code).
func clLengths() []int {
	l := make([]int, 19)
	for i := range l {
		if i <= 12 {
			l[i] = 4
		} else {
			l[i] = 5
		}
	}
	return l
}

var clOrder = []int{16, 17, 18, 0, 8, 7, 9, 6, 10, 5, 11, 4, 12, 3, 13, 2, 14, 1, 15}

// dynamic writes a dynamic-Huffman block with the given literal/length and
// distance code lengths (ll has 257..286 entries, dl 1..30 entries).
func (w *bitWriter) dynamic(toks []token, final bool, ll []int, dl []int, useRep bool) {
	w.header(final, 2)
	w.bits(uint32(len(ll)-257), 5)
	w.bits(uint32(len(dl)-1), 5)
	w.bits(19-4, 4)
	cl := clLengths()
	cc := canonical(cl)
	for _, s := range clOrder {
		w.bits(uint32(cl[s]), 3)
	}
	all := append(append([]int{}, ll...), dl...)
	for i := 0; i < len(all); {
		v := all[i]
		run := 1
		for i+run < len(all) && all[i+run] == v {
			run++
		}
		switch {
		case v == 0 && run >= 11:
			if run > 138 {
				run = 138
			}
			w.code(cc[18], uint(cl[18]))
			w.bits(uint32(run-11), 7)
		case v == 0 && run >= 3:
			w.code(cc[17], uint(cl[17]))
			w.bits(uint32(run-3), 3)
		case v != 0 && useRep && run >= 4:
			// the value itself, then "repeat previous 3..6 times"
			w.code(cc[v], uint(cl[v]))
			r := run - 1
			if r > 6 {
				r = 6
			}
			w.code(cc[16], uint(cl[16]))
			w.bits(uint32(r-3), 2)
			run = r + 1
		default:
			w.code(cc[v], uint(cl[v]))
			run = 1
		}
		i += run
	}
	w.tokens(toks, ll, canonical(ll), dl, canonical(dl))
}

// balanced gives k symbols a complete prefix code with lengths L-1 / L.
func balanced(k int) []int {
	if k == 1 {
		return []int{1}
	}
	L := 0
	for (1 << uint(L)) < k {
		L++
	}
	short := (1 << uint(L)) - k
	out := make([]int, k)
	for i := range out {
		if i < short {
			out[i] = L - 1
		} else {
			out[i] = L
		}
	}
	return out
}

// skewed gives k >= 2 symbols a complete prefix code whose longest codes have
// exactly 15 bits: lengths 1, 2, ..., j, then a balanced subtree below.
func skewed(k int) []int {
	if k < 2 {
		panic("skewed needs 2 symbols")
	}
	// choose the subtree size r (number of symbols in the deepest subtree) and
	// its depth d = ceil(log2 r) so that j + d = 15 with j = k - r chain nodes.
	for r := 2; r <= k; r++ {
		d := 0
		for (1 << uint(d)) < r {
			d++
		}
		j := k - r
		if j+d == 15 && (r == 1<<uint(d)) {
			out := make([]int, 0, k)
			for i := 1; i <= j; i++ {
				out = append(out, i)
			}
			for i := 0; i < r; i++ {
				out = append(out, 15)
			}
			return out
		}
	}
	// not enough symbols for a 15-deep chain: the caller pads the alphabet
	return nil
}

// usedSymbols returns the sorted literal/length symbols and distance symbols
// that the tokens need (256 always included).
func usedSymbols(toks []token) (ls []int, ds []int) {
	lm, dm := map[int]bool{256: true}, map[int]bool{}
	for _, t := range toks {
		if t.dist == 0 {
			lm[int(t.lit)] = true
		} else {
			s, _, _ := lenSym(t.length)
			lm[s] = true
			s, _, _ = distSym(t.dist)
			dm[s] = true
		}
	}
	for s := range lm {
		ls = append(ls, s)
	}
	for s := range dm {
		ds = append(ds, s)
	}
	sort.Ints(ls)
	sort.Ints(ds)
	return
}

func spread(syms []int, lens []int, n int) []int {
	out := make([]int, n)
	for i, s := range syms {
		out[s] = lens[i]
	}
	return out
}

func maxOf(a []int, floor int) int {
	m := floor
	for _, v := range a {
		if v > m {
			m = v
		}
	}
	return m
}

// dynTrees builds code lengths for a dynamic block of the given kind.
//
//	D   balanced trees, distance tree complete with >= 2 codes
//	D1  distance tree = one code of one bit (incomplete, as Go's HuffmanOnly)
//	DZ  no distance code at all (HDIST = 0 and that one length is 0)
//	DL  skewed literal tree with 15-bit codes, the end-of-block code among them
//	D0  empty block (tokens must be empty): only-EOB tree or {one literal, EOB}
func dynTrees(kind string, toks []token, rng *rand.Rand) (ll []int, dl []int) {
	ls, ds := usedSymbols(toks)
	switch kind {
	case "D0":
		if rng.Intn(2) == 0 {
			ll = spread([]int{256}, []int{1}, 257) // degenerate one-code literal tree
		} else {
			ll = spread([]int{int('a') + rng.Intn(20), 256}, []int{1, 1}, 257)
		}
		if rng.Intn(2) == 0 {
			dl = []int{1}
		} else {
			dl = []int{1, 1}
		}
		return
	case "DL":
		// pad the alphabet until a 15-deep chain exists, EOB gets a 15-bit code
		for c := 0; skewed(len(ls)) == nil; c++ {
			if c > 255 {
				panic("cannot pad")
			}
			if !containsInt(ls, c) {
				ls = append(ls, c)
			}
		}
		sort.Ints(ls)
		lens := skewed(len(ls))
		// symbols in increasing order get increasing lengths, so 256 and the
		// length symbols are deep; shuffle the literals among themselves so that
		// payload literals get both short and long codes
		nl := 0
		for _, s := range ls {
			if s < 256 {
				nl++
			}
		}
		perm := rng.Perm(nl)
		l2 := append([]int{}, lens...)
		for i := 0; i < nl; i++ {
			l2[i] = lens[perm[i]]
		}
		ll = spread(ls, l2, maxOf(ls, 256)+1)
	default:
		lens := balanced(len(ls))
		// rotate so that EOB is not always the longest/last
		perm := rng.Perm(len(ls))
		l2 := make([]int, len(ls))
		for i := range ls {
			l2[i] = lens[perm[i]]
		}
		ll = spread(ls, l2, maxOf(ls, 256)+1)
	}
	switch kind {
	case "DZ":
		if len(ds) != 0 {
			panic("DZ with matches")
		}
		dl = []int{0}
	case "D1":
		if len(ds) > 1 {
			panic("D1 with several distance symbols")
		}
		s := 0
		if len(ds) == 1 {
			s = ds[0]
		}
		dl = spread([]int{s}, []int{1}, s+1)
	default:
		for c := 0; len(ds) < 2; c++ {
			if !containsInt(ds, c) {
				ds = append(ds, c)
			}
		}
		sort.Ints(ds)
		dl = spread(ds, balanced(len(ds)), maxOf(ds, 0)+1)
	}
	return
}

func containsInt(a []int, v int) bool {
	for _, x := range a {
		if x == v {
			return true
		}
	}
	return false
}

// genTokens produces a short token list and appends its expansion to hist.
// mode: "lit" literals only, "rle" literals + distance-1 copies, "mix" anything.
func genTokens(rng *rand.Rand, hist []byte, mode string, wantDictRef int) ([]token, []byte) {
	n := 2 + rng.Intn(14)
	alpha := []byte("abcdefgh")
	if rng.Intn(3) == 0 {
		alpha = []byte("etaoin shrdlucmfwypvbgkqjxz,.ETAOIN0123456789\n\x00\xff\x90\xc8")
	}
	var toks []token
	for i := 0; i < n; i++ {
		canCopy := len(hist) > 0 && mode != "lit"
		if wantDictRef > 0 && i == 0 && mode == "mix" {
			// a copy that reaches into the preset dictionary
			d := len(hist) - rng.Intn(wantDictRef)
			if d < 1 {
				d = 1
			}
			l := 3 + rng.Intn(8)
			toks = append(toks, token{length: l, dist: d})
			for j := 0; j < l; j++ {
				hist = append(hist, hist[len(hist)-d])
			}
			continue
		}
		if canCopy && rng.Intn(3) == 0 {
			d := 1
			if mode == "mix" {
				d = 1 + rng.Intn(len(hist))
				if d > 32768 {
					d = 32768
				}
			}
			l := 3 + rng.Intn(12)
			switch rng.Intn(8) {
			case 0:
				l = 258
			case 1:
				l = 3 + rng.Intn(255)
			}
			toks = append(toks, token{length: l, dist: d})
			for j := 0; j < l; j++ {
				hist = append(hist, hist[len(hist)-d])
			}
			continue
		}
		c := alpha[rng.Intn(len(alpha))]
		toks = append(toks, token{lit: c})
		hist = append(hist, c)
	}
	return toks, hist
}

// realiseBW writes a raw DEFLATE stream with the given block kinds (the last
// block is the final one).  dict is the preset dictionary (may be nil); the
// returned payload does not include it.
func realiseBW(kinds []string, rng *rand.Rand, dict []byte) (enc []byte, payload []byte) {
	w := &bitWriter{}
	hist := append([]byte{}, dict...)
	for i, k := range kinds {
		final := i == len(kinds)-1
		dictRef := 0
		if len(dict) > 0 && len(hist) < len(dict)+40 {
			dictRef = len(dict)
		}
		switch k {
		case "S0":
			w.stored(nil, final)
		case "S":
			n := 1 + rng.Intn(24)
			switch rng.Intn(8) {
			case 0:
				n = 1
			case 1:
				n = 250 + rng.Intn(300) // LEN / NLEN with a non-zero high byte
			}
			d := make([]byte, n)
			for j := range d {
				d[j] = byte(rng.Intn(256))
			}
			w.stored(d, final)
			hist = append(hist, d...)
		case "F0":
			w.fixed(nil, final)
		case "F":
			var toks []token
			toks, hist = genTokens(rng, hist, "mix", dictRef)
			w.fixed(toks, final)
		case "D0":
			ll, dl := dynTrees("D0", nil, rng)
			w.dynamic(nil, final, ll, dl, rng.Intn(2) == 0)
		case "D", "DL":
			var toks []token
			toks, hist = genTokens(rng, hist, "mix", dictRef)
			ll, dl := dynTrees(k, toks, rng)
			w.dynamic(toks, final, ll, dl, rng.Intn(2) == 0)
		case "D1":
			var toks []token
			toks, hist = genTokens(rng, hist, "rle", 0)
			ll, dl := dynTrees(k, toks, rng)
			w.dynamic(toks, final, ll, dl, rng.Intn(2) == 0)
		case "DZ":
			var toks []token
			toks, hist = genTokens(rng, hist, "lit", 0)
			ll, dl := dynTrees(k, toks, rng)
			w.dynamic(toks, final, ll, dl, rng.Intn(2) == 0)
		default:
			panic("unknown block kind " + k)
		}
	}
	return w.buf, hist[len(dict):]
}

// cutreplay realises the DEFLATE / zlib stream SHAPES enumerated by TLC from
// spec/FlateCutShapes.tla as concrete streams (compress/flate and
// compress/zlib at the requested level and flush pattern, or the hand-written
// bit-writer of bitw.go), calls lib/flatecut.Cut / lib/zlibcut.Cut from
// /repo's working tree for EVERY limit from the documented minimum to
// length+2 (and two far-away limits) on a fresh copy of the buffer, with and
// without the optional writer, and records what happened as integer rows that
// TLC validates against the result specification spec/FlateCut.tla (Accept).
//
// This program takes no decision about the property: it drives, records and
// transports.  Row layout: see rowOf below and FlateCutTable.tla (Row).
//
// usage:
//
//	cutreplay -shapes shapes.json -seed N -out rows.json -ann ann.json
//	          -streams streams.json -witness robust.json [-robust N] [-abstract-max M]
//	cutreplay -one one.json            (replay of a single <stream, limit>)
package main

import (
	"bytes"
	"compress/flate"
	"compress/zlib"
	"encoding/hex"
	"encoding/json"
	"flag"
	"fmt"
	"hash/adler32"
	"io"
	"math/rand"
	"os"
	"runtime/debug"
	"runtime/pprof"
	"strings"

	"github.com/google/wuffs/lib/flatecut"
	"github.com/google/wuffs/lib/zlibcut"
)

type shape struct {
	Gen   string   `json:"gen"`   // "bw" | "go"
	Fmt   string   `json:"fmt"`   // "flate" | "zlib"
	Dict  bool     `json:"dict"`  // zlib preset dictionary
	Kinds []string `json:"kinds"` // bw: block kinds
	Level int      `json:"level"` // go: 0..9, 10 = HuffmanOnly
	Segs  []string `json:"segs"`  // go: payload segment classes
	Flush string   `json:"flush"` // go: none | between | all
	Seed  int64    `json:"seed"`  // filled in by the runner
	Index int      `json:"index"` // index in TLC's export
}

type absBlock struct {
	T    int      `json:"t"` // 0 stored, 1 fixed, 2 dynamic
	Fin  int      `json:"fin"`
	Hdr  int      `json:"hdr"` // bits between the 3 header bits and the first symbol (Huffman blocks)
	Eob  int      `json:"eob"`
	Dz   int      `json:"dz"`   // dynamic block with no distance code at all
	Syms [][2]int `json:"syms"` // <<bit cost, decoded length>>
}

type streamRec struct {
	Sid        int        `json:"sid"`
	Shape      shape      `json:"shape"`
	Fmt        string     `json:"fmt"`
	Dict       bool       `json:"dict"`
	Hex        string     `json:"hex"`
	PayloadHex string     `json:"payload_hex"`
	DictHex    string     `json:"dict_hex,omitempty"`
	Kinds      []string   `json:"kinds"` // what the parser found
	Len        int        `json:"len"`
	Total      int        `json:"total"`
	NSyms      int        `json:"nsyms"`
	Abstract   []absBlock `json:"abstract,omitempty"`
	Results    [][4]int   `json:"results,omitempty"` // abstract streams: <<limit, err, eLen, dLen>> of the real code, limit = 2..len+2
	BlockEnds  []int      `json:"block_end_bits"`
}

var presetDict = []byte("the quick brown fox jumps over the lazy dog; wuffs the library; hello world, hello wuffs and farewell ")

var words = strings.Fields("the quick brown fox jumps over lazy dog wuffs library hello world and farewell of to in is it that was for on are as with his they at be this from have or by one had not but what all were when we there can an your which their said if do will each about how up out them then she many some so these would other into has more her two like him see time could no make than first been its who now people my made over did down only way find use may water long little very after words called just where most know")

func genSeg(class string, rng *rand.Rand) []byte {
	var b []byte
	switch class {
	case "text":
		n := 400 + rng.Intn(800)
		for len(b) < n {
			b = append(b, words[rng.Intn(len(words))]...)
			b = append(b, ' ')
		}
	case "short":
		n := 3 + rng.Intn(40)
		for len(b) < n {
			b = append(b, words[rng.Intn(20)]...)
			b = append(b, ' ')
		}
		b = b[:n]
	case "rand":
		b = make([]byte, 30+rng.Intn(200))
		if rng.Intn(3) == 0 {
			b = make([]byte, 260+rng.Intn(400)) // stored LEN / NLEN with a non-zero high byte
		}
		rng.Read(b)
	case "rep":
		n := 100 + rng.Intn(500)
		c := byte(rng.Intn(256))
		for len(b) < n {
			b = append(b, c)
			if rng.Intn(40) == 0 {
				c = byte(rng.Intn(256))
			}
		}
	case "empty":
	default:
		panic("unknown segment class " + class)
	}
	return b
}

type flusher interface {
	io.WriteCloser
	Flush() error
}

func realiseGo(sh *shape, rng *rand.Rand, dict []byte) (enc []byte, payload []byte, err error) {
	level := sh.Level
	if level == 10 {
		level = flate.HuffmanOnly
	}
	var buf bytes.Buffer
	var w flusher
	if sh.Fmt == "zlib" {
		w, err = zlib.NewWriterLevelDict(&buf, level, dict)
	} else {
		w, err = flate.NewWriter(&buf, level)
	}
	if err != nil {
		return nil, nil, err
	}
	for i, s := range sh.Segs {
		seg := genSeg(s, rng)
		payload = append(payload, seg...)
		if _, err := w.Write(seg); err != nil {
			return nil, nil, err
		}
		last := i == len(sh.Segs)-1
		if sh.Flush == "all" || (sh.Flush == "between" && !last) {
			if err := w.Flush(); err != nil {
				return nil, nil, err
			}
		}
	}
	if err := w.Close(); err != nil {
		return nil, nil, err
	}
	return buf.Bytes(), payload, nil
}

func zlibWrap(raw []byte, payload []byte, dict []byte) []byte {
	cmf, flg := byte(0x78), byte(0x80)
	if dict != nil {
		flg |= 0x20
	}
	flg += byte(31 - (uint(cmf)<<8|uint(flg))%31)
	out := []byte{cmf, flg}
	if dict != nil {
		d := adler32.Checksum(dict)
		out = append(out, byte(d>>24), byte(d>>16), byte(d>>8), byte(d))
	}
	out = append(out, raw...)
	a := adler32.Checksum(payload)
	return append(out, byte(a>>24), byte(a>>16), byte(a>>8), byte(a))
}

// refDecode decodes b with the reference decoder of the format.  Returns the
// decoded bytes, whether the stream was complete and valid, and the number of
// bytes of b left unread.
//
// The readers are reused through their Reset methods (a fresh compress/flate
// reader clears ~70 KiB, which dominated the run time).
var (
	cachedFlate io.ReadCloser
	cachedZlib  io.ReadCloser
)

func refDecode(format string, b []byte, dict []byte) (out []byte, ok bool, trail int) {
	br := bytes.NewReader(b)
	var r io.ReadCloser
	if format == "zlib" {
		if cachedZlib == nil {
			zr, err := zlib.NewReaderDict(br, dict)
			if err != nil {
				return nil, false, br.Len()
			}
			cachedZlib = zr
		} else if err := cachedZlib.(zlib.Resetter).Reset(br, dict); err != nil {
			return nil, false, br.Len()
		}
		r = cachedZlib
	} else {
		if cachedFlate == nil {
			cachedFlate = flate.NewReaderDict(br, dict)
		} else if err := cachedFlate.(flate.Resetter).Reset(br, dict); err != nil {
			return nil, false, br.Len()
		}
		r = cachedFlate
	}
	out, err := io.ReadAll(r)
	if err != nil {
		return out, false, br.Len()
	}
	if err := r.Close(); err != nil {
		return out, false, br.Len()
	}
	return out, true, br.Len()
}

// altDecode is the second oracle: the parser of inflate.go (plus the zlib
// framing by hand).
func altDecode(format string, b []byte, dict []byte) (out []byte, ok bool, used int) {
	start := 0
	if format == "zlib" {
		if len(b) < 6 || (uint(b[0])<<8|uint(b[1]))%31 != 0 || b[0]&0x0f != 8 {
			return nil, false, 0
		}
		start = 2
		if b[1]&0x20 != 0 {
			if dict == nil || len(b) < 10 {
				return nil, false, 0
			}
			d := adler32.Checksum(dict)
			if b[2] != byte(d>>24) || b[3] != byte(d>>16) || b[4] != byte(d>>8) || b[5] != byte(d) {
				return nil, false, 0
			}
			start = 6
		} else {
			dict = nil
		}
	}
	lay, err := parseDeflate(b[start:], dict)
	if err != nil {
		return nil, false, 0
	}
	used = start + (lay.EndBit+7)/8
	if format == "zlib" {
		if used+4 > len(b) {
			return lay.Out, false, used
		}
		a := adler32.Checksum(lay.Out)
		if b[used] != byte(a>>24) || b[used+1] != byte(a>>16) || b[used+2] != byte(a>>8) || b[used+3] != byte(a) {
			return lay.Out, false, used
		}
		used += 4
	}
	return lay.Out, true, used
}

type cutResult struct {
	panicked bool
	panicMsg string
	err      error
	eLen     int
	dLen     int
	buf      []byte
	wbytes   []byte
}

func doCut(format string, enc []byte, limit int, withWriter bool) (res cutResult) {
	res.buf = append([]byte(nil), enc...)
	var wb *bytes.Buffer
	var w io.Writer
	if withWriter {
		wb = &bytes.Buffer{}
		w = wb
	}
	defer func() {
		if r := recover(); r != nil {
			res.panicked = true
			res.panicMsg = fmt.Sprint(r)
		}
		if wb != nil {
			res.wbytes = wb.Bytes()
		}
	}()
	if format == "zlib" {
		res.eLen, res.dLen, res.err = zlibcut.Cut(w, res.buf, limit)
	} else {
		res.eLen, res.dLen, res.err = flatecut.Cut(w, res.buf, limit)
	}
	return
}

func b2i(b bool) int {
	if b {
		return 1
	}
	return 0
}

func isPrefix(p, whole []byte) bool { return len(p) <= len(whole) && bytes.Equal(p, whole[:len(p)]) }

// Row layout (1-based in TLA+, see FlateCutTable.tla):
//
//	1 sid  2 fmt(0 flate,1 zlib)  3 dict  4 valid  5 len  6 total  7 limit
//	8 w (0 no writer, 1 writer, 2 both calls made, same observations 9..16)
//	9 panic  10 err  11 eLen  12 dLen  13 decOK  14 trail  15 decLen  16 decPrefix
//	17 wLen  18 wPrefix
//
// Annotations, kept out of the table that TLC judges (file -ann, same index):
//
//	cutBlock, where (coverage accounting), altAgree (harness self-check),
//	count (multiplicity of a de-duplicated robustness row), errClass (reporting)
const rowLen = 18

type ann [5]int

// errClass is a reporting annotation (which known finding an error row
// belongs to); it is not read by the acceptance predicate.
func errClass(err error) int {
	if err == nil {
		return 0
	}
	s := err.Error()
	switch {
	case strings.Contains(s, "maxEncodedLen is too small"):
		return 1
	case strings.HasPrefix(s, "flate: corrupt input"):
		return 2
	case strings.Contains(s, "bad Huffman tree"):
		return 3
	case strings.Contains(s, "invalid input"):
		return 4
	case strings.Contains(s, "internal"):
		return 5
	}
	return 9
}

type row [rowLen]int

func rowOf(sid int, format string, dict []byte, valid bool, enc []byte, payload []byte, limit int, withWriter bool, res *cutResult) (row, ann) {
	var r row
	a := ann{0, 0, 1, 1, errClass(res.err)}
	r[0] = sid
	r[1] = b2i(format == "zlib")
	r[2] = b2i(dict != nil)
	r[3] = b2i(valid)
	r[4] = len(enc)
	r[5] = len(payload)
	r[6] = limit
	r[7] = b2i(withWriter)
	r[8] = b2i(res.panicked)
	r[9] = b2i(res.err != nil)
	r[10] = res.eLen
	r[11] = res.dLen
	if res.panicked || res.err != nil {
		return r, a
	}
	if valid && res.eLen >= 0 && res.eLen <= len(res.buf) {
		out, ok, trail := refDecode(format, res.buf[:res.eLen], dict)
		r[12] = b2i(ok)
		r[13] = trail
		r[14] = len(out)
		r[15] = b2i(isPrefix(out, payload))
		aout, aok, aused := altDecode(format, res.buf[:res.eLen], dict)
		agree := ok == aok
		if ok && aok {
			agree = bytes.Equal(out, aout) && (res.eLen-trail) == aused
		}
		a[2] = b2i(agree)
	}
	r[16] = len(res.wbytes)
	r[17] = b2i(isPrefix(res.wbytes, payload))
	return r, a
}

// sameObservations: fields 9..16 of two rows agree.
func sameObservations(x, y *row) bool {
	for i := 8; i <= 15; i++ {
		if x[i] != y[i] {
			return false
		}
	}
	return true
}

// classify says where a (flate-level) limit of L bytes falls in the original
// stream: cutBlock = 1-based index of the first block that does not fit
// (0 = everything fits), where = 0 fits with limit == len, 1 fits with limit >
// len, 2 header of cutBlock does not fit, 3 header fits but no symbol (with
// room for the end-of-block code) does, 4 some symbols fit, 5 like 4 but the
// room for the end-of-block code excluded a symbol that itself fits.
func classify(lay *layout, L int, flateLen int) (cutBlock int, where int) {
	for i := range lay.Blocks {
		b := &lay.Blocks[i]
		if b.End <= 8*L {
			continue
		}
		cutBlock = i + 1
		if b.Type == 0 {
			switch {
			case L < b.SymStart/8:
				return cutBlock, 2
			case L == b.SymStart/8:
				return cutBlock, 3
			}
			return cutBlock, 4
		}
		if (b.SymStart+7)/8 > L {
			return cutBlock, 2
		}
		kept, fit := 0, 0
		for _, s := range b.Syms {
			if s.End+b.EobBits <= 8*L {
				kept++
			}
			if s.End <= 8*L {
				fit++
			}
		}
		switch {
		case kept == 0:
			return cutBlock, 3
		case kept < fit:
			return cutBlock, 5
		}
		return cutBlock, 4
	}
	if L == flateLen {
		return 0, 0
	}
	return 0, 1
}

func abstractOf(lay *layout) []absBlock {
	var out []absBlock
	for i := range lay.Blocks {
		b := &lay.Blocks[i]
		ab := absBlock{T: b.Type, Fin: b2i(b.Final), Eob: b.EobBits, Syms: [][2]int{}}
		prev := b.SymStart
		if b.Type != 0 {
			ab.Hdr = b.SymStart - b.Start - 3
		}
		if b.Type == 2 && b.DistCodes == 0 {
			ab.Dz = 1
		}
		for _, s := range b.Syms {
			ab.Syms = append(ab.Syms, [2]int{s.End - prev, s.Dlen})
			prev = s.End
		}
		out = append(out, ab)
	}
	return out
}

func fail(format string, a ...interface{}) {
	fmt.Fprintf(os.Stderr, "cutreplay: "+format+"\n", a...)
	os.Exit(2)
}

type stream struct {
	rec     streamRec
	enc     []byte
	payload []byte
	dict    []byte
	lay     *layout
	start   int // offset of the raw DEFLATE data in enc
}

func realise(sh *shape, sid int, absMax int) *stream {
	rng := rand.New(rand.NewSource(sh.Seed))
	var dict []byte
	if sh.Dict {
		if sh.Fmt != "zlib" {
			fail("shape %d: preset dictionary needs zlib", sh.Index)
		}
		dict = presetDict
	}
	var enc, payload []byte
	switch sh.Gen {
	case "bw":
		raw, p := realiseBW(sh.Kinds, rng, dict)
		enc, payload = raw, p
		if sh.Fmt == "zlib" {
			enc = zlibWrap(raw, p, dict)
		}
	case "go":
		var err error
		enc, payload, err = realiseGo(sh, rng, dict)
		if err != nil {
			fail("shape %d: compress: %v", sh.Index, err)
		}
	default:
		fail("shape %d: unknown generator %q", sh.Index, sh.Gen)
	}
	return mkStream(sh, sid, enc, payload, dict, absMax)
}

func mkStream(sh *shape, sid int, enc, payload, dict []byte, absMax int) *stream {
	// The stream must be valid and must decode to the intended payload under
	// BOTH oracles before anything is cut: otherwise the harness is broken.
	out, ok, trail := refDecode(sh.Fmt, enc, dict)
	if !ok || trail != 0 || !bytes.Equal(out, payload) {
		fail("shape %d %v: realised stream rejected by compress/%s (ok=%v trail=%d same=%v) hex=%x", sh.Index, sh, sh.Fmt, ok, trail, bytes.Equal(out, payload), enc)
	}
	aout, aok, aused := altDecode(sh.Fmt, enc, dict)
	if !aok || aused != len(enc) || !bytes.Equal(aout, payload) {
		fail("shape %d %v: realised stream rejected by the harness inflate (ok=%v used=%d/%d) hex=%x", sh.Index, sh, aok, aused, len(enc), enc)
	}
	start := 0
	if sh.Fmt == "zlib" {
		start = 2
		if dict != nil {
			start = 6
		}
	}
	end := len(enc)
	if sh.Fmt == "zlib" {
		end -= 4
	}
	lay, err := parseDeflate(enc[start:end], dict)
	if err != nil {
		fail("shape %d: parse: %v", sh.Index, err)
	}
	st := &stream{enc: enc, payload: payload, dict: dict, lay: lay, start: start}
	st.rec = streamRec{Sid: sid, Shape: *sh, Fmt: sh.Fmt, Dict: dict != nil, Hex: hex.EncodeToString(enc), PayloadHex: hex.EncodeToString(payload),
		Len: len(enc), Total: len(payload)}
	if dict != nil {
		st.rec.DictHex = hex.EncodeToString(dict)
	}
	for i := range lay.Blocks {
		st.rec.Kinds = append(st.rec.Kinds, kindOf(&lay.Blocks[i]))
		st.rec.NSyms += len(lay.Blocks[i].Syms)
		st.rec.BlockEnds = append(st.rec.BlockEnds, lay.Blocks[i].End)
	}
	if sh.Gen == "bw" {
		// the bit-writer must have produced exactly the requested kinds
		if strings.Join(st.rec.Kinds, ",") != strings.Join(sh.Kinds, ",") {
			fail("shape %d: wanted kinds %v, parser sees %v", sh.Index, sh.Kinds, st.rec.Kinds)
		}
	}
	if sh.Fmt == "flate" && st.rec.NSyms <= absMax {
		st.rec.Abstract = abstractOf(lay)
	}
	return st
}

func limitsFor(format string, n int) []int {
	min := flatecut.SmallestValidMaxEncodedLen
	if format == "zlib" {
		min = zlibcut.SmallestValidMaxEncodedLen
	}
	var ls []int
	for l := min; l <= n+2; l++ {
		ls = append(ls, l)
	}
	if n+2 < min {
		ls = append(ls, min, min+1)
	}
	return append(ls, n+1000, 2147483647)
}

type table struct {
	rows []row
	anns []ann
}

func (t *table) add(r row, a ann) int {
	t.rows = append(t.rows, r)
	t.anns = append(t.anns, a)
	return len(t.rows) - 1
}

func runStream(st *stream, t *table) {
	flateLen := len(st.enc) - st.start
	if st.rec.Fmt == "zlib" {
		flateLen -= 4
	}
	for _, limit := range limitsFor(st.rec.Fmt, len(st.enc)) {
		L := limit
		if st.rec.Fmt == "zlib" {
			L = limit - st.start - 4
		}
		cb, wh := classify(st.lay, L, flateLen)
		res0 := doCut(st.rec.Fmt, st.enc, limit, false)
		r0, a0 := rowOf(st.rec.Sid, st.rec.Fmt, st.dict, true, st.enc, st.payload, limit, false, &res0)
		res1 := doCut(st.rec.Fmt, st.enc, limit, true)
		r1, a1 := rowOf(st.rec.Sid, st.rec.Fmt, st.dict, true, st.enc, st.payload, limit, true, &res1)
		a0[0], a0[1], a1[0], a1[1] = cb, wh, cb, wh
		if st.rec.Abstract != nil && limit <= len(st.enc)+2 {
			st.rec.Results = append(st.rec.Results, [4]int{limit, b2i(res0.err != nil || res0.panicked), res0.eLen, res0.dLen})
		}
		if sameObservations(&r0, &r1) && r0[16] == 0 && a0 == a1 {
			r1[7] = 2
			t.add(r1, a1)
			continue
		}
		t.add(r0, a0)
		t.add(r1, a1)
	}
}

// ------------------------------------------------------------- robustness

func mutate(rng *rand.Rand, b []byte, keep int) []byte {
	b = append([]byte(nil), b...)
	n := 1 + rng.Intn(3)
	for i := 0; i < n; i++ {
		if len(b) <= keep {
			b = append(b, byte(rng.Intn(256)))
			continue
		}
		p := keep + rng.Intn(len(b)-keep)
		switch rng.Intn(7) {
		case 0, 1:
			b[p] ^= 1 << uint(rng.Intn(8))
		case 2:
			b[p] = byte(rng.Intn(256))
		case 3:
			b = b[:p]
		case 4:
			b = append(b[:p], b[p+1:]...)
		case 5:
			b = append(b[:p], append([]byte{byte(rng.Intn(256))}, b[p:]...)...)
		case 6:
			q := keep + rng.Intn(len(b)-keep)
			if q < p {
				p, q = q, p
			}
			b = append(b[:q], b[p:]...)
		}
	}
	return b
}

type robustWitness struct {
	Fmt       string   `json:"fmt"`
	Hex       string   `json:"hex"`
	Limit     int      `json:"limit"`
	W         bool     `json:"w"`
	Panic     string   `json:"panic,omitempty"`
	Start     int      `json:"start"`          // offset of the raw DEFLATE data
	Kinds     []string `json:"kinds"`          // complete blocks the input starts with
	BlockEnds []int    `json:"block_end_bits"` // their end bits
}

func robustLimits(format string, n int, rng *rand.Rand) []int {
	all := limitsFor(format, n)
	if n <= 64 {
		return all
	}
	min := all[0]
	pick := map[int]bool{}
	for d := 0; d <= 6; d++ {
		pick[min+d] = true
	}
	for d := -3; d <= 2; d++ {
		pick[n+d] = true
	}
	for i := 0; i < 28; i++ {
		pick[min+rng.Intn(n+3-min)] = true
	}
	var ls []int
	for _, l := range all {
		if pick[l] || l > n+2 {
			ls = append(ls, l)
		}
	}
	return ls
}

func runRobust(n int, rng *rand.Rand, streams []*stream, t *table, wit map[int]robustWitness) (inputs int, calls int) {
	type rowKey struct {
		r      row
		cb, wh int
	}
	seen := map[rowKey]int{}
	try := func(format string, in []byte) {
		inputs++
		// where the limit falls in the complete blocks the input starts with
		// (reporting only: tells a rejected row of a known finding from a new one)
		start, end := 0, len(in)
		if format == "zlib" {
			start = 2
			if len(in) >= 2 && in[1]&0x20 != 0 {
				start = 6
			}
			end -= 4
		}
		pl := &layout{}
		if start <= end {
			pl = parsePrefix(in[start:end], nil)
		}
		var kinds []string
		var ends []int
		for bi := range pl.Blocks {
			kinds = append(kinds, kindOf(&pl.Blocks[bi]))
			ends = append(ends, pl.Blocks[bi].End)
		}
		for _, limit := range robustLimits(format, len(in), rng) {
			L := limit
			if format == "zlib" {
				L = limit - start - 4
			}
			cb, wh := classify(pl, L, -1)
			if cb == 0 {
				wh = 0
			}
			var rr [2]row
			var aa [2]ann
			var pm string
			for wi, ww := range []bool{false, true} {
				res := doCut(format, in, limit, ww)
				calls++
				rr[wi], aa[wi] = rowOf(0, format, nil, false, in, nil, limit, ww, &res)
				aa[wi][0], aa[wi][1] = cb, wh
				// what the bytes mean is unspecified: the writer is not judged
				rr[wi][16], rr[wi][17] = 0, 0
				if res.panicMsg != "" {
					pm = res.panicMsg
				}
			}
			emit := func(r row, a ann, w bool) {
				key := rowKey{r, a[0], a[1]}
				if r[9] == 1 && r[8] == 0 {
					// an error without panic: nothing else is judged; one row per
					// <<format, writer, error class>> with a multiplicity
					key.r[4], key.r[6], key.r[10], key.r[11] = 0, 0, 0, a[4]
					key.cb, key.wh = 0, 0
				}
				if idx, ok := seen[key]; ok {
					t.anns[idx][3]++
					return
				}
				idx := t.add(r, a)
				seen[key] = idx
				wit[idx] = robustWitness{Fmt: format, Hex: hex.EncodeToString(in), Limit: limit, W: w, Panic: pm, Start: start, Kinds: kinds, BlockEnds: ends}
			}
			if sameObservations(&rr[0], &rr[1]) && aa[0] == aa[1] {
				rr[1][7] = 2
				emit(rr[1], aa[1], true)
			} else {
				emit(rr[0], aa[0], false)
				emit(rr[1], aa[1], true)
			}
		}
	}
	for i := 0; i < n; i++ {
		format := "flate"
		if rng.Intn(2) == 0 {
			format = "zlib"
		}
		var in []byte
		switch k := rng.Intn(10); {
		case k < 2 || len(streams) == 0:
			in = make([]byte, rng.Intn(48))
			rng.Read(in)
			if format == "zlib" && len(in) >= 2 && rng.Intn(4) != 0 {
				in[0], in[1] = 0x78, 0x9c
			}
			if rng.Intn(2) == 0 && len(in) > 2 {
				// steer towards the Huffman code paths: a dynamic or fixed header
				off := 0
				if format == "zlib" {
					off = 2
				}
				in[off] = in[off]&^7 | byte(rng.Intn(2)) | byte(2+2*rng.Intn(2))
			}
		case k < 4:
			// every proper prefix of a valid stream is an invalid stream
			st := streams[rng.Intn(len(streams))]
			format = st.rec.Fmt
			in = append([]byte(nil), st.enc[:rng.Intn(len(st.enc))]...)
		default:
			st := streams[rng.Intn(len(streams))]
			format = st.rec.Fmt
			keep := 0
			if format == "zlib" && rng.Intn(4) != 0 {
				keep = st.start
			}
			in = mutate(rng, st.enc, keep)
		}
		try(format, in)
	}
	return
}

// ------------------------------------------------------------------- main

type oneReq struct {
	Fmt        string `json:"fmt"`
	Hex        string `json:"hex"`
	PayloadHex string `json:"payload_hex"`
	DictHex    string `json:"dict_hex"`
	Valid      bool   `json:"valid"`
	Limit      int    `json:"limit"`
	W          bool   `json:"w"`
}

func main() {
	shapesFile := flag.String("shapes", "", "JSON list of shapes (TLC export, sampled by the runner)")
	outFile := flag.String("out", "rows.json", "rows for TLC")
	streamsFile := flag.String("streams", "streams.json", "realised streams (hex, payload, layout, abstract image)")
	witFile := flag.String("witness", "robust.json", "first input of every distinct robustness row")
	annFile := flag.String("ann", "ann.json", "per-row annotations (not judged)")
	seed := flag.Int64("seed", 1, "seed")
	robust := flag.Int("robust", 0, "number of arbitrary / mutated inputs")
	absMax := flag.Int("abstract-max", 40, "emit the abstract image of flate streams with at most this many symbols")
	one := flag.String("one", "", "replay one <stream, limit> and print the row")
	cpuprof := flag.String("cpuprofile", "", "write a CPU profile (development aid)")
	degen := flag.String("degenerate", "", "write DEFLATE streams with degenerate Huffman trees into this directory and exit")
	flag.Parse()
	if *degen != "" {
		if err := writeDegenerate(*degen); err != nil {
			fail("%v", err)
		}
		return
	}
	debug.SetGCPercent(400)
	if *cpuprof != "" {
		f, err := os.Create(*cpuprof)
		if err != nil {
			fail("%v", err)
		}
		pprof.StartCPUProfile(f)
		defer pprof.StopCPUProfile()
	}

	if *one != "" {
		var q oneReq
		data, err := os.ReadFile(*one)
		if err != nil {
			fail("%v", err)
		}
		if err := json.Unmarshal(data, &q); err != nil {
			fail("%v", err)
		}
		enc, _ := hex.DecodeString(q.Hex)
		payload, _ := hex.DecodeString(q.PayloadHex)
		var dict []byte
		if q.DictHex != "" {
			dict, _ = hex.DecodeString(q.DictHex)
		}
		res := doCut(q.Fmt, enc, q.Limit, q.W)
		r, _ := rowOf(1, q.Fmt, dict, q.Valid, enc, payload, q.Limit, q.W, &res)
		if !q.Valid {
			r[16], r[17] = 0, 0
		}
		errs := ""
		if res.err != nil {
			errs = res.err.Error()
		}
		json.NewEncoder(os.Stdout).Encode(map[string]interface{}{"row": r, "err": errs, "panic": res.panicMsg,
			"cut_hex": hex.EncodeToString(res.buf[:clamp(res.eLen, len(res.buf))])})
		return
	}

	var shapes []shape
	data, err := os.ReadFile(*shapesFile)
	if err != nil {
		fail("%v", err)
	}
	if err := json.Unmarshal(data, &shapes); err != nil {
		fail("shapes: %v", err)
	}
	t := &table{}
	var streams []*stream
	var recs []streamRec
	errTexts := map[string]int{}
	cutCalls := 0
	for i := range shapes {
		st := realise(&shapes[i], i+1, *absMax)
		streams = append(streams, st)
		runStream(st, t)
		cutCalls += 2 * len(limitsFor(st.rec.Fmt, len(st.enc)))
		recs = append(recs, st.rec)
	}
	validRows := len(t.rows)
	// error texts of valid-stream rows (reporting only)
	for _, st := range streams {
		for _, limit := range []int{len(st.enc) - 1, len(st.enc)} {
			res := doCut(st.rec.Fmt, st.enc, limit, false)
			if res.err != nil {
				errTexts[res.err.Error()]++
			}
		}
	}
	wit := map[int]robustWitness{}
	rin, rcalls := 0, 0
	if *robust > 0 {
		rin, rcalls = runRobust(*robust, rand.New(rand.NewSource(*seed^0x5eed)), streams, t, wit)
	}
	writeJSON(*outFile, t.rows)
	writeJSON(*annFile, t.anns)
	writeJSON(*streamsFile, recs)
	writeJSON(*witFile, wit)
	json.NewEncoder(os.Stdout).Encode(map[string]interface{}{
		"streams": len(streams), "valid_rows": validRows, "valid_calls": cutCalls, "rows": len(t.rows),
		"robust_inputs": rin, "robust_calls": rcalls, "robust_distinct_rows": len(t.rows) - validRows,
		"err_texts": errTexts,
	})
}

func clamp(v, hi int) int {
	if v < 0 {
		return 0
	}
	if v > hi {
		return hi
	}
	return v
}

func writeJSON(path string, v interface{}) {
	f, err := os.Create(path)
	if err != nil {
		fail("%v", err)
	}
	if err := json.NewEncoder(f).Encode(v); err != nil {
		fail("%v", err)
	}
	if err := f.Close(); err != nil {
		fail("%v", err)
	}
}

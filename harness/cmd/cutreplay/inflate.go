package main

// An independent, deliberately simple inflate that also records the bit
// layout of the stream: for every block its type, final flag, the bit at
// which its header starts, the bit at which its first symbol starts, the end
// bit and decoded length of every symbol and the length of its end-of-block
// code.  It is the second decoding oracle (next to compress/flate), the
// source of the abstract streams handed to TLC, and of the limit classes.

import (
	"errors"
	"fmt"
)

type symInfo struct {
	End  int // bit position just after the symbol (incl. extra bits and the distance)
	Dlen int
}

type blockInfo struct {
	Type      int // 0 stored, 1 fixed, 2 dynamic
	Final     bool
	Start     int // bit position of the final-block bit
	SymStart  int // first symbol bit (stored: first data BYTE * 8)
	Syms      []symInfo
	EobBits   int // length of the end-of-block code (0 for stored)
	End       int // bit position just after the block
	DistCodes int // number of distance codes with non-zero length (dynamic)
	LitCodes  int
	MaxLen    int // longest literal/length code
}

type layout struct {
	Blocks []blockInfo
	Out    []byte
	EndBit int
}

type bitReader struct {
	b   []byte
	pos int
}

var errShort = errors.New("inflate: unexpected end of data")

var fixedLit, fixedDist *hdec

func (r *bitReader) bit() (uint32, error) {
	if r.pos >= 8*len(r.b) {
		return 0, errShort
	}
	v := uint32(r.b[r.pos>>3]>>(uint(r.pos)&7)) & 1
	r.pos++
	return v, nil
}

func (r *bitReader) bits(n uint) (uint32, error) {
	v := uint32(0)
	for i := uint(0); i < n; i++ {
		b, err := r.bit()
		if err != nil {
			return 0, err
		}
		v |= b << i
	}
	return v, nil
}

type hdec struct {
	m      map[uint32]int // (len<<16 | code) -> symbol
	maxLen int
	n      int
}

func newHdec(lengths []int, allowEmpty bool) (*hdec, error) {
	h := &hdec{m: map[uint32]int{}}
	codes := canonicalCheck(lengths)
	kraft := 0
	for s, l := range lengths {
		if l == 0 {
			continue
		}
		h.n++
		if l > h.maxLen {
			h.maxLen = l
		}
		kraft += 1 << uint(15-l)
		h.m[uint32(l)<<16|codes[s]] = s
	}
	switch {
	case h.n == 0:
		if !allowEmpty {
			return nil, errors.New("inflate: empty code")
		}
	case kraft > 1<<15:
		return nil, errors.New("inflate: over-subscribed code")
	case kraft < 1<<15:
		if !(h.n == 1 && h.maxLen == 1) {
			return nil, errors.New("inflate: incomplete code")
		}
	}
	return h, nil
}

// canonicalCheck is a second implementation of RFC 1951 3.2.2 (kept apart
// from bitw.go's so that writer and parser do not share the routine).
func canonicalCheck(lengths []int) []uint32 {
	codes := make([]uint32, len(lengths))
	code := uint32(0)
	for l := 1; l <= 15; l++ {
		for s, x := range lengths {
			if x == l {
				codes[s] = code
				code++
			}
		}
		code <<= 1
	}
	return codes
}

func (h *hdec) decode(r *bitReader) (sym int, nbits int, err error) {
	code := uint32(0)
	for l := 1; l <= 15; l++ {
		b, err := r.bit()
		if err != nil {
			return 0, 0, err
		}
		code = code<<1 | b
		if s, ok := h.m[uint32(l)<<16|code]; ok {
			return s, l, nil
		}
	}
	return 0, 0, errors.New("inflate: bad code")
}

// parseDeflate decodes a complete raw DEFLATE stream.  dict is the preset
// dictionary (may be nil).
func parseDeflate(enc []byte, dict []byte) (*layout, error) {
	lay := &layout{}
	err := parseInto(lay, enc, dict, false)
	if err != nil {
		return nil, err
	}
	return lay, nil
}

// parsePrefix parses as many complete blocks as enc starts with (used to say
// where a limit falls in bytes that are not a valid stream).  Only the bit
// structure matters here: copies that reach before the start of the output
// are tolerated (lib/flatecut's walk does not look at distances either).
func parsePrefix(enc []byte, dict []byte) *layout {
	lay := &layout{}
	parseInto(lay, enc, dict, true)
	return lay
}

func parseInto(lay *layout, enc []byte, dict []byte, structureOnly bool) error {
	r := &bitReader{b: enc}
	out := append([]byte{}, dict...)
	for {
		bi := blockInfo{Start: r.pos}
		f, err := r.bits(1)
		if err != nil {
			return err
		}
		t, err := r.bits(2)
		if err != nil {
			return err
		}
		bi.Final = f == 1
		bi.Type = int(t)
		switch t {
		case 0:
			r.pos = (r.pos + 7) &^ 7
			if r.pos/8+4 > len(enc) {
				return errShort
			}
			i := r.pos / 8
			n := int(enc[i]) | int(enc[i+1])<<8
			nn := int(enc[i+2]) | int(enc[i+3])<<8
			if n^nn != 0xFFFF {
				return errors.New("inflate: bad stored length")
			}
			if i+4+n > len(enc) {
				return errShort
			}
			bi.SymStart = 8 * (i + 4)
			for j := 0; j < n; j++ {
				out = append(out, enc[i+4+j])
				bi.Syms = append(bi.Syms, symInfo{End: 8 * (i + 5 + j), Dlen: 1})
			}
			r.pos = 8 * (i + 4 + n)
		case 1, 2:
			var lh, dh *hdec
			if t == 1 {
				if fixedLit == nil {
					fixedLit, _ = newHdec(fixedLitLengths(), false)
					fixedDist, _ = newHdec(append(fixedDistLengths(), 5, 5), false)
				}
				lh, dh = fixedLit, fixedDist
			} else {
				hl, err := r.bits(5)
				if err != nil {
					return err
				}
				hd, err := r.bits(5)
				if err != nil {
					return err
				}
				hc, err := r.bits(4)
				if err != nil {
					return err
				}
				nl, nd := int(hl)+257, int(hd)+1
				if nl > 286 || nd > 30 {
					return errors.New("inflate: too many codes")
				}
				cl := make([]int, 19)
				for j := 0; j < int(hc)+4; j++ {
					v, err := r.bits(3)
					if err != nil {
						return err
					}
					cl[clOrder[j]] = int(v)
				}
				ch, err := newHdec(cl, false)
				if err != nil {
					return fmt.Errorf("code length code: %v", err)
				}
				lens := make([]int, 0, nl+nd)
				for len(lens) < nl+nd {
					s, _, err := ch.decode(r)
					if err != nil {
						return err
					}
					switch {
					case s < 16:
						lens = append(lens, s)
					case s == 16:
						if len(lens) == 0 {
							return errors.New("inflate: repeat without previous")
						}
						c, err := r.bits(2)
						if err != nil {
							return err
						}
						for j := 0; j < int(c)+3; j++ {
							lens = append(lens, lens[len(lens)-1])
						}
					case s == 17:
						c, err := r.bits(3)
						if err != nil {
							return err
						}
						for j := 0; j < int(c)+3; j++ {
							lens = append(lens, 0)
						}
					default:
						c, err := r.bits(7)
						if err != nil {
							return err
						}
						for j := 0; j < int(c)+11; j++ {
							lens = append(lens, 0)
						}
					}
				}
				if len(lens) != nl+nd {
					return errors.New("inflate: code lengths overrun")
				}
				if lens[256] == 0 {
					return errors.New("inflate: no end-of-block code")
				}
				if lh, err = newHdec(lens[:nl], false); err != nil {
					return fmt.Errorf("literal code: %v", err)
				}
				if dh, err = newHdec(lens[nl:], true); err != nil {
					return fmt.Errorf("distance code: %v", err)
				}
			}
			bi.LitCodes, bi.DistCodes, bi.MaxLen = lh.n, dh.n, lh.maxLen
			bi.SymStart = r.pos
			for {
				s, nb, err := lh.decode(r)
				if err != nil {
					return err
				}
				if s == 256 {
					bi.EobBits = nb
					break
				}
				if s < 256 {
					out = append(out, byte(s))
					bi.Syms = append(bi.Syms, symInfo{End: r.pos, Dlen: 1})
					continue
				}
				if s > 285 {
					return errors.New("inflate: bad length symbol")
				}
				e, err := r.bits(lenExtra[s-257])
				if err != nil {
					return err
				}
				length := lenBase[s-257] + int(e)
				ds, _, err := dh.decode(r)
				if err != nil {
					return err
				}
				if ds > 29 {
					return errors.New("inflate: bad distance symbol")
				}
				e, err = r.bits(distExtra[ds])
				if err != nil {
					return err
				}
				dist := distBase[ds] + int(e)
				if dist > len(out) && !structureOnly {
					return errors.New("inflate: distance too far back")
				}
				for j := 0; j < length; j++ {
					if dist > len(out) {
						out = append(out, 0)
					} else {
						out = append(out, out[len(out)-dist])
					}
				}
				bi.Syms = append(bi.Syms, symInfo{End: r.pos, Dlen: length})
			}
		default:
			return errors.New("inflate: bad block type")
		}
		bi.End = r.pos
		lay.Blocks = append(lay.Blocks, bi)
		if bi.Final {
			break
		}
	}
	lay.EndBit = r.pos
	lay.Out = out[len(dict):]
	return nil
}

// kindOf names a parsed block with the alphabet of the shape specification.
func kindOf(b *blockInfo) string {
	switch b.Type {
	case 0:
		if len(b.Syms) == 0 {
			return "S0"
		}
		return "S"
	case 1:
		if len(b.Syms) == 0 {
			return "F0"
		}
		return "F"
	}
	switch {
	case len(b.Syms) == 0:
		return "D0"
	case b.DistCodes == 0:
		return "DZ"
	case b.MaxLen == 15:
		return "DL"
	case b.DistCodes == 1:
		return "D1"
	}
	return "D"
}

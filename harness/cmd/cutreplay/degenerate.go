package main

// -degenerate <dir>: DEFLATE streams with DEGENERATE Huffman trees, written with the bit writer (Go's encoder never
// emits them): a distance alphabet with a single code of one bit (at symbol 0, 5, 29), with no code at all, and the
// INVALID variants that use the unassigned one-bit code or a distance although there is no distance code.  Used as
// decoder inputs (C09, C03): a decoder's reaction to the unassigned code must not depend on what the table slot held
// before (memory contents, an earlier decode).

import (
	"encoding/json"
	"fmt"
	"os"
	"path/filepath"
)

func writeDegenerate(dir string) error {
	if err := os.MkdirAll(dir, 0o755); err != nil {
		return err
	}
	type ent struct {
		File  string `json:"file"`
		Valid bool   `json:"valid"`
		What  string `json:"what"`
	}
	var man []ent
	lits := []byte("abcabcabc-degenerate-")
	mk := func(name string, distSymbol int, nDist int, useMatch bool, unassigned bool, valid bool, what string) error {
		// literal/length lengths: the literals used, 256, and length symbol 257 (length 3)
		used := map[int]bool{256: true, 257: true}
		for _, c := range lits {
			used[int(c)] = true
		}
		var syms []int
		for s := 0; s < 286; s++ {
			if used[s] {
				syms = append(syms, s)
			}
		}
		bl := balanced(len(syms))
		ll := make([]int, 258)
		for i, s := range syms {
			ll[s] = bl[i]
		}
		dl := make([]int, nDist)
		if distSymbol >= 0 {
			dl[distSymbol] = 1
		}
		w := &bitWriter{}
		// header + trees, no tokens yet
		w.dynamicHeader(true, ll, dl)
		lc := canonical(ll)
		for _, c := range lits {
			w.code(lc[int(c)], uint(ll[int(c)]))
		}
		if useMatch {
			// length 3 (symbol 257, no extra bits), then the distance code
			w.code(lc[257], uint(ll[257]))
			if unassigned {
				w.bit(1) // the one-bit code that the tree does NOT assign
			} else {
				w.bit(0) // the single assigned code
			}
			if distSymbol >= 0 {
				_, _, n := distSym(distBase[distSymbol])
				w.bits(0, n) // extra bits: the base distance of the symbol
			}
		}
		w.code(lc[256], uint(ll[256]))
		w.align()
		p := filepath.Join(dir, name+".deflate")
		if err := os.WriteFile(p, w.buf, 0o644); err != nil {
			return err
		}
		man = append(man, ent{File: p, Valid: valid, What: what})
		return nil
	}
	for _, ds := range []int{0, 5} {
		if err := mk(fmt.Sprintf("one-dist-code-sym%d-used", ds), ds, 30, true, false, true,
			"a single one-bit distance code, used by a match"); err != nil {
			return err
		}
		if err := mk(fmt.Sprintf("one-dist-code-sym%d-unassigned", ds), ds, 30, true, true, false,
			"a single one-bit distance code; the match uses the OTHER, unassigned one-bit code"); err != nil {
			return err
		}
		if err := mk(fmt.Sprintf("one-dist-code-sym%d-unused", ds), ds, 30, false, false, true,
			"a single one-bit distance code that no symbol uses"); err != nil {
			return err
		}
	}
	if err := mk("no-dist-code-literals-only", -1, 1, false, false, true, "no distance code at all, literals only"); err != nil {
		return err
	}
	if err := mk("no-dist-code-but-match", -1, 1, true, true, false, "no distance code at all, but a length symbol follows"); err != nil {
		return err
	}
	b, _ := json.MarshalIndent(man, "", " ")
	return os.WriteFile(filepath.Join(dir, "manifest.json"), b, 0o644)
}

// dynamicHeader writes the header of a dynamic block (BFINAL, BTYPE, HLIT, HDIST, HCLEN, the code-length code and the
// two length sequences) and nothing else.
func (w *bitWriter) dynamicHeader(final bool, ll []int, dl []int) {
	w.header(final, 2)
	w.bits(uint32(len(ll)-257), 5)
	w.bits(uint32(len(dl)-1), 5)
	w.bits(19-4, 4)
	cl := clLengths()
	cc := canonical(cl)
	for _, s := range clOrder {
		w.bits(uint32(cl[s]), 3)
	}
	all := append(append([]int{}, ll...), dl...)
	for _, v := range all {
		w.code(cc[v], uint(cl[v]))
	}
}

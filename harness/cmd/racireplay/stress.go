package main

// -cgostress: reproduce the known finding "cgozlib-zstream-in-go-memory".
//
// lib/cgozlib.Reader keeps its C.z_stream inside a Go object.  During
// inflate() zlib stores next_out (a pointer into the caller's Go buffer,
// finally one past its end) in that z_stream, i.e. C code stores Go pointers
// in Go memory, which cgo forbids: a GC mark worker that scans the Reader at
// that moment finds a pointer to the slot after the buffer and, if that slot
// is free, kills the process ("marking free object" / "found bad pointer in Go
// heap").  Here: valid RAC+zlib files read with buffers that fill their
// allocation exactly, many goroutines, GC running all the time.  The process
// either dies with the runtime's fatal error or prints {"stress":"survived"}.

import (
	"bytes"
	"fmt"
	"io"
	"math/rand"
	"os"
	"runtime"
	"runtime/debug"
	"sync"
	"sync/atomic"
	"time"

	"github.com/google/wuffs/lib/rac"
	"github.com/google/wuffs/lib/raczlib"
)

func stress(d time.Duration) {
	debug.SetGCPercent(1)
	rng := rand.New(rand.NewSource(1))
	data := writeRAC(payload(rng, 16*65536), 65536, false, nil)
	var stop int32
	var reads int64
	var wg sync.WaitGroup
	go func() {
		for atomic.LoadInt32(&stop) == 0 {
			runtime.GC()
		}
	}()
	for g := 0; g < 4*runtime.NumCPU(); g++ {
		wg.Add(1)
		go func(g int) {
			defer wg.Done()
			sizes := []int{256, 4096, 8192, 32768}
			for atomic.LoadInt32(&stop) == 0 {
				r := &rac.Reader{ReadSeeker: bytes.NewReader(data), CompressedSize: int64(len(data)),
					CodecReaders: []rac.CodecReader{&raczlib.CodecReader{}}}
				for {
					buf := make([]byte, sizes[g%len(sizes)]) // exactly one size class: its end is the slot's end
					_, err := r.Read(buf)
					atomic.AddInt64(&reads, 1)
					if err != nil {
						if err != io.EOF {
							fmt.Fprintln(os.Stderr, "stress: unexpected error:", err)
						}
						break
					}
				}
				r.Close()
			}
		}(g)
	}
	time.Sleep(d)
	atomic.StoreInt32(&stop, 1)
	wg.Wait()
	fmt.Printf("{\"stress\":\"survived\",\"reads\":%d}\n", atomic.LoadInt64(&reads))
}

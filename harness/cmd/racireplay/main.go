// racireplay drives /repo's lib/rac readers over hostile RAC files (C15).
//
// It only DRIVES, RECORDS and TRANSPORTS.  Which recorded result is acceptable
// is decided by TLC on spec/Trace_RacChunks.tla; which abstract file is valid
// and what its chunk list is, is decided by TLC on spec/RacIndex.tla.
//
// Modes
//
//	racireplay -cases cases.ndjson -out obs.ndjson [-budgetx 1] [-hex]
//	    cases.ndjson lines:  {"id":7,"row":[size,head,[node...],valid,dsize,zeroes,fdafter,[chunk...],family]}
//	                    or:  {"id":7,"hex":"72c363...","claimed":123}
//	    (row = one line exported by RacIndex.tla, see RowOf there; node =
//	    [off,ar,ar2,ver,codec,cmax,dmg,[dptr],[ttag],[cptr],[clen],[stag]])
//	racireplay -cgostress 8
//	    reproduces the known finding "cgozlib-zstream-in-go-memory" (stress.go)
//	racireplay -gen -seed 3 -n 500 -tier quick -out obs.ndjson [-only 4,9] [-budgetx 4] [-hex]
//	    byte-level mutations / truncations / claimed-size lies of real files
//	    written with rac.Writer + raczlib, and hand-built reference cycles
//	    and deep chains; case k is a pure function of (seed, k).
//
// Every case is run twice on fresh readers (same kind of source).  A run
// opens a ChunkReader, asks DecompressedSize, walks NextChunk to exhaustion,
// calls SeekToChunkContaining at every DRange boundary -1/0/+1 followed by
// NextChunk, and reads the whole file (then Seeks and reads again) through
// rac.Reader without and with the raczlib CodecReader.  The source is an
// io.ReadSeeker (even ids) or an io.ReadSeeker+io.ReaderAt (odd ids) that
// counts calls and bytes per public call of the reader and fails every call
// with errBudget once one public call has made more than
// budgetx*(64 + 8*size) source calls; everything runs under recover() and a
// wall-clock watchdog.
//
// One output line per case (see obsLine).  All file offsets are written as
// [hi, lo] with value = hi*2^24 + lo, because TLC's integers are 32-bit.
package main

import (
	"bufio"
	"bytes"
	"crypto/sha256"
	"encoding/hex"
	"encoding/json"
	"errors"
	"flag"
	"fmt"
	"io"
	"os"
	"runtime"
	"sort"
	"strconv"
	"strings"
	"sync"
	"time"

	"github.com/google/wuffs/lib/rac"
	"github.com/google/wuffs/lib/raczlib"
)

// ---------------------------------------------------------------- sources

var errBudget = errors.New("racireplay: work budget of this public call exceeded")

type stats struct {
	opLimit   int64 // limit for the current public call
	opCalls   int64
	maxOp     int64 // max over ChunkReader-level public calls
	calls     int64 // total
	nbytes    int64
	exceeded  bool
	cycle     bool
	ring      [512]int64
	ringN     int
	track     bool // count maxOp for this op
	rdrCalls  int64
	rdrOps    int64
	inReader  bool
	baseLimit int64
	opEOF     bool // the source itself reported io.EOF during the current public call
}

func (s *stats) begin(mult int64, reader bool) {
	s.opLimit = s.baseLimit * mult
	s.opCalls = 0
	s.opEOF = false
	s.ringN = 0
	s.inReader = reader
	if reader {
		s.rdrOps++
	}
}

func (s *stats) end() {
	if !s.inReader && s.opCalls > s.maxOp {
		s.maxOp = s.opCalls
	}
}

func (s *stats) tick(off int64, n int) error {
	if s.exceeded {
		return errBudget
	}
	s.calls++
	s.opCalls++
	s.nbytes += int64(n)
	if s.inReader {
		s.rdrCalls++
	}
	s.ring[s.ringN%len(s.ring)] = off
	s.ringN++
	if s.opCalls > s.opLimit {
		s.exceeded = true
		s.cycle = s.periodic()
		return errBudget
	}
	return nil
}

// periodic reports whether the offsets touched at the end of the current
// public call repeat with some period p <= 128 for at least three periods:
// the signature of a walk that goes round a cycle of index nodes.
func (s *stats) periodic() bool {
	n := s.ringN
	if n > len(s.ring) {
		n = len(s.ring)
	}
	at := func(i int) int64 { return s.ring[(s.ringN-1-i)%len(s.ring)] } // i-th most recent
	for p := 1; p <= 128 && 4*p <= n; p++ {
		ok := true
		for i := 0; i < 3*p; i++ {
			if at(i) != at(i+p) {
				ok = false
				break
			}
		}
		if ok {
			return true
		}
	}
	return false
}

// rsSource is an io.ReadSeeker only.
type rsSource struct {
	b   []byte
	pos int64
	st  *stats
}

func (r *rsSource) Read(p []byte) (int, error) {
	if err := r.st.tick(r.pos, 0); err != nil {
		return 0, err
	}
	if r.pos >= int64(len(r.b)) {
		r.st.opEOF = true
		return 0, io.EOF
	}
	n := copy(p, r.b[r.pos:])
	r.pos += int64(n)
	r.st.nbytes += int64(n)
	return n, nil
}

func (r *rsSource) Seek(offset int64, whence int) (int64, error) {
	if err := r.st.tick(-1-offset, 0); err != nil {
		return 0, err
	}
	switch whence {
	case io.SeekStart:
	case io.SeekCurrent:
		offset += r.pos
	case io.SeekEnd:
		offset += int64(len(r.b))
	default:
		return 0, errors.New("racireplay: bad whence")
	}
	if offset < 0 {
		return 0, errors.New("racireplay: negative seek")
	}
	r.pos = offset
	return offset, nil
}

// raSource additionally implements io.ReaderAt (the readers then never call
// Read or Seek).
type raSource struct {
	rsSource
}

func (r *raSource) ReadAt(p []byte, off int64) (int, error) {
	if err := r.st.tick(off, 0); err != nil {
		return 0, err
	}
	if off < 0 {
		return 0, errors.New("racireplay: negative ReadAt")
	}
	if off >= int64(len(r.b)) {
		r.st.opEOF = true
		return 0, io.EOF
	}
	n := copy(p, r.b[off:])
	r.st.nbytes += int64(n)
	if n < len(p) {
		r.st.opEOF = true
		return n, io.EOF
	}
	return n, nil
}

// ------------------------------------------------------------- recording

const lim24 = 1 << 24

func split(v int64) [2]int64 {
	if v < 0 {
		return [2]int64{-1, 0}
	}
	return [2]int64{v / lim24, v % lim24}
}

// chunkRec = [dlo.hi, dlo.lo, dhi.hi, dhi.lo, clo.hi, clo.lo, chi.hi, chi.lo, ttag]
func chunkRec(c rac.Chunk) []int64 {
	a, b, x, y := split(c.DRange[0]), split(c.DRange[1]), split(c.CPrimary[0]), split(c.CPrimary[1])
	return []int64{a[0], a[1], b[0], b[1], x[0], x[1], y[0], y[1], int64(c.TTag)}
}

type readRec struct {
	E       int      `json:"e"` // 0 read to io.EOF, 1 error, 2 capped, 3 skipped, 4 no progress
	N       [2]int64 `json:"n"`
	Zero    bool     `json:"zero"`   // every byte delivered was 0
	EofSrc  bool     `json:"eofsrc"` // the Read that returned io.EOF had seen the SOURCE report io.EOF
	Hash    string   `json:"h"`
	SeekErr int      `json:"se"` // number of failed Seek/Read-after-Seek steps
}

type runRec struct {
	Term     bool      `json:"term"`
	Panic    bool      `json:"panic"`
	PanicMsg string    `json:"pmsg,omitempty"`
	Budget   bool      `json:"budget"`
	Cycle    bool      `json:"cycle"`
	DsE      int       `json:"dse"`   // 0 ok, 1 error
	DsEOF    bool      `json:"dseof"` // the error returned by DecompressedSize is io.EOF itself
	Ds       [2]int64  `json:"ds"`
	WalkE    int       `json:"we"`      // 0 ended with io.EOF, 1 error, 2 capped
	WEofSrc  bool      `json:"weofsrc"` // the NextChunk that returned io.EOF had seen the SOURCE report io.EOF
	Walk     [][]int64 `json:"walk"`
	Seeks    [][]int64 `json:"seeks"` // [pos.hi,pos.lo,neg,e(0 chunk,1 EOF,2 error), chunk...]
	Rz       readRec   `json:"rz"`
	Rl       readRec   `json:"rl"`
	MaxCalls int64     `json:"maxcalls"`
	RCalls   int64     `json:"rcalls"`
	ROps     int64     `json:"rops"`
	Errs     []string  `json:"errs,omitempty"` // first error texts, diagnostics only
	Phase    string    `json:"phase,omitempty"`
	calls    int64
	nbytes   int64
}

type obsLine struct {
	ID      int      `json:"id"`
	Kind    string   `json:"kind"` // model | bytes
	What    string   `json:"what,omitempty"`
	Size    [2]int64 `json:"size"`
	SizeInt int64    `json:"sizeint"`
	Src     string   `json:"src"` // rs | ra
	Obs     runRec   `json:"obs"`
	D       []string `json:"d"` // digest of run 1 and run 2
	Calls   int64    `json:"calls"`
	Bytes   int64    `json:"bytes"`
	Hex     string   `json:"hex,omitempty"`
}

const (
	walkCap = 4000 // chunks recorded per walk (a longer walk is cut: we = 2, prefix conditions only)
	readCap = 1 << 20
)

func addErr(r *runRec, where string, err error) {
	if len(r.Errs) < 4 {
		r.Errs = append(r.Errs, where+": "+err.Error())
	}
}

// runOnce performs all phases on one fresh set of readers.
func runOnce(data []byte, claimed int64, useRA bool, budgetx int64, maxSeeks int, pick func(n int) int, res *runRec) {
	st := &stats{baseLimit: budgetx * (64 + 8*claimed)}
	mk := func() io.ReadSeeker {
		if useRA {
			return &raSource{rsSource{b: data, st: st}}
		}
		return &rsSource{b: data, st: st}
	}
	defer func() {
		if x := recover(); x != nil {
			res.Panic = true
			res.PanicMsg = fmt.Sprint(x)
			buf := make([]byte, 2048)
			buf = buf[:runtime.Stack(buf, false)]
			res.PanicMsg += " | " + strings.ReplaceAll(string(buf), "\n", " ; ")
		}
		res.Budget = st.exceeded
		res.Cycle = st.cycle
		res.MaxCalls = st.maxOp
		res.RCalls = st.rdrCalls
		res.ROps = st.rdrOps
		res.calls = st.calls
		res.nbytes = st.nbytes
	}()

	// Phase 1: open + DecompressedSize + walk.
	res.Phase = "open"
	cr := &rac.ChunkReader{ReadSeeker: mk(), CompressedSize: claimed}
	st.begin(1, false)
	ds, err := cr.DecompressedSize()
	st.end()
	if err != nil {
		res.DsE = 1
		res.DsEOF = err == io.EOF
		addErr(res, "DecompressedSize", err)
		// Behaviour after a returned error is not constrained by the
		// property: the walk uses a fresh ChunkReader whose first call is
		// NextChunk.
		cr = &rac.ChunkReader{ReadSeeker: mk(), CompressedSize: claimed}
	}
	res.Ds = split(ds)
	res.Phase = "walk"
	res.Walk = [][]int64{}
	var chunks []rac.Chunk
	for {
		if len(chunks) >= walkCap {
			res.WalkE = 2
			break
		}
		st.begin(1, false)
		c, err := cr.NextChunk()
		st.end()
		if err == io.EOF {
			res.WalkE = 0
			res.WEofSrc = st.opEOF
			break
		}
		if err != nil {
			res.WalkE = 1
			addErr(res, "NextChunk", err)
			break
		}
		chunks = append(chunks, c)
		res.Walk = append(res.Walk, chunkRec(c))
	}

	// Phase 2: seeks at every boundary -1/0/+1.
	res.Phase = "seek"
	res.Seeks = [][]int64{}
	if !st.exceeded {
		posSet := map[int64]bool{-1: true, 0: true, 1: true}
		for _, c := range chunks {
			for d := int64(-1); d <= 1; d++ {
				posSet[c.DRange[0]+d] = true
				posSet[c.DRange[1]+d] = true
			}
		}
		if res.DsE == 0 {
			for d := int64(-1); d <= 1; d++ {
				posSet[ds+d] = true
			}
		}
		var poss []int64
		for p := range posSet {
			poss = append(poss, p)
		}
		sort.Slice(poss, func(i, j int) bool { return poss[i] < poss[j] })
		if maxSeeks > 0 && len(poss) > maxSeeks {
			sel := map[int]bool{0: true, 1: true, 2: true, len(poss) - 1: true, len(poss) - 2: true}
			for len(sel) < maxSeeks {
				sel[pick(len(poss))] = true
			}
			var q []int64
			for i, p := range poss {
				if sel[i] {
					q = append(q, p)
				}
			}
			poss = q
		}
		var scr *rac.ChunkReader
		for _, p := range poss {
			if st.exceeded {
				break
			}
			if scr == nil {
				scr = &rac.ChunkReader{ReadSeeker: mk(), CompressedSize: claimed}
			}
			neg := int64(0)
			ap := split(p)
			if p < 0 {
				neg = 1
				ap = split(-p)
			}
			rec := []int64{ap[0], ap[1], neg, 0}
			st.begin(1, false)
			err := scr.SeekToChunkContaining(p)
			st.end()
			if err != nil {
				rec[3] = 2
				scr = nil
				res.Seeks = append(res.Seeks, rec)
				continue
			}
			st.begin(1, false)
			c, err := scr.NextChunk()
			st.end()
			if err == io.EOF {
				rec[3] = 1
			} else if err != nil {
				rec[3] = 2
				scr = nil
			} else {
				rec = append(rec, chunkRec(c)...)
			}
			res.Seeks = append(res.Seeks, rec)
		}
	}

	// Phase 3: rac.Reader without and with raczlib.
	readPass := func(codecs []rac.CodecReader, out *readRec, name string) {
		if st.exceeded {
			out.E = 3
			return
		}
		res.Phase = name
		r := &rac.Reader{ReadSeeker: mk(), CompressedSize: claimed, CodecReaders: codecs}
		h := sha256.New()
		// The end of buf must not be the end of its allocation: lib/cgozlib keeps
		// its z_stream in Go memory, zlib advances next_out to one past the end
		// of the buffer there, and a concurrent GC scan then dies with "marking
		// free object" (known finding cgozlib-zstream-in-go-memory; -cgostress
		// reproduces it).  Generators avoid only this exact construct.
		buf := make([]byte, 256+64)[:256]
		n := int64(0)
		out.Zero = true
		idle := 0
		for {
			st.begin(int64(len(buf))+1, true)
			k, err := r.Read(buf)
			st.end()
			for _, b := range buf[:k] {
				if b != 0 {
					out.Zero = false
				}
			}
			h.Write(buf[:k])
			n += int64(k)
			if err == io.EOF {
				out.E = 0
				out.EofSrc = st.opEOF
				break
			}
			if err != nil {
				out.E = 1
				addErr(res, name+".Read", err)
				break
			}
			if n >= readCap {
				out.E = 2
				break
			}
			if k == 0 {
				idle++
				if idle > 1000 {
					out.E = 4
					break
				}
			} else {
				idle = 0
			}
		}
		out.N = split(n)
		if out.E == 0 || out.E == 2 {
			for _, p := range []int64{0, n / 2, n - 1, n} {
				if p < 0 || st.exceeded {
					continue
				}
				st.begin(2, true)
				_, err := r.Seek(p, io.SeekStart)
				st.end()
				if err != nil {
					out.SeekErr++
					break
				}
				st.begin(int64(len(buf))+1, true)
				k, err := r.Read(buf[:16])
				st.end()
				h.Write([]byte{0xFE})
				h.Write(buf[:k])
				if err != nil && err != io.EOF {
					out.SeekErr++
					break
				}
			}
		}
		st.begin(2, true)
		r.Close()
		st.end()
		out.Hash = hex.EncodeToString(h.Sum(nil))[:16]
	}
	readPass(nil, &res.Rz, "read-zeroes")
	readPass([]rac.CodecReader{&raczlib.CodecReader{}}, &res.Rl, "read-zlib")

	// Phase 4: the CONCURRENT reader on files whose sequential read failed inside a chunk (a walkable index, a chunk
	// that does not decode): Workers prefetch chunks the client never asks for, so an error can reach the client as
	// an error-only unit of work after a seek.  Only panics and hangs count here (the runGuarded watchdog and the
	// recover above); replies are timing dependent and are deliberately not recorded (the two runs of a case must
	// give the same record).
	if res.Rl.E == 1 && res.WalkE == 0 && len(res.Walk) >= 2 && !st.exceeded {
		res.Phase = "read-concurrent"
		tries := 12
		for t := 0; t < tries; t++ {
			r := &rac.Reader{ReadSeeker: bytes.NewReader(data), CompressedSize: claimed,
				CodecReaders: []rac.CodecReader{&raczlib.CodecReader{}}, Concurrency: 2 + t%3}
			buf := make([]byte, 64+64)[:64]
			r.Read(buf[:1+pick(8)])
			for k := 0; k < 4; k++ {
				n := int64(1)
				if ds > 0 {
					n = ds
				}
				if _, err := r.Seek(int64(pick(int(n%(1<<20))+1)), io.SeekStart); err != nil {
					break
				}
				r.Read(buf[:1+pick(16)])
			}
			r.Close()
		}
	}
	res.Phase = ""
}

// runGuarded = runOnce under a wall-clock watchdog.  A run that does not come
// back is reported (term=false); its goroutine is abandoned.
func runGuarded(data []byte, claimed int64, useRA bool, budgetx int64, maxSeeks int, pick func(int) int, wall time.Duration) runRec {
	done := make(chan runRec, 1)
	go func() {
		var r runRec
		func() {
			defer func() { recover() }() // runOnce recovers itself; belt and braces
			runOnce(data, claimed, useRA, budgetx, maxSeeks, pick, &r)
		}()
		r.Term = true
		done <- r
	}()
	select {
	case r := <-done:
		return r
	case <-time.After(wall):
		return runRec{Term: false, Walk: [][]int64{}, Seeks: [][]int64{}, Phase: "watchdog"}
	}
}

func digest(r runRec) string {
	r.PanicMsg = ""
	r.Errs = nil
	b, _ := json.Marshal(r)
	s := sha256.Sum256(b)
	return hex.EncodeToString(s[:])[:12]
}

func doCase(id int, kind, what string, data []byte, claimed int64, budgetx int64, maxSeeks int, wall time.Duration, withHex bool) obsLine {
	useRA := id%2 == 1
	mkPick := func() func(int) int {
		x := uint64(id)*0x9E3779B97F4A7C15 + 12345
		return func(n int) int {
			x ^= x << 13
			x ^= x >> 7
			x ^= x << 17
			return int(x % uint64(n))
		}
	}
	r1 := runGuarded(data, claimed, useRA, budgetx, maxSeeks, mkPick(), wall)
	r2 := runGuarded(data, claimed, useRA, budgetx, maxSeeks, mkPick(), wall)
	o := obsLine{ID: id, Kind: kind, What: what, Size: split(claimed), SizeInt: claimed, Obs: r1,
		D: []string{digest(r1), digest(r2)}, Calls: r1.calls, Bytes: r1.nbytes}
	if useRA {
		o.Src = "ra"
	} else {
		o.Src = "rs"
	}
	if withHex {
		o.Hex = hex.EncodeToString(data)
	}
	return o
}

// ------------------------------------------------------------------ main

type caseLine struct {
	ID      int             `json:"id"`
	Row     json.RawMessage `json:"row"`
	Hex     string          `json:"hex"`
	Claimed int64           `json:"claimed"`
}

type job struct {
	id      int
	kind    string
	what    string
	data    []byte
	claimed int64
	seeks   int
}

func main() {
	casesPath := flag.String("cases", "", "ndjson file of cases")
	outPath := flag.String("out", "", "ndjson output")
	budgetx := flag.Int64("budgetx", 1, "multiplier of the per-call work budget and of the watchdog")
	withHex := flag.Bool("hex", false, "include the file bytes in the output")
	gen := flag.Bool("gen", false, "generate byte-level cases from the seed")
	seed := flag.Int64("seed", 1, "seed of -gen")
	n := flag.Int("n", 200, "number of -gen cases")
	tier := flag.String("tier", "quick", "quick|thorough (size of the -gen base files)")
	only := flag.String("only", "", "comma separated case ids to run (others skipped)")
	wallMs := flag.Int("wallms", 5000, "watchdog per run in ms (multiplied by budgetx)")
	workers := flag.Int("workers", runtime.NumCPU(), "parallel cases")
	skip := flag.String("skip", "", "comma separated case ids not to run")
	progress := flag.String("progress", "", "file that gets one line per started ('s id') and finished ('e id') case, unbuffered: after a crash of the process the cases in flight can be read from it")
	cgostress := flag.Int("cgostress", 0, "seconds of the cgozlib GC stress (known finding), 0 = off")
	flag.Parse()
	if *cgostress > 0 {
		stress(time.Duration(*cgostress) * time.Second)
		return
	}

	onlySet := map[int]bool{}
	if *only != "" {
		for _, s := range strings.Split(*only, ",") {
			v, err := strconv.Atoi(strings.TrimSpace(s))
			if err != nil {
				fatal("bad -only: " + err.Error())
			}
			onlySet[v] = true
		}
	}
	skipSet := map[int]bool{}
	if *skip != "" {
		for _, s := range strings.Split(*skip, ",") {
			v, err := strconv.Atoi(strings.TrimSpace(s))
			if err != nil {
				fatal("bad -skip: " + err.Error())
			}
			skipSet[v] = true
		}
	}
	want := func(id int) bool { return (len(onlySet) == 0 || onlySet[id]) && !skipSet[id] }
	var prog *os.File
	if *progress != "" {
		f, err := os.OpenFile(*progress, os.O_CREATE|os.O_WRONLY|os.O_APPEND|os.O_TRUNC, 0o644)
		if err != nil {
			fatal(err.Error())
		}
		prog = f
	}
	mark := func(c byte, id int) {
		if prog != nil {
			prog.Write([]byte(fmt.Sprintf("%c %d\n", c, id)))
		}
	}

	out := os.Stdout
	if *outPath != "" {
		f, err := os.Create(*outPath)
		if err != nil {
			fatal(err.Error())
		}
		defer f.Close()
		out = f
	}
	w := bufio.NewWriterSize(out, 1<<20)
	defer w.Flush()

	jobs := make(chan job, 256)
	results := make(chan obsLine, 256)
	wall := time.Duration(*wallMs) * time.Millisecond * time.Duration(*budgetx)
	var wg sync.WaitGroup
	for i := 0; i < *workers; i++ {
		wg.Add(1)
		go func() {
			defer wg.Done()
			for j := range jobs {
				mark('s', j.id)
				r := doCase(j.id, j.kind, j.what, j.data, j.claimed, *budgetx, j.seeks, wall, *withHex)
				mark('e', j.id)
				results <- r
			}
		}()
	}
	var wdone sync.WaitGroup
	wdone.Add(1)
	total, hung := 0, 0
	go func() {
		defer wdone.Done()
		enc := json.NewEncoder(w)
		for o := range results {
			total++
			if !o.Obs.Term {
				hung++
			}
			if err := enc.Encode(o); err != nil {
				fatal(err.Error())
			}
		}
	}()

	if *gen {
		g := newGenerator(*seed, *tier)
		for k := 0; k < *n; k++ {
			if !want(k) {
				continue
			}
			what, data, claimed := g.make(k)
			jobs <- job{k, "bytes", what, data, claimed, 24}
		}
	} else {
		f, err := os.Open(*casesPath)
		if err != nil {
			fatal(err.Error())
		}
		sc := bufio.NewScanner(f)
		sc.Buffer(make([]byte, 1<<20), 1<<28)
		for sc.Scan() {
			line := bytes.TrimSpace(sc.Bytes())
			if len(line) == 0 {
				continue
			}
			var c caseLine
			if err := json.Unmarshal(line, &c); err != nil {
				fatal("bad case line: " + err.Error())
			}
			if !want(c.ID) {
				continue
			}
			if len(c.Row) != 0 {
				data, size, err := serialiseRow(c.Row)
				if err != nil {
					fatal(fmt.Sprintf("case %d: %v", c.ID, err))
				}
				jobs <- job{c.ID, "model", "", data, size, 0}
			} else {
				data, err := hex.DecodeString(c.Hex)
				if err != nil {
					fatal(fmt.Sprintf("case %d: %v", c.ID, err))
				}
				jobs <- job{c.ID, "bytes", "given", data, c.Claimed, 24}
			}
		}
		if err := sc.Err(); err != nil {
			fatal(err.Error())
		}
		f.Close()
	}
	close(jobs)
	wg.Wait()
	close(results)
	wdone.Wait()
	w.Flush()
	fmt.Fprintf(os.Stderr, "{\"cases\":%d,\"watchdog\":%d}\n", total, hung)
}

func fatal(s string) {
	fmt.Fprintln(os.Stderr, "racireplay: "+s)
	os.Exit(3)
}

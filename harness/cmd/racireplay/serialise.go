package main

// Serialisation of an abstract RAC file (one row exported by RacIndex.tla) to
// bytes.  The byte layout is written from doc/spec/rac-spec.md ("Branch
// Nodes"), not copied from lib/rac:
//
//	group 0      : Magic(3) Arity(1) Checksum(2) Reserved(1) TTag[0](1)
//	group i<Arity: DPtr[i](6)            Reserved(1) TTag[i](1)
//	group Arity  : DPtrMax(6)            Reserved(1) CodecByte(1)
//	then i<Arity : CPtr[i](6) CLen[i](1) STag[i](1)
//	last         : CPtrMax(6) Version(1) Arity(1)
//
// Checksum = low 16 bits XOR high 16 bits of CRC-32/IEEE over the
// (16*Arity + 10) bytes after the checksum, little-endian.  The checksum is
// always repaired (computed last) unless the node carries dmg = 3.

import (
	"bytes"
	"compress/zlib"
	"encoding/json"
	"fmt"

	"verifharness/internal/racfmt"
)

// Layout constants shared with RacIndex.tla.
const (
	padOff = 68 // the in-file non-node offset; a small zlib stream lives there
)

var padBlob = func() []byte {
	var b bytes.Buffer
	zw, _ := zlib.NewWriterLevel(&b, zlib.NoCompression)
	zw.Write([]byte("abc"))
	zw.Close()
	if b.Len() > 28 || bytes.Contains(b.Bytes(), []byte{0x72, 0xC3, 0x63}) {
		panic("pad blob does not fit")
	}
	return b.Bytes()
}()

type absNode struct {
	off, cmax         int64
	ar, ar2, ver, cod int
	dmg               int // 0 none, 1 magic, 2 reserved byte, 3 checksum
	dptr, cptr        []int64
	ttag, clen, stag  []int
}

func put48(b []byte, v int64) { racfmt.Put48(b, v) }

func nodeChecksum(b []byte) (byte, byte) { return racfmt.NodeChecksum(b) }

// encodeNode: the encoder itself lives in internal/racfmt (shared with
// cmd/racrreplay, which builds valid files with it).
func encodeNode(n absNode) []byte {
	return racfmt.EncodeNode(racfmt.Node{Off: n.off, CMax: n.cmax, Ar: n.ar, Ar2: n.ar2, Ver: n.ver, Cod: n.cod, Dmg: n.dmg,
		DPtr: n.dptr, CPtr: n.cptr, TTag: n.ttag, CLen: n.clen, STag: n.stag})
}

func ints(v interface{}) ([]int64, error) {
	a, ok := v.([]interface{})
	if !ok {
		return nil, fmt.Errorf("not an array: %v", v)
	}
	r := make([]int64, len(a))
	for i, x := range a {
		f, ok := x.(float64)
		if !ok {
			return nil, fmt.Errorf("not a number: %v", x)
		}
		r[i] = int64(f)
	}
	return r, nil
}

func toInt(xs []int64) []int {
	r := make([]int, len(xs))
	for i, x := range xs {
		r[i] = int(x)
	}
	return r
}

// serialiseRow: row = [size, head, [node...], ...]; head 0 = a node sits at
// offset 0, 1 = "rÃc" + arity byte 0 (root at the end), 2 = no magic.
func serialiseRow(raw json.RawMessage) ([]byte, int64, error) {
	var row []interface{}
	if err := json.Unmarshal(raw, &row); err != nil {
		return nil, 0, err
	}
	if len(row) < 3 {
		return nil, 0, fmt.Errorf("short row")
	}
	size := int64(row[0].(float64))
	head := int(row[1].(float64))
	nodes, ok := row[2].([]interface{})
	if !ok {
		return nil, 0, fmt.Errorf("nodes not an array")
	}
	buf := make([]byte, size)
	copy(buf[padOff:], padBlob)
	if head == 1 {
		copy(buf, []byte{0x72, 0xC3, 0x63, 0x00})
	}
	for _, nv := range nodes {
		a, ok := nv.([]interface{})
		if !ok || len(a) != 12 {
			return nil, 0, fmt.Errorf("bad node %v", nv)
		}
		num := func(i int) int64 { return int64(a[i].(float64)) }
		n := absNode{off: num(0), ar: int(num(1)), ar2: int(num(2)), ver: int(num(3)), cod: int(num(4)), cmax: num(5), dmg: int(num(6))}
		var err error
		if n.dptr, err = ints(a[7]); err != nil {
			return nil, 0, err
		}
		var t []int64
		if t, err = ints(a[8]); err != nil {
			return nil, 0, err
		}
		n.ttag = toInt(t)
		if n.cptr, err = ints(a[9]); err != nil {
			return nil, 0, err
		}
		if t, err = ints(a[10]); err != nil {
			return nil, 0, err
		}
		n.clen = toInt(t)
		if t, err = ints(a[11]); err != nil {
			return nil, 0, err
		}
		n.stag = toInt(t)
		if len(n.dptr) != n.ar || len(n.ttag) != n.ar || len(n.cptr) != n.ar || len(n.clen) != n.ar || len(n.stag) != n.ar {
			return nil, 0, fmt.Errorf("node arity/field length mismatch: %v", nv)
		}
		b := encodeNode(n)
		if n.off < 0 || n.off+int64(len(b)) > size {
			return nil, 0, fmt.Errorf("node does not fit the file: %v", nv)
		}
		copy(buf[n.off:], b)
	}
	return buf, size, nil
}

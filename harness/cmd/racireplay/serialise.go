package main

// Serialisation of an abstract RAC file (one row exported by RacIndex.tla) to
// bytes.  The byte layout is written from doc/spec/rac-spec.md ("Branch
// Nodes"), not copied from lib/rac:
//
//	group 0      : Magic(3) Arity(1) Checksum(2) Reserved(1) TTag[0](1)
//	group i<Arity: DPtr[i](6)            Reserved(1) TTag[i](1)
//	group Arity  : DPtrMax(6)            Reserved(1) CodecByte(1)
//	then i<Arity : CPtr[i](6) CLen[i](1) STag[i](1)
//	last         : CPtrMax(6) Version(1) Arity(1)
//
// Checksum = low 16 bits XOR high 16 bits of CRC-32/IEEE over the
// (16*Arity + 10) bytes after the checksum, little-endian.  The checksum is
// always repaired (computed last) unless the node carries dmg = 3.

import (
	"bytes"
	"compress/zlib"
	"encoding/json"
	"fmt"
	"hash/crc32"
)

// Layout constants shared with RacIndex.tla.
const (
	padOff = 68 // the in-file non-node offset; a small zlib stream lives there
)

var padBlob = func() []byte {
	var b bytes.Buffer
	zw, _ := zlib.NewWriterLevel(&b, zlib.NoCompression)
	zw.Write([]byte("abc"))
	zw.Close()
	if b.Len() > 28 || bytes.Contains(b.Bytes(), []byte{0x72, 0xC3, 0x63}) {
		panic("pad blob does not fit")
	}
	return b.Bytes()
}()

type absNode struct {
	off, cmax         int64
	ar, ar2, ver, cod int
	dmg               int // 0 none, 1 magic, 2 reserved byte, 3 checksum
	dptr, cptr        []int64
	ttag, clen, stag  []int
}

func put48(b []byte, v int64) {
	for i := 0; i < 6; i++ {
		b[i] = byte(uint64(v) >> (8 * uint(i)))
	}
}

func nodeChecksum(b []byte) (byte, byte) {
	c := crc32.ChecksumIEEE(b[6:])
	c ^= c >> 16
	return byte(c), byte(c >> 8)
}

func encodeNode(n absNode) []byte {
	ar := n.ar
	size := 16*ar + 16
	b := make([]byte, size)
	b[0], b[1], b[2] = 0x72, 0xC3, 0x63
	if n.dmg == 1 {
		b[2] = 0x64
	}
	b[3] = byte(ar)
	for i := 1; i <= ar; i++ {
		put48(b[8*i:], n.dptr[i-1])
	}
	for i := 0; i < ar; i++ {
		b[8*i+7] = byte(n.ttag[i])
	}
	b[8*ar+7] = byte(n.cod)
	if n.dmg == 2 {
		b[8*ar+6] = 1
	}
	base := 8*ar + 8
	for i := 0; i < ar; i++ {
		put48(b[base+8*i:], n.cptr[i])
		b[base+8*i+6] = byte(n.clen[i])
		b[base+8*i+7] = byte(n.stag[i])
	}
	put48(b[base+8*ar:], n.cmax)
	b[base+8*ar+6] = byte(n.ver)
	b[base+8*ar+7] = byte(n.ar2)
	b[4], b[5] = nodeChecksum(b)
	if n.dmg == 3 {
		b[4] ^= 0x5A
	}
	return b
}

func ints(v interface{}) ([]int64, error) {
	a, ok := v.([]interface{})
	if !ok {
		return nil, fmt.Errorf("not an array: %v", v)
	}
	r := make([]int64, len(a))
	for i, x := range a {
		f, ok := x.(float64)
		if !ok {
			return nil, fmt.Errorf("not a number: %v", x)
		}
		r[i] = int64(f)
	}
	return r, nil
}

func toInt(xs []int64) []int {
	r := make([]int, len(xs))
	for i, x := range xs {
		r[i] = int(x)
	}
	return r
}

// serialiseRow: row = [size, head, [node...], ...]; head 0 = a node sits at
// offset 0, 1 = "rÃc" + arity byte 0 (root at the end), 2 = no magic.
func serialiseRow(raw json.RawMessage) ([]byte, int64, error) {
	var row []interface{}
	if err := json.Unmarshal(raw, &row); err != nil {
		return nil, 0, err
	}
	if len(row) < 3 {
		return nil, 0, fmt.Errorf("short row")
	}
	size := int64(row[0].(float64))
	head := int(row[1].(float64))
	nodes, ok := row[2].([]interface{})
	if !ok {
		return nil, 0, fmt.Errorf("nodes not an array")
	}
	buf := make([]byte, size)
	copy(buf[padOff:], padBlob)
	if head == 1 {
		copy(buf, []byte{0x72, 0xC3, 0x63, 0x00})
	}
	for _, nv := range nodes {
		a, ok := nv.([]interface{})
		if !ok || len(a) != 12 {
			return nil, 0, fmt.Errorf("bad node %v", nv)
		}
		num := func(i int) int64 { return int64(a[i].(float64)) }
		n := absNode{off: num(0), ar: int(num(1)), ar2: int(num(2)), ver: int(num(3)), cod: int(num(4)), cmax: num(5), dmg: int(num(6))}
		var err error
		if n.dptr, err = ints(a[7]); err != nil {
			return nil, 0, err
		}
		var t []int64
		if t, err = ints(a[8]); err != nil {
			return nil, 0, err
		}
		n.ttag = toInt(t)
		if n.cptr, err = ints(a[9]); err != nil {
			return nil, 0, err
		}
		if t, err = ints(a[10]); err != nil {
			return nil, 0, err
		}
		n.clen = toInt(t)
		if t, err = ints(a[11]); err != nil {
			return nil, 0, err
		}
		n.stag = toInt(t)
		if len(n.dptr) != n.ar || len(n.ttag) != n.ar || len(n.cptr) != n.ar || len(n.clen) != n.ar || len(n.stag) != n.ar {
			return nil, 0, fmt.Errorf("node arity/field length mismatch: %v", nv)
		}
		b := encodeNode(n)
		if n.off < 0 || n.off+int64(len(b)) > size {
			return nil, 0, fmt.Errorf("node does not fit the file: %v", nv)
		}
		copy(buf[n.off:], b)
	}
	return buf, size, nil
}

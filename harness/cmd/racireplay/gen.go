package main

// Byte-level hostile files derived from real ones.  Base files are written
// with rac.Writer + raczlib (multi-level indexes through many small chunks,
// both index locations, one with a shared dictionary); case k is a pure
// function of (seed, k): a mutation of an index node with the checksum
// repaired, a truncation, a lie about the file size, unrepaired damage, or a
// hand-built family of reference cycles and deep chains.

import (
	"bytes"
	"fmt"
	"math/rand"

	"github.com/google/wuffs/lib/rac"
	"github.com/google/wuffs/lib/raczlib"
)

type baseFile struct {
	name  string
	data  []byte
	nodes []nodeLoc // index nodes found by following the index from the root
}

type nodeLoc struct {
	off   int
	arity int
}

type generator struct {
	seed  int64
	bases []baseFile
}

func payload(rng *rand.Rand, n int) []byte {
	words := []string{"sheep", "one ", "two ", "three ", "more! ", "rac", "zlib ", "index ", "chunk ", "\n", "0123456789", "branch ", "leaf "}
	var b bytes.Buffer
	for b.Len() < n {
		if rng.Intn(7) == 0 {
			b.WriteByte(byte(rng.Intn(256)))
		} else {
			b.WriteString(words[rng.Intn(len(words))])
		}
	}
	return b.Bytes()[:n]
}

func writeRAC(p []byte, dchunk uint64, atStart bool, resources [][]byte) []byte {
	var out bytes.Buffer
	w := &rac.Writer{
		Writer:        &out,
		CodecWriter:   &raczlib.CodecWriter{},
		DChunkSize:    dchunk,
		ResourcesData: resources,
	}
	if atStart {
		w.IndexLocation = rac.IndexLocationAtStart
		w.TempFile = &bytes.Buffer{}
	}
	// uneven writes
	for i := 0; i < len(p); {
		n := 1 + (i*7)%97
		if i+n > len(p) {
			n = len(p) - i
		}
		if _, err := w.Write(p[i : i+n]); err != nil {
			fatal("rac.Writer.Write: " + err.Error())
		}
		i += n
	}
	if err := w.Close(); err != nil {
		fatal("rac.Writer.Close: " + err.Error())
	}
	return out.Bytes()
}

func u48(b []byte) int64 {
	v := int64(0)
	for i := 5; i >= 0; i-- {
		v = v<<8 | int64(b[i])
	}
	return v
}

// findNodes follows branch children from the root of a file written by
// rac.Writer (CBias is always 0 there).
func findNodes(d []byte) []nodeLoc {
	var res []nodeLoc
	seen := map[int]bool{}
	var visit func(off int)
	visit = func(off int) {
		if seen[off] || off < 0 || off+4 > len(d) {
			return
		}
		ar := int(d[off+3])
		if ar == 0 || off+16*ar+16 > len(d) || d[off] != 0x72 || d[off+1] != 0xC3 || d[off+2] != 0x63 {
			return
		}
		seen[off] = true
		res = append(res, nodeLoc{off, ar})
		for i := 0; i < ar; i++ {
			if d[off+8*i+7] == 0xFE {
				visit(int(u48(d[off+8*ar+8+8*i:])))
			}
		}
	}
	if len(d) >= 32 && d[3] != 0 {
		visit(0)
	}
	if len(res) == 0 && len(d) >= 32 {
		ar := int(d[len(d)-1])
		visit(len(d) - 16*ar - 16)
	}
	return res
}

func repair(d []byte, off int) {
	if off < 0 || off+4 > len(d) {
		return
	}
	ar := int(d[off+3])
	end := off + 16*ar + 16
	if ar == 0 || end > len(d) {
		return
	}
	d[off+4], d[off+5] = nodeChecksum(d[off:end])
}

func newGenerator(seed int64, tier string) *generator {
	g := &generator{seed: seed}
	rng := rand.New(rand.NewSource(seed*7919 + 11))
	add := func(name string, data []byte) {
		b := baseFile{name: name, data: data, nodes: findNodes(data)}
		if len(b.nodes) == 0 {
			fatal("no index nodes found in base file " + name)
		}
		g.bases = append(g.bases, b)
	}
	p := payload(rng, 300*16)
	add("end-300x16", writeRAC(p, 16, false, nil))
	add("start-300x16", writeRAC(p, 16, true, nil))
	add("end-5x64", writeRAC(p[:300], 64, false, nil))
	add("start-3x100", writeRAC(p[:300], 100, true, nil))
	dict := payload(rng, 600)
	q := append(append([]byte{}, dict[:400]...), payload(rng, 3000)...)
	add("start-dict", writeRAC(q, 700, true, [][]byte{dict}))
	add("end-dict", writeRAC(q, 700, false, [][]byte{dict}))
	// several shared dictionaries whose lengths differ by 1, 2, 3, 4 and -9 bytes, each used by the chunk made
	// from it: one Reader loads them one after the other (the dictionary loader re-uses its buffer when it fits)
	var dicts [][]byte
	var q5 []byte
	for _, n := range []int{300, 301, 303, 306, 310, 301, 305} {
		dk := make([]byte, n)
		rng.Read(dk)
		dicts = append(dicts, dk)
		q5 = append(q5, dk[:280]...)
		q5 = append(q5, payload(rng, 120)...)
	}
	add("start-dicts7", writeRAC(q5, 400, true, dicts))
	add("end-dicts7", writeRAC(q5, 400, false, dicts))
	if tier == "thorough" {
		big := payload(rng, 66000*4)
		add("end-66000x4", writeRAC(big, 4, false, nil))
		add("start-700x8", writeRAC(big[:5600], 8, true, nil))
	}
	return g
}

func put48at(d []byte, off int, v int64) {
	if off >= 0 && off+6 <= len(d) {
		put48(d[off:], v)
	}
}

// mutateNode applies one structured mutation to node nl of d (in place) and
// returns its description.
func mutateNode(rng *rand.Rand, d []byte, b *baseFile, nl nodeLoc) string {
	off, ar := nl.off, nl.arity
	i := rng.Intn(ar)
	cbase := off + 8*ar + 8
	other := b.nodes[rng.Intn(len(b.nodes))]
	switch k := rng.Intn(16); k {
	case 0: // point a child at some index node (possibly itself or an ancestor) and make it a branch
		put48at(d, cbase+8*i, int64(other.off))
		d[off+8*i+7] = 0xFE
		return fmt.Sprintf("node@%d child %d := branch -> node@%d", off, i, other.off)
	case 1: // same, keep the DSize consistent with the target's DPtrMax by copying it where possible
		put48at(d, cbase+8*i, int64(other.off))
		d[off+8*i+7] = 0xFE
		if i+1 <= ar {
			lo := int64(0)
			if i > 0 {
				lo = u48(d[off+8*i:])
			}
			tmax := u48(d[other.off+8*other.arity:])
			put48at(d, off+8*(i+1), lo+tmax)
		}
		return fmt.Sprintf("node@%d child %d := branch -> node@%d with matching DSize", off, i, other.off)
	case 2: // pointer only
		vals := []int64{0, int64(off), int64(other.off), int64(len(d)), int64(len(d)) + 1, int64(len(d)) - 3, 1 << 40, int64(rng.Intn(len(d)))}
		v := vals[rng.Intn(len(vals))]
		put48at(d, cbase+8*i, v)
		return fmt.Sprintf("node@%d CPtr[%d] := %d", off, i, v)
	case 3: // DPtr disorder
		j := 1 + rng.Intn(ar)
		vals := []int64{0, 1, u48(d[off+8*ar:]), u48(d[off+8*ar:]) + 1, 1 << 40, (1 << 48) - 1}
		if j > 1 {
			vals = append(vals, u48(d[off+8*(j-1):])-1, u48(d[off+8*(j-1):]))
		}
		v := vals[rng.Intn(len(vals))]
		if v < 0 {
			v = 0
		}
		put48at(d, off+8*j, v)
		return fmt.Sprintf("node@%d DPtr[%d] := %d", off, j, v)
	case 4:
		tags := []byte{0xFE, 0xFD, 0xFF, 0xC0, 0xFC, 0x00, 0x01, byte(ar - 1), byte(ar)}
		t := tags[rng.Intn(len(tags))]
		d[off+8*i+7] = t
		return fmt.Sprintf("node@%d TTag[%d] := 0x%02X", off, i, t)
	case 5:
		tags := []byte{0xFF, 0x00, 0x01, byte(ar - 1), byte(ar), byte(i)}
		t := tags[rng.Intn(len(tags))]
		d[cbase+8*i+7] = t
		return fmt.Sprintf("node@%d STag[%d] := 0x%02X", off, i, t)
	case 6:
		v := byte(rng.Intn(4))
		d[cbase+8*i+6] = v
		return fmt.Sprintf("node@%d CLen[%d] := %d", off, i, v)
	case 7:
		v := []byte{0, 2, 0xFF}[rng.Intn(3)]
		d[cbase+8*ar+6] = v
		return fmt.Sprintf("node@%d Version := %d", off, v)
	case 8:
		v := []byte{0x00, 0x40, 0x41, 0x02, 0x3F, 0x80, 0xC0, 0xFD, 0x81}[rng.Intn(9)]
		d[off+8*ar+7] = v
		return fmt.Sprintf("node@%d CodecByte := 0x%02X", off, v)
	case 9:
		cur := u48(d[cbase+8*ar:])
		vals := []int64{cur - 1, cur + 1, 0, int64(off), 1 << 40}
		v := vals[rng.Intn(len(vals))]
		if v < 0 {
			v = 0
		}
		put48at(d, cbase+8*ar, v)
		return fmt.Sprintf("node@%d CPtrMax := %d", off, v)
	case 10: // arity, both bytes (the node is re-read with another shape)
		na := []int{1, ar - 1, ar + 1, 255}[rng.Intn(4)]
		if na < 1 {
			na = 1
		}
		if na > 255 {
			na = 255
		}
		d[off+3] = byte(na)
		if e := off + 16*na + 15; e < len(d) {
			d[e] = byte(na)
		}
		return fmt.Sprintf("node@%d Arity := %d (both bytes)", off, na)
	case 11:
		d[off+3] = byte(1 + rng.Intn(255))
		return fmt.Sprintf("node@%d first Arity byte := %d", off, d[off+3])
	case 12: // reserved byte
		d[off+8*i+6] = 1
		return fmt.Sprintf("node@%d Reserved[%d] := 1", off, i)
	case 13: // DPtrMax
		cur := u48(d[off+8*ar:])
		vals := []int64{cur + 1, cur - 1, 0, 1 << 40, (1 << 48) - 1}
		v := vals[rng.Intn(len(vals))]
		if v < 0 {
			v = 0
		}
		put48at(d, off+8*ar, v)
		return fmt.Sprintf("node@%d DPtrMax := %d", off, v)
	default: // random byte in the node
		size := 16*ar + 16
		p := off + 6 + rng.Intn(size-6)
		d[p] ^= byte(1 << uint(rng.Intn(8)))
		return fmt.Sprintf("node@%d byte +%d bit flip", off, p-off)
	}
}

func (g *generator) make(k int) (what string, data []byte, claimed int64) {
	rng := rand.New(rand.NewSource(g.seed*1000003 + int64(k)*7 + 1))
	if k%8 == 7 {
		return g.handBuilt(rng, k)
	}
	if k%8 == 3 && k/8 < len(g.bases) {
		// every base file as it is: walked, sought into and read in full like the hostile ones
		b := &g.bases[k/8]
		return b.name + ": unchanged", append([]byte{}, b.data...), int64(len(b.data))
	}
	b := &g.bases[rng.Intn(len(g.bases))]
	if len(b.data) > 1<<20 && rng.Intn(12) != 0 {
		b = &g.bases[rng.Intn(8)] // the three-level 2 MB file only now and then
	}
	d := append([]byte{}, b.data...)
	claimed = int64(len(d))
	switch kind := rng.Intn(20); {
	case kind < 11: // one or two structured mutations, checksum repaired
		n := 1 + rng.Intn(2)
		for j := 0; j < n; j++ {
			nl := b.nodes[rng.Intn(len(b.nodes))]
			if rng.Intn(3) == 0 {
				nl = b.nodes[0] // the root
			}
			what += mutateNode(rng, d, b, nl) + "; "
			repair(d, nl.off)
		}
		what = b.name + ": " + what + "checksum repaired"
	case kind < 13: // truncation
		n := rng.Intn(len(d))
		if rng.Intn(3) == 0 {
			n = len(d) - 1 - rng.Intn(40)
		}
		if n < 0 {
			n = 0
		}
		d = d[:n]
		claimed = int64(n)
		what = fmt.Sprintf("%s: truncated to %d bytes", b.name, n)
	case kind < 15: // lie about the size
		deltas := []int64{-1, 1, -16, 16, 4096, -int64(len(d)) + 40, 100000}
		claimed = int64(len(d)) + deltas[rng.Intn(len(deltas))]
		if claimed < 0 {
			claimed = 0
		}
		what = fmt.Sprintf("%s: %d bytes presented as %d", b.name, len(d), claimed)
	case kind < 17: // unrepaired damage anywhere
		n := 1 + rng.Intn(4)
		for j := 0; j < n; j++ {
			p := rng.Intn(len(d))
			d[p] ^= byte(1 << uint(rng.Intn(8)))
		}
		what = fmt.Sprintf("%s: %d random bit flips, no repair", b.name, n)
	case kind < 19: // mutation then truncation to a claimed size that still covers the root at start
		nl := b.nodes[rng.Intn(len(b.nodes))]
		what = b.name + ": " + mutateNode(rng, d, b, nl)
		repair(d, nl.off)
		cut := rng.Intn(len(d))
		d = d[:cut]
		what += fmt.Sprintf("; checksum repaired; bytes cut to %d, presented as %d", cut, claimed)
	default: // graft: copy one node over another (then repair)
		a, c := b.nodes[rng.Intn(len(b.nodes))], b.nodes[rng.Intn(len(b.nodes))]
		n := 16*a.arity + 16
		if c.off+n <= len(d) {
			copy(d[c.off:], b.data[a.off:a.off+n])
		}
		repair(d, c.off)
		what = fmt.Sprintf("%s: node@%d overwritten with node@%d", b.name, c.off, a.off)
	}
	return what, d, claimed
}

// handBuilt: reference cycles of length 1..6 and chains of depth up to 80,
// written with the layout of the format document (serialise.go).
func (g *generator) handBuilt(rng *rand.Rand, k int) (string, []byte, int64) {
	leaf, branch := 0xFF, 0xFE
	switch rng.Intn(5) {
	case 0, 1: // a ring of n arity-1 or arity-2 branch nodes, entered from the root
		n := 1 + rng.Intn(6)
		ar := 1 + rng.Intn(2)
		atEnd := rng.Intn(2) == 0
		nsz := 16*ar + 16
		gap := 16 * rng.Intn(3)
		size := int64(4 + n*(nsz+gap) + 40)
		offs := make([]int64, n)
		for j := range offs {
			offs[j] = int64(j * (nsz + gap))
			if atEnd {
				offs[j] = size - int64(nsz) - int64(j*(nsz+gap))
			}
		}
		buf := make([]byte, size)
		if atEnd {
			copy(buf, []byte{0x72, 0xC3, 0x63, 0x00})
		}
		dmax := int64(5)
		for j := 0; j < n; j++ {
			nd := absNode{off: offs[j], ar: ar, ar2: ar, ver: 1, cod: 0, cmax: size}
			next := offs[(j+1)%n]
			if ar == 1 {
				nd.dptr, nd.ttag, nd.cptr, nd.clen, nd.stag = []int64{dmax}, []int{branch}, []int64{next}, []int{0}, []int{0xFF}
			} else {
				// [empty leaf][branch spanning everything]
				nd.dptr, nd.ttag, nd.cptr, nd.clen, nd.stag = []int64{0, dmax}, []int{leaf, branch}, []int64{0, next}, []int{0, 0}, []int{0xFF, 0xFF}
			}
			copy(buf[offs[j]:], encodeNode(nd))
		}
		return fmt.Sprintf("hand-built ring of %d arity-%d branch nodes (root at end: %v), every node spans the same DRange", n, ar, atEnd), buf, size
	case 2: // descending chain, root at the end: [leaf 1 byte][branch rest], depth n
		n := 2 + rng.Intn(79)
		nsz := 48
		size := int64(16 + n*nsz)
		buf := make([]byte, size)
		copy(buf, []byte{0x72, 0xC3, 0x63, 0x00})
		for j := 0; j < n; j++ { // node j: j = 0 is the root at the end
			off := size - int64((j+1)*nsz)
			dm := int64(n + 1 - j)
			nd := absNode{off: off, ar: 2, ar2: 2, ver: 1, cod: 0, cmax: size, dptr: []int64{1, dm}, clen: []int{0, 0}, stag: []int{0xFF, 0xFF}}
			if j == n-1 {
				nd.ttag, nd.cptr = []int{leaf, leaf}, []int64{0, 0}
			} else {
				nd.ttag, nd.cptr = []int{leaf, branch}, []int64{0, off - int64(nsz)}
			}
			copy(buf[off:], encodeNode(nd))
		}
		return fmt.Sprintf("hand-built chain of depth %d (root at end, offsets descending, DPtrMax shrinking)", n), buf, size
	case 3: // ascending arity-1 chain from a root at the start, all the same DPtrMax (breaks the anti-loop rule, no cycle)
		n := 2 + rng.Intn(60)
		size := int64(n*32 + 8)
		buf := make([]byte, size)
		for j := 0; j < n; j++ {
			off := int64(j * 32)
			nd := absNode{off: off, ar: 1, ar2: 1, ver: 1, cod: 0, cmax: size, dptr: []int64{9}, clen: []int{0}, stag: []int{0xFF}}
			if j == n-1 {
				nd.ttag, nd.cptr = []int{leaf}, []int64{0}
			} else {
				nd.ttag, nd.cptr = []int{branch}, []int64{off + 32}
			}
			copy(buf[off:], encodeNode(nd))
		}
		return fmt.Sprintf("hand-built ascending chain of %d arity-1 nodes with equal DPtrMax (no cycle)", n), buf, size
	default: // a wide DAG: the root's children all point at one shared child node
		ar := 2 + rng.Intn(6)
		size := int64(16*ar + 16 + 64 + 16)
		buf := make([]byte, size)
		shared := int64(16*ar + 16 + 8)
		root := absNode{off: 0, ar: ar, ar2: ar, ver: 1, cod: 0, cmax: size}
		for i := 0; i < ar; i++ {
			root.dptr = append(root.dptr, int64(3*(i+1)))
			root.ttag = append(root.ttag, branch)
			root.cptr = append(root.cptr, shared)
			root.clen = append(root.clen, 0)
			root.stag = append(root.stag, 0xFF)
		}
		copy(buf, encodeNode(root))
		ch := absNode{off: shared, ar: 2, ar2: 2, ver: 1, cod: 0, cmax: size, dptr: []int64{1, 3}, ttag: []int{leaf, leaf}, cptr: []int64{0, 0}, clen: []int{0, 0}, stag: []int{0xFF, 0xFF}}
		copy(buf[shared:], encodeNode(ch))
		return fmt.Sprintf("hand-built DAG: %d root children share one child node", ar), buf, size
	}
}

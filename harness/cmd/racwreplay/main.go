// racwreplay replays behaviours of spec/RacWriter.tla on the real rac.Writer
// (C13) and records what the real code did, for TLC to judge:
//
//	-mode scripts   TLC-exported scripts (payload over {Z,A,B} x partition into
//	                Write calls x chunk sizing mode x Cut choices) x
//	                configurations (codec, index location, temp file kind, page
//	                size, shared resources) x fault point k
//	-mode real      seeded zero-heavy payloads through the real codecs
//
// Output (JSON): rows (replies, chunks as found by the independent walker,
// read-back through rac.Reader), de-duplicated walker traces for
// spec/Trace_RacFormat.tla, de-duplicated fault-run shapes for
// RacWriter!StickyOK.  No verdict is taken here.
package main

import (
	"bytes"
	"crypto/sha256"
	"encoding/hex"
	"encoding/json"
	"flag"
	"fmt"
	"math/rand"
	"os"
	"runtime"
	"runtime/debug"
	"runtime/pprof"
	"sort"
	"strings"
	"sync"
	"sync/atomic"
)

type script struct {
	Sid       int        `json:"sid"`
	Kind      string     `json:"kind"` // D or C
	N         int        `json:"n"`
	Codec     string     `json:"codec"` // stored, rle
	Calls     [][]string `json:"calls"`
	Cuts      []int      `json:"cuts"`
	PChunks   []pchunk   `json:"pchunks"`
	Construct bool       `json:"construct"`
	FaultAt   int        `json:"faultat"` // > 0: replay exactly this fault point (TLC's behaviours with a fault)
}

type literal struct {
	Sid     int    `json:"sid"`
	K       int    `json:"k"`
	F       int    `json:"f"`
	Replies string `json:"replies"`
}

type pchunk struct {
	D int      `json:"d"`
	X []string `json:"x"`
}

type cfgSpec struct {
	runCfg
	Name   string   `json:"name"`
	Every  int      `json:"every"`  // take scripts with sid % every == offset
	Offset int      `json:"offset"` //
	Kinds  []string `json:"kinds"`  // script kinds this configuration applies to
	Faults bool     `json:"faults"` // enumerate every fault point
	CBase  int      `json:"cbase"`  // real codecs: CChunkSize = cbase + n
}

type rowOut struct {
	Sid       int      `json:"sid"`
	Cfg       int      `json:"cfg"`
	Replies   []string `json:"replies"`
	Panic     string   `json:"panic"`
	HasChunks bool     `json:"haschunks"`
	Chunks    []pchunk `json:"chunks"`
	ReadOK    bool     `json:"readok"`
	ReadErr   string   `json:"readerr"`
	Readback  []string `json:"readback"`
	Trace     int      `json:"trace"` // 1-based index into traces, 0 = no file
	PredMatch bool     `json:"predmatch"`
	CutDev    int      `json:"cutdev"`
	Ops       int      `json:"ops"`
	Errs      []string `json:"errs,omitempty"`
	FileHex   string   `json:"filehex,omitempty"`
	Count     int      `json:"count"`   // number of <<script, configuration>> runs with exactly this outcome
	Samples   [][2]int `json:"samples"` // up to 4 of them: <<sid, cfg>>
	NCalls    int      `json:"ncalls"`
	Construct bool     `json:"construct"` // the script's flag (RacWriter.tla: the known construct was reached)
	Class     string   `json:"class"`     // kind/codec/guise/res class of the configuration
}

type shape struct {
	N        int    `json:"n"`        // number of API calls
	CloseIdx int    `json:"closeidx"` // index (1-based) of the first Close
	F        int    `json:"f"`        // API call during which the fault fired (0: it did not)
	Op       string `json:"op"`
	Replies  string `json:"replies"` // one letter per call: O(k) / E(rror) / P(anic: no reply)
	Count    int    `json:"count"`
	Sample   string `json:"sample"`
}

type traceSet struct {
	idx     map[string]int
	traces  []json.RawMessage
	samples [][2]int // the first run that produced each trace: <<sid, cfg>> (scripts) or <<job, 0>> (real)
}

func (t *traceSet) add(tr *wTrace, sample [2]int) int {
	b, err := json.Marshal(tr)
	if err != nil {
		panic(err)
	}
	h := sha256.Sum256(b)
	k := string(h[:])
	if i, ok := t.idx[k]; ok {
		return i
	}
	t.traces = append(t.traces, b)
	t.samples = append(t.samples, sample)
	t.idx[k] = len(t.traces)
	return len(t.traces)
}

type shapeSet struct {
	m map[string]*shape
}

func (s *shapeSet) add(n, closeIdx int, r runResult, sample string) {
	var sb strings.Builder
	for _, x := range r.Replies {
		if x == "ok" {
			sb.WriteByte('O')
		} else {
			sb.WriteByte('E')
		}
	}
	for sb.Len() < n {
		sb.WriteByte('P')
	}
	k := fmt.Sprintf("%d/%d/%d/%s/%s", n, closeIdx, r.FiredCall, r.FiredOp, sb.String())
	if sh, ok := s.m[k]; ok {
		sh.Count++
		return
	}
	s.m[k] = &shape{N: n, CloseIdx: closeIdx, F: r.FiredCall, Op: r.FiredOp, Replies: sb.String(), Count: 1, Sample: sample}
}

func (s *shapeSet) list() []*shape {
	ks := make([]string, 0, len(s.m))
	for k := range s.m {
		ks = append(ks, k)
	}
	sort.Strings(ks)
	out := make([]*shape, 0, len(ks))
	for _, k := range ks {
		out = append(out, s.m[k])
	}
	return out
}

func symToByte(s string) byte {
	switch s {
	case "Z":
		return 0
	case "A":
		return 0x41
	case "B":
		return 0x42
	}
	panic("bad symbol " + s)
}

func bytesToSyms(b []byte) []string {
	out := make([]string, len(b))
	for i, c := range b {
		switch c {
		case 0:
			out[i] = "Z"
		case 0x41:
			out[i] = "A"
		case 0x42:
			out[i] = "B"
		default:
			out[i] = "?"
		}
	}
	return out
}

func contains(xs []string, x string) bool {
	for _, y := range xs {
		if y == x {
			return true
		}
	}
	return false
}

func chunksOfTrace(tr *wTrace) (chunks []pchunk, ok bool) {
	// leaves of the walk that starts at the root the file is read from: the
	// start candidate's walk if there is one, else the end candidate's.  (TLC
	// re-decides the root; a disagreement rejects the trace.)
	root := 0
	for _, c := range tr.Cands {
		if c.Walk != 0 {
			root = c.Walk
			break
		}
	}
	ok = true
	chunks = []pchunk{}
	for _, l := range tr.Leaves {
		if l.Root != root {
			continue
		}
		if !l.Decodable || !l.DecodeOK {
			ok = false
			continue
		}
		chunks = append(chunks, pchunk{D: l.DHi - l.DLo, X: bytesToSyms(l.explicit)})
	}
	return chunks, ok
}

func samePChunks(a, b []pchunk) bool {
	if len(a) != len(b) {
		return false
	}
	for i := range a {
		if a[i].D != b[i].D || strings.Join(a[i].X, "") != strings.Join(b[i].X, "") {
			return false
		}
	}
	return true
}

func cfgForScript(c cfgSpec, s script) (runCfg, bool) {
	rc := c.runCfg
	if len(c.Kinds) > 0 && !contains(c.Kinds, s.Kind) {
		return rc, false
	}
	if rc.Codec == "model" {
		rc.Kind, rc.Cuts = s.Codec, s.Cuts
		if s.Kind == "D" {
			rc.DChunk = uint64(s.N)
		} else {
			rc.CChunk = uint64(s.N)
			if rc.Res > 0 {
				rc.CChunk += 4 // room for the resource trailer
			}
		}
		return rc, true
	}
	if s.Kind == "D" {
		rc.DChunk = uint64(s.N)
		return rc, true
	}
	if rc.Codec != "zlib" {
		return rc, false // only zlib can cut
	}
	rc.CChunk = uint64(c.CBase + s.N)
	return rc, true
}

func modeScripts(in string, out string, verbose bool) {
	var inp struct {
		Scripts []script  `json:"scripts"`
		Cfgs    []cfgSpec `json:"cfgs"`
	}
	b, err := os.ReadFile(in)
	if err != nil {
		panic(err)
	}
	if err := json.Unmarshal(b, &inp); err != nil {
		panic(err)
	}
	ts := &traceSet{idx: map[string]int{}}
	ss := &shapeSet{m: map[string]*shape{}}
	rows := []rowOut{}
	rowIdx := map[string]int{}
	runs := 0
	predOK, predTotal := make([]int, len(inp.Cfgs)), make([]int, len(inp.Cfgs))
	faultRuns, faultFired := 0, 0
	opKinds := map[string]int{}

	type job struct{ ci, si int }
	type jobOut struct {
		row     rowOut
		tr      *wTrace
		all     []byte
		faults  []runResult
		ncalls  int
		literal *literal
	}
	var jobs []job
	for ci, c := range inp.Cfgs {
		for si, s := range inp.Scripts {
			if c.Every > 1 && s.Sid%c.Every != c.Offset {
				continue
			}
			if _, ok := cfgForScript(c, s); !ok {
				continue
			}
			jobs = append(jobs, job{ci, si})
		}
	}
	literals := []literal{}
	const batch = 20000 // bounds the memory held between the parallel phase and the (deterministic, sequential) merge
	for b0 := 0; b0 < len(jobs); b0 += batch {
		b1 := b0 + batch
		if b1 > len(jobs) {
			b1 = len(jobs)
		}
		jobs := jobs[b0:b1]
		outs := make([]jobOut, len(jobs))
		parallel(len(jobs), func(ji int) {
			ci, s := jobs[ji].ci, inp.Scripts[jobs[ji].si]
			c := inp.Cfgs[ci]
			rc, _ := cfgForScript(c, s)
			calls := make([][]byte, len(s.Calls))
			var all []byte
			for i, cl := range s.Calls {
				calls[i] = make([]byte, len(cl))
				for j, sym := range cl {
					calls[i][j] = symToByte(sym)
				}
				all = append(all, calls[i]...)
			}
			resources := resourcesFor(rc, all)
			r := runWriter(rc, calls, resources, 0)
			row := rowOut{Sid: s.Sid, Cfg: ci + 1, Replies: r.Replies, Panic: r.Panic, CutDev: r.CutDev, Ops: r.Ops,
				Chunks: []pchunk{}, Readback: []string{}}
			if r.Replies == nil {
				row.Replies = []string{}
			}
			o := &outs[ji]
			closeOK := len(r.Replies) > len(calls) && r.Replies[len(calls)] == "ok"
			if closeOK {
				o.tr = walkFile(r.File)
				row.Chunks, row.HasChunks = chunksOfTrace(o.tr)
				rb, err := readBack(r.File, resources, rc)
				row.ReadOK = err == nil
				if err != nil {
					row.ReadErr = err.Error()
				}
				row.Readback = bytesToSyms(rb)
				row.PredMatch = row.HasChunks && samePChunks(row.Chunks, s.PChunks)
			}
			if verbose {
				row.Errs = r.Errs
				row.FileHex = hex.EncodeToString(r.File)
			}
			row.NCalls, row.Construct = len(calls), s.Construct
			row.Class = fmt.Sprintf("%s/%s/%s/res%d", s.Kind, rc.Codec, rc.Guise, btoi(rc.Res > 0))
			row.Count, row.Samples = 1, [][2]int{{s.Sid, ci + 1}}
			o.row, o.all, o.ncalls = row, all, len(calls)
			if c.Faults && s.FaultAt > 0 {
				fr := runWriter(rc, calls, resources, s.FaultAt)
				fr.File = nil
				o.faults = append(o.faults, fr)
				o.literal = &literal{Sid: s.Sid, K: s.FaultAt, F: fr.FiredCall, Replies: compact(fr.Replies, len(calls)+2)}
			} else if c.Faults {
				for k := 1; k <= r.Ops; k++ {
					fr := runWriter(rc, calls, resources, k)
					fr.File = nil
					o.faults = append(o.faults, fr)
				}
			}
		})
		for ji := range outs {
			if outs[ji].literal != nil {
				literals = append(literals, *outs[ji].literal)
			}
		}
		for ji := range outs {
			o := &outs[ji]
			row, ci := o.row, jobs[ji].ci
			if o.tr != nil {
				row.Trace = ts.add(o.tr, [2]int{row.Sid, ci + 1})
			}
			predTotal[ci]++
			if row.PredMatch {
				predOK[ci]++
			}
			if verbose {
				rows = append(rows, row)
			} else {
				kb, _ := json.Marshal([]interface{}{o.all, row.NCalls, row.Replies, row.Panic, row.HasChunks, row.Chunks, row.ReadOK,
					row.Readback, row.Trace == 0, row.Construct, row.Class, row.ReadErr != ""})
				if i, ok := rowIdx[string(kb)]; ok {
					rows[i].Count++
					if len(rows[i].Samples) < 4 {
						rows[i].Samples = append(rows[i].Samples, [2]int{row.Sid, ci + 1})
					}
				} else {
					rowIdx[string(kb)] = len(rows)
					rows = append(rows, row)
				}
			}
			runs++
			for k, fr := range o.faults {
				faultRuns++
				if fr.FiredCall != 0 {
					faultFired++
					opKinds[fr.FiredOp]++
				}
				ss.add(o.ncalls+2, o.ncalls+1, fr, fmt.Sprintf("sid=%d cfg=%d k=%d", row.Sid, ci+1, k+1))
			}
		}
	} // batches
	writeOut(out, map[string]interface{}{
		"rows": rows, "traces": ts.traces, "tracesamples": ts.samples, "shapes": ss.list(), "literals": literals,
		"stats": map[string]interface{}{"fault_runs": faultRuns, "fault_fired": faultFired, "fault_ops": opKinds, "rows": len(rows),
			"runs": runs, "traces": len(ts.traces), "pred_ok": predOK, "pred_total": predTotal},
	})
}

// parallel runs f(0..n-1) on a pool of goroutines.
func parallel(n int, f func(i int)) {
	workers := runtime.NumCPU()
	if workers > 12 {
		workers = 12
	}
	var wg sync.WaitGroup
	next := int64(-1)
	for w := 0; w < workers; w++ {
		wg.Add(1)
		go func() {
			defer wg.Done()
			for {
				i := int(atomic.AddInt64(&next, 1))
				if i >= n {
					return
				}
				f(i)
			}
		}()
	}
	wg.Wait()
}

func btoi(b bool) int {
	if b {
		return 1
	}
	return 0
}

func writeOut(path string, v interface{}) {
	b, err := json.Marshal(v)
	if err != nil {
		panic(err)
	}
	if path == "" || path == "-" {
		os.Stdout.Write(b)
		return
	}
	if err := os.WriteFile(path, b, 0o644); err != nil {
		panic(err)
	}
}

// ------------------------------------------------------------------ real data

type realJob struct {
	runCfg
	Name     string  `json:"name"`
	Seed     int64   `json:"seed"`
	Len      int     `json:"len"`
	Zero     float64 `json:"zero"`     // approximate fraction of zero bytes
	MaxWrite int     `json:"maxwrite"` // Write call sizes are uniform in 1..maxwrite (0: one Write)
	Faults   int     `json:"faults"`   // 0 none, -1 every fault point, n>0: n seeded fault points
	Avoid    bool    `json:"avoid"`    // move every Write boundary forward to the next non-zero byte
	Data     string  `json:"data"`     // hex: explicit payload (witness files); overrides the generator
	Sizes    []int   `json:"sizes"`    // explicit Write sizes
}

type realRow struct {
	Job       int     `json:"job"`
	Name      string  `json:"name"`
	NCalls    int     `json:"ncalls"`
	Replies   string  `json:"replies"` // first error position etc. are in here: O/E per call
	AllOK     bool    `json:"allok"`
	Panic     string  `json:"panic"`
	OrigLen   int     `json:"origlen"`
	OrigSha   string  `json:"origsha"`
	ReadOK    bool    `json:"readok"`
	ReadErr   string  `json:"readerr"`
	ReadLen   int     `json:"readlen"`
	ReadSha   string  `json:"readsha"`
	FirstDiff int     `json:"firstdiff"`
	Trace     int     `json:"trace"`
	NChunks   int     `json:"nchunks"`
	CSize     int     `json:"csize"`
	Ops       int     `json:"ops"`
	ShiftedOK bool    `json:"shiftedok"` // only meaningful when the round trip failed: it succeeds once no Write starts with a zero byte
	ShiftRun  bool    `json:"shiftrun"`
	FirstErr  string  `json:"firsterr"`
	ZeroFrac  float64 `json:"zerofrac"`
	ResUsed   int     `json:"resused"`
}

func genPayload(rng *rand.Rand, n int, zero float64) []byte {
	words := []string{"the ", "random ", "access ", "compression ", "chunk ", "index ", "wuffs ", "zero ", "\n", "0123456789"}
	out := make([]byte, 0, n)
	for len(out) < n {
		x := rng.Float64()
		switch {
		case x < zero*0.6:
			// long run of zeroes
			l := 1 + int(rng.ExpFloat64()*600)
			out = append(out, make([]byte, l)...)
		case x < zero:
			// sparse: mostly zero, isolated non-zero bytes
			l := 1 + rng.Intn(400)
			for i := 0; i < l; i++ {
				if rng.Intn(12) == 0 {
					out = append(out, byte(1+rng.Intn(255)))
				} else {
					out = append(out, 0)
				}
			}
		case x < zero+(1-zero)*0.5:
			l := 1 + rng.Intn(60)
			for i := 0; i < l; i++ {
				out = append(out, words[rng.Intn(len(words))]...)
			}
		default:
			l := 1 + rng.Intn(300)
			for i := 0; i < l; i++ {
				out = append(out, byte(rng.Intn(256)))
			}
		}
	}
	return out[:n]
}

func partition(rng *rand.Rand, data []byte, maxWrite int, avoid bool) [][]byte {
	if maxWrite <= 0 {
		return [][]byte{data}
	}
	var calls [][]byte
	for i := 0; i < len(data); {
		l := 1 + rng.Intn(maxWrite)
		if rng.Intn(50) == 0 {
			l = 0 // an empty Write now and then
		}
		j := i + l
		if j > len(data) {
			j = len(data)
		}
		if avoid {
			for j < len(data) && data[j] == 0 {
				j++
			}
		}
		calls = append(calls, data[i:j])
		i = j
	}
	return calls
}

func shaHex(b []byte) string {
	h := sha256.Sum256(b)
	return hex.EncodeToString(h[:8])
}

func compact(replies []string, n int) string {
	var sb strings.Builder
	for _, x := range replies {
		if x == "ok" {
			sb.WriteByte('O')
		} else {
			sb.WriteByte('E')
		}
	}
	for sb.Len() < n {
		sb.WriteByte('P')
	}
	return sb.String()
}

func roundTrip(rc runCfg, calls [][]byte, data []byte, resources [][]byte, row *realRow) (runResult, *wTrace) {
	var trOut *wTrace
	r := runWriter(rc, calls, resources, 0)
	n := len(calls) + 2
	row.NCalls, row.Replies, row.Panic, row.Ops = n, compact(r.Replies, n), r.Panic, r.Ops
	row.AllOK = r.Panic == "" && !strings.ContainsAny(row.Replies[:n-1], "EP")
	for _, e := range r.Errs {
		if e != "" && row.FirstErr == "" {
			row.FirstErr = e
		}
	}
	row.OrigLen, row.OrigSha = len(data), shaHex(data)
	row.FirstDiff = -1
	row.CSize = len(r.File)
	if len(r.Replies) >= n-1 && r.Replies[n-2] == "ok" {
		tr := walkFile(r.File)
		trOut = tr
		root := 0
		for _, c := range tr.Cands {
			if c.Walk != 0 {
				root = c.Walk
				break
			}
		}
		for _, l := range tr.Leaves {
			if l.Root == root {
				row.NChunks++
				if l.SecDict.Present {
					row.ResUsed++
				}
			}
		}
		rb, err := readBack(r.File, resources, rc)
		row.ReadOK = err == nil
		if err != nil {
			row.ReadErr = err.Error()
		}
		row.ReadLen, row.ReadSha = len(rb), shaHex(rb)
		for i := 0; i < len(rb) && i < len(data); i++ {
			if rb[i] != data[i] {
				row.FirstDiff = i
				break
			}
		}
		if row.FirstDiff < 0 && len(rb) != len(data) {
			row.FirstDiff = min(len(rb), len(data))
		}
	}
	return r, trOut
}

func modeReal(in string, out string) {
	var inp struct {
		Jobs []realJob `json:"jobs"`
	}
	b, err := os.ReadFile(in)
	if err != nil {
		panic(err)
	}
	if err := json.Unmarshal(b, &inp); err != nil {
		panic(err)
	}
	ts := &traceSet{idx: map[string]int{}}
	ss := &shapeSet{m: map[string]*shape{}}
	rows := []realRow{}
	faultRuns, faultFired := 0, 0
	opKinds := map[string]int{}

	type prep struct {
		row       realRow
		tr        *wTrace
		calls     [][]byte
		resources [][]byte
		ks        []int
	}
	preps := make([]prep, len(inp.Jobs))
	parallel(len(inp.Jobs), func(ji int) {
		j := inp.Jobs[ji]
		rng := rand.New(rand.NewSource(j.Seed))
		var data []byte
		if j.Data != "" {
			var err error
			data, err = hex.DecodeString(j.Data)
			if err != nil {
				panic(err)
			}
		} else {
			data = genPayload(rng, j.Len, j.Zero)
		}
		var calls [][]byte
		if len(j.Sizes) > 0 {
			i := 0
			for _, s := range j.Sizes {
				calls = append(calls, data[i:i+s])
				i += s
			}
			if i != len(data) {
				panic("sizes do not add up")
			}
		} else {
			calls = partition(rng, data, j.MaxWrite, j.Avoid)
		}
		resources := resourcesFor(j.runCfg, data)
		row := realRow{Job: ji + 1, Name: j.Name}
		nz := 0
		for _, c := range data {
			if c == 0 {
				nz++
			}
		}
		if len(data) > 0 {
			row.ZeroFrac = float64(nz) / float64(len(data))
		}
		r, tr := roundTrip(j.runCfg, calls, data, resources, &row)
		if row.AllOK && (!row.ReadOK || row.ReadSha != row.OrigSha) && j.CChunk > 0 && j.DChunk == 0 && len(calls) > 1 {
			// differential classification against the known construct: the
			// same payload, every Write boundary moved forward to the next
			// non-zero byte
			var shifted [][]byte
			i, orig := 0, 0
			for _, c := range calls {
				orig += len(c)
				jx := orig
				if jx < i {
					jx = i
				}
				for jx < len(data) && data[jx] == 0 {
					jx++
				}
				shifted = append(shifted, data[i:jx])
				i = jx
			}
			if i < len(data) {
				shifted = append(shifted, data[i:])
			}
			var row2 realRow
			roundTrip(j.runCfg, shifted, data, resources, &row2)
			row.ShiftRun = true
			row.ShiftedOK = row2.AllOK && row2.ReadOK && row2.ReadSha == row2.OrigSha
		}
		ks := []int{}
		if j.Faults != 0 && r.Ops > 0 {
			if j.Faults < 0 || j.Faults >= r.Ops {
				for k := 1; k <= r.Ops; k++ {
					ks = append(ks, k)
				}
			} else {
				seen := map[int]bool{}
				for len(ks) < j.Faults {
					k := 1 + rng.Intn(r.Ops)
					if !seen[k] {
						seen[k] = true
						ks = append(ks, k)
					}
				}
				// always the first and the last few calls
				for _, k := range []int{1, 2, r.Ops - 1, r.Ops} {
					if k >= 1 && k <= r.Ops && !seen[k] {
						seen[k] = true
						ks = append(ks, k)
					}
				}
			}
		}
		preps[ji] = prep{row, tr, calls, resources, ks}
	})
	type fjob struct{ ji, k int }
	var fjobs []fjob
	for ji, p := range preps {
		for _, k := range p.ks {
			fjobs = append(fjobs, fjob{ji, k})
		}
	}
	fres := make([]runResult, len(fjobs))
	parallel(len(fjobs), func(i int) {
		p := &preps[fjobs[i].ji]
		fr := runWriter(inp.Jobs[fjobs[i].ji].runCfg, p.calls, p.resources, fjobs[i].k)
		fr.File = nil
		fres[i] = fr
	})
	for _, p := range preps {
		row := p.row
		if p.tr != nil {
			row.Trace = ts.add(p.tr, [2]int{row.Job, 0})
		}
		rows = append(rows, row)
	}
	for i, fj := range fjobs {
		fr := fres[i]
		faultRuns++
		if fr.FiredCall != 0 {
			faultFired++
			opKinds[fr.FiredOp]++
		}
		n := len(preps[fj.ji].calls)
		ss.add(n+2, n+1, fr, fmt.Sprintf("job=%d(%s) k=%d", fj.ji+1, inp.Jobs[fj.ji].Name, fj.k))
	}
	writeOut(out, map[string]interface{}{
		"rows": rows, "traces": ts.traces, "tracesamples": ts.samples, "shapes": ss.list(),
		"stats": map[string]interface{}{"fault_runs": faultRuns, "fault_fired": faultFired, "fault_ops": opKinds, "rows": len(rows), "traces": len(ts.traces)},
	})
}

func main() {
	mode := flag.String("mode", "scripts", "scripts | real | walk")
	in := flag.String("in", "", "input JSON")
	out := flag.String("out", "-", "output JSON")
	verbose := flag.Bool("v", false, "include error strings and the file (hex) in every row")
	tmp := flag.String("tmpdir", "", "directory for real temp files")
	prof := flag.String("cpuprofile", "", "write a CPU profile")
	flag.Parse()
	if *prof != "" {
		f, err := os.Create(*prof)
		if err != nil {
			panic(err)
		}
		pprof.StartCPUProfile(f)
		defer pprof.StopCPUProfile()
	}
	if *tmp != "" {
		tmpDir = *tmp
	}
	debug.SetGCPercent(400)
	switch *mode {
	case "scripts":
		modeScripts(*in, *out, *verbose)
	case "real":
		modeReal(*in, *out)
	case "walk":
		// walk a RAC file given as hex on stdin or as a file: prints the trace
		b, err := os.ReadFile(*in)
		if err != nil {
			panic(err)
		}
		if bytes.HasPrefix(bytes.TrimSpace(b), []byte("hex:")) {
			b, err = hex.DecodeString(strings.TrimSpace(strings.TrimPrefix(strings.TrimSpace(string(b)), "hex:")))
			if err != nil {
				panic(err)
			}
		}
		ts := &traceSet{idx: map[string]int{}}
		ts.add(walkFile(b), [2]int{0, 0})
		writeOut(*out, map[string]interface{}{"traces": ts.traces})
	default:
		fmt.Fprintln(os.Stderr, "unknown mode")
		os.Exit(2)
	}
}

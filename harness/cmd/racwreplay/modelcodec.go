package main

// A transparent model codec for rac.Writer / rac.Reader (C13).
//
// It is a legitimate rac.CodecWriter + rac.CodecReader pair (a "Long Codec"
// in the sense of doc/spec/rac-spec.md, identified by the 7 bytes "vmodel\0")
// whose compressed form is cheap, cuttable at every symbol boundary and whose
// size is the simple monotone function that spec/RacWriter.tla calls CSize:
//
//   kind "stored":  every byte costs one byte, plus a one-byte end marker
//                   CSize(s) = Len(s) + 1
//   kind "rle":     every non-zero byte costs one byte, every maximal run of
//                   zeroes costs two bytes, plus a one-byte end marker
//                   CSize(s) = 1 + #nonzero(s) + 2 * #zero-runs(s)
//
// (bytes >= 0xFD are escaped and cost two bytes; the scripts never use them.)
//
// Token stream:
//   0x00            end of data (followed, only when the chunk refers to
//                   shared resources, by the four bytes [sec+1, ter+1] as
//                   two little-endian uint16)
//   0x01 n          "rle" only: a run of n (1..255) zero bytes
//   0xFF b          the byte b (escape)
//   t in 0x02..0xFE the byte t-2      ("stored": zero is 0x02)
//
// Cut follows the script: the next entry of `cuts` says how many decoded bytes
// to keep (RacWriter.tla: "Cut returns any prefix on a symbol boundary"); an
// infeasible or missing entry falls back to the longest prefix that fits.

import (
	"bytes"
	"errors"
	"fmt"
	"hash/crc32"
	"io"

	"github.com/google/wuffs/lib/rac"
)

// modelCodec is the Long Codec "vmodel\0".  In its "short" guise the model
// codec presents itself under the Short Codec byte 0x02 instead (the RAC
// specification leaves the contents of "RAC + LZ4" chunks open: "TODO"), so
// that the Short Codec paths of the chunk writer can be driven with tiny
// chunk sizes and shared resources too.
var modelCodec rac.Codec

const modelCodecShort = rac.CodecLZ4

func init() {
	// 7 bytes "vmodel\x00", little-endian, high byte 0x80.
	id := []byte("vmodel\x00")
	v := uint64(0x80) << 56
	for i := 0; i < 7; i++ {
		v |= uint64(id[i]) << (8 * uint(i))
	}
	modelCodec = rac.Codec(v)
}

type modelWriter struct {
	short    bool   // present as Short Codec 0x02
	kind     string // "stored" or "rle"
	cuts     []int  // scripted decoded lengths for successive Cut calls
	cutIdx   int
	cutDev   int // number of Cut calls that could not follow the script
	nCompr   int
	nCut     int
	resPlan  string // "", "rot": which resources Compress claims to use
	buf      []byte
	cutTrace []int
}

func (w *modelWriter) Close() error { return nil }
func (w *modelWriter) Clone() rac.CodecWriter {
	return &modelWriter{kind: w.kind, resPlan: w.resPlan, short: w.short}
}

func (w *modelWriter) codec() rac.Codec {
	if w.short {
		return modelCodecShort
	}
	return modelCodec
}
func (w *modelWriter) CanCut() bool { return true }

func appendToken(dst []byte, b byte) []byte {
	if b >= 0xFD {
		return append(dst, 0xFF, b)
	}
	return append(dst, b+2)
}

func (w *modelWriter) encode(dst []byte, src []byte) []byte {
	for i := 0; i < len(src); {
		if w.kind == "rle" && src[i] == 0 {
			j := i
			for j < len(src) && src[j] == 0 && j-i < 255 {
				j++
			}
			dst = append(dst, 0x01, byte(j-i))
			i = j
			continue
		}
		dst = appendToken(dst, src[i])
		i++
	}
	return dst
}

func (w *modelWriter) Compress(p []byte, q []byte, resourcesData [][]byte) (
	rac.Codec, []byte, int, int, error) {
	w.nCompr++
	src := make([]byte, 0, len(p)+len(q))
	src = append(src, p...)
	src = append(src, q...)
	w.buf = w.encode(w.buf[:0], src)
	w.buf = append(w.buf, 0x00)
	sec, ter := rac.NoResourceUsed, rac.NoResourceUsed
	if w.resPlan == "rot" && len(resourcesData) > 0 {
		r := len(resourcesData) + 1
		sec = (w.nCompr % r) - 1
		ter = ((w.nCompr*7 + 3) % r) - 1
		if sec >= 0 || ter >= 0 {
			w.buf = append(w.buf, byte(sec+1), byte((sec+1)>>8), byte(ter+1), byte((ter+1)>>8))
		}
	}
	return w.codec(), w.buf, sec, ter, nil
}

// decodeModel decodes tokens; it returns the decoded bytes, the number of
// encoded bytes consumed up to and including the end marker, and for every
// decoded byte the encoded offset of the token that produced it.
func decodeModel(enc []byte) (dec []byte, consumed int, err error) {
	i := 0
	for {
		if i >= len(enc) {
			return dec, i, io.ErrUnexpectedEOF
		}
		t := enc[i]
		switch {
		case t == 0x00:
			return dec, i + 1, nil
		case t == 0x01:
			if i+1 >= len(enc) || enc[i+1] == 0 {
				return dec, i, errors.New("modelcodec: bad zero run")
			}
			for k := 0; k < int(enc[i+1]); k++ {
				dec = append(dec, 0)
			}
			i += 2
		case t == 0xFF:
			if i+1 >= len(enc) {
				return dec, i, io.ErrUnexpectedEOF
			}
			dec = append(dec, enc[i+1])
			i += 2
		default:
			dec = append(dec, t-2)
			i++
		}
	}
}

func (w *modelWriter) encodedSize(src []byte) int {
	return len(w.encode(nil, src)) + 1
}

func (w *modelWriter) Cut(codec rac.Codec, encoded []byte, maxEncodedLen int) (int, int, error) {
	w.nCut++
	if codec != w.codec() {
		return 0, 0, errors.New("modelcodec: invalid codec")
	}
	dec, consumed, err := decodeModel(encoded)
	if err != nil {
		return 0, 0, err
	}
	trailer := encoded[consumed:]
	// longest prefix that fits
	best := -1
	for n := len(dec); n >= 0; n-- {
		if w.encodedSize(dec[:n])+len(trailer) <= maxEncodedLen {
			best = n
			break
		}
	}
	if best < 0 {
		return 0, 0, errors.New("modelcodec: maxEncodedLen is too small")
	}
	n := best
	if w.cutIdx < len(w.cuts) {
		want := w.cuts[w.cutIdx]
		w.cutIdx++
		if want >= 0 && want <= best {
			n = want
		} else {
			w.cutDev++
		}
	}
	w.cutTrace = append(w.cutTrace, n)
	out := w.encode(nil, dec[:n])
	out = append(out, 0x00)
	out = append(out, trailer...)
	if len(out) > maxEncodedLen || len(out) > len(encoded) {
		return 0, 0, fmt.Errorf("modelcodec: internal: cut grew (%d > %d/%d)", len(out), maxEncodedLen, len(encoded))
	}
	copy(encoded, out)
	return len(out), n, nil
}

func wrapDict(raw []byte) []byte {
	wrapped := make([]byte, len(raw)+8)
	wrapped[0] = uint8(len(raw) >> 0)
	wrapped[1] = uint8(len(raw) >> 8)
	wrapped[2] = uint8(len(raw) >> 16)
	wrapped[3] = uint8(len(raw) >> 24)
	copy(wrapped[4:], raw)
	c := crc32.ChecksumIEEE(raw)
	wrapped[len(wrapped)-4] = uint8(c >> 0)
	wrapped[len(wrapped)-3] = uint8(c >> 8)
	wrapped[len(wrapped)-2] = uint8(c >> 16)
	wrapped[len(wrapped)-1] = uint8(c >> 24)
	return wrapped
}

func (w *modelWriter) WrapResource(raw []byte) ([]byte, error) { return wrapDict(raw), nil }

// ---------------------------------------------------------------- reader

type modelReader struct {
	short     bool
	resources [][]byte // the Writer's ResourcesData, to check that tags lead to the right bytes
}

func (r *modelReader) Close() error { return nil }
func (r *modelReader) Accepts(c rac.Codec) bool {
	return c == modelCodec || (r.short && c == modelCodecShort)
}
func (r *modelReader) Clone() rac.CodecReader {
	return &modelReader{resources: r.resources, short: r.short}
}

func readRange(rs io.ReadSeeker, rg rac.Range) ([]byte, error) {
	if rg[0] < 0 || rg.Size() < 0 || rg.Size() > 1<<28 {
		return nil, fmt.Errorf("modelcodec: unusable CRange %v", rg)
	}
	if _, err := rs.Seek(rg[0], io.SeekStart); err != nil {
		return nil, err
	}
	b := make([]byte, rg.Size())
	if _, err := io.ReadFull(rs, b); err != nil {
		return nil, err
	}
	return b, nil
}

func (r *modelReader) MakeDecompressor(racFile io.ReadSeeker, chunk rac.Chunk) (io.Reader, error) {
	prim, err := readRange(racFile, chunk.CPrimary)
	if err != nil {
		return nil, err
	}
	dec, consumed, err := decodeModel(prim)
	if err != nil {
		return nil, fmt.Errorf("modelcodec: chunk at C%v: %v", chunk.CPrimary, err)
	}
	wantSec, wantTer := 0, 0
	if !chunk.CSecondary.Empty() || !chunk.CTertiary.Empty() {
		if consumed+4 > len(prim) {
			return nil, errors.New("modelcodec: chunk refers to resources but has no trailer")
		}
		wantSec = int(prim[consumed]) | int(prim[consumed+1])<<8
		wantTer = int(prim[consumed+2]) | int(prim[consumed+3])<<8
	}
	for _, x := range []struct {
		rg   rac.Range
		want int
		name string
	}{{chunk.CSecondary, wantSec, "secondary"}, {chunk.CTertiary, wantTer, "tertiary"}} {
		if x.rg.Empty() != (x.want == 0) {
			return nil, fmt.Errorf("modelcodec: %s range %v but the chunk was compressed with resource #%d", x.name, x.rg, x.want-1)
		}
		if x.want == 0 {
			continue
		}
		if x.want-1 >= len(r.resources) {
			return nil, fmt.Errorf("modelcodec: bad resource index %d", x.want-1)
		}
		got, err := readRange(racFile, x.rg)
		if err != nil {
			return nil, err
		}
		want := wrapDict(r.resources[x.want-1])
		if len(got) < len(want) || !bytes.Equal(got[:len(want)], want) {
			return nil, fmt.Errorf("modelcodec: %s range %v does not hold resource #%d", x.name, x.rg, x.want-1)
		}
	}
	return bytes.NewReader(dec), nil
}
